"""C16: evaluation metrics are perfect for perfect predictions, bounded and monotone.

design checks : MC_EvalVoc    theorems of the implementation-shaped VOC / PCK arithmetic (AP, AR non-increasing in
                              the match threshold, ratios in [0,1], perfect fixed point, PCK monotone)
                MC_EvalDelete "deleting predictions never increases recall" - REFUTED on the implementation-shaped
                              model (expected violation), and the theorem that every increase has the
                              out-ranking pattern
spec -> code   : TLC's counterexample is realised as a label pair and run through the real Evaluator;
                 systematic families (all match-level patterns x all detection-score orders; all deletions)
code -> spec   : seeded random label pairs through Evaluator(gt, pr).evaluate(); every returned dict is
                 projected to integers and judged by Judge_C16 (Eval.tla recomputes the arithmetic from the
                 observed positive pairs in exact rationals and checks the property's clauses)
"""
import copy
import itertools
import random
import re

from harness import eval_util as U
from harness.evidence import Result
from harness.tlc import TLCError, check_model, judge

MC_BASE = "INIT Init\nNEXT Next\nCHECK_DEADLOCK FALSE\n"
VOC_INV = "INVARIANTS VocTheoremsHold PckMonotoneAndBounded PckPerfect\n"

# a fixed 3-node gt pose (quarter pixels): bounding box 20 x 20 px = 400 px^2; with stddev 0.025 a
# uniform shift of d px gives OKS = exp(-d^2 / 2)
TRI = [[40, 40], [120, 40], [80, 120]]
# OKS level -> lattice shifts (one per prediction index so that no two predictions tie exactly)
LEVEL_SHIFTS = {
    "one": [(0, 0), (0, 0), (0, 0)],
    3: [(2, 0), (0, 2), (2, 1)],          # OKS ~ 0.88 / 0.86
    2: [(4, 0), (0, 4), (4, 1)],          # OKS ~ 0.61 / 0.59
    1: [(6, 0), (0, 6), (6, 1)],          # OKS ~ 0.32 / 0.31
    0: [(1600, 0), (0, 1600), (1600, 40)],  # OKS = 0 exactly (exp underflow): never matched at threshold 0
}


def shifted(pose, d):
    return [[nd[0] + d[0], nd[1] + d[1]] if nd else [] for nd in pose]


def new_case(frames, n_nodes, opts=None, tag=""):
    return dict(kind="eval", N=n_nodes, frames=frames, opts=opts or {}, tag=tag)


# ------------------------------------------------------------------ families -------------------
def level_family(n_frames_max, rng, sample_last=None):
    """n frames with one gt (TRI) each; per frame one prediction at a chosen OKS level, or none;
    all level patterns x all detection-score orders."""
    levels = ["one", 3, 2, 1, 0, "absent"]
    out = []
    for n in range(1, n_frames_max + 1):
        combos = list(itertools.product(levels, repeat=n))
        perms = list(itertools.permutations(range(1, n + 1)))
        allc = [(c, p) for c in combos for p in perms]
        if sample_last is not None and n == n_frames_max and len(allc) > sample_last:
            allc = rng.sample(allc, sample_last)
        for combo, perm in allc:
            frames = []
            for f, lv in enumerate(combo):
                if lv == "absent":
                    frames.append(dict(gt=[TRI], pr=[], sc=[], haspr=True))
                else:
                    frames.append(dict(gt=[TRI], pr=[shifted(TRI, LEVEL_SHIFTS[lv][f % 3])], sc=[perm[f] * 8], haspr=True))
            out.append(new_case(frames, 3, tag="levels"))
    return out


def large_family(rng, quick):
    """Many ground-truth instances (label files are not toy-sized): n frames x g animals, every prediction perfect, or
    all but one.  Totals include integers n for which n * (1/n) != 1 in floating point (49, 98, 103, 107, 161, ...)."""
    out = []
    totals = [49, 98, 103, 107, 161, 64, 100] if quick else [49, 98, 103, 107, 161, 187, 196, 197, 64, 100, 128, 150]
    for n in totals:
        for per in ((1,) if quick else (1, 7)):
            if n % per:
                continue
            for miss in (False, True):
                frames = []
                for f in range(n // per):
                    gts = [shifted(TRI, (320 * a, 0)) for a in range(per)]
                    prs = [shifted(g, (0, 0)) for g in gts]
                    frames.append(dict(gt=gts, pr=prs, sc=[(f * per + a + 1) * 2 for a in range(per)], haspr=True))
                if miss:
                    k = rng.randrange(len(frames))
                    frames[k] = dict(frames[k], pr=frames[k]["pr"][1:], sc=frames[k]["sc"][1:])
                out.append(new_case(frames, 3, tag="large"))
    return out


def tie_family(rng, count):
    """10 or 20 one-animal frames: recalls tp/npig hit the recall thresholds k/100 exactly, including the
    k where numpy's linspace value lies above k/100 (35, 41, 47, 57, 69, 70, 82, 83, 94, 95)."""
    out = []
    for _ in range(count):
        npig = rng.choice([10, 20, 20])
        perm = list(range(1, npig + 1))
        rng.shuffle(perm)
        frames = []
        for f in range(npig):
            lv = rng.choice(["one", 3, 3, 2, 2, 1, 0, "absent"])
            if lv == "absent":
                frames.append(dict(gt=[TRI], pr=[], sc=[], haspr=True))
            else:
                frames.append(dict(gt=[TRI], pr=[shifted(TRI, LEVEL_SHIFTS[lv][f % 3])], sc=[perm[f] * 4], haspr=True))
        out.append(new_case(frames, 3, tag="recall-ties"))
    return out


def delete_case(base, keep, drop_empty):
    """base: eval case (not yet observed).  keep: per frame list of kept 1-based prediction indices."""
    red = copy.deepcopy(dict(kind="eval", N=base["N"], frames=[dict(gt=f["gt"], pr=f["pr"], sc=f["sc"], haspr=f["haspr"]) for f in base["frames"]],
                             opts=base["opts"], tag="reduced"))
    for f, fr in enumerate(red["frames"]):
        fr["pr"] = [fr["pr"][k - 1] for k in keep[f]]
        fr["sc"] = [fr["sc"][k - 1] for k in keep[f]]
        if drop_empty and fr["haspr"] and not fr["pr"]:
            fr["haspr"] = False
    if not any(fr["gt"] and fr["haspr"] for fr in red["frames"]):  # keep at least one paired frame (Evaluator refuses otherwise)
        for fr, fb in zip(red["frames"], base["frames"]):
            fr["haspr"] = fb["haspr"]
    return dict(kind="del", base=base, red=red, keep=keep, drop_empty=drop_empty)


def one_frame_delete_family(P, rng, sample=None):
    """one gt, P predictions at levels 0..3, all score orders, every proper subset deleted."""
    out = []
    allc = [(lv, perm) for lv in itertools.product([0, 1, 2, 3], repeat=P) for perm in itertools.permutations(range(1, P + 1))]
    if sample is not None and len(allc) > sample:
        allc = rng.sample(allc, sample)
    for lv, perm in allc:
        frames = [dict(gt=[TRI], pr=[shifted(TRI, LEVEL_SHIFTS[l][k]) for k, l in enumerate(lv)], sc=[s * 8 for s in perm], haspr=True)]
        for r in range(0, P):
            for kp in itertools.combinations(range(1, P + 1), r):
                out.append(delete_case(new_case(copy.deepcopy(frames), 3, tag="delete-levels"), [list(kp)], drop_empty=False))
    return out


def realise_counterexample(cx):
    """TLC's counterexample of MC_EvalDelete (one gt) as a label pair."""
    assert cx["G"] == 1
    frames = [dict(gt=[TRI], pr=[shifted(TRI, LEVEL_SHIFTS[l][k % 3]) for k, l in enumerate(cx["ok"][0])], sc=[s * 8 for s in cx["sc"]], haspr=True)]
    return delete_case(new_case(frames, 3, tag="tlc-counterexample"), [sorted(cx["keep"])], drop_empty=False)


def parse_counterexample(out):
    m = re.search(r"dI = \[\s*I \|->\s*\[(.*?)\],\s*keep \|-> \{(.*?)\},\s*tau \|-> (\d+)\s*\]", out, re.S)
    if not m:
        raise TLCError("cannot parse MC_EvalDelete counterexample:\n" + out[-1500:])
    body = " ".join(m.group(1).split())
    G = int(re.search(r"G \|-> (\d+)", body).group(1))
    P = int(re.search(r"P \|-> (\d+)", body).group(1))
    sc = [int(x) for x in re.search(r"sc \|-> <<(.*?)>>", body).group(1).split(",")]
    okt = re.search(r"ok \|-> <<(.*)>>, thr", body).group(1)
    ok = [[int(x) for x in row.split(",")] for row in re.findall(r"<<([^<>]*)>>", okt)]
    keep = [int(x) for x in m.group(2).split(",") if x.strip()]
    return dict(G=G, P=P, sc=sc, ok=ok, keep=keep, tau=int(m.group(3)))


def random_case(rng):
    """seeded random label pair: frames x animals x NaN patterns x lattice noise, missing / extra
    predictions, score orderings.  General position: visible gt coordinates of a frame are pairwise
    distinct; every gt instance has a visible node."""
    N = rng.choice([1, 2, 2, 3, 3, 4])
    F = rng.choice([1, 2, 2, 3, 4])
    mode = rng.choice(["perfect", "noisy", "noisy", "noisy", "crowded"])
    nanp = rng.choice([0.0, 0.0, 0.2, 0.4])
    frames, total = [], 0
    for f in range(F):
        G = rng.choice([0, 1, 1, 2, 2, 3])
        gts, used = [], set()
        base = (400 + rng.randint(0, 200), 400 + rng.randint(0, 200))
        for g in range(G):
            if mode == "crowded":
                cx, cy = base[0] + rng.randint(-40, 40), base[1] + rng.randint(-40, 40)
            else:
                cx, cy = 200 + 320 * g + rng.randint(0, 60), 200 + rng.randint(0, 600)
            spread = 60
            while True:
                pose = []
                for n in range(N):
                    pose.append([] if rng.random() < nanp else [cx + rng.randint(-spread, spread), cy + rng.randint(-spread, spread)])
                if all(not nd for nd in pose):
                    pose[rng.randrange(N)] = [cx, cy]
                cs = [tuple(nd) for nd in pose if nd]
                if len(set(cs)) == len(cs) and not (set(cs) & used):
                    used |= set(cs)
                    break
                spread += 4
            gts.append(pose)
        prs = []
        if mode == "perfect":
            prs = [copy.deepcopy(p) for p in gts]
        else:
            for pose in gts:
                if rng.random() < 0.2:
                    continue  # missing prediction
                amp = rng.choice([0, 1, 2, 4, 8, 16, 48])
                pr = []
                for nd in pose:
                    if nd:
                        pr.append([] if rng.random() < 0.15 else [nd[0] + rng.randint(-amp, amp), nd[1] + rng.randint(-amp, amp)])
                    else:
                        pr.append([] if rng.random() < 0.6 else [600 + rng.randint(-80, 80), 600 + rng.randint(-80, 80)])
                prs.append(pr)
                if rng.random() < 0.25:  # duplicate detection of the same animal
                    a2 = rng.choice([1, 4, 12])
                    prs.append([[nd[0] + rng.randint(-a2, a2), nd[1] + rng.randint(-a2, a2)] if nd else [] for nd in pose])
            if rng.random() < 0.3:  # spurious detection
                cx, cy = rng.randint(100, 1400), rng.randint(100, 1400)
                prs.append([[cx + rng.randint(-60, 60), cy + rng.randint(-60, 60)] for _ in range(N)])
        rng.shuffle(prs)
        haspr = True
        if G > 0 and mode != "perfect" and rng.random() < 0.1:
            haspr = False
        frames.append(dict(gt=gts, pr=prs, sc=[0] * len(prs), haspr=haspr))
        total += len(prs)
    if not any(fr["gt"] and fr["haspr"] for fr in frames):
        frames[0]["gt"] = [[[400 + 8 * n, 400 + 12 * n * n] for n in range(N)]]
        frames[0]["pr"] = [copy.deepcopy(frames[0]["gt"][0])] if mode == "perfect" else frames[0]["pr"]
        frames[0]["sc"] = [0] * len(frames[0]["pr"])
        frames[0]["haspr"] = True
        total = sum(len(fr["pr"]) for fr in frames)
    ties = rng.random() < 0.15
    pool = [rng.randint(0, 5) * 8 for _ in range(total)] if ties else rng.sample(range(0, 64 * 4), total)
    if total and rng.random() < 0.2:
        pool[rng.randrange(total)] = 0      # an instance score of exactly 0 (the default of PredictedInstance.from_numpy) is a score (seed C16_r12)
    k = 0
    for fr in frames:
        fr["sc"] = pool[k:k + len(fr["pr"])]
        k += len(fr["pr"])
    opts = {}
    r = rng.random()
    if r < 0.25:
        opts["oks_stddev"] = 0.1
    elif r < 0.35:
        opts["oks_stddev"] = 0.5
    if rng.random() < 0.2:
        opts["oks_scale"] = float(rng.choice([100, 400, 2500]))
    if rng.random() < 0.15:
        opts["match_threshold"] = 0.3
    r2 = rng.random()
    if r2 < 0.2:
        # user_labels_only=False: ground-truth instances that are PredictedInstances count like any other (seed C16_r6)
        opts["user_labels_only"] = False
        for fr in frames:
            fr["gt_as_pred"] = [rng.random() < 0.4 for _ in fr["gt"]]
    elif r2 < 0.4:
        # default user_labels_only=True: predicted instances lying in the ground-truth frames must be ignored
        for fr in frames:
            if fr["gt"] and rng.random() < 0.5:
                fr["gt_extra_pred"] = [[[rng.randint(0, 60), rng.randint(0, 60)] for _ in range(N)]]
    if len(frames) >= 2 and rng.random() < 0.3:
        # the frames live in two videos embedded in one package file (same filename, different HDF5 dataset) and share
        # frame numbers: pairing must keep them apart (seed C16_r5)
        opts["two_videos"] = True
    elif rng.random() < 0.25:
        # the labels refer to a plain media file (an .mp4 opened by sleap-io: MediaVideo backend, no HDF5 dataset), the
        # usual case for predictions made on a video
        opts["media_video"] = True
    if rng.random() < 0.3:
        opts["stale_hidden"] = True       # missing nodes keep stale coordinates, flagged not visible
    if rng.random() < 0.35 and not opts.get("two_videos"):      # (the second embedded video is a stand-in that cannot be copied: it is never opened)
        opts["separate_files"] = True     # predictions loaded from another file: equal but distinct Video objects, other video order
    if rng.random() < 0.25:
        opts["edited_between"] = True     # predictions moved, evaluated, moved back - then the judged evaluation
    if rng.random() < 0.3:
        opts["sparse_frames"] = True      # frame numbers 5, 8, 11, ... (labels, not positions)
    if rng.random() < 0.3:
        opts["pr_order"] = rng.randint(1, 10 ** 6)      # the prediction file lists its frames in another order
    return new_case(frames, N, opts, tag=mode + ("-ties" if ties else ""))


def random_delete(base, rng, drop_empty):
    keep = []
    for fr in base["frames"]:
        idx = list(range(1, len(fr["pr"]) + 1))
        keep.append([k for k in idx if rng.random() < 0.6])
    if all(len(k) == len(fr["pr"]) for k, fr in zip(keep, base["frames"])):
        for k, fr in zip(keep, base["frames"]):
            if fr["pr"]:
                k.pop(rng.randrange(len(k)))
                break
    return delete_case(copy.deepcopy(dict(kind="eval", N=base["N"], frames=[dict(gt=f["gt"], pr=f["pr"], sc=f["sc"], haspr=f["haspr"]) for f in base["frames"]],
                                          opts=base["opts"], tag=base["tag"])), keep, drop_empty)


# ------------------------------------------------------------------ observation ----------------
def slim(c):
    """what a 'del' case needs of a run: frames' scores, pairs, false negatives, AR."""
    o = c["obs"]
    return dict(raised=c["raised"], frames=[dict(sc=f["sc"], ng=len(f["gt"]), haspr=bool(f["haspr"])) for f in c["frames"]],
                obs=dict(pairs=o["pairs"], fn=o["fn"], AR=o["AR"]))


def observe_del(d):
    U.observe_eval(d["base"])
    U.observe_eval(d["red"])
    return d


DEL_KEYS = {
    "recall_up_deleted_prediction_outranked_better_match": dict(where="Evaluator.voc_metrics", kind="deleted_prediction_outranked_better_match"),
    "recall_up_frame_without_predictions_not_counted": dict(where="find_frame_pairs", kind="frame_without_predictions_not_counted"),
}


def key_of(case, clause):
    if case["kind"] == "del":
        return DEL_KEYS.get(clause, dict(where="Evaluator.voc_metrics", kind=clause))
    return dict(where="Evaluator.evaluate", kind=clause)


def pack(cases):
    """JSON records sent to TLC (ids assigned here); returns (records, skipped)."""
    recs, skipped = [], 0
    for c in cases:
        if c["kind"] == "eval":
            if c.get("skip"):
                skipped += 1
                continue
            recs.append(dict(id=len(recs), kind="eval", N=c["N"], tiehi=c["tiehi"], raised=c["raised"], reeval_same=bool(c.get("reeval_same", True)),
                             frames=[dict(gt=f["gt"], pr=f["pr"], sc=f["sc"], haspr=f["haspr"], okr=f["okr"], thrk=f["thrk"]) for f in c["frames"]],
                             obs=c["obs"]))
        else:
            if c["base"].get("skip") or c["red"].get("skip"):
                skipped += 1
                continue
            recs.append(dict(id=len(recs), kind="del", base=slim(c["base"]), red=slim(c["red"]), keep=c["keep"]))
        c["_id"] = recs[-1]["id"]
    return recs, skipped


def describe(c):
    if c["kind"] == "del":
        b, r = c["base"], c["red"]
        return "frames=%s keep=%s drop_empty_frames=%s AR_full=%s AR_after_delete=%s" % (
            [dict(gt=f["gt"], pr=f["pr"], sc=f["sc"]) for f in b["frames"]], c["keep"], c["drop_empty"],
            [round(x / 1e9, 3) for x in b["obs"]["AR"]], [round(x / 1e9, 3) for x in r["obs"]["AR"]])
    return "tag=%s opts=%s raised=%s frames=%s" % (c.get("tag"), c.get("opts"), c.get("raised"), [dict(gt=f["gt"], pr=f["pr"], sc=f["sc"], haspr=f["haspr"]) for f in c["frames"]])


def judge_and_report(res, cases, note):
    recs, skipped = pack(cases)
    j = judge("Judge_C16", recs, per_shard_min=40, timeout=1500)
    res.add_judge("Judge_C16", j, note)
    byid = {c["_id"]: c for c in cases if "_id" in c}
    for cid, clause in j["rejected"]:
        c = byid[int(cid)]
        res.violation(key_of(c, clause), clause, strip_case(c), describe(c)[:1500])
    if j["rejected_n"] and not j["rejected"]:
        raise TLCError("rejections without ids")
    return skipped, j


def strip_case(c):
    """replayable input (no observations)."""
    def fr(c0):
        return dict(kind="eval", N=c0["N"], opts=c0.get("opts", {}), tag=c0.get("tag", ""),
                    frames=[dict(gt=f["gt"], pr=f["pr"], sc=f["sc"], haspr=f["haspr"]) for f in c0["frames"]])
    if c["kind"] == "del":
        return dict(kind="del", base=fr(c["base"]), keep=c["keep"], drop_empty=c["drop_empty"])
    return fr(c)


# ------------------------------------------------------------------ run ------------------------
def run(tier, seed):
    res = Result("C16")
    rng = random.Random(seed)
    quick = tier == "quick"

    # (1) design checks ----------------------------------------------------------------------
    mp, mfn = (4, 1) if quick else (5, 2)
    r = check_model("MC_EvalVoc", "CONSTANTS MaxPairs = %d\nMaxFN = %d\n%s%s" % (mp, mfn, VOC_INV, MC_BASE), timeout=1500,
                    require_actions=("AddPair", "AddDistRow"))
    res.add_mc("MC_EvalVoc MaxPairs=%d MaxFN=%d" % (mp, mfn), r,
               "every sequence of match scores on a 6-level lattice (= every detection-score order), 0..MaxFN false negatives, 3 tie sets: "
               "precision/AP/AR non-increasing in the match threshold, ratios in [0,1], perfect fixed point; PCK monotone and bounded")
    if r.violation:
        raise TLCError("design check MC_EvalVoc failed: %s\n%s" % (r.violation, r.out[-2000:]))
    dcfgs = [(2, 3, 1)] if quick else [(2, 3, 3), (3, 3, 1)]
    for g, p, s in dcfgs:
        r = check_model("MC_EvalDelete", "CONSTANTS MaxG = %d\nMaxP = %d\nScoreLevels = %d\nINVARIANT IncreaseOnlyByOutranking\n%s" % (g, p, s, MC_BASE), timeout=1500)
        res.add_mc("MC_EvalDelete G<=%d P<=%d score levels %d: IncreaseOnlyByOutranking" % (g, p, s), r,
                   "every OKS rank matrix over 4 levels x kept subset x tau: a recall increase after deleting predictions always has the out-ranking pattern")
        if r.violation:
            raise TLCError("design check MC_EvalDelete (IncreaseOnlyByOutranking) failed: %s\n%s" % (r.violation, r.out[-2000:]))
    r = check_model("MC_EvalDelete", "CONSTANTS MaxG = 1\nMaxP = 2\nScoreLevels = 2\nINVARIANT DeleteNeverIncreasesRecallDistinctScores\n" + MC_BASE,
                    expect_violation=("invariant", "DeleteNeverIncreasesRecallDistinctScores"), timeout=600)
    res.add_mc("MC_EvalDelete counter model: DeleteNeverIncreasesRecall", r,
               "EXPECTED VIOLATION: matching once at OKS threshold 0 in descending detection score refutes 'deleting predictions never increases recall'")
    cx = parse_counterexample(r.out)
    res.coverage["delete_counterexample_from_tlc"] = cx

    # (2) cases -------------------------------------------------------------------------------
    import time
    t_mc = time.time()
    cases = []
    cases += level_family(3 if quick else 4, rng, sample_last=None if quick else 6000)
    n_levels = len(cases)
    cases += tie_family(rng, 60 if quick else 600)
    cases += large_family(rng, quick)
    n_rand = 900 if quick else 9000
    rand = [random_case(rng) for _ in range(n_rand)]
    cases += rand
    # TLC's counterexample on the real Evaluator, judged on its own
    cxd = observe_del(realise_counterexample(cx))
    recs, _ = pack([cxd, cxd["base"], cxd["red"]])
    jc = judge("Judge_C16", recs, shards=1)
    res.coverage["delete_counterexample_on_real_evaluator"] = dict(
        verdicts=[[int(a), b] for a, b in jc["rejected"]], AR_full=cxd["base"]["obs"]["AR"], AR_after_delete=cxd["red"]["obs"]["AR"],
        reproduced=any(b == "recall_up_deleted_prediction_outranked_better_match" for _, b in jc["rejected"]))
    dels = [realise_counterexample(cx)]
    dels += one_frame_delete_family(2, rng)
    dels += one_frame_delete_family(3, rng, sample=40 if quick else 384)
    for c in rng.sample(rand, 350 if quick else 3000):
        if any(fr["pr"] for fr in c["frames"]):
            dels.append(random_delete(c, rng, drop_empty=rng.random() < 0.4))
    for c in cases:
        U.observe_eval(c)
    for d in dels:
        observe_del(d)
    t_obs = time.time()
    allc = cases + dels + [d["red"] for d in dels] + [d["base"] for d in dels if d["base"]["tag"] in ("delete-levels", "tlc-counterexample")]
    skipped, j = judge_and_report(res, allc, "level families %d, recall-tie + large (49..197 instances) families %d, random label pairs %d, delete relations %d (+ their reduced runs)" % (n_levels, len(cases) - n_levels - n_rand, n_rand, len(dels)))

    res.coverage["phase_s"] = dict(model_checking=round(t_mc - res.t0, 1), run_real_code=round(t_obs - t_mc, 1), judge=round(time.time() - t_obs, 1))
    # (3) coverage bookkeeping (measured) -------------------------------------------------------
    ev = [c for c in allc if c["kind"] == "eval" and not c.get("skip")]
    res.clause("evaluate_raised", sum(1 for c in ev if c["raised"]))
    res.clause("no_positive_pairs", sum(1 for c in ev if not c["raised"] and not c["obs"]["pairs"]))
    res.clause("false_negatives_present", sum(1 for c in ev if c["obs"]["fn"]))
    res.clause("perfect_predictions", sum(1 for c in ev if str(c.get("tag", "")).startswith("perfect")))
    res.clause("score_ties", sum(1 for c in ev if "ties" in str(c.get("tag", ""))))
    res.clause("missing_gt_nodes", sum(1 for c in ev if any(not nd for fr in c["frames"] for p in fr["gt"] for nd in p)))
    res.clause("unpaired_gt_frames", sum(1 for c in ev if any(fr["gt"] and not fr["haspr"] for fr in c["frames"])))
    res.clause("recall_threshold_exact_ties", sum(1 for c in ev if tie_case(c)))
    res.clause("delete_relations", len(dels))
    res.clause("delete_relations_recall_increased", sum(1 for d in dels if not d["base"]["raised"] and not d["red"]["raised"] and any(a > b for a, b in zip(d["red"]["obs"]["AR"], d["base"]["obs"]["AR"]))))
    res.clause("skipped_near_threshold", skipped)
    nontriv = {str(strip_case(c)) for c in ev if not c["raised"] and len(c["obs"]["pairs"]) >= 2}
    res.coverage.update(distinct_nontrivial=len(nontriv), exhaustive=False,
                        rule="non-trivial = distinct label pairs with >= 2 positive pairs (order and thresholds matter). Families: all OKS-level patterns x all "
                             "detection-score orders for 1..%d one-animal frames; seeded random label pairs (1-4 frames, 0-3 animals, 1-4 nodes, NaN patterns, lattice "
                             "noise 0..12 px, missing/duplicate/spurious predictions, score ties in ~15%%, stddev/scale/match-threshold options); all deletions for one "
                             "frame with 2-3 predictions; random deletions with and without dropping emptied prediction frames. General position (excluded, counted): "
                             "match scores within 2e-9 of a match threshold; gt instances of one frame sharing a coordinate; gt instances without any visible node."
                             % (3 if quick else 4))
    for c in (cases[7], rand[0], dels[0]):
        res.sample(dict(kind=c["kind"], input=strip_case(c)))
    res.assumptions += [
        "float results are projected to integers (round(x*1e9), class tags) before TLC sees them; conformance slack 1e-9 (precision, recall), 3e-7 (AP, mAP, mOKS)",
        "numpy fact measured at run time: the indices k where linspace(0,1,101)[k] > k/100 (%s); an exact tie tp/npig = k/100 then counts as below the recall threshold" % U.tie_hi(),
        "precision/AP conformance is skipped when detection scores tie (the property does not fix the order of tied detections); recall, bounds and monotonicity are still checked",
        "PCK counts may lie anywhere between the strict (<) and non-strict (<=) count when a distance equals a pixel threshold exactly",
        "NaN metrics are accepted only where the denominator is zero (no positive pair / no visible keypoint)",
    ]
    return res


def tie_case(c):
    if c["raised"] or not c["obs"]["pairs"]:
        return False
    npig = len(c["obs"]["pairs"]) + len(c["obs"]["fn"])
    return any((100 * t) % npig == 0 and (100 * t) // npig in c["tiehi"] for t in range(1, len(c["obs"]["pairs"]) + 1))


def replay(rp, seed):
    res = Result("C16")
    c = rp["case"]
    if c["kind"] == "del":
        d = delete_case(dict(kind="eval", N=c["base"]["N"], frames=c["base"]["frames"], opts=c["base"].get("opts", {}), tag="replay"), c["keep"], c["drop_empty"])
        observe_del(d)
        cases = [d, d["base"], d["red"]]
    else:
        cases = [U.observe_eval(dict(kind="eval", N=c["N"], frames=c["frames"], opts=c.get("opts", {}), tag="replay"))]
    recs, _ = pack(cases)
    j = judge("Judge_C16", recs, shards=1)
    res.add_judge("Judge_C16", j)
    byid = {x["_id"]: x for x in cases if "_id" in x}
    for cid, clause in j["rejected"]:
        x = byid[int(cid)]
        res.violation(key_of(x, clause), clause, strip_case(x), describe(x)[:1500])
    return res
