"""C19: training runs complete and leave full artifacts that never contain the API key.

design check : MC_TrainRun - 64 configurations, Crash enabled in every state: the intended ordering keeps
               NoKeyOnDisk and the terminal artifact properties at every crash point; the ordering transcribed
               from the pinned model_trainer.py ("as_coded") MUST violate NoKeyOnDisk (documents the deviation)
code -> spec  : real ModelTrainer(cfg) + train() (1 epoch, 1 step, CPU, the repository's minimal_instance asset) for
               a covering set (quick) / all 64 (thorough) configurations, structured (builder-made) and plain,
               each in its own process under an audit hook that records the disk state - which files exist, which
               contain the 32-char key (raw bytes and inside zip checkpoints) - at every file write/rename/remove
               boundary; Trace_TrainRun requires NoKeyOnDisk in every such state and the terminal properties
"""
import random

from harness.evidence import Result
from harness.tlc import check_model, judge, TLCError

MC = 'CONSTANT Ordering = "%s"\nINIT Init\nNEXT Next\nINVARIANT NoKeyOnDisk\nINVARIANT ArtifactsAtEnd\nCHECK_DEADLOCK FALSE\n'
TRACE_CFG = "INIT Init\nNEXT Next\nCONSTRAINT Check\nPOSTCONDITION Report\nCHECK_DEADLOCK FALSE\n"
SCHED = ("reduce_lr_on_plateau", "none", "step_lr")


def covering(rng, n_extra=0):
    """A pairwise-covering subset of the 64 configurations (greedy, seeded) plus extras."""
    from harness.trainrun import all_configs

    allc = all_configs()
    keys = ("model", "fw", "wandb", "ckpt", "structured", "lowmem")
    need = {(a, c[a], b, c[b]) for c in allc for i, a in enumerate(keys) for b in keys[i + 1:]}
    chosen = []
    pool = allc[:]
    rng.shuffle(pool)
    while need:
        best = max(pool, key=lambda c: len({(a, c[a], b, c[b]) for i, a in enumerate(keys) for b in keys[i + 1:]} & need))
        chosen.append(best)
        pool.remove(best)
        need -= {(a, best[a], b, best[b]) for i, a in enumerate(keys) for b in keys[i + 1:]}
    chosen += pool[:n_extra]
    return chosen


def to_trace(k, o):
    job = o["job"]
    cfg = {k_: job.get(k_, False) for k_ in ("model", "fw", "wandb", "ckpt", "structured", "lowmem")}
    return dict(id=k, cfg=cfg, states=[dict(ev=s["ev"], files=s["files"], keyed=s["keyed"]) for s in o["states"]],
                fin=dict(raised=bool(o["raised"]), initial_equal=(o["initial_diff"] == []), final_equal=(o["final_diff"] == [])))


def key_of(clause, o):
    parts = clause.split("/")
    key = dict(where="ModelTrainer", kind=parts[0])
    if parts[0] == "key_on_disk":
        key["file"] = parts[1]
        key["use_wandb"] = bool(o["job"]["wandb"])
    if parts[0] == "run_raised":
        key["error"] = o["raised"].split(":")[0]
        key["stage"] = o.get("stage")
    if o["job"].get("existing") and parts[0] in ("run_raised", "training_config_differs_from_used"):
        key["use_existing_chunks"] = True          # the runs of the known finding C19-use-existing-chunks; nothing else carries it
        key["model"] = o["job"]["model"]
    return key


def run(tier, seed, only=None):
    from harness import shim
    from harness.trainrun import all_configs, run_jobs

    res = Result("C19")
    rng = random.Random(seed)
    r = check_model("MC_TrainRun", MC % "intended", timeout=900, require_actions=("Step", "Crash"), workers=4)
    res.add_mc("MC_TrainRun intended ordering, 96 configurations (64 + 32 low-memory fallbacks), crash at every step", r)
    if r.violation:
        raise TLCError("TrainRun intended ordering violates %s" % (r.violation,))
    rc = check_model("MC_TrainRun", MC % "as_coded", timeout=900, expect_violation=("invariant", "NoKeyOnDisk"), workers=4)
    res.add_mc("MC_TrainRun ordering as coded at the pinned commit", rc, "must violate NoKeyOnDisk: saves before masking, masking only if use_wandb")
    jobs = only if only is not None else (covering(rng, 2) if tier == "quick" else all_configs())
    if only is None:
        # always one centroid run on the chunks of an earlier run (the one kind of run on re-used chunks that completes)
        jobs.append(dict(model="centroid", fw="torch_dataset_np_chunks", wandb=False, ckpt=True, structured=False, lowmem=False,
                         existing=True, reuse=False, bare=False, media=False))
    for k, j in enumerate(jobs):
        j.setdefault("sched", SCHED[k % 3])
        # head sections: written out explicitly, or left at the schema / builder-preset defaults (loss weights unset)
        j.setdefault("heads", "default" if (k % 2 == 1 or (j["model"] == "bottomup" and k % 4 != 0)) else "explicit")
        # epoch length: given (1 step, batch 1) or left to the trainer (steps_per_epoch unset, batch 4 > label set)
        j.setdefault("feed", "derived" if k % 3 == 2 else "explicit")
        # YAML-loaded configurations: complete, or lean (without the entries the trainer guards as optional; derived crop size)
        j.setdefault("lean", (not j["structured"]) and (k % 2 == 0 or j["model"] == "centered_instance"))
        # frames: the square asset, or a 256 x 384 cut of it (height != width); not for the media-file jobs
        j.setdefault("wide", k % 2 == 0 and not j.get("media"))
        # early_stopping section: written out, or left at the schema default (null) in dict / YAML configurations
        j.setdefault("es", "null" if (not j["structured"] and k % 2 == 1) else "dict")
        # seed: given, or left at the schema default (null) in dict / YAML configurations
        j.setdefault("seed", "null" if (not j["structured"] and k % 3 == 0) else "given")
        # every 5th run: the configuration classes with only the required entries, everything else at its schema default
        j.setdefault("bare", k % 5 == 2)
        # every 6th run is given the final configuration of an earlier run, on labels whose skeleton has another name
        j.setdefault("reuse", k % 6 == 3 and not j.get("bare") and not j.get("media"))
        # chunk-cached runs - the centroid ones and every fourth other one: the chunks were written (and kept) by an earlier run and are re-used
        j.setdefault("existing", j["fw"] != "torch_dataset" and (j["model"] == "centroid" or k % 4 == 0) and not j.get("bare") and not j.get("reuse"))
        # output directory: given, or left unset (documented: the current working directory) - every 4th run
        j.setdefault("cwd_out", k % 4 == 1)
    obs = run_jobs(jobs, shim.REPO, seed, workers=14, timeout=900)
    bad = [o for o in obs if o.get("machinery")]
    if bad:
        raise TLCError("training worker failed: %s" % bad[0]["machinery"][-1500:])
    traces = [to_trace(k, o) for k, o in enumerate(obs)]
    j = judge("Trace_TrainRun", traces, cfg_text=TRACE_CFG, shards=min(8, len(traces)), timeout=600)
    res.add_judge("Trace_TrainRun", j, "%d real training runs, %d disk states (crash points)" % (len(traces), sum(len(t["states"]) for t in traces)))
    for cid, clause in j["rejected"]:
        o = obs[int(cid)]
        detail = "%s %s initial_diff=%s final_diff=%s" % (o["job"], o["raised"], o["initial_diff"], o["final_diff"])
        res.violation(key_of(clause, o), clause, dict(job=o["job"], states=o["states"], raised=o["raised"], tb=o.get("tb", "")), detail)
    res.clause("disk_states_checked", sum(len(t["states"]) for t in traces))
    res.clause("runs_with_wandb", sum(1 for o in obs if o["job"]["wandb"]))
    res.clause("runs_structured", sum(1 for o in obs if o["job"]["structured"]))
    res.clause("runs_low_memory_fallback", sum(1 for o in obs if o["job"].get("lowmem")))
    res.clause("runs_with_lean_yaml", sum(1 for o in obs if o["job"].get("lean")))
    res.clause("runs_with_derived_epoch_length", sum(1 for o in obs if o["job"].get("feed") == "derived"))
    res.clause("runs_with_default_head_sections", sum(1 for o in obs if o["job"].get("heads") == "default"))
    res.clause("runs_on_non_square_frames", sum(1 for o in obs if o["job"].get("wide")))
    res.clause("runs_without_output_directory", sum(1 for o in obs if o["job"].get("cwd_out")))
    res.clause("runs_with_early_stopping_section_null", sum(1 for o in obs if o["job"].get("es") == "null"))
    res.clause("runs_with_seed_null", sum(1 for o in obs if o["job"].get("seed") == "null"))
    res.clause("runs_with_schema_defaults_only", sum(1 for o in obs if o["job"].get("bare")))
    res.clause("runs_reusing_an_earlier_final_configuration", sum(1 for o in obs if o["job"].get("reuse")))
    res.clause("runs_on_chunks_of_an_earlier_run", sum(1 for o in obs if o["job"].get("existing")))
    res.clause("runs_np_chunks", sum(1 for o in obs if o["job"]["fw"] != "torch_dataset"))
    res.coverage.update(evaluations=len(traces), distinct_nontrivial=len({str(sorted(o["job"].items())) for o in obs if len(o["states"]) >= 4}),
                        exhaustive=(tier == "thorough" and only is None),
                        rule="configurations: pairwise-covering seeded subset of model x framework x wandb x ckpt x structured (quick) or all 64 (thorough), lr_scheduler rotated over {reduce_lr_on_plateau, none, step_lr}; head sections explicit or at the schema / builder-preset defaults; each run observed at every write boundary; non-trivial = at least 4 observed disk states")
    res.sample(dict(job=obs[0]["job"], boundaries=[s["ev"] for s in obs[0]["states"]][:24], keyed=[s["keyed"] for s in obs[0]["states"]][:24]))
    res.assumptions += ["1 epoch / 1 step CPU runs on tests/assets/minimal_instance.pkg.slp; wandb in offline mode; litdata framework not covered",
                        "torch checkpoint files are written by C++ without an audit event and are observed at the next boundary",
                        "OS-level torn writes inside one write() are not modelled"]
    return res


def replay(rp, seed):
    return run("quick", seed, only=[dict(rp["case"]["job"])])
