"""X02 (extension beyond the 20 listed properties): an inference request is resolved as documented.

System behaviour specified in spec/InferConfig.tla: which predictor is built from the given model directories and
which preprocessing it ends up with ("if not given, then use from training config").

design check : MC_InferConfig - all 137,216 requests (model sets x orders x training configurations x caller arguments x
               provider): OrderIrrelevant, CallerWins, TrainingFallback, NonInterference, RefusedExactly; the counter-model
               "frame-level preprocessing from whichever model is listed first" must violate OrderIrrelevant
spec -> code  : a seeded sample (quick) / a large sample (thorough) of that request space is resolved by the REAL
               Predictor.from_model_paths + make_pipeline on copies of the repository's test checkpoints whose
               training_config.yaml carries the request's training values; the observed predictor class, effective
               preprocessing and stage parameters are judged by Judge_X02 against InferConfig!Eff
"""
import itertools
import os
import random
import shutil
import tempfile

from harness.evidence import Result
from harness.tlc import check_model, judge, TLCError

MC_CFG = ("CONSTANT FirstGiven = %s\nINIT Init\nNEXT Next\n%s\nCHECK_DEADLOCK FALSE\n")
INVS = "\n".join("INVARIANT " + i for i in ("OrderIrrelevant", "CallerWins", "TrainingFallback", "NonInterference", "RefusedExactly"))
NONE = -1
ASSET = {"centroid": "tests/assets/minimal_instance_centroid", "centered": "tests/assets/minimal_instance", "bottomup": "tests/assets/minimal_instance_bottomup"}
PATHSEQS = [["centroid", "centered"], ["centered", "centroid"], ["centered"], ["centroid"], ["bottomup"]]


def train_recs(kind):
    out = []
    for s2, mh, mw, rgb in itertools.product((1, 2), (NONE, 400), (NONE, 416), (False, True)):
        for crop, anchor in (itertools.product((128, 160), (NONE, 0)) if kind == "centered" else [(NONE, NONE)]):
            out.append(dict(scale2=s2, max_h=mh, max_w=mw, is_rgb=rgb, crop=crop, anchor=anchor))
    return out


CLIS = [dict(max_h=a, max_w=b, crop=c, anchor=d, is_rgb=e) for a, b, c, d, e in
        itertools.product((NONE, 512), (NONE, 528), (NONE, 96), (NONE, 1), (False, True))]


def none(v):
    return None if v == NONE else v


class ModelDirs:
    """copies of the test checkpoints (weights symlinked) with the request's training preprocessing written in"""

    def __init__(self, repo):
        self.repo, self.tmp, self.made = repo, tempfile.mkdtemp(prefix="verif_x02_"), {}

    def get(self, kind, t):
        from omegaconf import OmegaConf

        key = (kind, tuple(sorted(t.items())))
        if key not in self.made:
            d = os.path.join(self.tmp, "%s_%d" % (kind, len(self.made)))
            os.makedirs(d)
            src = os.path.join(self.repo, ASSET[kind])
            os.symlink(os.path.join(src, "best.ckpt"), os.path.join(d, "best.ckpt"))
            c = OmegaConf.load(os.path.join(src, "training_config.yaml"))
            pp = c.data_config.preprocessing
            pp.scale, pp.max_height, pp.max_width, pp.is_rgb = t["scale2"] / 2.0, none(t["max_h"]), none(t["max_w"]), bool(t["is_rgb"])
            if kind == "centered":
                pp.crop_hw = [t["crop"], t["crop"]]
                c.model_config.head_configs.centered_instance.confmaps.anchor_part = none(t["anchor"])
            OmegaConf.save(c, os.path.join(d, "training_config.yaml"))
            self.made[key] = d
        return self.made[key]

    def close(self):
        shutil.rmtree(self.tmp, ignore_errors=True)


def _side(v):
    if v is None:
        return NONE
    v = list(v) if not isinstance(v, (int, float)) else [v, v]
    return int(v[0]) if len(v) == 2 and v[0] == v[1] else -2


def observe(dirs, r, slp, mp4):
    """The real resolution of request r -> observed record o."""
    from omegaconf import OmegaConf
    from sleap_nn.inference.predictors import Predictor

    o = dict(raised="", **{"class": "", "max_h": NONE, "max_w": NONE, "scale2": NONE, "is_rgb": False, "crop": NONE, "anchor": NONE,
                           "cscale2": NONE, "iscale2": NONE, "gt_centroids": False, "gt_peaks": False})
    try:
        cli = r["cli"]
        pc = OmegaConf.create({"is_rgb": bool(cli["is_rgb"]), "crop_hw": (None if cli["crop"] == NONE else [cli["crop"], cli["crop"]]),
                               "max_width": none(cli["max_w"]), "max_height": none(cli["max_h"]), "anchor_ind": none(cli["anchor"])})
        p = Predictor.from_model_paths([dirs.get(k, r["train"][k]) for k in r["paths"]], preprocess_config=pc, batch_size=2)
        o["class"] = type(p).__name__
        if r["provider"] == "LabelsReader":
            p.make_pipeline("LabelsReader", slp, 2)
        else:
            p.make_pipeline("VideoReader", mp4, 2, 0, 2)
        e = p.preprocess_config
        o.update(max_h=NONE if e["max_height"] is None else int(e["max_height"]), max_w=NONE if e["max_width"] is None else int(e["max_width"]),
                 scale2=int(round(float(e["scale"]) * 2)), is_rgb=bool(e["is_rgb"]))
        im = p.inference_model
        if o["class"] == "TopDownPredictor":
            cc, ipk = im.centroid_crop, im.instance_peaks
            o["gt_centroids"] = bool(getattr(cc, "use_gt_centroids", False))
            o["gt_peaks"] = type(ipk).__name__ == "FindInstancePeaksGroundTruth"
            o["crop"] = _side(cc.crop_hw)
            if o["gt_centroids"] and not o["gt_peaks"]:
                o["anchor"] = NONE if cc.anchor_ind is None else int(cc.anchor_ind)
            if not o["gt_centroids"]:
                o["cscale2"] = int(round(float(cc.input_scale) * 2))
            if not o["gt_peaks"]:
                o["iscale2"] = int(round(float(ipk.input_scale) * 2))
        for th in (getattr(p, "pipeline", None),):
            pass
    except Exception as ex:
        o["raised"] = "%s: %s" % (type(ex).__name__, str(ex)[:160])
    return o


def run(tier, seed):
    from loguru import logger
    from harness import shim

    logger.disable("sleap_nn")
    res = Result("X02")
    rng = random.Random(seed)
    r1 = check_model("MC_InferConfig", MC_CFG % ("FALSE", INVS), timeout=1500, workers=12)
    res.add_mc("MC_InferConfig (all requests)", r1, "OrderIrrelevant, CallerWins, TrainingFallback, NonInterference, RefusedExactly")
    if r1.violation:
        raise TLCError("design check failed: %s" % (r1.violation,))
    r2 = check_model("MC_InferConfig", MC_CFG % ("TRUE", "INVARIANT OrderIrrelevant"), timeout=600, workers=12, expect_violation=("invariant", "OrderIrrelevant"))
    res.add_mc("MC_InferConfig counter-model (frame model = first given)", r2, "must violate OrderIrrelevant (expected)")

    slp = os.path.join(shim.REPO, "tests/assets/minimal_instance.pkg.slp")
    mp4 = os.path.join(shim.REPO, "tests/assets/centered_pair_small.mp4")
    dirs = ModelDirs(shim.REPO)
    cases = []
    try:
        n = 700 if tier == "quick" else 12000
        recs = {k: train_recs(k) for k in ASSET}
        for cid in range(n):
            paths = PATHSEQS[cid % len(PATHSEQS)] if cid < 400 else rng.choice(PATHSEQS)
            r = dict(paths=paths, train={k: rng.choice(recs[k]) for k in paths}, cli=rng.choice(CLIS), provider=rng.choice(["LabelsReader", "VideoReader"]))
            cases.append(dict(id=cid, r=r, o=observe(dirs, r, slp, mp4)))
        # each sampled pair request also with the directories in the other order (OrderIrrelevant on the code)
        for c in [c for c in cases if len(c["r"]["paths"]) == 2][: (150 if tier == "quick" else 3000)]:
            r = dict(c["r"], paths=c["r"]["paths"][::-1])
            cases.append(dict(id=len(cases), r=r, o=observe(dirs, r, slp, mp4)))
    finally:
        dirs.close()
    j = judge("Judge_X02", cases, per_shard_min=100, timeout=900)
    res.add_judge("Judge_X02", j, "%d requests resolved by the real code" % len(cases))
    for cid, clause in j["rejected"]:
        c = cases[int(cid)]
        res.violation(dict(where="Predictor.from_model_paths/make_pipeline", clause=clause, models="+".join(sorted(c["r"]["paths"])), provider=c["r"]["provider"]),
                      clause, dict(r=c["r"]), "request=%s observed=%s" % (c["r"], c["o"]))
    if j["rejected_n"] and not j["rejected"]:
        raise TLCError("rejections without ids")
    res.clause("requests_refused_as_specified", sum(1 for c in cases if c["o"]["raised"]))
    for k in ("max_h", "max_w", "crop", "anchor"):
        res.clause("requests_with_caller_" + k, sum(1 for c in cases if c["r"]["cli"][k] != NONE))
    res.clause("requests_two_models", sum(1 for c in cases if len(c["r"]["paths"]) == 2))
    res.sample(dict(request=cases[0]["r"], observed=cases[0]["o"]))
    res.sample(dict(request=cases[-1]["r"], observed=cases[-1]["o"]))
    res.coverage.update(evaluations=len(cases), exhaustive=False,
                        distinct_nontrivial=len({str(c["r"]) for c in cases if any(v != NONE for k, v in c["r"]["cli"].items() if k != "is_rgb")}),
                        rule="seeded sample of the 137,216-request space checked exhaustively on the design; every two-model request also with the "
                             "directories swapped; non-trivial = the caller gives at least one value.  Excluded: single-instance models (no checkpoint "
                             "among the repository's assets), backbone/head checkpoint overrides, device, tracking options.")
    res.assumptions += ["copies of the repository's test checkpoints with edited training_config.yaml (weights symlinked; preprocessing values do not touch the architecture)",
                        "observation after make_pipeline(); the predict loop itself is C02/C03/C12/C13's subject"]
    return res


def replay(rp, seed):
    from loguru import logger
    from harness import shim

    logger.disable("sleap_nn")
    res = Result("X02")
    dirs = ModelDirs(shim.REPO)
    try:
        r = rp["case"]["r"]
        o = observe(dirs, r, os.path.join(shim.REPO, "tests/assets/minimal_instance.pkg.slp"), os.path.join(shim.REPO, "tests/assets/centered_pair_small.mp4"))
    finally:
        dirs.close()
    j = judge("Judge_X02", [dict(id=0, r=r, o=o)], shards=1)
    res.add_judge("Judge_X02", j)
    for cid, clause in j["rejected"]:
        res.violation(rp["key"], clause, dict(r=r), "observed=%s" % (o,))
    return res
