"""C07: global peak detection reports a true maximum; refinement is bounded and helps.

design check : MC_Peaks (NextGlobal) - every map over {-1,0,1,2} on the small shapes x thresholds x patch sizes:
               the specified rough step satisfies GlobalOK (any max cell, NaN/0 below threshold), refinement is
               within half a patch on non-negative patches, symmetric => zero, positive mass for positive
               thresholds.  Counter-model NextAsCoded (x and y arg-max taken independently, as in the pinned
               code) MUST violate GlobalRoughOK.  MC_PeaksPatch: patch theorems.  MC_PeaksGauss: for the exported
               family of integer-quantised Gaussian bumps the specified Offset moves every off-grid axis at
               least 1/128 px closer to the true centre (and the max cell is the unique nearest cell).
spec -> code  : the same exhaustive case space as C06, fed to find_global_peaks_rough / find_global_peaks
               (None, integral 3, 5); the Gaussian family is fed with patch 3, 5, 7.
code -> spec  : seeded random maps up to 24x24.
judge        : Judge_C07 - each call judged as part "rough" (GlobalOK pointwise) and part "refine".
"""
import json
import os
import random
import tempfile
from concurrent.futures import ThreadPoolExecutor

from harness import peaks_util as pu
from harness.evidence import Result
from harness.tlc import check_model, judge, TLCError

GLOBAL_INV = ("GlobalRoughOK", "GlobalRefineBound", "GlobalRefineSym", "GlobalMassPositive")
MC_CFG = "CONSTANT Level = %d\nINIT Init\nNEXT %s\n%sCHECK_DEADLOCK FALSE\n"
GAUSS_CFG = "INIT GInit\nNEXT GNext\nINVARIANT GaussUnique\nINVARIANT GaussNearest\nINVARIANT GaussCloser\nCHECK_DEADLOCK FALSE\n"
WHERE = dict(rough="find_global_peaks_rough", none="find_global_peaks", call="find_global_peaks")
JAVA = ("-Xmx3g", "-XX:ParallelGCThreads=2", "-XX:CICompilerCount=2")


def inv(names):
    return "".join("INVARIANT %s\n" % n for n in names)


def gauss_family(tier):
    """Integer-quantised bumps round(1000 exp(-d^2/2 sigma^2)); centres on the 1/4-px lattice at offsets
    -1/4, 0, +1/4 from a cell (never on a half-cell tie), >= 3 cells from the border; sigma = s4/4 px."""
    fam = []
    sig = (2, 3, 4, 6, 8, 12) if tier == "quick" else (2, 3, 4, 5, 6, 7, 8, 10, 12, 16)
    geo = [(11, 11, 5, 5), (11, 11, 3, 4), (11, 11, 7, 3)] if tier == "quick" else \
        [(11, 11, 5, 5), (11, 11, 3, 4), (11, 11, 7, 3), (9, 14, 10, 4), (13, 8, 3, 9), (7, 7, 3, 3)]
    for s4 in sig:
        for (H, W, bx, by) in geo:
            for ox in (-1, 0, 1):
                for oy in (-1, 0, 1):
                    cx4, cy4 = 4 * bx + ox, 4 * by + oy
                    fam.append(dict(h=H, w=W, cx4=cx4, cy4=cy4, s4=s4, v=pu.gauss_map(H, W, cx4, cy4, s4)))
    return fam


def gauss_cases(fam, rng):
    """Family members of equal shape packed into batches; threshold 200 (0.2 of the amplitude)."""
    cases, by = [], {}
    for g in fam:
        by.setdefault((g["h"], g["w"]), []).append(g)
    shapes = [(1, 1), (2, 2), (1, 3), (3, 1)]
    for (H, W), gs in sorted(by.items()):
        rng.shuffle(gs)
        k = b = 0
        while k < len(gs):
            S, C = shapes[b % len(shapes)]
            b += 1
            part = gs[k:k + S * C]
            k += S * C
            while len(part) < S * C:
                part.append(gs[rng.randrange(len(gs))])
            cases.append(dict(h=H, w=W, s=S, c=C, thr=200, scale=1, maps=[g["v"] for g in part], ps=[3, 4, 5, 6, 7],
                              gauss=[[g["cx4"], g["cy4"]] for g in part], style="gauss"))
    return cases


def design_models(tier, fam):
    lvl = 1 if tier == "quick" else 2
    out = []
    r = check_model("MC_Peaks", MC_CFG % (lvl, "NextGlobal", inv(GLOBAL_INV)), timeout=1500,
                    require_actions=("GlobalRough", "GlobalRefine"))
    out.append(("MC_Peaks global Level=%d" % lvl, r, "all maps over {-1,0,1,2} on %s x thr {-2,0,1} x P {3,5}: " % (
        "1x1, 1x2, 1x3, 2x1, 3x1, 2x2, 2x3" + (", 3x2, 1x4, 4x1" if lvl == 2 else "")) + ", ".join(GLOBAL_INV), None))
    r = check_model("MC_Peaks", MC_CFG % (0, "NextAsCoded", inv(("GlobalRoughOK",))), timeout=600,
                    expect_violation=("invariant", "GlobalRoughOK"))
    out.append(("MC_Peaks as-coded counter-model (independent x/y arg-max)", r, "must violate GlobalRoughOK", "expected"))
    r = check_model("MC_PeaksPatch", "CONSTANT Level = %d\nINIT Init\nNEXT Next\nCHECK_DEADLOCK FALSE\n" % lvl, timeout=900)
    if not r.printed("PATCHTHEOREMS"):
        raise TLCError("MC_PeaksPatch did not report: %s" % r.out[-1500:])
    out.append(("MC_PeaksPatch Level=%d" % lvl, r, "patch theorems T1-T5 over complete patch spaces (sizes %s)" % r.printed("PATCHTHEOREMS")[-1], None))
    fd, fn = tempfile.mkstemp(prefix="verif_gauss_", suffix=".json")
    try:
        with os.fdopen(fd, "w") as f:
            json.dump(fam, f, separators=(",", ":"))
        r = check_model("MC_PeaksGauss", GAUSS_CFG, env={"TRACE_FILE": fn}, timeout=900, require_actions=("GRough", "GRefine"))
    finally:
        os.unlink(fn)
    if r.printed("GAUSSFAMILY") != [str(len(fam))]:
        raise TLCError("MC_PeaksGauss read %s members, driver exported %d" % (r.printed("GAUSSFAMILY"), len(fam)))
    out.append(("MC_PeaksGauss (%d bumps x P 3/5/7)" % len(fam), r, "unique nearest max cell; Offset moves each off-grid axis >= 1/128 px closer, on-grid axis unmoved", None))
    return out


def key_of(clause):
    pfx, _, kind = clause.partition(":")
    return dict(where=WHERE.get(pfx, "find_global_peaks"), kind=kind or pfx)


def output_classes(rec):
    n = dict(nan_results=0, valid_results=0, refined_points=0, refined_nonfinite=0, refined_moved=0)
    for r in rec["rough"]:
        n["nan_results"] += r[3] == "nan"
        n["valid_results"] += r[3] == "val"
    for ref in rec["ref"]:
        for r, r0 in zip(ref["rows"], rec["rough"]):
            if r0[3] != "val":
                continue
            n["refined_points"] += 1
            n["refined_nonfinite"] += r[3] != "val"
            n["refined_moved"] += (r[3] == "val" and (r[0] != r0[0] or r[1] != r0[1]))
    return n


def split_parts(obs):
    """Each observed call -> two judge cases (ids 2k: rough part, 2k+1: refine part)."""
    out = []
    for k, c in enumerate(obs):
        c.setdefault("gauss", [])
        out.append(dict(c, id=2 * k, part="rough", ref=[]))
        out.append(dict(c, id=2 * k + 1, part="refine", none=[]))
    return out


def judge_and_record(res, obs, note):
    jc = split_parts(obs)
    j = judge("Judge_C07", jc, java_opts=JAVA, timeout=2400)
    listed, totals = pu.split_verdicts(j)
    j = dict(j, rejected=listed)
    res.add_judge("Judge_C07", j, note)
    if sum(totals.values()) != j["rejected_n"] or {cl for _, cl in listed} != set(totals):
        raise TLCError("verdict bookkeeping: totals %s vs %d rejected, listed %s" % (totals, j["rejected_n"], sorted({cl for _, cl in listed})))
    res.coverage["rejected_by_clause"] = totals
    listed.sort(key=lambda t: (jc[t[0]]["h"] * jc[t[0]]["w"] * jc[t[0]]["s"] * jc[t[0]]["c"], t[0]))
    for cid, clause in listed:
        c = jc[cid]
        res.violation(key_of(clause), clause, c, "h=%d w=%d batch=%dx%d thr=%d/%d maps=%s rough=%s ref=%s %s" % (
            c["h"], c["w"], c["s"], c["c"], c["thr"], c["scale"], c["maps"], c["rough"], c["ref"], c["raised"]))
    return j


def run(tier, seed):
    res = Result("C07")
    rng = random.Random(seed)
    cases, fed, n_exh = pu.build_cases(tier, rng, ps=(3, 5))
    for c in cases:
        c["gauss"] = []
    fam = gauss_family(tier)
    gcases = gauss_cases(fam, rng)
    cases += gcases
    obs = pu.run_cases(pu.observe_global, cases)
    classes = {}
    for rec in obs:
        for k, v in rec.pop("_cls").items():
            classes[k] = classes.get(k, 0) + int(v)
        for k, v in output_classes(rec).items():
            classes[k] = classes.get(k, 0) + int(v)
    classes["gaussian_bump_maps"] = sum(c["s"] * c["c"] for c in gcases)
    with ThreadPoolExecutor(max_workers=2) as ex:
        f_mc = ex.submit(design_models, tier, fam)
        f_cs = ex.submit(pu.case_space_check, fed)
        judge_and_record(res, obs, "%d exhaustive-space batches (3x3 %s), %d random, %d Gaussian-family batches; two judge cases per call" % (
            n_exh, "sampled 10%" if tier == "quick" else "complete", len(obs) - n_exh - len(gcases), len(gcases)))
        for name, r, note, expected in f_mc.result():
            res.add_mc(name, r, note)
            if r.violation and not expected:
                raise TLCError("design check %s failed: %s\n%s" % (name, r.violation, r.out[-2000:]))
        rc = f_cs.result()
    res.coverage["case_space_check"] = rc.printed("CASESPACE")[-1]
    for k, v in classes.items():
        res.clause(k, v)
    res.coverage.update(
        distinct_nontrivial=pu.distinct_nontrivial(obs), exhaustive=True, map_evaluations=classes.get("maps", 0), batch_calls=res.coverage.get("evaluations", 0),
        evaluations=max(classes.get("maps", 0), res.coverage.get("evaluations", 0)), calls=len(obs),
        rule="every map over {-1,0,1,2} on 1x1, 1x2, 1x3, 1x4, 2x1, 3x1, 4x1, 2x2, 2x3, 3x2 (set equality with the spec's space decided by TLC) and on 3x3 (%s), "
             "each at thresholds -2, 0, 1 in batches of varying (samples x channels); random (2x2)-batches of 2x2 maps; seeded random maps up to 24x24; "
             "%d integer-quantised Gaussian bumps (sigma %s quarter-px, centres at -1/4, 0, +1/4 px from a cell - half-cell ties excluded -, >= 3 cells from the border) at patch 3/5/7. "
             "Each call is judged as two cases (rough part, refine part).  distinct_nontrivial counts distinct (shape, threshold, map) inputs with >= 2 cells and a non-constant map.  "
             "Tied maxima are part of the space on purpose (the spec allows any max cell)." % (
                 "10% sample, subset decided by TLC" if tier == "quick" else "complete, 262144, decided by TLC", len(fam), sorted({g["s4"] for g in fam})))
    for k in (3, n_exh - 1, len(obs) - 1):
        c = obs[k]
        res.sample(dict(h=c["h"], w=c["w"], samples=c["s"], channels=c["c"], thr=c["thr"], scale=c["scale"], gauss=c["gauss"][:2],
                        maps=c["maps"][:2], rough=c["rough"][:4], integral=[dict(p=r["p"], rows=r["rows"][:4]) for r in c["ref"]]))
    res.assumptions += [
        "map values are integers or multiples of 1/32 (exact in float32)",
        "integral offsets are compared with the exact rational Offset up to the slack stated in Peaks.tla (TolQ); ill-conditioned patches (condition > 4096) are exempt from conformance, not from the bound",
        "the Gaussian clause is claimed for interior bumps only (patch inside the map) and centres not on half-cell ties; 'closer' is per axis (implies Euclidean)",
        "refinement is judged relative to the cell the rough step reported for the same input",
        "patch sizes 3, 5, 7 everywhere; even sizes 4 and 6 on the Gaussian family (bound, symmetric => unmoved, closer - no cell-based offset conformance)",
    ]
    return res


def replay(rp, seed):
    res = Result("C07")
    c = rp["case"]
    inp = dict(h=c["h"], w=c["w"], s=c["s"], c=c["c"], thr=c["thr"], scale=c["scale"], maps=c["maps"],
               gauss=c.get("gauss", []), ps=[r["p"] for r in c["ref"]] or [3, 5])
    rec = pu.observe_global(inp)
    jc = split_parts([rec])
    j = judge("Judge_C07", jc, shards=1)
    listed, _ = pu.split_verdicts(j)
    res.add_judge("Judge_C07", dict(j, rejected=listed))
    for cid, clause in listed:
        res.violation(rp.get("key") or key_of(clause), clause, jc[cid], "rough=%s ref=%s" % (rec["rough"], rec["ref"]))
    return res
