"""C03: bottom-up inference reassembles exactly the labelled animals from ideal maps.

design check : MC_InferPlane (shared with C02: decode bound) and MC_Assembly (shared with C08: as-coded assembly =
               connected components for every tree and parent-first order)
spec -> code  : real BottomUpPredictor (real PAFScorer, real make_pipeline + predict, both providers) with an
               ideal-network stub that renders, for the tensor it actually receives, Gaussian multi-animal
               confidence maps and unit-vector PAF bands along the transformed edges; random tree skeletons
               (2..6 nodes, any edge listing), 1..5 well-separated animals with missing nodes, image sizes,
               input scale, (cms stride, paf stride), refinement, batch size
judge        : Judge_C03 - expected instances are computed BY TLC from the labels (components of visible
               nodes under visible edges, size >= 2); bijection, visibility pattern, tight bound per coordinate
"""
import math
import random

import numpy as np

from harness.evidence import Result
from harness.tlc import check_model, judge, TLCError

MC = 'CONSTANT Tier = "%s"\nINIT Init\nNEXT Next\nINVARIANT DecodeWithinTight\nINVARIANT TightWithinClosed\nCHECK_DEADLOCK FALSE\n'
ASM = "CONSTANTS MaxN = %d\n P = 2\n AnyOrder = FALSE\nINIT Init\nNEXT Next\nINVARIANT AssemblyIsComponents\nCHECK_DEADLOCK FALSE\n"
U = 1024


def gen_cfg(rng):
    H, W = rng.choice([(64, 64), (64, 96), (96, 64), (80, 96), (160, 64), (64, 160)])    # incl. aspect 2.5 both ways: the longest unpenalised edge depends on the LARGER side
    mh, mw = rng.choice([(0, 0), (0, 0), (96, 96), (112, 128), (48, 64), (0, 112)])   # none, larger, smaller than the image, one-sided
    sn, sd = rng.choice([(1, 1), (1, 1), (1, 2)])
    return dict(H=H, W=W, maxH=mh, maxW=mw, sn=sn, sd=sd, ms=rng.choice([8, 16]), s=rng.choice([1, 2, 4]), ps=rng.choice([1, 2, 4]),
                refine=rng.choice([None, "integral"]), batch=rng.choice([1, 2, 3]), n_nodes=rng.choice([2, 3, 3, 4, 4, 5, 6]),
                long=(rng.random() < 0.3))


def crowd_cfg(rng):
    """a larger frame holding 5-8 animals of 4-6 nodes: more than 16 detected peaks in one frame"""
    c = gen_cfg(rng)
    c.update(H=rng.choice([128, 160]), W=rng.choice([160, 192]), maxH=0, maxW=0, n_nodes=rng.choice([4, 5, 6]), s=rng.choice([2, 4]), ps=rng.choice([2, 4]),
             long=False, crowd=True)
    return c


def random_tree(n, rng):
    order = list(range(n))
    rng.shuffle(order)
    t = [(order[rng.randrange(i)], order[i]) for i in range(1, n)]
    rng.shuffle(t)
    return t


def eff_of(c):
    th, tw = (c["maxH"] or c["H"]), (c["maxW"] or c["W"])
    return 1.0 if (c["H"], c["W"]) == (th, tw) else min(th / c["H"], tw / c["W"])


def gen_scene(rng, c, edges, n_frames=3):
    """Well-separated animals in general position for this configuration, or None if they do not fit."""
    eff = eff_of(c)
    a = 1.0 / (eff * c["sn"] / c["sd"])                 # original px per network-input px
    cell, pcell = a * c["s"], a * c["ps"]
    in_h, in_w = c["H"] / a, c["W"] / a
    max_edge = 0.25 * max(in_h, in_w) * a * 0.8        # stay clear of the scorer's distance penalty (design)
    if c.get("long"):
        # long-limbed animals: edges up to 2.2 x the unpenalised length.  The documented penalty (limit / L - 1 >= -0.55)
        # lowers the line score of an ideal PAF to >= 0.45, still above min_line_scores = 0.25: they must be reassembled too.
        max_edge = 0.25 * max(in_h, in_w) * a * 2.2
    min_edge = max(2.5 * pcell, 3.0 * a, 3 * cell)
    if min_edge > max_edge:
        return None
    n = c["n_nodes"]
    depth = {}
    children = {}
    for s_, d_ in edges:
        children.setdefault(s_, []).append(d_)
    root = (set(x for e in edges for x in e) - set(d for _, d in edges)).pop()
    border = 2 * cell + 2
    frames = []
    for f in range(n_frames):
        animals, boxes = [], []
        n_an = rng.choice([1, 2, 3, 4, 5]) if f else rng.choice([1, 2, 3])
        if c.get("crowd"):
            n_an = rng.choice([5, 6, 7, 8])
        for _ in range(n_an):
            for _try in range(80):
                pts = np.full((n, 2), np.nan)
                pts[root] = [rng.uniform(border, c["W"] - 1 - border), rng.uniform(border, c["H"] - 1 - border)]
                ok = True
                stack = [root]
                while stack and ok:
                    v = stack.pop()
                    for w_ in children.get(v, []):
                        for _t in range(20):
                            # a third of the edges are as long as the scorer leaves unpenalised (0.2 of the LARGER side)
                            L = rng.uniform(max(min_edge, 0.85 * max_edge), max_edge) if rng.random() < 0.35 else rng.uniform(min_edge, max_edge)
                            ang = rng.uniform(0, 2 * math.pi)
                            q = pts[v] + L * np.array([math.cos(ang), math.sin(ang)])
                            if border <= q[0] <= c["W"] - 1 - border and border <= q[1] <= c["H"] - 1 - border and \
                                    all(np.abs(q - pts[u]).max() > max(2 * cell, 2 * a) for u in range(n) if np.all(np.isfinite(pts[u]))):
                                pts[w_] = q
                                break
                        else:
                            ok = False
                            break
                        stack.append(w_)
                if not ok:
                    continue
                pts = np.round(pts * 4) / 4.0
                if cell >= 2:
                    # general position: a keypoint exactly half-way between two grid cells is a tie of the rough peak (error
                    # exactly half a cell), and integral refinement - whose 5x5 window also sees the slope of a neighbour's
                    # bump in the same channel - may then land a tenth of a pixel beyond half a cell (thorough sweep, scene 294).
                    # Coordinates within half a pixel of such a midpoint are moved 0.75 px past it.
                    r = (pts % cell) - cell / 2.0
                    pts = np.where(np.abs(r) < 0.5, pts - r + 0.75, pts)
                lo, hi = pts.min(axis=0), pts.max(axis=0)
                gap = max(3 * cell, 2 * (0.75 * pcell + a + 0.75 * cell) + 2 * a, 8 * a)
                if all(lo[0] - gap > b[1][0] or hi[0] + gap < b[0][0] or lo[1] - gap > b[1][1] or hi[1] + gap < b[0][1] for b in boxes):
                    boxes.append((lo, hi))
                    k = rng.choice([0, 0, 1, 1, 2]) if n > 2 else rng.choice([0, 0, 1])
                    for idx in rng.sample(range(n), min(k, n)):
                        pts[idx] = np.nan
                    animals.append(pts)
                    break
        for _drop in range(6):
            if matching_is_unambiguous(c, edges, animals, a):
                break
            animals = animals[:-1]  # thin the frame out until the labelled pairing is the clear optimum
            gen_scene.resampled = getattr(gen_scene, "resampled", 0) + 1
        frames.append(dict(hw=(c["H"], c["W"]), animals=animals))
    return frames


def matching_is_unambiguous(c, edges, animals, a, margin=0.15):
    """General position, decided independently of the code under test: with the stub's ideal PAF (unit vector inside
    its band) and the documented scoring rule (mean of 10 samples + distance penalty, then the maximum-total
    one-to-one assignment of maximum cardinality that C08 specifies), the labelled pairing must be the optimum for
    every edge type by `margin`, every labelled pair must score >= 0.6 and no wrong pair may be accepted.  Scenes that
    fail are outside 'well-separated' (forced maximum-cardinality matching of lone peaks can prefer two wrong
    pairs) and are resampled."""
    from scipy.optimize import linear_sum_assignment

    ps, s_ = c["ps"], c["s"]
    half = 0.75 * ps + 1.0 + 0.75 * s_
    in_h, in_w = c["H"] / a, c["W"] / a
    max_edge = 0.25 * max(in_h / ps, in_w / ps, 2 * len(edges)) * ps
    P = [np.asarray(an, dtype=np.float64) / a for an in animals]  # network-input px

    def paf_at(q, e):
        sn, dn = edges[e]
        v = np.zeros(2)
        for an in P:
            p0, p1 = an[sn], an[dn]
            if not (np.all(np.isfinite(p0)) and np.all(np.isfinite(p1))):
                continue
            d = p1 - p0
            L = float(np.hypot(*d))
            if L < 1e-6:
                continue
            u = d / L
            t = min(max(float((q - p0) @ u), 0.0), L)
            if np.hypot(*(q - (p0 + t * u))) <= half:
                v += u
        return v

    for e, (sn, dn) in enumerate(edges):
        src = [(i, an[sn]) for i, an in enumerate(P) if np.all(np.isfinite(an[sn]))]
        dst = [(i, an[dn]) for i, an in enumerate(P) if np.all(np.isfinite(an[dn]))]
        if not src or not dst:
            continue
        S = np.zeros((len(src), len(dst)))
        for r, (i, p0) in enumerate(src):
            for k, (j, p1) in enumerate(dst):
                d = p1 - p0
                L = float(np.hypot(*d))
                if L < 1e-6:
                    return False
                u = d / L
                vals = [float(paf_at(p0 + d * t, e) @ u) for t in np.linspace(0, 1, 10)]
                S[r, k] = float(np.mean(vals)) + min(max_edge / L - 1.0, 0.0)
        for r, (i, _) in enumerate(src):
            for k, (j, _) in enumerate(dst):
                if i == j and S[r, k] < (0.4 if c.get("long") else 0.6):
                    return False
                if i != j and S[r, k] > 0.25 - margin and False:
                    return False
        rr, kk = linear_sum_assignment(-S)
        best = S[rr, kk].sum()
        for r, k in zip(rr, kk):
            if src[r][0] != dst[k][0] and S[r, k] >= 0.25 - 0.1:
                return False   # optimum accepts (or nearly accepts) a wrong pair
        labelled = {(r, k) for r, (i, _) in enumerate(src) for k, (j, _) in enumerate(dst) if i == j}
        if not labelled <= set(zip(rr, kk)):
            return False
        # margin: forcing any wrong pair into the assignment must cost at least `margin`
        for r in range(len(src)):
            for k in range(len(dst)):
                if src[r][0] == dst[k][0]:
                    continue
                S2 = S.copy()
                S2[r, k] = 1e3
                r2, k2 = linear_sum_assignment(-S2)
                tot = sum(S[x, y] for x, y in zip(r2, k2))
                if tot > best - margin and S[r, k] >= 0.25 - 0.1:
                    return False
                if tot > best - margin and any(src[x][0] != dst[y][0] and S[x, y] >= 0.15 for x, y in zip(r2, k2) if (x, y) != (r, k)):
                    return False
    return True


def to_u(x):
    return int(round(float(x) * U))


def observe(c, edges, frames, provider):
    from harness import inferplane as ip

    labels = ip.make_source(frames, c["n_nodes"], edges)
    pc = dict(scale=c["sn"] / c["sd"], max_stride=c["ms"], stride=c["s"], pstride=c["ps"], max_h=c["maxH"] or None, max_w=c["maxW"] or None,
              refine=c["refine"], batch=c["batch"])
    pred, stubs = ip.build_bottomup(pc, frames, c["n_nodes"], edges)
    try:
        outs = ip.run_predictor(pred, provider, labels, c["batch"])
        return ip.collect("bottomup", outs), ""
    except Exception as e:
        import traceback
        return {}, "%s: %s | %s" % (type(e).__name__, str(e)[:200], traceback.format_exc()[-400:].replace("\n", " / "))


def cases_for(c, edges, frames, cid0):
    obs = {pv: observe(c, edges, frames, pv) for pv in ("LabelsReader", "VideoReader")}
    jc = {k: c[k] for k in ("H", "W", "maxH", "maxW", "sn", "sd", "ms", "s")}
    cases = []
    for pv, other in (("LabelsReader", "VideoReader"), ("VideoReader", "LabelsReader")):
        res, raised = obs[pv]
        ores, oraised = obs[other]
        if raised:
            cases.append(dict(id=cid0 + len(cases), provider=pv, cfg=jc, n_nodes=c["n_nodes"], edges=[list(e) for e in edges], animals=[], preds=[], raised=raised,
                              has_other=False, other_equal=True, frame=-1))
            continue
        for fid, fr in enumerate(frames):
            animals = [[dict(x=to_u(p[0]) if np.all(np.isfinite(p)) else 0, y=to_u(p[1]) if np.all(np.isfinite(p)) else 0, vis=bool(np.all(np.isfinite(p)))) for p in a] for a in fr["animals"]]
            preds = [[dict(x=0 if np.any(np.isnan(q)) else to_u(q[0]), y=0 if np.any(np.isnan(q)) else to_u(q[1]), nan=bool(np.any(np.isnan(q)))) for q in p] for p, v, s in res.get((0, fid), [])]
            oth = sorted(str([[None if np.any(np.isnan(q)) else (round(float(q[0]), 2), round(float(q[1]), 2)) for q in p] for p, v, s in [x]]) for x in ores.get((0, fid), []))
            mine = sorted(str([[None if np.any(np.isnan(q)) else (round(float(q[0]), 2), round(float(q[1]), 2)) for q in p] for p, v, s in [x]]) for x in res.get((0, fid), []))
            cases.append(dict(id=cid0 + len(cases), provider=pv, cfg=jc, n_nodes=c["n_nodes"], edges=[list(e) for e in edges], animals=animals, preds=preds, raised="",
                              has_other=not oraised, other_equal=(oth == mine), frame=fid))
    return cases


def run(tier, seed, replay_case=None):
    from loguru import logger
    logger.disable("sleap_nn")
    res = Result("C03")
    r = check_model("MC_InferPlane", MC % tier, timeout=1200)
    res.add_mc("MC_InferPlane (%s grid)" % tier, r, "decode bound (shared with C02)")
    r2 = check_model("MC_Assembly", ASM % (3 if tier == "quick" else 4), timeout=900)
    res.add_mc("MC_Assembly", r2, "as-coded assembly = connected components (shared with C08)")
    if r.violation or r2.violation:
        raise TLCError("design check failed: %s %s" % (r.violation, r2.violation))
    n = 90 if tier == "quick" else 900
    cases, skipped = [], 0
    seeds = [replay_case["scene_seed"]] if replay_case else [seed * 7777777 + k for k in range(n)]
    for sseed in seeds:
        srng = random.Random(sseed)
        c = crowd_cfg(srng) if sseed % 8 == 5 else gen_cfg(srng)      # every eighth scene is a crowd (> 16 peaks per frame)
        edges = random_tree(c["n_nodes"], srng)
        frames = gen_scene(srng, c, edges)
        if frames is None:
            skipped += 1
            continue
        new = cases_for(c, edges, frames, len(cases))
        for x in new:
            x["scene_seed"], x["full"] = sseed, c
        cases += new
    keep = ("id", "cfg", "n_nodes", "edges", "animals", "preds", "raised", "has_other", "other_equal")
    j = judge("Judge_C03", [{k: v for k, v in c.items() if k in keep} for c in cases], timeout=1500)
    res.add_judge("Judge_C03", j, "%d (configuration, provider, frame) cases" % len(cases))
    for cid, clause in j["rejected"]:
        c = cases[int(cid)]
        key = dict(where="BottomUpPredictor", kind=clause, provider=c["provider"])
        if clause == "raised":
            key["error"] = c["raised"].split(":")[0]
        res.violation(key, clause, dict(scene_seed=c["scene_seed"], full=c["full"], provider=c["provider"], frame=c["frame"], edges=c["edges"], animals=c["animals"], preds=c["preds"]),
                      "%s %s frame=%s edges=%s %s" % (c["provider"], c["full"], c["frame"], c["edges"], c["raised"]))
    res.clause("configurations_skipped_animals_do_not_fit", skipped)
    res.clause("animals_removed_because_the_labelled_pairing_was_not_the_clear_optimum", getattr(gen_scene, "resampled", 0))
    res.clause("frames_with_more_than_16_visible_keypoints", sum(1 for c in cases if sum(1 for a in c["animals"] for n_ in a if n_["vis"]) > 16))
    res.clause("frames_with_partial_animals", sum(1 for c in cases if any(not n_["vis"] for a in c["animals"] for n_ in a)))
    res.clause("animals_total", sum(len(c["animals"]) for c in cases))
    res.clause("cases_scale_half", sum(1 for c in cases if c["cfg"]["sn"] != c["cfg"]["sd"]))
    res.coverage.update(evaluations=len(cases), exhaustive=False,
                        distinct_nontrivial=len({(str(c["full"]), c["provider"], c["frame"], str(c["animals"])) for c in cases if c["animals"]}),
                        rule="seeded: random tree skeleton (2-6 nodes, shuffled labels and edge listing), 1-5 well-separated animals per frame with 0-2 missing nodes, sizes {64x64,64x96,96x64,80x96,160x64,64x160}, size matching, input scale {1,1/2}, cms/paf strides {1,2,4}^2, refinement, batch {1,2,3}, both providers; edge lengths between 2.5 PAF cells and 0.2 of the larger side (the scorer's distance penalty applies beyond, by design); 'well-separated' = under the stub's ideal PAF and the documented scoring rule the labelled pairing is the maximum-total assignment by a margin of 0.15 for every edge type (decided by the generator independently of the code; animals are removed from a frame until it holds, counted); non-trivial = frame with at least one animal")
    if cases:
        c = next((c for c in cases if c["animals"]), cases[0])
        res.sample(dict(cfg=c.get("full"), edges=c["edges"], animals=c["animals"][:2], preds=c["preds"][:2]))
    res.assumptions += ["ideal PAF = unit vector of the transformed edge inside a band of half-width 0.75*paf_stride + 1 + 0.75*cms_stride input px (covers lines between grid-quantised peaks) (the repository's own PAF weight profile is not assumed)",
                        "ideal confidence maps: one maximum at the nearest cell, sigma 1.5 cells; peak threshold 0.2; scorer defaults (n_points 10, min_line_scores 0.25, max_edge_length_ratio 0.25)"]
    return res


def replay(rp, seed):
    return run("quick", seed, replay_case=rp["case"])
