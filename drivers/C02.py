"""C02: single-instance and top-down inference return original-image coordinates.

design check : MC_InferPlane - over the configuration grid x a lattice of keypoints the as-coded stage arithmetic
               keeps every answer of an ideal network within the tight per-keypoint bound, and that bound within
               the closed form (half a cell + per-stage slack)
spec -> code  : real SingleInstancePredictor / TopDownPredictor objects (built from OmegaConf configs), real
               make_pipeline + predict(make_labels=False) for both providers on coordinate-coded frames, ideal-network
               stubs that MEASURE the affine applied to the tensor they receive; TLC (Judge_C02) recomputes the
               bound from the configuration and judges every keypoint, visibility, instance counts and
               LabelsReader = VideoReader
"""
import math
import random

import numpy as np

from harness.evidence import Result
from harness.tlc import check_model, judge, TLCError

MC = 'CONSTANT Tier = "%s"\nINIT Init\nNEXT Next\nINVARIANT SizesAsCoded\nINVARIANT NetInputIsStrideMultiple\nINVARIANT DecodeWithinTight\nINVARIANT TightWithinClosed\nCHECK_DEADLOCK FALSE\n'
U = 1024
SIZES = [(48, 64), (64, 48), (57, 77)]
MAXS = [(0, 0), (64, 96), (96, 64), (40, 56), (0, 96), (80, 0)]   # none, larger, smaller than the image, one-sided
SCALES = [(1, 1), (1, 2)]


def eff_of(H, W, mh, mw):
    th, tw = (mh or H), (mw or W)
    if (H, W) == (th, tw):
        return 1.0
    return min(th / H, tw / W)


def gen_cfg(rng, kind):
    H, W = rng.choice(SIZES)
    mh, mw = rng.choice(MAXS)
    sn, sd = rng.choice(SCALES)
    c = dict(H=H, W=W, maxH=mh, maxW=mw, sn=sn, sd=sd, ms=rng.choice([8, 16]), s=rng.choice([1, 2, 4]),
             refine=rng.choice([None, "integral"]), batch=rng.choice([1, 2, 3]))      # 2: the last batch of a 3-frame run is partial
    # frames of two different sizes (two videos) in one run: every frame has its own eff_scale; needs both maxima
    # (otherwise frames of different sizes cannot share a batch) and only the labels provider can serve it
    c["H2"], c["W2"] = rng.choice([s_ for s_ in SIZES if s_ != (H, W)]) if (mh and mw and rng.random() < 0.4) else (0, 0)
    if kind == "topdown":
        csn, csd = rng.choice(SCALES)
        c.update(csn=csn, csd=csd, cs=rng.choice([1, 2, 4]), crop=rng.choice([24, 32]), cropw=rng.choice([24, 32, 40]), anchor=rng.choice([None, 0]))
    return c


def place(rng, lo, hi):
    return round(rng.uniform(lo, hi) * 4) / 4.0


def gen_scene(rng, c0, kind, n_nodes=3, n_frames=3):
    """Keypoints in general position for this configuration (returns None when the image is too small)."""
    frames = []
    for f in range(n_frames):
        c = dict(c0)
        if c0.get("H2") and f % 2 == 1:
            c["H"], c["W"] = c0["H2"], c0["W2"]
        eff = eff_of(c["H"], c["W"], c["maxH"], c["maxW"])
        a = 1.0 / (eff * c["sn"] / c["sd"])
        m = 2 * a * c["s"] + 2
        animals = []
        if kind == "single":
            if c["W"] - 1 - 2 * m < 4 or c["H"] - 1 - 2 * m < 4:
                return None
            pts = np.array([[place(rng, m, c["W"] - 1 - m), place(rng, m, c["H"] - 1 - m)] for _ in range(n_nodes)])
            if rng.random() < 0.4:
                pts[rng.randrange(n_nodes)] = np.nan
            animals.append(pts)
        else:
            ext = min(c["crop"], c.get("cropw") or c["crop"]) * a  # (smaller) crop extent in original px
            ac = 1.0 / (eff * c["csn"] / c["csd"])
            r = 0.5 * ext - (ac * c["cs"] + 2 * a * c["s"] + 3)  # pose radius so that every node stays inside the crop
            if r < 2:
                return None
            from harness.idealnet import centroid_of
            n_an = rng.choice([0, 1, 1, 2, 3]) if f else rng.choice([1, 2])
            cents = []
            sep = max(4 * ac * c["cs"], 6)
            for _ in range(n_an):
                for _try in range(60):
                    mm = r + 2
                    if c["W"] - 1 - 2 * mm < 1 or c["H"] - 1 - 2 * mm < 1:
                        break
                    cx, cy = place(rng, mm, c["W"] - 1 - mm), place(rng, mm, c["H"] - 1 - mm)
                    rr = min(r, 9) / 2.0
                    pts = np.array([[cx + place(rng, -rr, rr), cy + place(rng, -rr, rr)] for _ in range(n_nodes)])
                    if rng.random() < 0.35 and c.get("anchor") is None:
                        pts[rng.randrange(n_nodes)] = np.nan
                    elif rng.random() < 0.35:
                        pts[rng.randrange(1, n_nodes)] = np.nan
                    ctr = centroid_of(pts, c.get("anchor"))
                    # general position: the centroid the centroid-stage will report is well separated from the others
                    # and every visible node lies well inside the crop taken about it
                    vis = pts[np.all(np.isfinite(pts), axis=1)]
                    if np.abs(vis - ctr).max() > r:
                        continue
                    if all(max(abs(ctr[0] - x), abs(ctr[1] - y)) > sep for x, y in cents):
                        cents.append((ctr[0], ctr[1]))
                        animals.append(pts)
                        break
        frames.append(dict(hw=(c["H"], c["W"]), animals=animals, video=(1 if (c0.get("H2") and f % 2 == 1) else 0)))
    return frames


def to_u(x):
    return int(round(float(x) * U))


def observe(kind, c, frames, provider, n_nodes, with_labels=False):
    from harness import inferplane as ip

    labels = ip.make_source(frames, n_nodes)
    pc = dict(scale=c["sn"] / c["sd"], max_stride=c["ms"], stride=c["s"], max_h=c["maxH"] or None, max_w=c["maxW"] or None,
              refine=c["refine"], batch=c["batch"])
    if kind == "single":
        pred, stubs = ip.build_single(pc, frames, n_nodes)
    else:
        pc.update(cscale=c["csn"] / c["csd"], cstride=c["cs"], crop=c["crop"], cropw=c.get("cropw"), anchor=c["anchor"])
        pred, stubs = ip.build_topdown(pc, frames, n_nodes)
    try:
        outs = ip.run_predictor(pred, provider, labels, c["batch"])
        res = ip.collect(kind, outs)
        if with_labels:
            # the repository's own decode: predict(make_labels=True) -> sio.Labels (sleap-io compat shim)
            pred2 = (ip.build_single(pc, frames, n_nodes) if kind == "single" else ip.build_topdown(pc, frames, n_nodes))[0]
            lab = ip.run_predictor(pred2, provider, labels, c["batch"], make_labels=True)
            lres = {}
            for lf in lab:
                lres[(lab.videos.index(lf.video), int(lf.frame_idx))] = [np.asarray(inst.numpy(), dtype=np.float64) for inst in lf.instances]
            for k, v in res.items():
                res[k] = [(p, vv, sc, (lres.get(k, [])[j] if j < len(lres.get(k, [])) else None)) for j, (p, vv, sc) in enumerate(v)]
        return res, "", stubs
    except Exception as e:
        import traceback
        return {}, "%s: %s | %s" % (type(e).__name__, str(e)[:200], traceback.format_exc()[-300:].replace("\n", " / ")), stubs


def associate(animals, preds):
    """harness bookkeeping only: pair each true animal with the prediction nearest to its visible nodes."""
    pairs, used = [], set()
    for a in animals:
        best, bd = None, None
        for j, pr in enumerate(preds):
            p = pr[0]
            if j in used:
                continue
            d = np.nanmean(np.abs(p - a)) if np.any(np.isfinite(p - a)) else 1e9
            if bd is None or d < bd:
                best, bd = j, d
        if best is not None:
            used.add(best)
        pairs.append(best)
    return pairs


def cases_for(kind, c, frames, n_nodes, cid0):
    mixed = bool(c.get("H2"))
    provs = ("LabelsReader",) if mixed else ("LabelsReader", "VideoReader")   # a video has one frame size
    obs = {pv: observe(kind, c, frames, pv, n_nodes, with_labels=(pv == "LabelsReader")) for pv in provs}
    if mixed:
        obs["VideoReader"] = ({}, "not applicable", [])
    cases = []
    jc0 = {k: c[k] for k in ("H", "W", "maxH", "maxW", "sn", "sd", "ms", "s")}
    jc = jc0
    # the code reports (video_idx, frame_idx within the video); map our global frame number to that key
    keyof, cnt = {}, {}
    for fid_, fr_ in enumerate(frames):
        v_ = int(fr_.get("video", 0))
        keyof[fid_] = (v_, cnt.get(v_, 0))
        cnt[v_] = cnt.get(v_, 0) + 1
    for pv, other in ((("LabelsReader", "VideoReader"),) if mixed else (("LabelsReader", "VideoReader"), ("VideoReader", "LabelsReader"))):
        res, raised, stubs = obs[pv]
        ores, oraised, _ = obs[other]
        if raised:
            cases.append(dict(id=cid0 + len(cases), kind=kind, provider=pv, cfg=jc, raised=raised, count_ok=True, has_other=False, kps=[], frame=-1, full=c))
            continue
        for fid, fr in enumerate(frames):
            jc = dict(jc0, H=fr["hw"][0], W=fr["hw"][1])   # every frame is judged with its own size (own eff_scale)
            animals = [a for a in fr["animals"] if np.any(np.isfinite(a))]
            preds = res.get(keyof[fid], [])
            opreds = ores.get(keyof[fid], []) if not oraised else []
            if kind == "topdown":
                preds = [p for p in preds]
            count_ok = len(preds) == len(animals) if kind == "topdown" else (len(preds) == 1)
            pairs = associate(animals, preds) if count_ok else [None] * len(animals)
            opairs = associate(animals, opreds) if (not oraised and len(opreds) == len(preds)) else [None] * len(animals)
            if not animals and count_ok:
                continue
            if not count_ok:
                cases.append(dict(id=cid0 + len(cases), kind=kind, provider=pv, cfg=jc, raised="", count_ok=False, has_other=False, kps=[], frame=fid, full=c,
                                  detail="%d predicted instances for %d animals" % (len(preds), len(animals))))
                continue
            for ai, a in enumerate(animals):
                p, v, s = preds[pairs[ai]][:3]
                lp = preds[pairs[ai]][3] if len(preds[pairs[ai]]) > 3 else None
                op = opreds[opairs[ai]][0] if opairs[ai] is not None else None
                kps = []
                for n in range(n_nodes):
                    vis = bool(np.all(np.isfinite(a[n])))
                    pn = bool(np.any(np.isnan(p[n])))
                    on = bool(op is None or np.any(np.isnan(op[n])))
                    kps.append(dict(kx=to_u(a[n][0]) if vis else 0, ky=to_u(a[n][1]) if vis else 0, vis=vis,
                                    px=0 if pn else to_u(p[n][0]), py=0 if pn else to_u(p[n][1]), pnan=pn,
                                    pval=0 if (math.isnan(v[n]) or v[n] == 0) else max(1, int(round(v[n] * 10000))),
                                    ox=0 if on else to_u(op[n][0]), oy=0 if on else to_u(op[n][1]), onan=on,
                                    lx=0 if (lp is None or np.any(np.isnan(lp[n]))) else to_u(lp[n][0]),
                                    ly=0 if (lp is None or np.any(np.isnan(lp[n]))) else to_u(lp[n][1]),
                                    lnan=bool(lp is None or np.any(np.isnan(lp[n])))))
                cases.append(dict(id=cid0 + len(cases), kind=kind, provider=pv, cfg=jc, raised="", count_ok=True, has_other=op is not None,
                                  kps=kps, frame=fid, full=c, has_labels=(pv == "LabelsReader" and lp is not None)))
    return cases


def key_of(c, clause):
    key = dict(where="SingleInstancePredictor" if c["kind"] == "single" else "TopDownPredictor", kind=clause, provider=c["provider"])
    if clause in ("keypoint_outside_bound", "providers_disagree"):
        key["scale_is_1"] = (c["cfg"]["sn"] == c["cfg"]["sd"])
    if clause == "raised":
        key["error"] = c["raised"].split(":")[0]
    return key


def run(tier, seed, replay_case=None):
    from loguru import logger
    logger.disable("sleap_nn")
    res = Result("C02")
    rng = random.Random(seed)
    r = check_model("MC_InferPlane", MC % tier, timeout=1200, require_actions=("SizeMatch", "Resize", "Pad", "Net", "Decode"))
    res.add_mc("MC_InferPlane (%s grid)" % tier, r, "as-coded size/resample arithmetic: decode within tight bound, tight bound within closed form")
    if r.violation:
        raise TLCError("InferPlane design check failed: %s\n%s" % (r.violation, r.out[-1500:]))
    n_cfg = dict(quick=(70, 50), thorough=(700, 500))[tier]
    cases, skipped = [], 0
    todo = []
    if replay_case is not None:
        todo = [(replay_case["kind"], replay_case["full"], replay_case["scene_seed"])]
    else:
        for kind, n in (("single", n_cfg[0]), ("topdown", n_cfg[1])):
            for k in range(n):
                todo.append((kind, None, seed * 1000003 + len(todo)))
    for kind, c, sseed in todo:
        srng = random.Random(sseed)
        c = c or gen_cfg(srng, kind)
        frames = gen_scene(srng, c, kind)
        if frames is None:
            skipped += 1
            continue
        new = cases_for(kind, c, frames, 3, len(cases))
        for x in new:
            x["scene_seed"] = sseed
        cases += new
    keep = ("id", "cfg", "raised", "count_ok", "has_other", "kps", "has_labels")
    for c in cases:
        c.setdefault("has_labels", False)
    j = judge("Judge_C02", [{k: v for k, v in c.items() if k in keep} for c in cases], timeout=1200)
    res.add_judge("Judge_C02", j, "%d (configuration, provider, frame, animal) cases" % len(cases))
    for cid, clause in j["rejected"]:
        c = cases[int(cid)]
        res.violation(key_of(c, clause), clause, dict(kind=c["kind"], full=c["full"], scene_seed=c["scene_seed"], provider=c["provider"], frame=c["frame"], kps=c["kps"]),
                      "%s %s frame=%s %s %s" % (c["provider"], c["full"], c["frame"], c["raised"], c.get("detail", "")))
    if j["rejected_n"] > len(j["rejected"]):
        res.coverage["rejections_not_listed"] = j["rejected_n"] - len(j["rejected"])
    res.clause("configurations_skipped_image_too_small_for_general_position", skipped)
    res.clause("keypoints_judged", sum(len(c["kps"]) for c in cases))
    res.clause("invisible_keypoints", sum(1 for c in cases for k in c["kps"] if not k["vis"]))
    res.clause("cases_scale_not_1", sum(1 for c in cases if c["cfg"]["sn"] != c["cfg"]["sd"]))
    res.clause("cases_in_runs_mixing_two_frame_sizes", sum(1 for c in cases if c["full"].get("H2")))
    res.clause("cases_downscaled_by_size_matching", sum(1 for c in cases if c["cfg"]["maxH"] and (c["cfg"]["maxH"] < c["cfg"]["H"] or (c["cfg"]["maxW"] and c["cfg"]["maxW"] < c["cfg"]["W"]))))
    res.clause("cases_size_matched", sum(1 for c in cases if c["cfg"]["maxH"]))
    res.coverage.update(evaluations=len(cases), exhaustive=False,
                        distinct_nontrivial=len({(c["kind"], str(c["full"]), c["provider"], c["frame"], str(c["kps"])) for c in cases if c["kps"]}),
                        rule="seeded configurations from sizes x max sizes x scales {1, 1/2} (both stages) x max_stride {8,16} x output strides {1,2,4} x crop_hw {24,32} x {24,32,40} (non-square included) x refinement x batch {1,3} x both providers; max sizes larger / smaller than the image and one-sided; 40% of the size-matched runs mix frames of two sizes (two videos, labels provider only: per-frame eff_scale); 3 frames per run, keypoints on the quarter-pixel lattice at least two cells inside the image / crop; non-trivial = a case with judged keypoints")
    if cases:
        c = next((c for c in cases if c["kps"]), cases[0])
        res.sample(dict(kind=c["kind"], cfg=c["full"], provider=c["provider"], kps=c["kps"][:3]))
    res.assumptions += ["ideal network = stub that fits the content affine of the tensor it receives (residual < 0.25 px) and renders Gaussian maps; peak threshold 0.2",
                        "bound includes the size-rounding drift of integer target sizes (the C04 known finding) so that it is not re-reported here",
                        "association of predicted instances to animals by nearest visible nodes is harness bookkeeping"]
    return res


def replay(rp, seed):
    return run("quick", seed, replay_case=rp["case"])
