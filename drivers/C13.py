"""C13: frame readers deliver each frame once, in order, and always end the stream.

design check : MC_FrameStream - all interleavings for n<=4, cap<=3, b<=3, a fault at every position;
               safety invariants + termination under weak fairness; counter-model without `finally` must hang
spec -> code  : every maximal path of TLC's dumped state graph is forced, step by step, on the real
               VideoReader / LabelsReader thread and the real Predictor._predict_generator
code -> spec  : free-running threads with random yields, larger constants; the recorded event trace
               (ordered under the queue mutex) is validated by Trace_FrameStream
"""
import random
import threading
import time

from harness.evidence import Result
from harness.tlc import check_model, judge, TLCError

MC_CFG = """CONSTANTS MaxN = %d
 MaxCap = %d
 MaxB = %d
SPECIFICATION %s
INVARIANT TypeOK
INVARIANT InOrderOnce
INVARIANT OneEOS
INVARIANT FullBatches
INVARIANT AtEnd
INVARIANT Bounded
INVARIANT NothingAfterEOS
INVARIANT NoDeadlock
%s
CHECK_DEADLOCK FALSE
"""
TRACE_CFG = "INIT Init\nNEXT Next\nCONSTRAINT Check\nPOSTCONDITION Report\nCHECK_DEADLOCK FALSE\n"
ACTIONS = ("ProdRead", "ProdPut", "ProdEOS", "ConsGet", "ConsInfer", "ConsJoin")


class StubModel:
    """inference_model stand-in: announces the batch it is given and echoes the metadata."""

    def __init__(self, sched, pos_of):
        self.sched, self.pos_of, self.calls = sched, pos_of, []

    def __call__(self, ex):
        fidx = [int(x) for x in ex["frame_idx"]]
        vidx = [int(x) for x in ex["video_idx"]]
        pos = [self.pos_of(v, f) for v, f in zip(vidx, fidx)]
        self.sched.arrive("cons", "infer", pos)
        self.sched.log("infer", pos)
        img = ex["image"]
        pix = [int(round(float(img[i].max()) * 255)) for i in range(img.shape[0])]
        self.calls.append(dict(pos=pos, frame_idx=fidx, video_idx=vidx, pix=pix,
                               orig_size=[[int(a) for a in r] for r in ex["orig_size"]],
                               eff_scale=[round(float(s), 6) for s in ex["eff_scale"]]))
        return [{"frame_idx": ex["frame_idx"], "video_idx": ex["video_idx"], "orig_size": ex["orig_size"]}]


def build(provider, cfg, sched, start=0, qsize_arg=None):
    """Real SingleInstancePredictor + real make_pipeline (providers.Queue / sio loaders substituted)."""
    import torch
    from omegaconf import OmegaConf
    import sleap_nn.data.providers as prov
    from sleap_nn.inference.predictors import SingleInstancePredictor
    from harness.fakes import FakeLabels, FakeVideo
    from harness.sched import SchedQueue

    n, fail = cfg["n"], cfg["fail"]
    gt = False
    SchedQueue.sched = sched
    SchedQueue.created = []
    conf = OmegaConf.create({
        "model_config": {"backbone_config": {"unet": {"max_stride": 1}},
                         "head_configs": {"single_instance": {"confmaps": {"output_stride": 1}}}},
        "data_config": {"preprocessing": {"scale": 1.0, "is_rgb": False, "max_height": None, "max_width": None}},
    })
    meta = {}
    if provider == "VideoReader" and cfg.get("real"):
        # the repository's asset video through real decoding (sleap-io / imageio-ffmpeg), expectations from a second,
        # independently opened Video object
        import os
        import sleap_io as sio
        from harness import shim
        from harness.fakes import RealVideo
        fn = os.path.join(shim.REPO, "tests/assets/centered_pair_small.mp4")
        ref = sio.load_video(fn)
        video = RealVideo(sio.load_video(fn), fail_idx=(start + fail - 1) if fail else None, sched=sched)
        meta["expect"] = [dict(frame_idx=start + p - 1, video_idx=0, size=[int(ref.shape[1]), int(ref.shape[2])], pix=int(ref[start + p - 1].max()))
                          for p in range(1, n + 1)]
        pos_of = lambda v, f: f - start + 1
        loader = ("load_video", lambda fn_, **kw: video)
        kw = dict(video_start_idx=start, video_end_idx=start + n)
    elif provider == "VideoReader":
        # the range is given explicitly, or its end is left open (None: "to the end of the video" - the video then ends
        # exactly there) and a start of 0 is left out too
        open_end = (start + n) % 2 == 0
        total = start + n + (0 if open_end else 2)
        video = FakeVideo(total, 6, 10, 1, fail_idx=(start + fail - 1) if fail else None, sched=sched)
        meta["expect"] = [dict(frame_idx=start + p - 1, video_idx=0, size=[6, 10], pix=((start + p - 1) % 251) + 1) for p in range(1, n + 1)]
        pos_of = lambda v, f: f - start + 1
        loader = ("load_video", lambda fn, **kw: video)
        kw = dict(video_start_idx=(None if (open_end and start == 0) else start), video_end_idx=(None if open_end else start + n))
    else:
        gt = provider == "LabelsReaderGT"
        provider = "LabelsReader"
        sizes = [[(6, 10), (8, 6), (6, 10)], [(4, 12), (8, 8)]]
        vids = [FakeVideo(200, c=1, sizes=[sizes[0][i % 3] for i in range(200)]), FakeVideo(200, c=1, sizes=[sizes[1][i % 2] for i in range(200)])]
        frames = [((p + start) % 2, 3 * p + start) for p in range(n)]  # alternating videos, non-contiguous increasing frame_idx
        inst, skel = None, None
        if gt:
            # the reader as the top-down predictor uses it when centroids come from the labels (instances_key=True): frames
            # carry their instances; some labelled frames have none, or only an empty one - they are frames all the same
            from harness.fakes import FakeInst, FakeSkel
            inst = {p: (() if (p + start) % 3 == 1 else (FakeInst(empty=True),) if (p + start) % 5 == 4 else tuple(FakeInst(seed=7 * p + q) for q in range(1 + p % 2)))
                    for p in range(n)}
            skel = [FakeSkel(2)]
        labels = FakeLabels(vids, frames, fail_pos=(fail - 1) if fail else None, sched=sched, instances=inst, skeletons=skel)
        meta["expect"] = [dict(frame_idx=fi, video_idx=vi, size=list(vids[vi].sizes[fi]), pix=(fi % 251) + 1) for (vi, fi) in frames]
        index = {(vi, fi): p + 1 for p, (vi, fi) in enumerate(frames)}
        fonly = {fi: p + 1 for p, (vi, fi) in enumerate(frames)}
        pos_of = lambda v, f: index.get((v, f), fonly.get(f, -99))  # wrong video_idx is judged by record_metadata
        loader = ("load_slp", lambda fn, **kw: labels)
        kw = {}
        conf.data_config.preprocessing.max_height = 8
        conf.data_config.preprocessing.max_width = 12
    if provider == "LabelsReader" and gt:
        from sleap_nn.inference.predictors import TopDownPredictor
        pred = TopDownPredictor(centroid_config=None, confmap_config=conf, centered_instance_backbone_type="unet", batch_size=cfg["b"], preprocess_config=None)
        pred.instances_key = True
    else:
        pred = SingleInstancePredictor(confmap_config=conf, batch_size=cfg["b"], preprocess_config=None)
    old = (prov.Queue, getattr(prov.sio, loader[0]))
    prov.Queue = SchedQueue
    setattr(prov.sio, loader[0], loader[1])
    try:
        pred.make_pipeline(provider, "fake", queue_maxsize=cfg["cap"], **kw)
    finally:
        prov.Queue = old[0]
        setattr(prov.sio, loader[0], old[1])
    if len(SchedQueue.created) != 1:
        raise TLCError("expected exactly one queue to be created, got %d" % len(SchedQueue.created))
    rq = SchedQueue.created[0]
    meta["maxsize"] = rq.maxsize
    stub = StubModel(sched, pos_of)
    pred.inference_model = stub
    pipe = pred.pipeline
    pipe.daemon = True
    real_run, real_join = pipe.run, pipe.join

    def run_w():
        sched.register("prod")
        try:
            real_run()
        except BaseException:
            pass
        finally:
            sched.finish("prod")

    def join_w(timeout=None):
        sched.arrive("cons", "join", None)
        real_join(timeout=60.0)  # generous: a loaded machine must not turn a slow thread exit into a false alarm
        if pipe.is_alive():
            sched.problems.append("join returned while the reader thread is alive")
        sched.log("join")

    pipe.run, pipe.join = run_w, join_w
    outs = []

    def consume():
        sched.register("cons")
        try:
            for o in pred._predict_generator():
                outs.append({k: (v.tolist() if hasattr(v, "tolist") else v) for k, v in o.items()})
            sched.log("end")
        except BaseException as e:
            if type(e).__name__ != "SchedAbort":
                sched.problems.append("consumer raised %s: %s" % (type(e).__name__, e))
        finally:
            sched.finish("cons")

    ct = threading.Thread(target=consume, daemon=True)
    return dict(pred=pred, pipe=pipe, q=rq, stub=stub, outs=outs, cons=ct, meta=meta, pos_of=pos_of, real_join=real_join)


PPC_OF = {"read": "read", "put": "put", "eos": "eos", "finished": "done"}
CPC_OF = {"get": "get", "infer": "infer", "join": "join", "finished": "end"}


def forced_replay(provider, g, init, path, start=0):
    """Force one maximal spec path on the real threads.  Returns None or (clause, detail)."""
    from harness.sched import Sched

    st0 = g.states[init]
    cfg = st0["cfg"]
    sched = Sched(forced=True)
    H = build(provider, cfg, sched, start)
    try:
        if H["meta"]["maxsize"] != cfg["cap"]:
            return ("queue_capacity", "queue created with maxsize=%r, requested %d" % (H["meta"]["maxsize"], cfg["cap"]))
        H["cons"].start()

        def observe():
            p = sched.where("prod")
            c = sched.where("cons")
            return p, c

        def compare(st, stepno, act):
            p, c = observe()
            if p is None or c is None:
                return ("blocked", "after step %d (%s): %s did not reach a hook point" % (stepno, act, "producer" if p is None else "consumer"))
            pk = p if p == "finished" else p[0]
            ck = c if c == "finished" else c[0]
            # a thread parked at an observation point (it looked at the queue and was pre-empted) has not reached its next
            # action yet: its position is compared when the schedule needs it (advance() below)
            if pk != "observe" and PPC_OF.get(pk) != st["ppc"]:
                return ("producer_step", "after step %d (%s): producer at %r, spec ppc=%s" % (stepno, act, p, st["ppc"]))
            if ck != "observe" and CPC_OF.get(ck) != st["cpc"]:
                return ("consumer_step", "after step %d (%s): consumer at %r, spec cpc=%s" % (stepno, act, c, st["cpc"]))
            if pk in ("read", "put") and pi_of(pk, p[1]) != st["pi"]:
                return ("producer_index", "after step %d (%s): producer %r, spec pi=%d" % (stepno, act, p, st["pi"]))
            if ck == "infer" and list(c[1]) != list(st["batch"]):
                return ("batch_content", "after step %d (%s): consumer infers %r, spec batch=%r" % (stepno, act, c[1], st["batch"]))
            rq = [(0 if x == -1 else H["pos_of_idx"](x)) for x in H["q"].content()]
            if rq != list(st["q"]):
                return ("queue_content", "after step %d (%s): real queue %r, spec q=%r" % (stepno, act, rq, st["q"]))
            if H["q"].full() != (len(st["q"]) >= cfg["cap"]):
                return ("queue_full_flag", "after step %d (%s): real full()=%s, spec Len(q)=%d cap=%d" % (stepno, act, H["q"].full(), len(st["q"]), cfg["cap"]))
            got = [c_["pos"] for c_ in H["stub"].calls]
            if got != [list(b) for b in st["out"]]:
                return ("out_batches", "after step %d (%s): inferred batches %r, spec out=%r" % (stepno, act, got, st["out"]))
            if sched.problems:
                return ("harness_problem", "; ".join(sched.problems))
            return None

        # producer index: "read" announces the index passed to video[idx] / the labels position,
        # "put" announces the frame_idx stored in the item
        exp = H["meta"]["expect"]
        fmap = {e["frame_idx"]: p + 1 for p, e in enumerate(exp)}
        if provider == "VideoReader":
            H["pos_of_idx"] = lambda fi: fi - start + 1
        else:
            H["pos_of_idx"] = lambda fi: fmap.get(fi, -99)

        def pi_of(kind, a):
            if provider == "VideoReader":
                return a - start + 1
            return (a + 1) if kind == "read" else fmap.get(a, -99)

        compare_all = compare
        bad = compare_all(st0, 0, "Init")
        if bad:
            return bad
        prev = st0
        for k, (act, sid) in enumerate(path, 1):
            role = "prod" if act.startswith("Prod") else "cons"
            # the role's next action is due: let it run on from any observation point to its next real hook point, which
            # must be the action the specification takes now
            w, spins = sched.where(role), 0
            while w is not None and w != "finished" and w[0] == "observe" and spins < 200:
                w, spins = sched.step(role), spins + 1
            if w is None or spins >= 200:
                return ("blocked", "step %d (%s): thread did not get from an observation point to a hook point" % (k, act))
            wk = w if w == "finished" else w[0]
            want_pc = prev["ppc"] if role == "prod" else prev["cpc"]
            if (PPC_OF if role == "prod" else CPC_OF).get(wk) != want_pc:
                return ("producer_step" if role == "prod" else "consumer_step",
                        "before step %d (%s): %s at %r after acting on an earlier observation, spec pc=%s" % (k, act, role, w, want_pc))
            prev = g.states[sid]
            if sched.step(role) is None:
                return ("blocked", "step %d (%s): thread did not complete the granted step within %.1fs" % (k, act, sched.timeout))
            bad = compare_all(g.states[sid], k, act)
            if bad:
                return bad
        # final state: both threads finished, records carry the right metadata
        for role in ("prod", "cons"):        # a thread still parked at an observation point runs on to its end
            w, spins = sched.where(role, 1.0), 0
            while w is not None and w != "finished" and w[0] == "observe" and spins < 200:
                w, spins = sched.step(role), spins + 1
        H["cons"].join(3.0)
        if H["cons"].is_alive() or H["pipe"].is_alive():
            return ("liveness", "threads alive after the terminal state")
        last = g.states[path[-1][1]] if path else st0
        flat = [p for b in last["out"] for p in b]
        meta = [(c["frame_idx"][i], c["video_idx"][i], c["orig_size"][i], c["pix"][i]) for c in H["stub"].calls for i in range(len(c["pos"]))]
        want = [(exp[p - 1]["frame_idx"], exp[p - 1]["video_idx"], exp[p - 1]["size"], exp[p - 1]["pix"]) for p in flat]
        if meta != want:
            return ("record_metadata", "records (frame_idx, video_idx, orig_size, pixel) %r, expected %r" % (meta, want))
        yielded = [int(x) for o in H["outs"] for x in o["frame_idx"]]
        if yielded != [w[0] for w in want]:
            return ("yielded_frame_idx", "yielded %r expected %r" % (yielded, [w[0] for w in want]))
        return None
    finally:
        sched.abort()
        if H["cons"].ident is not None:
            H["cons"].join(1.0)


def free_run(provider, cfg, seed, start=0, watchdog=90.0):
    """Free-running threads; returns the recorded trace (events as [kind, arg])."""
    from harness.sched import Sched

    sched = Sched(forced=False, seed=seed)
    H = build(provider, cfg, sched, start)
    H["cons"].start()
    # watchdog = deadlock detection, not wall-clock guessing (robust on a loaded machine): the run is hung when the
    # reader thread is dead, the queue is empty and the consumer is still waiting - nobody can ever wake it.
    t_end, stuck_since, hang = time.time() + watchdog, None, False
    while H["cons"].is_alive():
        H["cons"].join(0.05)
        if not H["cons"].is_alive():
            break
        started = H["pipe"].ident is not None
        dead_reader = started and not H["pipe"].is_alive()
        if dead_reader and H["q"].qsize() == 0:
            stuck_since = stuck_since or time.time()
            if time.time() - stuck_since > 1.5:
                hang = True
                break
        else:
            stuck_since = None
        if time.time() > t_end:
            hang = True
            break
    if not hang:
        H["real_join"](5.0)  # the un-wrapped Thread.join: must not add a trace event
        hang = H["pipe"].is_alive()
    exp = H["meta"]["expect"]
    fmap = {e["frame_idx"]: p + 1 for p, e in enumerate(exp)}

    def pos(kind, a):
        if kind in ("read", "readfail"):
            return (a - start + 1) if provider == "VideoReader" else a + 1
        if kind == "put":
            return (a - start + 1) if provider == "VideoReader" else fmap.get(a, -99)
        if kind == "get":
            return -1 if a == -1 else ((a - start + 1) if provider == "VideoReader" else fmap.get(a, -99))
        if kind == "infer":
            return list(a)
        return 0

    with sched.seqlock:
        evs = sorted(sched.events)
    ev = [[k, pos(k, a)] for _, k, a in evs]
    meta_ok = True
    for c in H["stub"].calls:
        for i, p in enumerate(c["pos"]):
            e = exp[p - 1] if 1 <= p <= len(exp) else None
            if e is None or (c["frame_idx"][i], c["video_idx"][i], c["orig_size"][i], c["pix"][i]) != (e["frame_idx"], e["video_idx"], e["size"], e["pix"]):
                meta_ok = False
    if hang:
        sched.forced = True  # make remaining hooks raise
        sched.abort()
    return dict(cfg=dict(cfg), ev=ev, hang=hang, meta_ok=meta_ok, maxsize=H["meta"]["maxsize"], problems=list(sched.problems))


def inductive_check(res, kq):
    """Unbounded safety: Apalache discharges an inductive invariant over the SAME actions (FrameStream.tla up to its
    ==PROPERTIES== marker + spec/FrameStreamInd.tla.in), for arbitrary n, cap, b, fail; plus non-vacuity probes."""
    import os
    import shutil
    import subprocess
    import tempfile
    from concurrent.futures import ThreadPoolExecutor
    from harness.tlc import SPEC_DIR

    src = open(os.path.join(SPEC_DIR, "FrameStream.tla")).read()
    head = src[:src.index("\\* ==PROPERTIES==")]
    head = head.replace("MODULE FrameStream ", "MODULE FrameStreamInd ").replace(
        "EXTENDS Naturals, Sequences, SequencesExt, FiniteSets, TLC", "EXTENDS Integers, Sequences, FiniteSets, Apalache\nKQ == %d" % kq)
    if "Apalache" not in head:
        raise TLCError("could not derive the Apalache module from FrameStream.tla")
    tmp = tempfile.mkdtemp(prefix="verif_apa_")
    try:
        with open(os.path.join(tmp, "FrameStreamInd.tla"), "w") as f:
            f.write(head + open(os.path.join(SPEC_DIR, "FrameStreamInd.tla.in")).read())
        obligations = [("Init => IndInv", "IInit0", "IndInv", 0, "NoError"), ("IndInv /\\ Next => IndInv'", "IndInit", "IndInv", 1, "NoError"),
                       ("IndInv => Safety", "IndInit", "Safety", 0, "NoError"),
                       ("probe: terminal states admitted", "IndInit", "ProbeNeverEnds", 0, "Error"),
                       ("probe: partial batches admitted", "IndInit", "ProbeNoPartialBatch", 0, "Error"),
                       ("probe: faults admitted", "IndInit", "ProbeNoFault", 0, "Error"),
                       ("probe: full queue admitted", "IndInit", "ProbeQueueNeverFull", 0, "Error")]

        def one(k_ob):
            k, (name, init, inv, length, want) = k_ob
            cmd = ["apalache-mc", "check", "--next=FSNext", "--init=" + init, "--inv=" + inv, "--length=%d" % length,
                   "--out-dir=" + os.path.join(tmp, "out%d" % k), "FrameStreamInd.tla"]
            p = subprocess.run(cmd, cwd=tmp, stdout=subprocess.PIPE, stderr=subprocess.STDOUT, text=True, timeout=1800)
            got = "NoError" if "The outcome is: NoError" in p.stdout else ("Error" if "The outcome is: Error" in p.stdout else "?")
            return name, want, got, p.stdout[-600:]

        with ThreadPoolExecutor(max_workers=4) as ex:
            outs = list(ex.map(one, list(enumerate(obligations))))
        bad = [(n, w, g, o) for n, w, g, o in outs if w != g]
        if bad:
            raise TLCError("Apalache obligation '%s': expected %s, got %s\n%s" % bad[0])
        res.coverage["inductive_invariant"] = dict(tool="apalache-mc 0.58", obligations=[o[0] for o in outs], discharged=len(outs),
                                                   seq_bound_in_inductive_step=kq,
                                                   note="safety clauses of C13 for arbitrary n, cap, b, fail (sequence lengths per state bounded by Gen(%d))" % kq)
    finally:
        shutil.rmtree(tmp, ignore_errors=True)


def run(tier, seed):
    from loguru import logger
    from harness.graph import dump_graph

    logger.disable("sleap_nn")
    res = Result("C13")
    rng = random.Random(seed)
    # ---- design check ---------------------------------------------------------------------
    r = check_model("MC_FrameStream", MC_CFG % (4, 3, 3, "Spec", "PROPERTY Terminates"), timeout=600, require_actions=ACTIONS)
    res.add_mc("MC_FrameStream n<=4 cap<=3 b<=3 fail<=n (135 configurations)", r, "8 invariants + Terminates under WF(Producer), WF(Consumer)")
    if r.violation:
        raise TLCError("FrameStream design check failed: %s\n%s" % (r.violation, r.out[-1500:]))
    r2 = check_model("MC_FrameStream", "CONSTANTS MaxN = 2\n MaxCap = 1\n MaxB = 1\nSPECIFICATION SpecNoFinally\nPROPERTY Terminates\nCHECK_DEADLOCK FALSE\n", timeout=900, expect_violation=("temporal", ""))
    res.add_mc("MC_FrameStream counter-model (sentinel not in finally)", r2, "must violate Terminates: shows the fault clause is not vacuous")
    if tier == "thorough":
        r3 = check_model("MC_FrameStream", MC_CFG % (6, 4, 4, "Spec", "PROPERTY Terminates"), timeout=1800)
        res.add_mc("MC_FrameStream n<=6 cap<=4 b<=4", r3)
        if r3.violation:
            raise TLCError("FrameStream design check failed: %s" % (r3.violation,))
    inductive_check(res, 3 if tier == "quick" else 6)
    # ---- spec -> code: forced replay of every maximal path ------------------------------------
    gr, g = dump_graph("MC_FrameStream", MC_CFG % (4, 3, 3, "Spec", ""))
    memo, jobs = {}, []
    per_cfg_cap = 40 if tier == "quick" else 10 ** 9
    total_paths = 0
    for init in g.init:
        cnt = g.count_paths(init, memo)
        total_paths += cnt
        if cnt <= per_cfg_cap:
            paths = list(g.all_paths(init))
        else:
            paths = [g.sample_path(init, rng, memo) for _ in range(per_cfg_cap)]
        for i, p in enumerate(paths):
            jobs.append((init, p))
    n_forced = 0
    t0 = time.time()
    for k, (init, p) in enumerate(jobs):
        provider = "VideoReader" if k % 2 == 0 else ("LabelsReader" if k % 4 == 1 else "LabelsReaderGT")
        if tier == "thorough":
            provs = ("VideoReader", "LabelsReader", "LabelsReaderGT")
        else:
            provs = (provider,)
        for pv in provs:
            start = (k * 7) % 5
            bad = forced_replay(pv, g, init, p, start)
            n_forced += 1
            if bad:
                case = dict(kind="forced", provider=pv, cfg=g.states[init]["cfg"], start=start, schedule=[a for a, _ in p])
                res.violation(dict(where=pv, kind="forced_schedule", clause=bad[0]), bad[0], case, bad[1])
    res.coverage["forced_schedules"] = n_forced
    res.coverage["spec_paths_total"] = total_paths
    res.coverage["forced_wall_s"] = round(time.time() - t0, 1)
    if jobs:
        res.sample(dict(kind="forced schedule", cfg=g.states[jobs[-1][0]]["cfg"], actions=[a for a, _ in jobs[-1][1]]))
    # ---- code -> spec: free-running traces ---------------------------------------------------------
    n_free = 400 if tier == "quick" else 6000
    traces = []
    for i in range(n_free):
        n = rng.choice([0, 1, 2, 3, 5, 8, 13, 24, 40]) if i % 3 else rng.randint(0, 12)
        cfg = dict(n=n, cap=rng.randint(1, 8), b=rng.randint(1, 8), fail=(rng.randint(1, n) if n and rng.random() < 0.35 else 0))
        pv = "VideoReader" if i % 2 == 0 else ("LabelsReader" if i % 4 == 1 else "LabelsReaderGT")
        start = rng.randint(0, 6)
        if i % 10 == 4:               # the repository's asset video through real decoding instead of FakeVideo
            cfg["n"] = min(cfg["n"], 12)
            cfg["fail"] = min(cfg["fail"], cfg["n"])
            cfg["real"] = True
        t = free_run(pv, cfg, seed * 100003 + i, start)
        t["id"] = i
        t["provider"] = pv
        t["start"] = start
        traces.append(t)
        if t["maxsize"] != cfg["cap"]:
            res.violation(dict(where=pv, kind="free_run", clause="queue_capacity"), "queue_capacity", t, "maxsize=%r" % t["maxsize"])
        if not t["meta_ok"]:
            res.violation(dict(where=pv, kind="free_run", clause="record_metadata"), "record_metadata", t)
    j = judge("Trace_FrameStream", [dict(id=t["id"], cfg={k: v for k, v in t["cfg"].items() if k != "real"}, ev=t["ev"]) for t in traces], cfg_text=TRACE_CFG, per_shard_min=50)
    res.add_judge("Trace_FrameStream", j, "free-running reader/consumer threads, n<=40, cap<=8, b<=8")
    res.clause("free_runs_on_the_real_video_file", sum(1 for t in traces if t["cfg"].get("real")))
    byid = {t["id"]: t for t in traces}
    for cid, clause in j["rejected"]:
        t = byid[int(cid)]
        res.violation(dict(where=t["provider"], kind="free_run", clause=clause.split("_for_event")[0]), clause, t, "hang=%s" % t["hang"])
    res.sample(dict(kind="free-run trace", cfg=traces[-1]["cfg"], events=traces[-1]["ev"][:14]))
    nontrivial = len({(t["provider"], str(t["cfg"]), str(t["ev"])) for t in traces if t["cfg"]["n"] >= 2})
    res.coverage.update(
        evaluations=n_forced + len(traces), distinct_nontrivial=nontrivial + len({(str(g.states[i]["cfg"]), str([a for a, _ in p])) for i, p in jobs if g.states[i]["cfg"]["n"] >= 1}),
        exhaustive=(tier == "thorough"),
        rule="forced: maximal paths of TLC's dumped state graph (all %d when thorough, <=%d per configuration when quick) replayed on the real threads, alternating VideoReader/LabelsReader; free: random configurations. Non-trivial = at least one frame (forced) / two frames (free), distinct by (configuration, schedule or event sequence)" % (total_paths, 40),
        faults_injected=sum(1 for t in traces if t["cfg"]["fail"]) + sum(1 for i, p in jobs if g.states[i]["cfg"]["fail"]))
    res.assumptions += ["thread steps between hook points are atomic w.r.t. the modelled state (queue ops are under queue.Queue.mutex)",
                        "video decoding replaced by FakeVideo/FakeLabels except in a tenth of the free VideoReader runs, which decode the repository's asset video; make_pipeline, from_filename, Queue construction, run(), _predict_generator are the real code"]
    return res


def replay(rp, seed):
    from loguru import logger
    from harness.graph import dump_graph

    logger.disable("sleap_nn")
    res = Result("C13")
    c = rp["case"]
    if c.get("kind") == "forced":
        gr, g = dump_graph("MC_FrameStream", MC_CFG % (4, 3, 3, "Spec", ""))
        init = next(i for i in g.init if g.states[i]["cfg"] == c["cfg"])
        path, n = [], init
        for a in c["schedule"]:
            m = next(m for aa, m in g.succ[n] if aa == a)
            path.append((a, m))
            n = m
        bad = forced_replay(c["provider"], g, init, path, c.get("start", 0))
        if bad:
            res.violation(rp["key"], bad[0], c, bad[1])
    else:
        t = free_run(c["provider"], c["cfg"], seed, c.get("start", 0))
        t["id"] = 0
        j = judge("Trace_FrameStream", [dict(id=0, cfg={k: v for k, v in t["cfg"].items() if k != "real"}, ev=t["ev"])], cfg_text=TRACE_CFG, shards=1)
        for cid, clause in j["rejected"]:
            res.violation(rp["key"], clause, t)
    return res
