"""C05: part-affinity-field targets point along each edge and vanish where they must.

design check : MC_Targets (Kinds = paf): segment-distance lemmas for every (source, destination) pair on
               the half-pixel lattice around a 4x4 image; an ideal field is accepted by PafClause; four
               named corruptions are rejected (non-vacuity of the judge).
spec -> code  : the design model's PafSpace (every (source, destination) pair incl. outside, coincident
               and missing endpoints x strides; TLC checks that the fed set EQUALS that space), all
               {visible, NaN, x-only-NaN}^6 patterns of 2 animals x 3 nodes x 2 edges.
code -> spec  : seeded random frames (<= 5 animals x 6 nodes, <= 64x64, strides 1,2,4,8) incl. animals
               wholly outside the image, in the margin strip, coincident nodes.
judge        : Judge_C05 (Targets!PafClause by TLC on every cell): one-animal calls against the
               definition, several-animal calls against the sum of the separate one-animal calls.
Python only projects (harness/targets_util.py); it computes no expected value.
"""
import itertools
import json
import os
import random
import tempfile

import numpy as np
import torch

from harness.evidence import Result
from harness.targets_util import NAN, Q, SIGMAS, lattice_tensor, project_pafs
from harness.tlc import TLCError, check_model, judge, run_tlc

MC_CFG = ("CONSTANT Side = 4\nCONSTANT CmStep = 1\nCONSTANT PafStep = %d\nCONSTANT Kinds = {\"paf\"}\n"
          "INIT Init\nNEXT Next\nINVARIANT PafLemmas\nINVARIANT PafIdealAccepted\nCHECK_DEADLOCK FALSE\n")
SPACE_CFG = ("CONSTANT Side = 4\nCONSTANT CmStep = 1\nCONSTANT PafStep = 1\nCONSTANT Kinds = {}\nCONSTANT Which = \"paf\"\n"
             "INIT SInit\nNEXT SNext\nCHECK_DEADLOCK FALSE\n")
MONO_CELLS = 48


# ------------------------------------------------------------------------------ real code ------
def call_real(inp, animals):
    """generate_pafs / PartAffinityFieldsGenerator on the chosen animals -> (tensor, reported shape)."""
    from sleap_nn.data.edge_maps import PartAffinityFieldsGenerator, generate_pafs

    H, W, s, api = inp["H"], inp["W"], inp["s"], inp["api"]
    sigma = inp["sn"] / inp["sd"]
    nodes = inp["nodes"]
    pts = lattice_tensor([inp["pts"][a] for a in animals], 2).reshape(1, len(animals), nodes, 2)
    # "mag": the same scene magnified K times (image, stride, keypoints and sigma all x K; exact in float32).  The field is
    # scale-covariant, so the judged case is unchanged - but the real code now works at image-scale coordinates (up to
    # 2048 px), where float32 round-off of a badly conditioned formula shows.
    K = int(inp.get("mag", 1))
    if K != 1:
        H, W, s, sigma, pts = H * K, W * K, s * K, sigma * K, pts * K
    # edge indices as an integer tensor, or as the float32 tensor the repository's own datasets pass (torch.Tensor(edge_inds)),
    # or int32 - chosen by the scene, so that replays agree
    def kw(d_sigma, d_stride):
        """a value equal to the documented default of the entry point is LEFT OUT (the default is part of the interface)"""
        out = {}
        if sigma != d_sigma:
            out["sigma"] = sigma
        if s != d_stride:
            out["output_stride"] = s
        return out

    E = len(inp["edges"])
    dt = (torch.int64, torch.float32, torch.int32)[(H + W + E + len(animals)) % 3]
    edge_inds = torch.tensor(inp["edges"], dtype=dt).reshape(-1, 2)
    if api == "pipe":
        # the DataPipe consumes a STREAM: the judged example alone (spos 0), first of two (1), or second after an
        # example of another image size and other keypoints (2)
        spos = inp.get("spos", 0)
        ex = {"image": torch.zeros((1, 1, H, W)), "instances": pts}
        other = {"image": torch.zeros((1, 1, H + s * (1 + (W // s) % 2), max(s, W - s))), "instances": torch.flip(pts, dims=[-1]) * 0.5 + 1.0}
        stream = {0: [ex], 1: [ex, other], 2: [other, ex]}[spos]
        dp = PartAffinityFieldsGenerator(stream, edge_inds=edge_inds, flatten_channels=True, **kw(1.0, 1))
        outs = list(dp)
        if len(outs) != len(stream):
            raise AssertionError("stream of %d examples gave %d outputs" % (len(stream), len(outs)))
        out = outs[1 if spos == 2 else 0]["part_affinity_fields"]
    elif api == "fn4":
        out = generate_pafs(pts, (H, W), edge_inds=edge_inds, **kw(1.5, 2))          # flatten_channels left at its default (False)
        if out.ndim == 4 and out.shape[0] == E and out.shape[1] == 2:
            out = out.reshape(2 * E, out.shape[2], out.shape[3])     # the documented flattening of (E, 2, h, w)
    else:
        out = generate_pafs(pts, (H, W), edge_inds=edge_inds, flatten_channels=True, **kw(1.5, 2))
    return out


_PIPE_N = [0]


def make_input(fam, api, H, W, s, sig, nodes, edges, pts, mag=1):
    spos = 0
    if api == "pipe":
        _PIPE_N[0] += 1
        spos = _PIPE_N[0] % 3
    return dict(fam=fam, api=api, H=H, W=W, s=s, sn=sig[0], sd=sig[1], nodes=nodes, edges=edges, pts=pts, spos=spos, mag=mag)


def observe(inputs, rng, with_singles=True):
    """inputs -> cases.  An input with one animal gives one "single" case; an input with A != 1 animals
    gives one "multi" case (carrying the fields of the A separate calls) plus A "single" cases."""
    cases, calls = [], []      # calls: (case, slot, tensor) with slot = "f" or ("singles", a)
    for inp in inputs:
        A = len(inp["pts"])
        units = []
        if A == 1:
            units.append(("single", [0]))
        else:
            units.append(("multi", list(range(A))))
            if with_singles:
                units += [("single", [a]) for a in range(A)]
        multi_case = None
        for kind, animals in units:
            c = dict(inp)
            c["pts"] = [inp["pts"][a] for a in animals]
            c.update(kind=kind, frame_pts=inp["pts"], animals=animals, shape=[], f=[], nz=[], m=[], mono=[], singles=[], raised="")
            try:
                with torch.no_grad():
                    out = call_real(inp, animals)
                c["shape"] = [int(d) for d in out.shape]
                if out.ndim == 3:
                    calls.append((c, "f", out))
                    if kind == "multi":
                        multi_case = c
                        c["singles"] = [None] * A
                    elif multi_case is not None:
                        calls.append((multi_case, ("singles", animals[0]), out))
            except Exception as e:
                c["raised"] = "%s: %s" % (type(e).__name__, str(e)[:200])
            cases.append(c)
    groups = {}
    for c, slot, o in calls:
        groups.setdefault(tuple(o.shape), []).append((c, slot, o))
    for shape, grp in groups.items():
        if 0 in shape:
            for c, slot, o in grp:
                if slot == "f":
                    c["f"], c["nz"], c["m"] = [[] for _ in range(shape[0])], [0] * shape[0], [[] for _ in range(shape[0] // 2)]
                else:
                    c["singles"][slot[1]] = [[] for _ in range(shape[0])]
            continue
        pr = project_pafs(torch.stack([o for _, _, o in grp]))
        for n, (c, slot, _) in enumerate(grp):
            if slot == "f":
                c["f"] = pr["f"][n].tolist()
                c["nz"] = pr["nz"][n].tolist()
                if c["kind"] == "single":
                    m = pr["m"][n]
                    c["m"] = m.tolist()
                    cells = m.shape[1]
                    if cells <= MONO_CELLS:
                        c["mono"] = list(range(1, cells + 1))
                    else:       # any subset is sound; prefer cells that carry weight, fill up at random
                        pick = set()
                        for row in m:
                            pick.update((np.argsort(-row, kind="stable")[:8] + 1).tolist())
                        while len(pick) < MONO_CELLS:
                            pick.add(rng.randrange(1, cells + 1))
                        c["mono"] = sorted(pick)
            else:
                c["singles"][slot[1]] = pr["f"][n].tolist()
    for c in cases:
        if c["kind"] == "multi" and any(x is None for x in c["singles"]):
            c["singles"] = []          # a separate call failed: the clause reports single_call_shape
    return cases


# ------------------------------------------------------------------------------ families -------
def family_pairs(step=1):
    """The design model's PafSpace: 4x4 image, every (source, destination) pair on the half-pixel
    lattice of [-1, 5]^2 plus a missing point, strides 1 and 2."""
    lat = list(range(-2, 11, step))
    pts = [[x, y] for x in lat for y in lat] + [[NAN, NAN]]
    inputs, fed, n = [], [], 0
    for s in (1, 2):
        for a in pts:
            for b in pts:
                api = "pipe" if n % 5 == 0 else ("fn4" if n % 7 == 0 else "fn")
                inputs.append(make_input("pairs", api, 4, 4, s, SIGMAS[n % 4], 2, [[0, 1]], [[a, b]]))
                fed.append([s] + a + b)
                n += 1
    return inputs, fed


def family_nan_patterns():
    """All {visible, NaN, x-only-NaN}^6 patterns of 2 animals x 3 nodes x 2 edges on an 8x8 image."""
    bases = [[[[3, 4], [9, 8], [6, 13]], [[12, 3], [12, 11], [2, 10]]],
             [[[5, 5], [5, 5], [11, 2]], [[-3, 6], [8, 17], [13, 13]]]]     # coincident nodes / outside nodes
    inputs, n = [], 0
    for bi, base in enumerate(bases):
        for pat in itertools.product((0, 1, 2), repeat=6):
            pts = [[list(p) for p in an] for an in base]
            for k, t in enumerate(pat):
                if t == 1:
                    pts[k // 3][k % 3] = [NAN, NAN]
                elif t == 2:
                    pts[k // 3][k % 3][0] = NAN
            s = 1 + (n % 2)
            edges = [[0, 1], [1, 2]] if (n // 2) % 2 == 0 else [[1, 0], [0, 2]]
            api = ("fn", "fn", "pipe", "fn4")[n % 4]
            inputs.append(make_input("nan_patterns", api, 8, 8, s, SIGMAS[n % 4], 3, edges, pts))
            n += 1
    for s in (1, 2):
        inputs.append(make_input("no_animals", "fn", 8, 8, s, (1, 1), 3, [[0, 1], [1, 2]], []))
    return inputs


def random_tree_edges(rng, nodes):
    order = list(range(nodes))
    rng.shuffle(order)
    edges = [[order[rng.randrange(i)], order[i]] for i in range(1, nodes)]
    rng.shuffle(edges)
    return edges[:rng.randint(1, len(edges))]


def random_animal(rng, W, H, s, nodes, mode):
    xl, yl = 2 * ((W - 1) // s) * s, 2 * ((H - 1) // s) * s
    an = []
    cx, cy = rng.randint(2, max(2, 2 * W - 2)), rng.randint(2, max(2, 2 * H - 2))
    spread = rng.choice((6, 16, 40))
    for k in range(nodes):
        if mode == "outside":            # every node strictly beyond one border (which one varies per animal, not per node)
            side = an[0][2] if an else rng.randrange(4)
            p = [rng.randint(-4, 2 * W + 4), rng.randint(-4, 2 * H + 4)]
            if side == 0:
                p[0] = rng.randint(-4, -1)
            elif side == 1:
                p[0] = rng.randint(2 * W + 1, 2 * W + 4)
            elif side == 2:
                p[1] = rng.randint(-4, -1)
            else:
                p[1] = rng.randint(2 * H + 1, 2 * H + 4)
            an.append(p + [side])
            continue
        if mode == "margin":             # bottom / right strip between the last grid line and the image border, or x = 0
            side = an[0][2] if an else rng.randrange(3)
            if side == 0:
                p = [rng.randint(xl, 2 * W), rng.randint(0, 2 * H)]
            elif side == 1:
                p = [rng.randint(0, 2 * W), rng.randint(yl, 2 * H)]
            else:
                p = [0, rng.randint(0, 2 * H)]
            an.append(p + [side])
            continue
        p = [min(2 * W + 4, max(-4, cx + rng.randint(-spread, spread))), min(2 * H + 4, max(-4, cy + rng.randint(-spread, spread)))]
        u = rng.random()
        if u < 0.10:
            p = [NAN, NAN]
        elif u < 0.13:
            p[rng.randrange(2)] = NAN
        elif u < 0.21 and an:
            p = list(an[rng.randrange(len(an))][:2])         # coincident with an earlier node
        elif u < 0.45:
            p = [2 * s * rng.randint(0, (W - 1) // s), 2 * s * rng.randint(0, (H - 1) // s)]   # exactly on a grid cell
        an.append(p)
    return [p[:2] for p in an]


def random_frames(rng, budget):
    inputs, used = [], 0
    while used < budget:
        s = rng.choice((1, 2, 2, 4, 8))
        sides = [d for d in (8, 16, 24, 32, 48, 64) if d % s == 0 and (d // s) * (d // s) <= 1024 or d == 8]
        H, W = rng.choice(sides), rng.choice(sides)
        if s > 1 and rng.random() < 0.3:         # sizes the stride does not divide: the grid is still 0, s, 2s, ... < size
            H, W = rng.choice((H, 10, 11, 18, 27, 37)), rng.choice((W, 9, 13, 22, 30, 45))
        nodes = rng.randint(2, 6)
        edges = random_tree_edges(rng, nodes)
        A = rng.choice((1, 1, 2, 3, 4, 5))
        pts = [random_animal(rng, W, H, s, nodes, rng.choice(("in", "in", "in", "outside", "margin"))) for _ in range(A)]
        api = rng.choice(("fn", "fn", "pipe", "fn4"))
        inputs.append(make_input("random", api, H, W, s, rng.choice(SIGMAS), nodes, edges, pts))
        if rng.random() < 0.3:
            inputs[-1]["mag"] = rng.choice((16, 32))
        used += (A + (A > 1)) * len(edges) * (H // s) * (W // s)
    return inputs


# ------------------------------------------------------------------------------ bookkeeping ----
def where_of(c):
    return "PartAffinityFieldsGenerator" if c["api"] == "pipe" else "generate_pafs"


def visible(p):
    return p[0] != NAN and p[1] != NAN


def count_clauses(res, cases, stats):
    """Bookkeeping for the evidence only (how often each situation occurred); no verdicts."""
    for c in cases:
        cells = sum(len(ch) for ch in c["f"])
        res.coverage["cells_judged"] = res.coverage.get("cells_judged", 0) + cells
        res.clause("kind_" + c["kind"])
        res.clause("api_" + c["api"])
        if c.get("mag", 1) != 1:
            res.clause("case_magnified_to_image_scale_coordinates")
        res.clause("stride_%d" % c["s"])
        if c["kind"] == "multi":
            res.clause("multi_animals_%d" % len(c["pts"]))
            continue
        an = c["pts"][0]
        W, H, s = c["W"], c["H"], c["s"]
        xl, yl = 2 * ((W - 1) // s) * s, 2 * ((H - 1) // s) * s
        inside = any(visible(p) and 0 < p[0] < xl and 0 < p[1] < yl for p in an)
        touch = any(visible(p) and 0 <= p[0] <= 2 * W and 0 <= p[1] <= 2 * H for p in an)
        st = "in" if inside else ("margin" if touch else "out")
        res.clause("animal_" + st)
        live = False
        for k, (a, b) in enumerate(c["edges"]):
            pa, pb = an[a], an[b]
            if not (visible(pa) and visible(pb)):
                cls = "missing_endpoint"
            else:
                vv = (pa[0] - pb[0]) ** 2 + (pa[1] - pb[1]) ** 2
                cls = "zero_length" if vv == 0 else ("sub_pixel_excluded" if vv < 4 else "ok")
            res.clause("edge_" + cls)
            nzk = c["nz"][2 * k] + c["nz"][2 * k + 1] if len(c["nz"]) > 2 * k + 1 else 0
            if cls == "ok" and st != "out" and nzk:
                live = True
                res.clause("edge_with_nonzero_field")
                if c["m"] and max(c["m"][k]) >= Q - 2:
                    res.clause("edge_with_weight_1_cell")
            if cls == "ok" and st == "margin" and not nzk:
                res.clause("margin_animal_edge_all_zero(unspecified)")
        if live:
            stats["nontrivial"].add(hash(json.dumps([c["H"], c["W"], c["s"], c["edges"], c["pts"]])))


CASE_FIELDS = ("fam", "api", "H", "W", "s", "sn", "sd", "nodes", "edges", "spos", "mag")


def judge_round(res, name, inputs, note, stats, rng):
    cases = observe(inputs, rng)
    for n, c in enumerate(cases):
        c["id"] = n
    slim = [{k: v for k, v in c.items() if k not in ("frame_pts", "animals")} for c in cases]
    j = judge("Judge_C05", slim, per_shard_min=8, timeout=1500)
    res.add_judge(name, j, note)
    count_clauses(res, cases, stats)
    if j["rejected_n"] and not j["rejected"]:
        raise TLCError("rejections without ids")
    for cid, clause in j["rejected"]:
        c = cases[int(cid)]
        rcase = {k: c[k] for k in CASE_FIELDS}
        rcase["pts"] = c["pts"]              # the animals of THIS call (one for "single")
        res.violation(dict(where=where_of(c), kind=c["kind"], clause=clause), clause, rcase,
                      "%s(%s) %dx%d stride %d sigma %d/%d edges=%s pts(1/2 px)=%s: %s" % (
                          where_of(c), c["api"], c["H"], c["W"], c["s"], c["sn"], c["sd"], json.dumps(c["edges"]),
                          json.dumps(c["pts"]), c["raised"] or clause))
    return cases


def run(tier, seed):
    res = Result("C05")
    rng = random.Random(seed)
    quick = tier == "quick"
    step = 2 if quick else 1
    r = check_model("MC_Targets", MC_CFG % step, timeout=1500, require_actions=("PickCfg", "MakePAFs"))
    res.add_mc("MC_Targets Side=4 PafStep=%d Kinds={paf}" % step, r,
               "segment-distance lemmas for every (src, dst) pair; ideal field accepted by PafClause; "
               "corruptions rejected: %s" % "; ".join(r.printed("DETECT")))
    if r.violation:
        raise TLCError("design check failed: %s\n%s" % (r.violation, r.out[-2000:]))
    if len(r.printed("DETECT")) != 4:
        raise TLCError("design check: expected 4 DETECT lines, got %s" % r.printed("DETECT"))

    stats = dict(nontrivial=set())
    inputs, fed = family_pairs(1)
    cases = judge_round(res, "Judge_C05 all (src, dst) pairs", inputs,
                        "every (source, destination) pair on the 1/2-px lattice of [-1,5]^2 + missing point, 4x4 image, strides 1,2", stats, rng)
    ex = next(c for c in cases if c["nz"] and c["nz"][0] and c["nz"][1])
    res.sample({k: ex[k] for k in ("api", "H", "W", "s", "edges", "pts", "shape", "f", "m")})
    fd, fn = tempfile.mkstemp(prefix="verif_c05_", suffix=".json")
    try:
        with os.fdopen(fd, "w") as f:
            json.dump(fed, f)
        rr = run_tlc("MC_Targets_Space", SPACE_CFG, workers=1, env={"TRACE_FILE": fn}, timeout=600)
    finally:
        os.unlink(fn)
    if not rr.printed("CASESPACE") or rr.violation or rr.error:
        raise TLCError("case-space check failed: %s" % rr.out[-1500:])
    res.coverage["case_space_check"] = rr.printed("CASESPACE")[-1]

    budget = 600_000 if quick else 20_000_000
    rounds = 1 if quick else 8
    for k in range(rounds):
        inputs = random_frames(rng, budget // rounds)
        note = "seeded random frames <= 5 animals x 6 nodes, sides 8..64, strides 1,2,4,8 (%d frames)" % len(inputs)
        if k == 0:
            nanp = family_nan_patterns()
            note += "; all 3^6 visibility patterns of 2 animals x 3 nodes x 2 edges x 2 placements, no animals (%d frames)" % len(nanp)
            inputs = nanp + inputs
        cases = judge_round(res, "Judge_C05 patterns + random frames %d" % k, inputs, note, stats, rng)
        if k == 0:
            ex = cases[0]
            res.sample({k2: ex[k2] for k2 in ("kind", "api", "H", "W", "s", "edges", "pts", "shape")})
    ex = cases[-1]
    res.sample({k2: ex[k2] for k2 in ("kind", "api", "H", "W", "s", "edges", "pts", "shape", "nz")})
    res.coverage.update(
        distinct_nontrivial=len(stats["nontrivial"]), exhaustive=True,
        rule="exhaustive: every (source, destination) pair on the 1/2-px lattice of [-1,5]^2 (+ a missing point) around a 4x4 image x strides {1,2} "
             "(set equality with the design model's space checked by TLC); all {visible, NaN, x-only-NaN}^6 patterns of 2 animals x 3 nodes x 2 edges; seeded random frames otherwise.  "
             "non-trivial = distinct one-animal calls with at least one edge of length >= 1 px whose field is not identically zero.  "
             "Edges of any positive length are judged (sub-pixel edges since fix 15a146f); image sides that are not multiples of the stride are included in the random frames.  "
             "Unspecified and said so: an animal with a node in the image but none strictly inside the grid extent (0, last grid coordinate) - margin strip, x = 0, y = 0 - may contribute either its field or zero; "
             "the multi-animal field is judged against the sum of the separate one-animal calls.")
    res.assumptions += [
        "inputs lie on the 1/2-px lattice within [-2 px, side + 2 px] (exact in float32; all cross products < 2^31)",
        "values projected as round(v * 10^4); parallel: |px*vy - py*vx| <= |vx| + |vy| quanta (1/2 quantum of rounding per component); magnitude round(hypot * 10^4) re-checked by TLC against the components",
        "weight is 1 on the segment: magnitude >= 10^4 - 2 on cells whose exact squared distance is 0; magnitude <= 10^4 + 2 everywhere",
        "monotone: for all pairs of judged cells (all cells when <= 48, else 48 cells incl. the heaviest), exact distance d1 <= d2 implies magnitude1 >= magnitude2 - 3 quanta",
        "the weight profile itself (the implementation uses exp(-d^4 / 2 sigma^2), sigma not scaled by the stride) is not constrained beyond monotonicity, as in the property",
        "exactly zero = every float in both channels of the edge equals 0.0",
    ]
    return res


def replay(rp, seed):
    res = Result("C05")
    rng = random.Random(seed)
    inp = dict(rp["case"])
    cases = observe([inp], rng)
    want = rp["key"].get("kind")
    cases = [c for c in cases if c["kind"] == want] or cases
    for n, c in enumerate(cases):
        c["id"] = n
    slim = [{k: v for k, v in c.items() if k not in ("frame_pts", "animals")} for c in cases]
    j = judge("Judge_C05", slim, shards=1)
    res.add_judge("Judge_C05", j)
    for cid, clause in j["rejected"]:
        res.violation(rp["key"], clause, rp["case"], clause)
    return res
