"""C14: every valid model configuration yields outputs of the contracted shape; in eval mode the
output for a frame is a function of that frame alone.

design check : MC_Arch      - the whole configuration grid (UNet / ConvNeXt / SwinT x strides x stem x
                              filters_rate x convs_per_block x up_interpolate x middle_block x heads):
                              the C14 arithmetic holds for the intended design (Repaired lines) on every
                              Valid configuration; the tree AS CODED satisfies it exactly outside the
                              classified defect classes (AsCodedClassified); counter-run: AsCodedDesignOK
                              MUST be violated.
               MC_ArchHist  - all call histories (<= 3 calls, singletons and batches, two sizes) on a model
                              whose only state is MaxPool2dWithSamePadding.padding: Stateless holds inside
                              the property's domain, and MUST fail for sides that are not multiples.
spec -> code  : TLC exports InGrid = Valid + Boundary (JsonSerialize); for each exported configuration the
               REAL sleap_nn Model is built (eval mode) and driven through the history x1, x2 (other
               size), x1, [x1; x3], x3; every maximal path of MC_ArchHist's state graph is replayed on
               four real models (UNet x2, ConvNeXt, SwinT).
judge        : Trace_Arch (construction total, decoder depth / current_strides / head in_channels as
               specified, output names and shapes = WantShape = shape of the real data pipeline's targets,
               equal frames -> equal allclose class); MC_ArchCover (coverage of the grid decided by TLC).
"""
import json
import os
import shutil
import tempfile
import time
from concurrent.futures import ThreadPoolExecutor

from harness.evidence import Result
from harness.tlc import check_model, judge, run_tlc, TLCError, NCPU

# A head whose output_stride equals the encoder's stride (output_stride == max_stride) has no decoder
# output to sit on and Model.__init__ / forward raise "ValueError: N is not in list".  The documentation
# neither promises nor excludes that setting.  True: such Boundary configurations are judged like Valid
# ones (construction must be total, shapes as contracted) and reported under their own key.
# False: they are still built and judged, but rejections are only recorded in the evidence.
BOUNDARY_IN_GRID = True

FILTERS = "{4}"                            # the UNet width the real models are built with
WIDE_FILTERS = "{4, 8, 12, 16, 24, 32, 64}"  # thorough: widths covered by the arithmetic on the spec only
MC_CFG = "CONSTANT Filters = %s\nINIT Init\nNEXT Next\n%sCHECK_DEADLOCK FALSE\n"
MC_INVS = "INVARIANT RepairedDesignOK\nINVARIANT AsCodedClassified\nINVARIANT BoundaryNeverBuilds\nINVARIANT NoRoundingTies\n"
HIST_CFG = "CONSTANTS MaxCalls = %d\n OddSizes = %s\n WithFresh = %s\nINIT Init\nNEXT Next\n%sCHECK_DEADLOCK FALSE\n"
TRACE_CFG = "INIT Init\nNEXT Next\nCONSTRAINT Check\nPOSTCONDITION Report\nCHECK_DEADLOCK FALSE\n"
FIELDS = ("bb", "arch", "ms", "os", "fr", "f", "stem", "cpb", "upi", "mid", "mt", "hs", "parts", "edges")
SIZES = ([1, 2, 2, 1], [2, 1, 1, 2], [1, 3, 2, 2])


def bbkey(c):
    return (c["bb"], c["arch"], c["ms"], c["os"], tuple(c["fr"]), c["f"], c["stem"], c["cpb"], c["upi"], c["mid"])


def headkey(c):
    return (c["mt"], tuple(c["hs"]))


def load_export(fn):
    with open(fn) as f:
        raw = json.load(f)
    cfgs = [{k: c[k] for k in FIELDS} for c in raw]
    cfgs.sort(key=lambda c: (bbkey(c), headkey(c)))
    return cfgs


def select(cfgs, tier):
    """quick: a covering subset (every backbone setting and every stride/rate/head combination of the
    fast families occurs - checked by TLC in MC_ArchCover - plus a sample of the 28M-parameter `tiny`
    wrappers); thorough: everything."""
    if tier == "thorough":
        return list(cfgs)
    groups = {}
    for c in cfgs:
        groups.setdefault(bbkey(c), []).append(c)
    out = []
    for gi, k in enumerate(sorted(groups)):
        g = groups[k]
        mod = 18 if k[1] == "tiny" else (6 if k[0] == "unet" else 2)
        pick = [c for j, c in enumerate(g) if (j + gi) % mod == 0]
        out += pick if (pick or k[1] == "tiny") else [g[gi % len(g)]]
    return out


def with_ids(cfgs, start=0):
    out = []
    for i, c in enumerate(cfgs):
        d = dict(c)
        d["id"] = start + i
        d["sz"] = SIZES[(start + i) % len(SIZES)]
        d["fresh"] = (start + i) % 4 == 0  # reference calls on pristine copies for a quarter of the grid
        out.append(d)
    return out


def strip(rec):
    return dict(id=rec["id"], cfg=rec["cfg"], ev=rec["ev"])


def outcome(rec):
    ev = rec["ev"]
    if ev[0]["raised"]:
        return "build: " + ev[0]["raised"]
    if ev[-1].get("raised"):
        return "call %d: %s" % (len(ev) - 1, ev[-1]["raised"])
    return "completed %d calls" % (len(ev) - 1)


def hist_cases(start, res, tier):
    """spec -> code for histories: every maximal path of MC_ArchHist's state graph, per configuration."""
    from harness.arch_util import frame_size
    from harness.graph import dump_graph

    gr, g = dump_graph("MC_ArchHist", HIST_CFG % (3, "FALSE", "FALSE", ""))
    cases = []
    for init in g.init:
        cfg = g.states[init]["cfg"]
        c0 = {k: cfg[k] for k in FIELDS}
        for path in g.all_paths(init):
            hist = g.states[path[-1][1]]["hist"] if path else []
            c = dict(c0)
            c["id"] = start + len(cases)
            c["sz"] = [1, 2, 2, 1]
            c["calls"] = [list(h["x"]["ids"]) for h in hist]
            c["fresh"] = True
            for h in hist:  # the sizes the spec used are the ones the driver will feed
                if (h["x"]["h"], h["x"]["w"]) != frame_size(c, h["x"]["ids"][0]):
                    raise TLCError("history sizes of spec and driver differ: %r" % (h,))
            cases.append(c)
    res.coverage["history_paths"] = len(cases)
    res.coverage["history_graph_states"] = len(g.states)
    return cases


def split_clause(s):
    parts = s.split("@")
    return (parts + ["?", "?"])[:3]


def run(tier, seed):
    from loguru import logger
    from harness import arch_util as A

    logger.disable("sleap_nn")
    res = Result("C14")
    tmp = tempfile.mkdtemp(prefix="verif_c14_")
    bg = ThreadPoolExecutor(max_workers=4)
    stage, t_stage = {}, [time.time()]

    def mark(name):
        stage[name] = round(time.time() - t_stage[0], 1)
        t_stage[0] = time.time()

    res.coverage["stage_wall_s"] = stage
    try:
        # ---- export of the configuration space (spec -> code) ------------------------------------------
        exp = os.path.join(tmp, "export.json")
        re_ = run_tlc("MC_ArchExport", MC_CFG.replace("INIT Init\nNEXT Next", "INIT EInit\nNEXT ENext") % (FILTERS, ""), workers=1,
                      timeout=900, env={"C14_EXPORT": exp}, java_opts=("-Xmx4g",))
        g = re_.printed("GRID")
        if re_.error or re_.violation or not g or not os.path.exists(exp):
            raise TLCError("export of the configuration space failed: %s\n%s" % (re_.error or re_.violation, re_.out[-2000:]))
        n_grid, n_valid, n_bnd = [int(x) for x in g[-1].split(",")]
        mark("export")
        # ---- design checks, in the background while the real models run ----------------------------------
        f_grid = bg.submit(check_model, "MC_Arch", MC_CFG % (FILTERS, MC_INVS), workers=6, timeout=1800, java_opts=("-Xmx4g",))
        f_counter = bg.submit(check_model, "MC_ArchClasses", MC_CFG % (FILTERS, "INVARIANT AsCodedDesignOK\n"), workers=2, timeout=1800,
                              java_opts=("-Xmx4g",), expect_violation=("invariant", "AsCodedDesignOK"))
        f_hist = bg.submit(check_model, "MC_ArchHist", HIST_CFG % (3 if tier == "quick" else 4, "FALSE", "TRUE", "INVARIANT Stateless\n"),
                           workers=2, timeout=900, require_actions=("Build", "Fwd", "Fresh"))
        f_odd = bg.submit(check_model, "MC_ArchHist", HIST_CFG % (3, "TRUE", "TRUE", "INVARIANT Stateless\n"), workers=1, timeout=900,
                          expect_violation=("invariant", "Stateless"))
        f_wide = None
        if tier == "thorough":
            f_wide = bg.submit(check_model, "MC_ArchClasses", MC_CFG % (WIDE_FILTERS, MC_INVS), workers=4, timeout=3000, java_opts=("-Xmx6g",))

        # ---- spec -> code: the real Model for every selected configuration --------------------------
        space = load_export(exp)
        if len(space) != n_valid + n_bnd:
            raise TLCError("export has %d configurations, TLC counted %d" % (len(space), n_valid + n_bnd))
        fed = with_ids(select(space, tier))
        hcases = hist_cases(len(fed), res, tier)
        mark("history_graph")
        t0 = time.time()
        recs = A.pool_map(fed + hcases, seed, min(16, NCPU))
        mark("real_model_sweep")
        res.coverage["real_models_built"] = len(recs)
        res.coverage["sweep_wall_s"] = round(time.time() - t0, 1)

        # ---- judge ------------------------------------------------------------------------------------
        j = judge("Trace_Arch", [strip(x) for x in recs], cfg_text=TRACE_CFG, per_shard_min=150, timeout=1800)
        res.add_judge("Trace_Arch", j, "%d grid configurations (history x1,x2,x1,[x1;x3],x3) + %d replayed spec histories" % (len(fed), len(hcases)))
        if len(j["rejected"]) != j["rejected_n"]:
            raise TLCError("judge reported %d rejections but listed %d" % (j["rejected_n"], len(j["rejected"])))
        mark("judge")
        byid = {x["id"]: (c, x) for c, x in zip(fed + hcases, recs)}
        boundary_obs = {}
        for cid, cl in j["rejected"]:
            c, x = byid[int(cid)]
            clause, where, kind = split_clause(cl)
            if where == "harness":
                raise TLCError("trace %s rejected by the harness clause %s" % (cid, clause))
            key = dict(where=where, kind=kind, clause=clause)
            case = dict(cfg=c, observed=outcome(x))
            if kind == "head_stride_eq_max_stride_not_in_list" and not BOUNDARY_IN_GRID:
                boundary_obs[clause] = boundary_obs.get(clause, 0) + 1
                continue
            res.violation(key, clause, case, "%s bb=%s ms=%s os=%s stem=%s fr=%s cpb=%s upi=%s mid=%s %s hs=%s" % (
                outcome(x)[:110], c["bb"], c["ms"], c["os"], c["stem"], c["fr"], c["cpb"], c["upi"], c["mid"], c["mt"], c["hs"]))
        if boundary_obs:
            res.coverage["boundary_observations"] = boundary_obs

        # ---- coverage of the grid, decided by TLC -------------------------------------------------------
        fedfile = os.path.join(tmp, "fed.json")
        with open(fedfile, "w") as f:
            json.dump([x["cfg"] for x in recs[:len(fed)]], f)
        rc = run_tlc("MC_ArchCover", MC_CFG.replace("INIT Init\nNEXT Next", "INIT CInit\nNEXT CNext") % (FILTERS, ""), workers=1, timeout=900,
                     env={"TRACE_FILE": fedfile}, java_opts=("-Xmx4g",))
        cov = rc.printed("COVER")
        if rc.error or rc.violation or not cov:
            raise TLCError("coverage check failed: %s\n%s" % (rc.error or rc.violation, rc.out[-2000:]))
        nfed, nspace, subset, equal, equalfast, bbcover, headcover, ntiny = [t.strip() for t in cov[-1].split(",")]
        res.coverage["grid_coverage"] = dict(fed=int(nfed), space=int(nspace), subset=subset, whole_space=equal,
                                             whole_space_but_tiny=equalfast, every_backbone_setting=bbcover,
                                             every_head_combination=headcover, tiny_fed=int(ntiny))
        if subset != "TRUE" or bbcover != "TRUE" or headcover != "TRUE" or (tier == "thorough" and equal != "TRUE"):
            raise TLCError("driver did not cover the configuration space: %s" % cov[-1])

        mark("cover")
        # ---- background design checks -------------------------------------------------------------------
        r = f_grid.result()
        gg = r.printed("GRID")
        if r.violation or not gg or gg[-1] != g[-1]:
            raise TLCError("Arch design check failed: %s\n%s" % (r.violation, r.out[-2500:]))
        if min(n_valid, n_bnd) <= 0 or r.distinct != 2 * (n_valid + n_bnd):
            raise TLCError("vacuous grid: %s, %d states" % (g[-1], r.distinct))
        rr = f_counter.result()
        ok_as_coded = rr.printed("ASCODED_OK")
        if not ok_as_coded or not 0 < int(ok_as_coded[-1]) < n_valid:
            raise TLCError("as-coded classification not printed / degenerate: %r" % (ok_as_coded,))
        n_ascoded_ok = int(ok_as_coded[-1])
        res.add_mc("MC_Arch grid=%d valid=%d boundary=%d" % (n_grid, n_valid, n_bnd), r,
                   "RepairedDesignOK, AsCodedClassified, BoundaryNeverBuilds, NoRoundingTies on every InGrid configuration; "
                   "as coded only %d of %d valid configurations satisfy the C14 arithmetic" % (n_ascoded_ok, n_valid))
        res.coverage["grid"] = dict(total=n_grid, valid=n_valid, boundary=n_bnd, as_coded_ok=n_ascoded_ok,
                                    rounding_class=rr.printed("ROUNDING")[-1] if rr.printed("ROUNDING") else "")
        res.add_mc("MC_ArchClasses counter-run (tree as coded)", rr, "AsCodedDesignOK must be violated: the defect classes are inside the grid")
        rh = f_hist.result()
        if rh.violation:
            raise TLCError("history design check failed: %s\n%s" % (rh.violation, rh.out[-1500:]))
        res.add_mc("MC_ArchHist in-domain sizes", rh, "Stateless over all histories; MaxPool padding state is benign for multiples of max_stride")
        ro = f_odd.result()
        res.add_mc("MC_ArchHist counter-model (sides not multiples of max_stride)", ro, "must violate Stateless")
        if f_wide is not None:
            rw = f_wide.result()
            if rw.violation or not rw.printed("GRID"):
                raise TLCError("Arch design check (wide filters) failed: %s\n%s" % (rw.violation, rw.out[-2500:]))
            res.add_mc("MC_ArchClasses filters=%s (spec only)" % WIDE_FILTERS, rw, "same three invariants; grid %s; as coded ok on %s valid configurations" % (
                rw.printed("GRID")[-1], rw.printed("ASCODED_OK")[-1] if rw.printed("ASCODED_OK") else "?"))
            res.coverage["grid"]["rounding_class_wide_filters"] = rw.printed("ROUNDING")[-1] if rw.printed("ROUNDING") else ""
        mark("background_models")
        # ---- evidence --------------------------------------------------------------------------------------
        done = [x for x in recs if not x["ev"][0]["raised"] and not x["ev"][-1].get("raised") and len(x["ev"]) >= 3]
        multi = [x for x in done if x["sep"]["between"] >= 0]
        res.clause("configurations_completing_all_calls", len(done))
        res.clause("construction_raised", sum(1 for x in recs if x["ev"][0]["raised"]))
        res.clause("forward_raised", sum(1 for x in recs if not x["ev"][0]["raised"] and x["ev"][-1].get("raised")))
        res.clause("two_head_models", sum(1 for x in done if len(x["cfg"]["hs"]) == 2))
        res.clause("head_above_backbone_output_stride", sum(1 for x in done if max(x["cfg"]["hs"]) > x["cfg"]["os"]))
        res.clause("batch_calls_compared_with_singletons", sum(1 for x in done for e in x["ev"][1:] if len(e["ids"]) > 1))
        res.clause("nonfinite_outputs_skipped", sum(x["sep"]["nonfinite"] for x in recs))
        if multi:
            res.coverage["equality_classes"] = dict(
                same_rel_tol_ppm=int(A.SAME_REL * 1e6),
                max_distance_within_class_ppm=max(x["sep"]["within"] for x in multi),
                min_distance_between_classes_ppm=min(x["sep"]["between"] for x in multi),
                models_with_distinct_outputs_for_distinct_frames=len(multi))
        nontrivial = {json.dumps(x["cfg"], sort_keys=True) for x in done}
        res.coverage.update(
            distinct_nontrivial=len(nontrivial), exhaustive=(tier == "thorough"),
            rule="configurations = TLC's InGrid export (%d); %s. Non-trivial = distinct configurations whose real Model was "
                 "built and completed every call of its history (so every shape and the function clauses were judged)" % (
                     n_valid + n_bnd, "all of them" if tier == "thorough" else
                     "covering subset: every backbone setting and every (strides, rate, head type, head strides) combination of UNet and the "
                     "small-arch wrappers (decided by TLC), plus 1/18 of the `tiny` wrappers"))
        for x in (done[0] if done else None, done[-1] if done else None, recs[0]):
            if x:
                res.sample(dict(cfg=x["cfg"], build=x["ev"][0], last_call=x["ev"][-1]))
        res.assumptions += [
            "UNet runs with filters=4, wrappers with the 96-channel `tiny` presets and an 8-channel custom arch; other widths are covered by the arithmetic on the spec only",
            "parameters are re-initialised variance-preservingly (values only) so that outputs depend measurably on the input; equality classes use max|a-b| <= 1e-3 max(|a|,|b|)",
            "ConvNeXt/SwinT: max_stride must be a multiple of 8 x stem_patch_stride to be Valid (the repository's own tests use max_stride=16 with stem_patch_stride=4 and 192-pixel inputs; 16-multiples that are not 32-multiples fail there)",
            "pretrained weights and the numerical quality of the networks are not covered",
        ]
        return res
    finally:
        bg.shutdown(wait=True)
        shutil.rmtree(tmp, ignore_errors=True)


def replay(rp, seed):
    from loguru import logger
    from harness import arch_util as A

    logger.disable("sleap_nn")
    res = Result("C14")
    c = dict(rp["case"]["cfg"])
    x = A.observe(c, seed)
    j = judge("Trace_Arch", [strip(x)], cfg_text=TRACE_CFG, shards=1)
    res.add_judge("Trace_Arch", j)
    for cid, cl in j["rejected"]:
        clause, where, kind = split_clause(cl)
        res.violation(rp["key"], clause, dict(cfg=c, observed=outcome(x)), outcome(x))
    return res
