"""X04 (extension beyond the 20 listed properties): inference composed with evaluation.

Composition of InferPlane (C02) with the Evaluator (C15/C16): the sio.Labels that predict(make_labels=True) builds from an
ideal network's output are evaluated by the REAL Evaluator against the labels they were computed from.  Every labelled
animal must be paired (no false negative, nothing lost by frame / video pairing), and the per-keypoint distances the
Evaluator reports must respect the inference bound that TLC recomputes from the configuration (InferPlane!TightBound).

design check : MC_InferPlane (shared with C02): decode within the tight bound within the closed form, over the grid
code -> spec  : seeded single-instance and top-down configurations and scenes (C02's generators: sizes, maximum sizes,
               scales, strides, refinement, batch size; LabelsReader and VideoReader) -> real predictor with ideal-network
               stubs -> predicted sio.Labels -> real Evaluator.evaluate(); Judge_X04
"""
import random

import numpy as np

from harness.evidence import Result
from harness.tlc import judge, TLCError

U = 1024


def to_u(x):
    return int(round(float(x) * U))


def degenerate(g):
    """OKS is scaled by the bounding-box area of the labelled animal: an animal whose visible nodes share an x or a y has
    area 0 and cannot be matched by OKS at all (C15's domain excludes it) - not an animal this composition can speak about."""
    v = g[np.all(np.isfinite(g), axis=1)]
    return len(v) == 0 or (v[:, 0].max() - v[:, 0].min()) == 0 or (v[:, 1].max() - v[:, 1].min()) == 0


def one_run(kind, c, frames, provider, n_nodes, cid):
    """predict(make_labels=True) with ideal stubs, then the real Evaluator on (source labels, predicted labels)."""
    from harness import inferplane as ip
    from sleap_nn import evaluation as E

    case = dict(id=cid, kind=kind, provider=provider, raised="", fn=0, n_animals=0, pairs=[], full=c)
    try:
        labels = ip.make_source(frames, n_nodes)
        pc = dict(scale=c["sn"] / c["sd"], max_stride=c["ms"], stride=c["s"], max_h=c["maxH"] or None, max_w=c["maxW"] or None,
                  refine=c["refine"], batch=c["batch"])
        if kind == "single":
            pred = ip.build_single(pc, frames, n_nodes)[0]
        else:
            pc.update(cscale=c["csn"] / c["csd"], cstride=c["cs"], crop=c["crop"], cropw=c.get("cropw"), anchor=c["anchor"])
            pred = ip.build_topdown(pc, frames, n_nodes)[0]
        plab = ip.run_predictor(pred, provider, labels, c["batch"], make_labels=True)
        # ground truth = the labelled animals (make_source puts an all-NaN placeholder instance into empty frames)
        index, n_an = {}, 0
        for f, lf in enumerate(labels):
            for a, inst in enumerate(lf.instances):
                index[id(inst)] = (f + 1, a + 1)
                if not degenerate(np.asarray(inst.numpy(), dtype="float64")):
                    n_an += 1
        case["n_animals"] = n_an
        if n_an == 0:
            case["skip"] = True
            return case
        ev = E.Evaluator(labels, plab, user_labels_only=True)
        m = ev.evaluate()
        dists = np.asarray(m["distance_metrics"]["dists"], dtype="float64").reshape(len(ev.positive_pairs), n_nodes)
        for k, (ig, ipr, oks) in enumerate(ev.positive_pairs):
            fa = index.get(id(ig.instance), (0, 0))
            g = np.asarray(ig.instance.numpy(), dtype="float64")
            if degenerate(g):
                continue
            fr = frames[fa[0] - 1] if fa[0] else frames[0]
            fcfg = dict({k_: c[k_] for k_ in ("maxH", "maxW", "sn", "sd", "ms", "s")}, H=fr["hw"][0], W=fr["hw"][1])
            kps = []
            for n in range(n_nodes):
                vis = bool(np.all(np.isfinite(g[n])))
                pvis = bool(np.all(np.isfinite(np.asarray(ipr.instance.numpy(), dtype="float64")[n])))
                d = dists[k, n]
                kps.append(dict(kx=to_u(g[n][0]) if vis else 0, ky=to_u(g[n][1]) if vis else 0, vis=bool(vis and pvis),
                                d=0 if not np.isfinite(d) else min(to_u(d), 1 << 22), dnan=bool(not np.isfinite(d))))
            # The distance bound is a statement about an animal and ITS OWN prediction.  The Evaluator pairs greedily by OKS; for
            # tiny animals every OKS is in the underflow regime (1e-30 .. 1e-300) and the greedy choice may legitimately pair an
            # animal with a neighbour's prediction (seed sweep, seed 3).  Own = mutually nearest within the frame, decided by
            # plain distances, independently of OKS; other pairs are counted, not judged against the inference bound.
            def mdist(a_, b_):
                ok_ = np.all(np.isfinite(a_), axis=1) & np.all(np.isfinite(b_), axis=1)
                return float(np.linalg.norm(a_[ok_] - b_[ok_], axis=1).mean()) if ok_.any() else float("inf")
            pr_here = [np.asarray(x.numpy(), dtype="float64") for lf in plab if int(lf.frame_idx) == int(ipr.frame_idx) for x in lf.instances]   # one video per run
            gt_here = [np.asarray(x.numpy(), dtype="float64") for x in labels[fa[0] - 1].instances] if fa[0] else [g]
            p_np = np.asarray(ipr.instance.numpy(), dtype="float64")
            own = bool(mdist(g, p_np) <= min(mdist(g, q_) for q_ in pr_here) + 1e-9 and mdist(g, p_np) <= min(mdist(h_, p_np) for h_ in gt_here) + 1e-9)
            case["pairs"].append(dict(frame=fa[0], animal=fa[1], cfg=fcfg, kps=kps, own=own))
        # an all-NaN placeholder of an empty frame is not an animal: it may be reported as a false negative
        # A false negative counts against the composition only if matching had something to match it with: an unpaired
        # prediction of the same frame whose OKS with it (compute_oks, C15's subject) is positive.  Tiny animals can have
        # OKS = 0 exactly (exp underflow: localisation error of a few px against a bounding box of a few px^2) - such an
        # animal is unmatchable by definition of the metric, it is counted and left out.
        paired_pr = {id(ipr.instance) for _g, ipr, _o in ev.positive_pairs}
        fn_real, unmatchable = 0, 0
        for ig in ev.false_negatives:
            g = np.asarray(ig.instance.numpy(), dtype="float64")
            if degenerate(g):
                continue
            fa = index.get(id(ig.instance), (0, 0))
            cand = [x for lf in plab if int(lf.frame_idx) == int(ig.frame_idx) for x in lf.instances if id(x) not in paired_pr]
            ok = [float(E.compute_oks(g[None], np.asarray(x.numpy(), dtype="float64")[None])[0, 0]) for x in cand]
            if any(o > 0 for o in ok):
                fn_real += 1
            else:
                unmatchable += 1
        case["fn"] = fn_real
        case["unmatchable"] = unmatchable
        case["n_animals"] -= unmatchable
    except Exception as e:
        import traceback
        case["raised"] = "%s: %s | %s" % (type(e).__name__, str(e)[:200], traceback.format_exc()[-300:].replace("\n", " / "))
    return case


def run(tier, seed, only=None):
    from loguru import logger
    from drivers import C02

    logger.disable("sleap_nn")
    res = Result("X04")
    rng = random.Random(seed)
    n_cfg = 60 if tier == "quick" else 900
    cases, made = [], 0
    todo = only or None
    k = 0
    while made < n_cfg and k < 20 * n_cfg:
        k += 1
        kind = "single" if k % 2 else "topdown"
        sseed = seed * 1000003 + k
        if todo and (kind, sseed) != (todo["kind"], todo["scene_seed"]):
            continue
        srng = random.Random(sseed)
        c = C02.gen_cfg(srng, kind)
        c["H2"], c["W2"] = 0, 0               # one frame size per run (the video provider serves one video)
        frames = C02.gen_scene(srng, c, kind)
        if frames is None:
            continue
        made += 1
        for pv in ("LabelsReader", "VideoReader"):
            if todo and pv != todo["provider"]:
                continue
            cs = one_run(kind, c, frames, pv, 3, len(cases))
            cs["scene_seed"] = sseed
            cases.append(cs)
        if todo:
            break
    live = [c for c in cases if not c.get("skip")]
    res.clause("pairs_not_own_prediction", sum(1 for c in live for p_ in c["pairs"] if not p_.get("own", True)))
    for n, c in enumerate(live):
        c["id"] = n
    j = judge("Judge_X04", [{k_: c[k_] for k_ in ("id", "raised", "fn", "n_animals", "pairs")} for c in live], per_shard_min=20, timeout=900)
    res.add_judge("Judge_X04", j, "%d predict -> evaluate runs (%d configurations x 2 providers; %d without animals skipped)" % (len(live), made, len(cases) - len(live)))
    for cid, clause in j["rejected"]:
        c = live[int(cid)]
        res.violation(dict(where="predict(make_labels=True) -> Evaluator", kind=clause, model=c["kind"], provider=c["provider"]), clause,
                      dict(kind=c["kind"], provider=c["provider"], scene_seed=c["scene_seed"]), "%s %s cfg=%s %s pairs=%d of %d animals fn=%d" % (
                          c["kind"], c["provider"], c["full"], c["raised"], len(c["pairs"]), c["n_animals"], c["fn"]))
    if j["rejected_n"] and not j["rejected"]:
        raise TLCError("rejections without ids")
    res.clause("animals_with_oks_exactly_0_left_out", sum(c.get("unmatchable", 0) for c in live))
    res.clause("animals_evaluated", sum(c["n_animals"] for c in live))
    res.clause("keypoint_distances_judged", sum(1 for c in live for p in c["pairs"] for q in p["kps"] if q["vis"]))
    res.clause("runs_top_down", sum(1 for c in live if c["kind"] == "topdown"))
    res.clause("runs_video_reader", sum(1 for c in live if c["provider"] == "VideoReader"))
    if live:
        res.sample(dict(kind=live[0]["kind"], provider=live[0]["provider"], cfg=live[0]["full"], pairs=live[0]["pairs"][:2]))
    res.coverage.update(evaluations=len(live), exhaustive=False, distinct_nontrivial=len({(c["kind"], c["provider"], c["scene_seed"]) for c in live if c["n_animals"] >= 2}),
                        rule="animals whose visible nodes share an x or a y (bounding-box area 0: OKS undefined) are left out; C02's seeded configurations and scenes (3 frames, 0-3 animals, missing nodes), single-instance and top-down, both providers; "
                             "non-trivial = at least two labelled animals in the run.  Excluded: bottom-up (its grouping needs C03's well-separatedness filter), mixed frame sizes.")
    res.assumptions += ["ideal-network stubs (C02); the bound is InferPlane!TightBound per axis, combined as d^2 <= bx^2 + by^2 (+ 1/256 px)"]
    return res


def replay(rp, seed):
    return run("quick", seed, only=rp["case"])
