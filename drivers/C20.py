"""C20: config builders reflect every argument; normalisation is lossless and idempotent; invalid
single-field values are rejected.

design checks : MC_ConfigAug   - get_aug_config's list loop as a state machine over ALL ordered lists without
                                 repetition (326 geometric + 65 intensity): the as-coded transcription MUST
                                 violate ListedEnabled, the intended loop satisfies ListedEnabled,
                                 FoldIsDefinition (fold = function of the SET of names), OnlyListedEnabled
                MC_ConfigNorm  - Norm(Norm(c)) = Norm(c), Load(Save(Norm(c))) = Norm(c) over all raw configs of a
                                 small schema; a writer that drops None keys MUST violate RoundTripLossless
                MC_ConfigCases - argument map vs the REAL schema (paths exist, disjoint), and the case space
spec -> code  : TLC exports the case space (single / pairwise argument choices, every ordered augmentation
                list, head x backbone preset/dict x weights grid, invalid values, constructor probes); every
                case is performed on the real builders + TrainingJobConfig.to_sleap_nn_cfg + verify_training_cfg
                (twice) + OmegaConf.save/load (+ verify) or on the real configuration classes
judge         : Judge_C20 recomputes Expected(case) from spec/Config.tla and the flattened schema default and
                names the first failing clause
"""
import json
import os
import shutil
import tempfile
from concurrent.futures import ThreadPoolExecutor

from harness.evidence import Result
from harness.tlc import TLCError, check_model, judge, run_tlc
from harness import config_util as cu

SUBST = " D <- %s\n Sub <- %s\n"
AUG_CFG = "CONSTANTS AsCoded = %s\n" + SUBST % ("NoSchema", "NoSchema") + "INIT Init\nNEXT Next\n%sCHECK_DEADLOCK FALSE\n"
NORM_CFG = "CONSTANTS LossySave = %s\n" + SUBST % ("NoSchema", "NoSchema") + "INIT Init\nNEXT Next\n%sCHECK_DEADLOCK FALSE\n"
CASES_CFG = "CONSTANTS Full = %s\n Stride = %d\n" + SUBST % ("SchemaD", "SchemaSub") + "INIT Init\nNEXT Next\nCHECK_DEADLOCK FALSE\n"
JUDGE_CFG = "CONSTANTS" + SUBST % ("SchemaD", "SchemaSub") + "INIT Init\nNEXT Next\nCONSTRAINT Check\nPOSTCONDITION Report\nCHECK_DEADLOCK FALSE\n"
INV3 = "INVARIANT ListedEnabled\nINVARIANT FoldIsDefinition\nINVARIANT OnlyListedEnabled\n"
NORM_INV = "INVARIANT Complete\nINVARIANT Idempotent\nINVARIANT RoundTripLossless\nINVARIANT FixedPoint\n"
AFFINE = {"rotation", "scale", "translate"}
CASE_FIELDS = ("CASES", "choices", "single", "pair", "geolist", "intlist", "auglistprod", "grid", "bad",
               "must_reject", "must_accept", "either")
BUILDER_OF = {a: "get_data_config" for a in cu.DATA_ARGS}
BUILDER_OF.update({a: "get_model_config" for a in cu.MODEL_ARGS})


def design_checks(res):
    jobs = {
        "aug_as_coded": lambda: check_model("MC_ConfigAug", AUG_CFG % ("TRUE", "INVARIANT ListedEnabled\n"), timeout=900,
                                            workers=2, expect_violation=("invariant", "ListedEnabled")),
        "aug_intended": lambda: check_model("MC_ConfigAug", AUG_CFG % ("FALSE", INV3), timeout=900, workers=2,
                                            require_actions=("ListStart", "GeoStep", "ApplyIntensity")),
        "aug_as_coded_only_listed": lambda: check_model("MC_ConfigAug", AUG_CFG % ("TRUE", "INVARIANT OnlyListedEnabled\n"),
                                                        timeout=900, workers=2),
        "norm": lambda: check_model("MC_ConfigNorm", NORM_CFG % ("FALSE", NORM_INV), timeout=900, workers=2,
                                    require_actions=("Normalise", "Renormalise", "SaveYaml", "LoadYaml")),
        "norm_lossy": lambda: check_model("MC_ConfigNorm", NORM_CFG % ("TRUE", "INVARIANT RoundTripLossless\n"), timeout=900,
                                          workers=2, expect_violation=("invariant", "RoundTripLossless")),
    }
    notes = {
        "aug_as_coded": "get_aug_config loop AS CODED over all 326+65 ordered lists: ListedEnabled must be violated (branches reset siblings)",
        "aug_intended": "intended loop: every listed augmentation enabled, fold = GeoOf/IntOf(set of names), nothing unlisted enabled",
        "aug_as_coded_only_listed": "as coded, no unlisted augmentation is ever enabled (so that clause cannot false-alarm on the tree)",
        "norm": "Norm idempotent, Load(Save(Norm c)) = Norm c, Norm is the identity on complete well-typed configs; 192 raw configs",
        "norm_lossy": "writer that drops None-valued keys: round trip must be reported lossy",
    }
    with ThreadPoolExecutor(max_workers=len(jobs)) as ex:
        futs = {k: ex.submit(f) for k, f in jobs.items()}
        out = {k: f.result() for k, f in futs.items()}
    for k, r in out.items():
        res.add_mc("MC_Config%s %s" % ("Aug" if k.startswith("aug") else "Norm", k), r, notes[k])
        if k in ("aug_intended", "norm", "aug_as_coded_only_listed") and r.violation:
            raise TLCError("design check %s failed: %s\n%s" % (k, r.violation, r.out[-2500:]))
    return out


def export_cases(tier, schema_file, tmp):
    out = os.path.join(tmp, "cases.json")
    full, stride = ("TRUE", 1) if tier == "thorough" else ("FALSE", 5)
    r = run_tlc("MC_ConfigCases", CASES_CFG % (full, stride), workers=1, timeout=600,
                env={"SCHEMA_FILE": schema_file, "OUT_FILE": out})
    if r.error or r.violation or not r.printed("CASES") or not os.path.exists(out):
        raise TLCError("case-space model failed: %s %s\n%s" % (r.error, r.violation, r.out[-3000:]))
    counts = dict(zip(CASE_FIELDS, [int(x) for x in r.printed("CASES")[-1].split(",")]))
    with open(out) as f:
        cases = json.load(f)
    for k, c in enumerate(cases):
        c["id"] = k
    return r, counts, cases


def key_of(clause, c):
    """Name WHAT fails (known_findings.json matches on a subset of this dict)."""
    head, _, rest = clause.partition("/")
    if head == "listed_augmentation_disabled":
        fam, _, name = rest.partition("/")
        return dict(where="get_aug_config", kind="listed_augmentation_disabled_by_later_element", family=fam, disabled=name)
    if head == "unlisted_augmentation_enabled":
        fam, _, name = rest.partition("/")
        return dict(where="get_aug_config", kind="unlisted_augmentation_enabled", family=fam, enabled=name)
    if head == "raised_on_valid_arguments":
        exc = c["raised"].split(":")[0]
        if c["bb"][0] == "preset" and rest == "to_sleap_nn_cfg" and "is not a subclass of" in c["raised"]:
            return dict(where="get_backbone_config", kind="preset_rejected_by_schema", preset=c["bb"][1])
        return dict(where=rest, kind="raised_on_valid_arguments", exc=exc)
    if head in ("argument_not_reflected", "signature_default_not_applied"):
        arg, _, path = rest.partition("@")
        return dict(where=BUILDER_OF.get(arg, "get_trainer_config"), kind=head, arg=arg, path=path)
    if head in ("invalid_value_accepted", "valid_value_rejected"):
        return dict(where="config_validators" if c["kind"] != "build" else "builders", kind=head, what=rest)
    return dict(where="training_config", kind=head, path=rest)


def detail_of(clause, c):
    if c["kind"] != "build":
        return "%s %s -> %s" % (c["kind"], {k: c[k] for k in ("cls", "field", "val", "members", "bbfam") if k in c},
                                c["raised"] or "accepted")
    inp = {k: c[k] for k in ("args", "bb", "head", "lrs", "aug", "pw") if c[k] not in ([], ["default"], ["off"], ["n"])}
    seen = {p: v for p, v in c["c0"]["diff"].items() if "augmentation_config.geometric" in p and
            p.rsplit(".", 1)[1] in ("rotation", "scale", "translate_width", "translate_height", "affine_p")} if clause.startswith("listed") else {}
    return "input=%s %s%s" % (json.dumps(inp), ("raised=%s at %s" % (c["raised"], c["stage"])) if c["raised"] else "",
                              (" observed=%s" % json.dumps(seen)) if seen else "")


def sanity_and_coverage(res, counts, cases, tier):
    """Harness sanity (counts of what TLC exported) and measured clause exercise counts."""
    builds = [c for c in cases if c["kind"] == "build"]
    geolists = {tuple(c["aug"][2][1]) for c in builds if c["fam"] == "geolist"}
    intlists = {tuple(c["aug"][1][1]) for c in builds if c["fam"] == "intlist"}
    if len(geolists) != 326 or len(intlists) != 65:
        raise TLCError("augmentation list space incomplete: %d geometric, %d intensity" % (len(geolists), len(intlists)))
    presets = {c["bb"][1] for c in builds if c["fam"] == "grid" and c["bb"][0] == "preset"}
    heads = {json.dumps(c["head"]) for c in builds if c["fam"] == "grid"}
    # 9 head forms x (5 unet-family backbones x 1 + 7 convnext x 3 + 6 swint x 3 weight choices)
    if len(presets) != 12 or len(heads) != 9 or counts["grid"] != 9 * (5 + 21 + 18):
        raise TLCError("model grid incomplete: %d presets, %d head forms, %d cells" % (len(presets), len(heads), counts["grid"]))
    if counts["CASES"] != len(cases):
        raise TLCError("exported %d cases, TLC counted %d" % (len(cases), counts["CASES"]))
    single_args = {a for c in builds if c["fam"] == "single" for a in cu.fn(c["args"])}
    res.clause("single_argument_overrides", counts["single"])
    res.clause("distinct_simple_arguments_overridden_alone", len(single_args))
    res.clause("pairwise_combinations", counts["pair"])
    res.clause("ordered_geometric_lists", len(geolists))
    res.clause("ordered_intensity_lists", len(intlists))
    res.clause("geometric_lists_with_2plus_affine_names",
               sum(1 for l in geolists if len(AFFINE & set(l)) >= 2))
    res.clause("geometric_x_intensity_list_products", counts["auglistprod"])
    res.clause("model_grid_head_x_backbone_x_weights", counts["grid"])
    res.clause("builder_calls_that_must_raise", counts["bad"])
    res.clause("constructor_values_that_must_raise", counts["must_reject"])
    res.clause("constructor_values_that_must_not_raise", counts["must_accept"])
    res.clause("constructor_values_property_silent", counts["either"])
    txt = json.dumps(builds)
    res.clause("tuple_valued_argument_cases", sum(1 for c in builds if any(v[0] == "t" for v in cu.fn(c["args"]).values())))
    res.clause("none_as_non_default_value_cases", sum(1 for c in builds if any(v[0] == "n" for v in cu.fn(c["args"]).values())))
    res.clause("yaml_ambiguous_string_cases", sum(txt.count('["s", "%s"]' % s) for s in ("007", "1e3", "12345", "null")))
    distinct = {json.dumps({k: v for k, v in c.items() if k not in ("id", "fam")}, sort_keys=True) for c in cases}
    res.coverage.update(
        distinct_nontrivial=len(distinct) - 1 - counts["either"],
        exhaustive=True,
        rule=("case space exported by TLC (MC_ConfigCases, tier %s): every single choice of the %d simple arguments "
              "(1-2 non-default values each) and of 37 structural values (backbone presets/dicts, head strings/dicts, "
              "lr_scheduler, augmentation forms); pairwise combinations (%s); ALL ordered lists without repetition of the "
              "5 geometric (326) and 4 intensity (65) names plus sampled products; head x backbone x weights grid; "
              "invalid values through builders and constructors.  Non-trivial = distinct input that differs from the "
              "all-defaults call and for which the spec demands a definite outcome (constructor probes where the "
              "property is silent - e.g. int given for a float - are excluded)."
              % (tier, len(single_args), "all value combinations" if tier == "thorough" else "equal value indices, stride 5, all structural x structural")))


def run(tier, seed):
    res = Result("C20")
    tmp = tempfile.mkdtemp(prefix="verif_c20_")
    try:
        cu.quiet()
        info = cu.schema_info()
        schema_file = os.path.join(tmp, "schema.json")
        with open(schema_file, "w") as f:
            json.dump(info, f)
        import time
        t0 = time.time()
        pool = cu.make_pool(info["D"], tmp)  # forked before the first thread exists
        try:
            with ThreadPoolExecutor(max_workers=1) as bg:
                fut = bg.submit(design_checks, res)
                rc, counts, cases = export_cases(tier, schema_file, tmp)
                # every constructor probe also as an assignment to an existing object
                nid = max(c["id"] for c in cases) + 1
                twins = []
                for c in [c for c in cases if c["kind"] == "ctor"]:
                    twins.append(dict(c, kind="setattr", id=nid))
                    nid += 1
                t1 = time.time()
                obs = cu.run_cases(cases + twins, info["D"], tmp, pool)
                t2 = time.time()
                fut.result()
        finally:
            pool.terminate()
            pool.join()
        t3 = time.time()
        res.add_mc("MC_ConfigCases", rc, "argument map vs real schema (paths exist, disjoint, values differ from defaults); exports %d cases" % len(cases))
        sanity_and_coverage(res, counts, cases, tier)
        res.clause("assignment_probes", len(twins))
        j = judge("Judge_C20", obs, cfg_text=JUDGE_CFG, env={"SCHEMA_FILE": schema_file}, per_shard_min=250)
        res.add_judge("Judge_C20", j, "every exported case performed on the real builders/constructors; Expected(case) recomputed by TLC")
        res.coverage["phase_wall_s"] = dict(export_cases=round(t1 - t0, 1), real_code=round(t2 - t1, 1),
                                            design_models_extra_wait=round(t3 - t2, 1), judge=round(time.time() - t3, 1))
        byid = {c["id"]: c for c in obs}
        for cid, clause in sorted(j["rejected"], key=lambda r: int(r[0])):  # export order: smallest inputs first
            c = byid[int(cid)]
            res.violation(key_of(clause, c), clause, c, detail_of(clause, c))
        if j["rejected_n"] != len(j["rejected"]):
            raise TLCError("%d rejections but %d identified" % (j["rejected_n"], len(j["rejected"])))
        res.clause("cases_where_real_code_raised", sum(1 for c in obs if c["raised"]))
        for k in (1, counts["single"] + 5, len(cases) - 1):
            c = obs[k]
            res.sample({kk: c[kk] for kk in ("kind", "fam", "args", "bb", "head", "aug", "cls", "field", "val", "raised") if kk in c})
        res.assumptions += [
            "schema default D and sub-configuration defaults are MEASURED from the attrs schema (OmegaConf.structured); builder-signature defaults, the argument->path map, preset deltas and validators are stated in spec/Config.tla",
            "builder-signature defaults that differ from schema defaults (batch_size 4, shuffle, save_last, enable_progress_bar, max_epochs 100, seed 1000, lr_scheduler/early_stopping objects) are the documented builder defaults, not violations",
            "floats cross the boundary as the exact rational of their repr; int vs float, list vs None, missing vs None are distinguished",
            "augmentation arguments are only generated with use_augmentations_train=True (the schema documents augmentation_config as 'only if use_augmentations_train')",
            "while affine_p = 0 the affine magnitudes are unconstrained (GeoDontCare)",
        ]
        return res
    finally:
        shutil.rmtree(tmp, ignore_errors=True)


def replay(rp, seed):
    res = Result("C20")
    tmp = tempfile.mkdtemp(prefix="verif_c20_")
    try:
        cu.quiet()
        info = cu.schema_info()
        schema_file = os.path.join(tmp, "schema.json")
        with open(schema_file, "w") as f:
            json.dump(info, f)
        keep = ("kind", "fam", "args", "bb", "head", "lrs", "aug", "pw", "cls", "field", "val", "members", "bbfam")
        case = {k: rp["case"][k] for k in keep if k in rp["case"]}
        case["id"] = 0
        c = cu.run_case(case, info["D"], tmp)
        j = judge("Judge_C20", [c], cfg_text=JUDGE_CFG, env={"SCHEMA_FILE": schema_file}, shards=1)
        res.add_judge("Judge_C20", j)
        for cid, clause in j["rejected"]:
            res.violation(key_of(clause, c), clause, c, detail_of(clause, c))
        return res
    finally:
        shutil.rmtree(tmp, ignore_errors=True)
