"""C01: confidence-map training targets faithfully encode the labelled keypoints.

design check : MC_Targets (Kinds = cm1, cm2): the ideal maps of every configuration satisfy
               ConfmapClause; arg-min-D16 set = per-axis nearest grid cell; four named corruptions
               of the ideal are rejected by the clause (non-vacuity of the judge).
spec -> code  : the design model's configuration space (every placement of one keypoint on the
               lattice around a 4x4 image x strides x sigmas x variants; TLC checks that the fed set
               EQUALS that space), all NaN patterns of 2 animals x 2 nodes, num_instances slices,
               batches of two samples.
code -> spec  : seeded random frames (<= 5 animals x 6 nodes, <= 64x64, strides 1,2,4,8).
judge        : Judge_C01 (Targets!ConfmapClause evaluated by TLC on every cell of every channel).
Python only projects (harness/targets_util.py); it computes no expected value.
"""
import itertools
import json
import os
import random
import tempfile

import numpy as np
import torch

from harness.evidence import Result
from harness.targets_util import NAN, SIGMAS, conf_k, lattice_tensor, project_confmaps
from harness.tlc import TLCError, check_model, judge, run_tlc

MC_CFG = ("CONSTANT Side = 4\nCONSTANT CmStep = %d\nCONSTANT PafStep = 1\nCONSTANT Kinds = {\"cm1\", \"cm2\"}\n"
          "INIT Init\nNEXT Next\nINVARIANT ConfIdealAccepted\nINVARIANT NearestIsArgMin\n"
          "INVARIANT NearestWithinHalfStride\nCHECK_DEADLOCK FALSE\n")
SPACE_CFG = ("CONSTANT Side = 4\nCONSTANT CmStep = %d\nCONSTANT PafStep = 1\nCONSTANT Kinds = {}\nCONSTANT Which = \"cm1\"\n"
             "INIT SInit\nNEXT SNext\nCHECK_DEADLOCK FALSE\n")
FN = {"single": "generate_confmaps", "multi": "generate_multiconfmaps", "centroid": "generate_multiconfmaps"}
PIPE = {"single": "ConfidenceMapGenerator", "multi": "MultiConfidenceMapGenerator", "centroid": "MultiConfidenceMapGenerator"}


# ------------------------------------------------------------------------------ real code ------
def call_real(inp):
    """Run the real code on the lattice inputs of `inp`; returns the float tensor (n_samples, C, h, w)."""
    from sleap_nn.data.confidence_maps import (ConfidenceMapGenerator, MultiConfidenceMapGenerator,
                                               generate_confmaps, generate_multiconfmaps)

    v, api, H, W, s = inp["variant"], inp["api"], inp["H"], inp["W"], inp["s"]
    sigma = inp["sn"] / inp["sd"]
    nodes, ninst = inp["nodes"], inp["ninst"]
    samples = inp["samples"]
    n_an = len(samples[0])
    pts = lattice_tensor(samples, 4).reshape(len(samples), n_an, nodes, 2)      # (n_samples, animals, nodes, 2)
    # "mag": the same scene magnified K times (image, stride and keypoints x K - the Gaussian's width sigma * stride scales
    # with them; exact in float32).  The maps are scale-covariant, so the judged case is unchanged, but the real code works
    # at image-scale coordinates (up to 2048 px).
    K = int(inp.get("mag", 1))
    if K != 1:
        H, W, s, pts = H * K, W * K, s * K, pts * K
    def kw(d_sigma, d_stride):
        """a value equal to the documented default of the entry point is LEFT OUT (the default is part of the interface)"""
        out = {}
        if sigma != d_sigma:
            out["sigma"] = sigma
        if s != d_stride:
            out["output_stride"] = s
        return out

    if api in ("fn", "fn3") and not bool(torch.isnan(pts).any()) and bool((pts == pts.round()).all()) and (H + W + nodes) % 2 == 0:
        pts = pts.to(torch.int64)      # whole-pixel keypoints as an INTEGER tensor (pixel coordinates out of an annotation tool)
    if api in ("fn", "fn3"):
        if v == "single":
            x = pts[:, 0] if api == "fn3" else pts                                   # rank 3 or rank 4 input
            return generate_confmaps(x, (H, W), **kw(1.5, 2))
        if v == "multi":
            return generate_multiconfmaps(pts, (H, W), num_instances=ninst, **kw(1.5, 2), **({} if K == 1 else {"is_centroids": False}))
        return generate_multiconfmaps(pts[:, :, 0], (H, W), num_instances=ninst, is_centroids=True, **kw(1.5, 2))
    # The DataPipe classes consume a STREAM of examples: the judged example is alone (spos 0), first of two
    # (spos 1) or second after an example of another image size and other keypoints (spos 2).
    spos = inp.get("spos", 0)
    H2, W2 = H + s * (1 + (W // s) % 2), max(s, W - s)

    def example(h, w, p):
        ex = {"image": torch.zeros((len(samples), 1, h, w))}
        if v == "single":
            ex["instances"] = p
        elif v == "multi":
            ex["instances"] = p[:, :ninst]           # the DataPipe takes every animal it is given
        else:
            ex["centroids"] = p[:, :, 0]
            ex["num_instances"] = ninst
        return ex

    other = example(H2, W2, torch.flip(pts, dims=[-1]) * 0.5 + 1.0)
    stream = {0: [example(H, W, pts)], 1: [example(H, W, pts), other], 2: [other, example(H, W, pts)]}[spos]
    if v == "single":
        dp = ConfidenceMapGenerator(stream, **kw(1.5, 1))
    else:
        dp = MultiConfidenceMapGenerator(stream, centroids=(v == "centroid"), **kw(1.5, 1))
    outs = list(dp)
    if len(outs) != len(stream):
        raise AssertionError("stream of %d examples gave %d outputs" % (len(stream), len(outs)))
    return outs[1 if spos == 2 else 0]["centroids_confidence_maps" if v == "centroid" else "confidence_maps"]


_PIPE_N = [0]


def make_input(fam, variant, api, H, W, s, sig, nodes, samples, ninst, bidx=0):
    spos = 0
    if api == "pipe":
        _PIPE_N[0] += 1
        spos = _PIPE_N[0] % 3
    return dict(fam=fam, variant=variant, api=api, H=H, W=W, s=s, sn=sig[0], sd=sig[1], nodes=nodes,
                samples=samples, ninst=ninst, bidx=bidx, spos=spos, mag=1)


def observe(inputs):
    """inputs -> cases (input fields + projected output), projection batched by output shape."""
    cases, outs = [], []
    for inp in inputs:
        c = dict(inp)
        c["pts"] = inp["samples"][inp["bidx"]]
        c["batch"] = len(inp["samples"])
        c.update(obatch=c["batch"], shape=[], maps=[], amax=[], raised="")
        try:
            with torch.no_grad():
                out = call_real(inp)
            if out.ndim != 4:
                c["shape"] = [int(d) for d in out.shape]
                c["obatch"] = -1
            else:
                c["obatch"] = int(out.shape[0])
                c["shape"] = [int(d) for d in out.shape[1:]]
                if inp["bidx"] < out.shape[0]:
                    outs.append((c, out[inp["bidx"]]))
        except Exception as e:  # totality: an exception is a verdict for TLC, not a crash of the check
            c["raised"] = "%s: %s" % (type(e).__name__, str(e)[:200])
        cases.append(c)
    groups = {}
    for c, o in outs:
        groups.setdefault((tuple(o.shape), conf_k(c["sn"], c["sd"], c["s"])), []).append((c, o))
    for (shape, k), grp in groups.items():
        if 0 in shape:
            for c, o in grp:
                c["maps"], c["amax"] = [[] for _ in range(shape[0])], [[] for _ in range(shape[0])]
            continue
        code, am = project_confmaps(torch.stack([o for _, o in grp]), k)
        for n, (c, _) in enumerate(grp):
            c["maps"] = code[n].tolist()
            c["amax"] = am[n]
    return cases


# ------------------------------------------------------------------------------ families -------
def family_one_keypoint(step):
    """The design model's CmSpace1: 4x4 image, every placement of one keypoint in [-2, 6]^2."""
    lat = list(range(-8, 25, step))
    inputs, fed = [], []
    n = 0
    for variant in ("single", "multi", "centroid"):
        for s in (1, 2, 4):
            for sig in SIGMAS:
                for x in lat:
                    for y in lat:
                        # the DataPipe classes on the half-pixel sub-lattice, the functions everywhere
                        apis = ["fn3" if (variant == "single" and n % 2) else "fn"]
                        if x % 2 == 0 and y % 2 == 0:
                            apis.append("pipe")
                        n += 1
                        for api in apis:
                            inputs.append(make_input("one_keypoint", variant, api, 4, 4, s, sig, 1, [[[[x, y]]]], 1))
                        fed.append([variant, s, sig[0], sig[1], x, y])
    return inputs, fed


def family_nan_patterns():
    """All NaN patterns (visible / NaN / only-x-NaN per point) of 2 animals x 2 nodes, 8x8 image."""
    inputs = []
    bases = [[[[10, 6], [22, 18]], [[14, 10], [5, 27]]],          # near each other: max vs sum matters
             [[[-6, 13], [30, 30]], [[17, 34], [16, 16]]],        # outside / on the border / on a cell
             [[[9, 9], [9, 9]], [[9, 9], [23, 2]]]]               # coincident keypoints
    n = 0
    for base in bases:
        for pat in itertools.product((0, 1, 2), repeat=4):
            pts = [[list(p) for p in an] for an in base]
            for k, t in enumerate(pat):
                if t == 1:
                    pts[k // 2][k % 2] = [NAN, NAN]
                elif t == 2:
                    pts[k // 2][k % 2][0] = NAN
            for s in (1, 2, 4):
                sig = SIGMAS[n % 4]
                n += 1
                inputs.append(make_input("nan_patterns", "multi", "fn", 8, 8, s, sig, 2, [pts], 2))
                if n % 3 == 0:
                    inputs.append(make_input("nan_patterns", "multi", "pipe", 8, 8, s, sig, 2, [pts], 2))
                # num_instances slice: only the first animal feeds the maps, the second is padding
                inputs.append(make_input("num_instances_slice", "multi", "fn", 8, 8, s, sig, 2, [pts], 1))
                cen = [[an[0]] for an in pts]
                inputs.append(make_input("nan_patterns", "centroid", "fn" if n % 2 else "pipe", 8, 8, s, sig, 1, [cen], 2))
                inputs.append(make_input("num_instances_slice", "centroid", "pipe" if n % 2 else "fn", 8, 8, s, sig, 1, [cen], 1))
                if pat[2] == 0 and pat[3] == 0:
                    inputs.append(make_input("nan_patterns", "single", ("fn", "fn3", "pipe")[n % 3], 8, 8, s, sig, 2, [[pts[0]]], 1))
    for s in (1, 2):    # no animal at all / num_instances = 0
        inputs.append(make_input("no_animals", "multi", "fn", 8, 8, s, (1, 1), 2, [[]], 0))
        inputs.append(make_input("no_animals", "multi", "fn", 8, 8, s, (1, 1), 2, [bases[0]], 0))
        inputs.append(make_input("no_animals", "centroid", "fn", 8, 8, s, (1, 1), 1, [[[[9, 9]]]], 0))
    return inputs


def random_points(rng, W, H, n_an, nodes):
    pts = []
    for _ in range(n_an):
        an = []
        for _ in range(nodes):
            u = rng.random()
            p = [rng.randint(-8, 4 * W + 8), rng.randint(-8, 4 * H + 8)]
            if u < 0.12:
                p = [NAN, NAN]
            elif u < 0.15:
                p[rng.randrange(2)] = NAN
            elif u < 0.25:      # exactly on a grid line / image border
                p[0] = 4 * rng.randrange(0, W + 1)
            an.append(p)
        pts.append(an)
    return pts


def family_batches(rng, count):
    """n_samples = 2: each sample's maps must be a function of that sample's keypoints alone."""
    inputs = []
    for k in range(count):
        variant = ("single", "multi", "centroid")[k % 3]
        s, sig = rng.choice((1, 2)), rng.choice(SIGMAS)
        nodes = 1 if variant == "centroid" else 2
        n_an = 1 if variant == "single" else rng.randint(1, 2)
        samples = [random_points(rng, 8, 8, n_an, nodes) for _ in range(2)]
        api = ("fn", "pipe")[(k // 3) % 2]
        for b in range(2):
            inputs.append(make_input("two_samples", variant, api, 8, 8, s, sig, nodes, samples, n_an, bidx=b))
    return inputs


def random_frames(rng, cell_budget):
    inputs, used = [], 0
    while used < cell_budget:
        s = rng.choice((1, 2, 4, 8))
        sides = [d for d in (8, 16, 24, 32, 40, 48, 64) if d % s == 0]
        H, W = rng.choice(sides), rng.choice(sides)
        if s > 1 and rng.random() < 0.3:         # sizes the stride does not divide: the grid is still 0, s, 2s, ... < size
            H, W = rng.choice((H, 10, 11, 18, 27, 37)), rng.choice((W, 9, 13, 22, 30, 45))
        variant = rng.choice(("single", "multi", "multi", "centroid"))
        nodes = 1 if variant == "centroid" else rng.randint(1, 6)
        n_an = 1 if variant == "single" else rng.randint(1, 5)
        ninst = n_an if (variant == "single" or rng.random() < 0.7) else rng.randint(0, n_an)
        api = rng.choice(("fn", "fn", "pipe")) if variant != "single" else rng.choice(("fn", "fn3", "pipe"))
        pts = random_points(rng, W, H, n_an, nodes)
        if rng.random() < 0.3 and n_an > 1:       # a second animal right next to the first: the max matters
            pts[1] = [[c if c == NAN else c + rng.randint(-6, 6) for c in p] for p in pts[0]]
        inputs.append(make_input("random", variant, api, H, W, s, rng.choice(SIGMAS), nodes, [pts], ninst))
        if rng.random() < 0.3:
            inputs[-1]["mag"] = rng.choice((16, 32))
        used += nodes * (H // s) * (W // s)
    return inputs


# ------------------------------------------------------------------------------ bookkeeping ----
def where_of(c):
    return (PIPE if c["api"] == "pipe" else FN)[c["variant"]]


def key_of(c, clause):
    """WHAT fails: entry point, variant, the reduction it goes through, the failing clause, and whether the
    call carried more than one sample."""
    return dict(where=where_of(c), variant=c["variant"], clause=clause, n_samples=c["batch"],
                mechanism="make_confmaps" if c["variant"] == "single" else "make_multi_confmaps")


def visible(p):
    return p[0] != NAN and p[1] != NAN


def count_clauses(res, cases):
    for c in cases:
        feeding = [p for an in c["pts"][:c["ninst"]] for p in an]
        cells = sum(len(m) for m in c["maps"])
        res.coverage["cells_judged"] = res.coverage.get("cells_judged", 0) + cells
        if any(not visible(p) for p in feeding):
            res.clause("case_with_missing_keypoint")
        if any(visible(p) and not (0 <= p[0] <= 4 * (c["W"] - 1) and 0 <= p[1] <= 4 * (c["H"] - 1)) for p in feeding):
            res.clause("case_with_keypoint_outside_grid_extent")
        if any(len(a) > 1 for a in c["amax"]):
            res.clause("case_with_tied_argmax")
        if any(v in (-1, -2) for m in c["maps"] for v in m) and any(visible(p) for p in feeding):
            res.clause("case_with_underflowed_cells")
        if c["ninst"] < len(c["pts"]):
            res.clause("case_with_num_instances_slice")
        if c["variant"] != "single" and sum(1 for an in c["pts"][:c["ninst"]] if any(visible(p) for p in an)) >= 2:
            res.clause("case_with_max_over_animals")
        if c["batch"] > 1:
            res.clause("case_with_two_samples")
        res.clause("api_" + c["api"])
        if c["api"] == "pipe":
            res.clause("pipe_stream_position_%d" % c.get("spos", 0))
        res.clause("variant_" + c["variant"])
        res.clause("stride_%d" % c["s"])
        if c["H"] % c["s"] or c["W"] % c["s"]:
            res.clause("case_with_side_not_multiple_of_stride")
        if c.get("mag", 1) != 1:
            res.clause("case_magnified_to_image_scale_coordinates")


def judge_round(res, name, inputs, note, stats):
    cases = observe(inputs)
    for n, c in enumerate(cases):
        c["id"] = n
    j = judge("Judge_C01", cases, per_shard_min=8, timeout=1500)
    res.add_judge(name, j, note)
    count_clauses(res, cases)
    if j["rejected_n"] and not j["rejected"]:
        raise TLCError("rejections without ids")
    stats["rejected"] = stats.get("rejected", 0) + j["rejected_n"]
    for cid, clause in j["rejected"]:
        c = cases[int(cid)]
        res.violation(key_of(c, clause), clause, {k: c[k] for k in ("fam", "variant", "api", "H", "W", "s", "sn", "sd", "nodes", "samples", "ninst", "bidx", "spos", "mag")},
                      "%s(%s) %dx%d stride %d sigma %d/%d pts=%s num_instances=%d sample %d of %d: %s" % (
                          where_of(c), c["api"], c["H"], c["W"], c["s"], c["sn"], c["sd"], json.dumps(c["samples"]), c["ninst"],
                          c["bidx"], c["batch"], c["raised"] or clause))
    for c in cases:
        sig = json.dumps([c["variant"], c["H"], c["W"], c["s"], c["sn"], c["sd"], c["pts"], c["ninst"]])
        if any(visible(p) for an in c["pts"][:c["ninst"]] for p in an):
            stats["nontrivial"].add(hash(sig))
    return cases


def run(tier, seed):
    res = Result("C01")
    rng = random.Random(seed)
    quick = tier == "quick"
    step = 2 if quick else 1
    r = check_model("MC_Targets", MC_CFG % step, timeout=1500, require_actions=("PickCfg", "MakeConfmaps"))
    res.add_mc("MC_Targets Side=4 CmStep=%d Kinds={cm1,cm2}" % step, r,
               "ideal maps of every configuration accepted by ConfmapClause; argmin-D16 = per-axis nearest cell; "
               "corruptions rejected: %s" % "; ".join(r.printed("DETECT")))
    if r.violation:
        raise TLCError("design check failed: %s\n%s" % (r.violation, r.out[-2000:]))
    if len(r.printed("DETECT")) != 4:
        raise TLCError("design check: expected 4 DETECT lines, got %s" % r.printed("DETECT"))

    stats = dict(nontrivial=set())
    inputs, fed = family_one_keypoint(1)         # the conformance family is always the full quarter-pixel lattice
    cases = judge_round(res, "Judge_C01 one keypoint", inputs,
                        "every placement of one keypoint on the 1/4-px lattice in [-2,6]^2, 4x4 image x strides 1,2,4 x 4 sigmas x 3 variants", stats)
    res.sample({k: cases[100][k] for k in ("variant", "api", "H", "W", "s", "sn", "sd", "pts", "shape", "maps", "amax")})
    # exhaustiveness of what was fed, decided by TLC against the design model's space
    fd, fn = tempfile.mkstemp(prefix="verif_c01_", suffix=".json")
    try:
        with os.fdopen(fd, "w") as f:
            json.dump(fed, f)
        rr = run_tlc("MC_Targets_Space", SPACE_CFG % 1, workers=1, env={"TRACE_FILE": fn}, timeout=600)
    finally:
        os.unlink(fn)
    if not rr.printed("CASESPACE") or rr.violation or rr.error:
        raise TLCError("case-space check failed: %s" % rr.out[-1500:])
    res.coverage["case_space_check"] = rr.printed("CASESPACE")[-1]

    budget = 800_000 if quick else 24_000_000
    rounds = 1 if quick else 8
    for k in range(rounds):
        inputs = random_frames(rng, budget // rounds)
        note = "seeded random frames <= 5 animals x 6 nodes, sides 8..64, strides 1,2,4,8 (%d)" % len(inputs)
        if k == 0:
            nanp, two = family_nan_patterns(), family_batches(rng, 30 if quick else 300)
            note += "; all 3^4 visibility patterns of 2 animals x 2 nodes x 3 placements x strides, num_instances slices, no animals (%d); " \
                    "n_samples = 2, each sample judged against its own keypoints (%d)" % (len(nanp), len(two))
            inputs = nanp + two + inputs
        cases = judge_round(res, "Judge_C01 patterns + random frames %d" % k, inputs, note, stats)
        if k == 0:
            res.sample({k2: cases[7][k2] for k2 in ("variant", "api", "H", "W", "s", "sn", "sd", "pts", "ninst", "shape", "amax")})
    c = cases[-1]
    res.sample(dict(variant=c["variant"], api=c["api"], H=c["H"], W=c["W"], s=c["s"], sigma="%d/%d" % (c["sn"], c["sd"]), pts=c["pts"], shape=c["shape"], amax=c["amax"]))
    res.coverage.update(
        distinct_nontrivial=len(stats["nontrivial"]), exhaustive=True,
        rule="exhaustive: one keypoint at every 1/4-px lattice point of [-2,6]^2 around a 4x4 image x strides {1,2,4} x sigma {1/2,1,3/2,5/2} x "
             "{single,multi,centroid} (set equality with the design model's space checked by TLC), all {visible, NaN, x-only-NaN}^4 patterns of 2 animals x 2 nodes; "
             "seeded random frames otherwise.  non-trivial = distinct (variant, size, stride, sigma, keypoints, num_instances) with at least one visible feeding keypoint.  "
             "Image sides that are not multiples of the stride are included in the random frames (grid 0, s, 2s, ... < size; floor or ceil cell count accepted).  "
             "Excluded: sigma outside the four rationals; infinite coordinates.")
    res.assumptions += [
        "inputs lie on the 1/4-px lattice (exact in float32); value clause in the log domain: |round(-ln(v)*32 sigma^2 s^2) - D16| <= 1 + D16/10^4 for v >= 1e-30",
        "values < 1e-30 (float32 denormals) and exact zeros are accepted only where D16 > 60 * 32 sigma^2 s^2 (v < e^-60)",
        "arg-max set = cells within 1e-6 (relative) of the channel maximum; compared with the cells of minimal D16 when that minimum is <= 60 * 32 sigma^2 s^2",
        "num_instances slice: animals beyond num_instances hold ordinary coordinates in the test (the pipeline pads with NaN)",
        "DataPipe generators are fed streams: the judged example alone, first of two, or second after an example of another image size and other keypoints",
    ]
    return res


def replay(rp, seed):
    res = Result("C01")
    cases = observe([rp["case"]])
    cases[0]["id"] = 0
    j = judge("Judge_C01", cases, shards=1)
    res.add_judge("Judge_C01", j)
    for cid, clause in j["rejected"]:
        res.violation(rp["key"], clause, rp["case"], clause)
    return res
