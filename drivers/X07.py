"""X07 (extension beyond the 20 listed properties): every option of an inference call reaches the stage that uses it.

System behaviour specified in spec/InferOptions.tla: sleap_nn.inference.predictors.main() -> from_model_paths ->
from_trained_models -> _initialize_inference_model, main()'s settings on the bottom-up scorer, Tracker.from_config.

design check : MC_InferOptions - all 10,240 requests of small option domains: ThresholdsSeparate, NoOptionLost, NoLeak,
               TrackingSeparate; the counter-model "a threshold pair's first number for every stage" must violate
               ThresholdsSeparate
spec -> code  : seeded requests from larger domains are given to the REAL main() (predict() replaced by a recorder, so
               the predictor is built and its pipeline made, nothing is run); the placements read from the predictor's
               stages, scorer and tracker are judged by Judge_X07 against InferOptions!Placed
"""
import os
import random

from harness.evidence import Result
from harness.tlc import check_model, judge, TLCError

MC_CFG = "CONSTANT PairCollapsed = %s\nINIT Init\nNEXT Next\n%s\nCHECK_DEADLOCK FALSE\n"
INVS = "\n".join("INVARIANT " + i for i in ("ThresholdsSeparate", "NoOptionLost", "NoLeak", "TrackingSeparate"))
NONE = -1
ASSET = {"centroid": "tests/assets/minimal_instance_centroid", "centered": "tests/assets/minimal_instance", "bottomup": "tests/assets/minimal_instance_bottomup"}
PATHSEQS = [["centroid", "centered"], ["centered", "centroid"], ["centered"], ["centroid"], ["bottomup"], ["bottomup"]]


def random_opts(rng):
    pair = rng.random() < 0.45
    return dict(pt1=rng.choice([1, 2, 3, 5, 7]), pt2=(rng.choice([1, 2, 4, 6, 8]) if pair else NONE), refine=rng.choice(["none", "integral"]),
                patch=rng.choice([3, 5, 7]), maxinst=rng.choice([NONE, 1, 2, 6]), confmaps=rng.random() < 0.5,
                melr=rng.choice([10, 25, 50]), dpw=rng.choice([0, 50, 100, 200]), npts=rng.choice([5, 10, 20]), mip=rng.choice([0, 1, 2]),
                mls=rng.choice([-50, 0, 25, 50]), pafs=rng.random() < 0.5, graph=rng.random() < 0.5,
                tracking=rng.random() < 0.6, win=rng.choice([1, 3, 5, 10]), ist=rng.choice([0, 3, 7]), cand=rng.choice(["fixed_window", "local_queues"]),
                feat=rng.choice(["keypoints", "centroids", "bboxes"]), score=rng.choice(["oks", "cosine_sim", "iou", "euclidean_dist"]),
                red=rng.choice(["mean", "max", "weighted"]), match=rng.choice(["hungarian", "greedy"]), flow=rng.random() < 0.35,
                ofs=rng.choice([50, 100]), ofw=rng.choice([11, 21]), ofl=rng.choice([2, 3, 4]))


def blank():
    o = {k: NONE for k in ("c_pt", "c_patch", "c_maxinst", "i_pt", "i_patch", "b_pt", "b_patch", "b_maxinst", "melr", "dpw", "npts", "mip", "mls", "win", "ist", "ofs", "ofw", "ofl")}
    o.update({k: "n/a" for k in ("c_refine", "i_refine", "b_refine", "cand", "feat", "score", "red", "match")})
    o.update({k: False for k in ("c_confmaps", "i_confmaps", "b_confmaps", "pafs", "graph")})
    o.update({"class": "", "tracker": "none", "raised": ""})
    return o


def _n(v, scale=1):
    return NONE if v is None else int(round(float(v) * scale))


def observe(repo, r, slp):
    import sleap_nn.inference.predictors as P

    o, op = blank(), r["o"]
    got = []
    orig = P.Predictor.predict
    P.Predictor.predict = lambda self, make_labels=True, save_path="": got.append(self)
    try:
        P.main(data_path=slp, model_paths=[os.path.join(repo, ASSET[k]) for k in r["paths"]],
               peak_threshold=(op["pt1"] / 10.0 if op["pt2"] == NONE else [op["pt1"] / 10.0, op["pt2"] / 10.0]),
               integral_refinement=(None if op["refine"] == "none" else op["refine"]), integral_patch_size=op["patch"],
               max_instances=(None if op["maxinst"] == NONE else op["maxinst"]), return_confmaps=op["confmaps"],
               max_edge_length_ratio=op["melr"] / 100.0, dist_penalty_weight=op["dpw"] / 100.0, n_points=op["npts"], min_instance_peaks=op["mip"],
               min_line_scores=op["mls"] / 100.0, return_pafs=op["pafs"], return_paf_graph=op["graph"], make_labels=False, device="cpu", batch_size=2,
               tracking=op["tracking"], tracking_window_size=op["win"], tracking_instance_score_threshold=op["ist"] / 10.0, candidates_method=op["cand"],
               features=op["feat"], scoring_method=op["score"], scoring_reduction=op["red"], track_matching_method=op["match"], use_flow=op["flow"],
               of_img_scale=op["ofs"] / 100.0, of_window_size=op["ofw"], of_max_levels=op["ofl"])
        p = got[-1]
        o["class"] = type(p).__name__
        im = p.inference_model
        if o["class"] == "TopDownPredictor":
            cc, ip = im.centroid_crop, im.instance_peaks
            if not getattr(cc, "use_gt_centroids", False):
                o.update(c_pt=_n(cc.peak_threshold, 10), c_refine=(cc.refinement or "none"), c_patch=_n(cc.integral_patch_size), c_maxinst=_n(cc.max_instances), c_confmaps=bool(cc.return_confmaps))
            if type(ip).__name__ == "FindInstancePeaks":
                o.update(i_pt=_n(ip.peak_threshold, 10), i_refine=(ip.refinement or "none"), i_patch=_n(ip.integral_patch_size), i_confmaps=bool(ip.return_confmaps))
        elif o["class"] == "BottomUpPredictor":
            sc = im.paf_scorer
            o.update(b_pt=_n(im.peak_threshold, 10), b_refine=(im.refinement or "none"), b_patch=_n(im.integral_patch_size), b_confmaps=bool(im.return_confmaps),
                     b_maxinst=_n(p.max_instances), melr=_n(sc.max_edge_length_ratio, 100), dpw=_n(sc.dist_penalty_weight, 100), npts=_n(sc.n_points),
                     mip=_n(sc.min_instance_peaks), mls=_n(sc.min_line_scores, 100), pafs=bool(im.return_pafs), graph=bool(im.return_paf_graph))
        t = p.tracker
        if t is not None:
            cand = {"FixedWindowCandidates": "fixed_window", "LocalQueueCandidates": "local_queues"}.get(type(t.candidate).__name__, type(t.candidate).__name__)
            o.update(tracker=type(t).__name__, cand=cand, win=_n(t.candidate.window_size), ist=_n(t.candidate.instance_score_threshold, 10), feat=str(t.features),
                     score=str(t.scoring_method), red=str(t.scoring_reduction), match=str(t.track_matching_method))
            if type(t).__name__ == "FlowShiftTracker":
                o.update(ofs=_n(t.img_scale, 100), ofw=_n(t.of_window_size), ofl=_n(t.of_max_levels))
    except Exception as ex:
        o["raised"] = "%s: %s" % (type(ex).__name__, " ".join(str(ex).split())[:160])
    finally:
        P.Predictor.predict = orig
    return o


def run(tier, seed, only=None):
    from loguru import logger
    from harness import shim

    logger.disable("sleap_nn")
    res = Result("X07")
    rng = random.Random(seed)
    slp = os.path.join(shim.REPO, "tests/assets/minimal_instance.pkg.slp")
    if only is None:
        r1 = check_model("MC_InferOptions", MC_CFG % ("FALSE", INVS), timeout=900, workers=6)
        res.add_mc("MC_InferOptions (10,240 requests)", r1, "ThresholdsSeparate, NoOptionLost, NoLeak, TrackingSeparate")
        if r1.violation:
            raise TLCError("design check failed: %s" % (r1.violation,))
        r2 = check_model("MC_InferOptions", MC_CFG % ("TRUE", "INVARIANT ThresholdsSeparate"), timeout=600, workers=6, expect_violation=("invariant", "ThresholdsSeparate"))
        res.add_mc("MC_InferOptions counter-model (a pair's first number for every stage)", r2, "must violate ThresholdsSeparate (expected)")
        reqs = [dict(paths=(PATHSEQS[k % len(PATHSEQS)]), o=random_opts(rng)) for k in range(600 if tier == "quick" else 12000)]
        for r in reqs:
            if r["paths"] == ["bottomup"]:
                r["o"]["pt2"] = NONE      # a threshold pair is a top-down option (one number per stage); bottom-up takes a float
    else:
        reqs = only
    cases = [dict(id=k, r=r, obs=observe(shim.REPO, r, slp)) for k, r in enumerate(reqs)]
    j = judge("Judge_X07", cases, per_shard_min=200, timeout=900)
    res.add_judge("Judge_X07", j, "%d calls of the real main()" % len(cases))
    for cid, clause in j["rejected"]:
        c = cases[int(cid)]
        parts = clause.split("/")
        res.violation(dict(where="predictors.main", kind=parts[0], field=(parts[1] if len(parts) > 1 else ""), models="+".join(sorted(c["r"]["paths"]))),
                      clause, dict(r=c["r"]), "request=%s observed=%s" % (c["r"], c["obs"]))
    if j["rejected_n"] and not j["rejected"]:
        raise TLCError("rejections without ids")
    res.clause("calls_threshold_pair", sum(1 for c in cases if c["r"]["o"]["pt2"] != NONE))
    res.clause("calls_with_tracking", sum(1 for c in cases if c["r"]["o"]["tracking"]))
    res.clause("calls_with_flow_tracker", sum(1 for c in cases if c["r"]["o"]["tracking"] and c["r"]["o"]["flow"]))
    res.clause("calls_bottomup", sum(1 for c in cases if c["r"]["paths"] == ["bottomup"]))
    res.clause("calls_two_models", sum(1 for c in cases if len(c["r"]["paths"]) == 2))
    if cases:
        res.sample(dict(request=cases[0]["r"], observed=cases[0]["obs"]))
        res.sample(dict(request=cases[-1]["r"], observed=cases[-1]["obs"]))
    res.coverage.update(evaluations=len(cases), exhaustive=False, distinct_nontrivial=len({str(c["r"]) for c in cases if c["r"]["o"]["tracking"] or c["r"]["o"]["pt2"] != NONE}),
                        rule="seeded requests: model sets (centroid+centred in both orders, centred, centroid, bottom-up) x options from larger domains than the design check; "
                             "non-trivial = tracking on or a threshold pair.  Excluded: single-instance models (no checkpoint among the repository's assets), max_tracks "
                             "(raises when exceeded: half implemented), device, checkpoint overrides (X05), preprocessing options (X02).")
    res.assumptions += ["predict() is replaced by a recorder: main() builds the predictor, its stages, scorer, tracker and pipeline for real; nothing is run",
                        "the repository's three test checkpoints (tests/assets/minimal_instance*), LabelsReader on tests/assets/minimal_instance.pkg.slp"]
    return res


def replay(rp, seed):
    return run("quick", seed, only=[rp["case"]["r"]])
