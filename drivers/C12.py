"""C12: a frame's predictions are independent of batch-mates and carry its indices.

design check : InferBatch - all batches (sequences without repetition) of <= 3 of 4 frames holding 0..3 animals:
               attribution = per-frame result, empty frames contribute nothing, top-k by score; the counter-model
               "identity list zipped by position after skipping empty results" must violate
spec -> code  : for each of the 40 batches x model type (single-instance, top-down, bottom-up) x max_instances x
               refinement: the real Predictor (real make_pipeline over a Labels object holding exactly the batch,
               real _predict_generator, real inference model, real label construction) with ideal-network stubs;
               every frame is also run alone.  Results are grouped by the (video, frame) identity the code reports
               and put into allclose equality classes; Judge_C12 checks the clauses.
               (The _predict_generator batching itself is C13's subject.)
"""
import itertools
import random

import numpy as np

from harness.evidence import Result
from harness.tlc import check_model, judge, TLCError

IB = 'CONSTANTS Frames = {0, 1, 2, 3}\n K = %d\n Model = "%s"\nINIT BInit\nNEXT BNext\nINVARIANT Independent\nINVARIANT NoForeign\nINVARIANT EmptyContributeNothing\nCHECK_DEADLOCK FALSE\n'
H, W = 64, 96
EDGES = [(0, 1), (1, 2)]


H2, W2 = 48, 64


def scene(rng, single, mixed=False):
    """4 frames with 0,1,2,3 animals (single-instance: 1 animal each, one of them with all nodes missing) in 2 videos.
    mixed: the frames of video 1 are smaller (48x64) and every frame is size-matched to (64, 96), so frames of one batch
    carry different effective scales."""
    frames = []
    for f in range(4):
        animals = []
        n_an = (1 if f else 0) if single else f
        small = mixed and f // 2 == 1
        for a in range(n_an):
            cx = (10 + a * 19 if small else 14 + a * 30) + rng.uniform(-2, 2)
            cy = 12 + ((f * 13 + a * 7) % (24 if small else 32)) + rng.uniform(-2, 2)
            pts = np.array([[cx, cy], [cx + 7 + rng.uniform(-1, 1), cy + 1], [cx + 9, cy + 8 + rng.uniform(-1, 1)]])
            pts = np.round(pts * 4) / 4.0
            if rng.random() < 0.3:
                pts[2] = np.nan
            animals.append(pts)
        frames.append(dict(hw=((H2, W2) if small else (H, W)), animals=animals, video=f // 2))
    if rng.random() < 0.5:
        # full-size frames whose sides the max stride (8) does not divide: stride padding really pads, inside a batch
        for fr in frames:
            if fr["hw"] == (H, W):
                fr["hw"] = (H - 4, W - 4)
    return frames


def build(model, frames, k, refine, batch):
    from harness import inferplane as ip

    H, W = max(fr["hw"][0] for fr in frames), max(fr["hw"][1] for fr in frames)     # size-matching target = the largest frame
    if model == "single":
        return ip.build_single(dict(scale=1.0, max_stride=8, stride=2, refine=refine, batch=batch, max_h=H, max_w=W), frames, 3)[0]
    if model == "topdown":
        return ip.build_topdown(dict(scale=1.0, cscale=1.0, max_stride=8, stride=2, cstride=2, crop=32, anchor=0, refine=refine, batch=batch, max_h=H, max_w=W), frames, 3, max_instances=(k or None))[0]
    if model == "bottomup-tiny":      # 32x32 frames, PAF stride 8: a 4x4 PAF grid, smaller than the batch
        return ip.build_bottomup(dict(scale=1.0, max_stride=8, stride=2, pstride=8, refine=refine, batch=batch), frames, 3, EDGES, max_instances=(k or None))[0]
    return ip.build_bottomup(dict(scale=1.0, max_stride=8, stride=2, pstride=2, refine=refine, batch=batch, max_h=H, max_w=W), frames, 3, EDGES, max_instances=(k or None))[0]


def tiny_scene(rng):
    """8 frames of 32x32 px, one animal each whose edges (about 12 px) are longer than the unpenalised length on a 4x4 PAF grid
    (0.25 * 4 cells * 8 px): the line score carries the distance penalty, which depends on the PAF grid size only."""
    frames = []
    for f in range(8):
        x0, y0 = 5 + rng.uniform(0, 2), 6 + (f % 3) + rng.uniform(0, 1)
        pts = np.array([[x0, y0], [x0 + 12 + rng.uniform(-0.5, 0.5), y0 + 1], [x0 + 13, y0 + 13 + rng.uniform(-0.5, 0.5)]])
        frames.append(dict(hw=(32, 32), animals=[np.round(pts * 4) / 4.0], video=0))
    return frames


def run_batch(model, src, frames, batch, k, refine):
    """Real predictor on a Labels object holding exactly the frames of `batch`, in that order.  Returns
    {fid: [(points, score)]} keyed by the identity (video, frame_idx) the CODE reports, or raises."""
    import sleap_io as sio
    from harness import inferplane as ip

    sub = sio.Labels(videos=src.videos, skeletons=src.skeletons, labeled_frames=[src[i] for i in batch])
    ident = {(src.videos.index(src[i].video), int(src[i].frame_idx)): i for i in range(len(src))}
    pred = build(model, frames, k, refine, len(batch))
    lab = ip.run_predictor(pred, "LabelsReader", sub, len(batch), make_labels=True)
    out = {}
    for lf in lab:
        fid = ident.get((lab.videos.index(lf.video), int(lf.frame_idx)), -1)
        insts = [(np.asarray(x.numpy(), dtype=np.float64), float(x.score) if x.score is not None else 0.0) for x in lf.instances]
        insts = [(p, s_) for p, s_ in insts if np.any(np.isfinite(p))]  # an all-NaN instance (single-instance model, nothing above threshold) is "no instance"
        out.setdefault(fid, []).append(insts)
    return out


def run_centroid_only(src, frames, stub_frames, batch, bs=None):
    """The centroid-only predictor (centroid model + keypoints taken from the labels: TopDownPredictor with confmap_config None,
    FindInstancePeaksGroundTruth) on a Labels object holding exactly the frames of `batch`, in that order.  The stub network
    sees `stub_frames` - the labelled animals plus, in one frame, a spurious extra centroid (an over-detection).  Raw records
    (make_labels is the known finding X03 for this predictor).  `batch` always lists ALL frames of the source (in some order) and
    `bs` is the batch size: the reader pads every frame to the largest number of animals in the whole label set, so a label
    set holding only some frames would change the number of slots - an artefact of the harness, not a batch effect.
    Returns {frame id: [[(points, score)]]}."""
    import sleap_io as sio
    from harness import inferplane as ip
    from harness.idealnet import IdealNet
    from sleap_nn.inference.predictors import TopDownPredictor

    H, W = max(fr["hw"][0] for fr in frames), max(fr["hw"][1] for fr in frames)
    cc = ip.conf_centroid(1.0, 8, 2, H, W, 0)
    stub = IdealNet("centroid", stub_frames, 2, 3, anchor=0)
    skel = sio.Skeleton(nodes=["n%d" % i for i in range(3)])
    pred = TopDownPredictor(centroid_config=cc, confmap_config=None, centroid_model=stub, confmap_model=None, centroid_backbone_type="unet",
                            skeletons=[skel], peak_threshold=0.2, integral_refinement=None, integral_patch_size=5, batch_size=(bs or len(batch)),
                            max_instances=None, preprocess_config=None)
    pred._initialize_inference_model()
    sub = sio.Labels(videos=src.videos, skeletons=src.skeletons, labeled_frames=[src[i] for i in batch])
    ident = {(src.videos.index(src[i].video), int(src[i].frame_idx)): i for i in range(len(src))}
    out = {}
    for rec in ip.run_predictor(pred, "LabelsReader", sub, (bs or len(batch)), make_labels=False):
        peaks = np.asarray(rec["pred_instance_peaks"], dtype=np.float64)
        for j in range(peaks.shape[0]):
            fid = ident.get((int(rec["video_idx"][j]), int(rec["frame_idx"][j])), -1)
            insts = [(peaks[j, a], 1.0) for a in range(peaks.shape[1]) if np.any(np.isfinite(peaks[j, a]))]
            out.setdefault(fid, []).append(insts)
    return out


def run_range(model, src, frames, s, e, bs, k, refine):
    """Real predictor with the VideoReader provider on frames [s, e) of the (single) video, batch size bs.
    Returns {frame_idx: [instances]} keyed by the identity the CODE reports."""
    from harness import inferplane as ip

    pred = build(model, frames, k, refine, bs)
    lab = ip.run_predictor(pred, "VideoReader", src, bs, make_labels=True, video_range=(s, e))
    out = {}
    for lf in lab:
        fid = int(lf.frame_idx) if lab.videos.index(lf.video) == 0 else -1
        insts = [(np.asarray(x.numpy(), dtype=np.float64), float(x.score) if x.score is not None else 0.0) for x in lf.instances]
        insts = [(p, s_) for p, s_ in insts if np.any(np.isfinite(p))]
        out.setdefault(fid, []).append(insts)
    return out


RANGES = [(0, 4, 2), (0, 4, 3), (0, 4, 4), (1, 4, 2), (0, 3, 3), (1, 3, 2), (2, 4, 2)]


class Classes:
    """allclose clustering of instance coordinate arrays (NaN pattern must match)"""

    def __init__(self):
        self.reps = []

    def of(self, pts):
        for i, r in enumerate(self.reps):
            if np.array_equal(np.isnan(r), np.isnan(pts)) and np.allclose(np.nan_to_num(r), np.nan_to_num(pts), atol=2e-3, rtol=0):
                return i
        self.reps.append(pts)
        return len(self.reps) - 1


def run(tier, seed, only=None):
    from loguru import logger
    from harness import inferplane as ip
    logger.disable("sleap_nn")
    res = Result("C12")
    for k in (0, 2):
        r = check_model("InferBatch", IB % (k, "intended"), timeout=900, workers=4, require_actions=("RunBatch",))
        res.add_mc("InferBatch intended, K=%d" % k, r)
        if r.violation:
            raise TLCError("InferBatch violated: %s" % (r.violation,))
    rc = check_model("InferBatch", IB % (2, "misaligned"), timeout=900, workers=4, expect_violation=("invariant", "Independent"))
    res.add_mc("InferBatch counter-model (zip by position after skipping empty results)", rc, "must violate")
    batches = [list(b) for n in (1, 2, 3) for b in itertools.permutations(range(4), n)]
    combos = [("single", 0, None), ("single", 0, "integral"), ("topdown", 0, None), ("topdown", 1, None), ("topdown", 2, "integral"),
              ("bottomup", 0, None), ("bottomup", 1, "integral"), ("bottomup", 2, None)]
    if tier == "thorough":
        combos = [(m, k, rf) for m in ("single", "topdown", "bottomup") for k in ((0,) if m == "single" else (0, 1, 2)) for rf in (None, "integral")]
    rng = random.Random(seed)
    cases = []
    for ci, (model, k, refine) in enumerate(combos):
        tiny_only = bool(only) and only["combo"][0] == "bottomup-tiny"
        if tiny_only:
            if (model, k, refine) != ("bottomup", 0, only["combo"][2]):
                continue
        elif only and (model, k, refine) != tuple(only["combo"]):
            continue
        srng = random.Random(seed * 31 + ci)
        mixed = ci % 2 == 1           # every second combination: two videos of different frame sizes, size-matched
        frames = scene(srng, model == "single", mixed)
        src = ip.make_source(frames, 3, EDGES)
        # make_source puts everything in one video; rebuild with 2 videos so that video_idx matters
        from harness.labels_util import make_labels
        from harness.idealnet import frame_image
        fl = [dict(image=frame_image(fr["hw"][0], fr["hw"][1], fid), instances=(fr["animals"] if fr["animals"] else [np.full((3, 2), np.nan)]), video=fr["video"]) for fid, fr in enumerate(frames)]
        src = make_labels(fl, n_nodes=3, edges=EDGES)
        cl = Classes()

        def proj(insts):
            return [dict(cls=cl.of(p), score=int(round(s * 1e6))) for p, s in insts]

        single, singlek, err = [], [], ""
        try:
            for f in range(4):
                o0 = run_batch(model, src, frames, [f], 0, refine)
                ok_ = run_batch(model, src, frames, [f], k, refine) if k else o0
                single.append(proj(sum(o0.get(f, []), [])))
                singlek.append(proj(sum(ok_.get(f, []), [])))
        except Exception as e:
            err = "singleton run: %s: %s" % (type(e).__name__, str(e)[:200])
        use = batches if tier == "thorough" else ([b for b in batches if len(b) <= 2] + rng.sample([b for b in batches if len(b) == 3], 8))
        for b in use:
            if only and (b != only["batch"] or only.get("range") or tiny_only):
                continue
            case = dict(id=len(cases), model=model, k=k, refine=refine or "none", batch=b, animals=[len(fr["animals"]) for fr in frames],
                        single=single, singlek=singlek, recs=[], raised=err, combo=[model, k, refine], seed=seed)
            if not err:
                try:
                    o = run_batch(model, src, frames, b, k, refine)
                    for fid, lst in o.items():
                        for insts in lst:
                            case["recs"].append(dict(fid=fid, insts=proj(insts)))
                except Exception as e:
                    import traceback
                    case["raised"] = "%s: %s | %s" % (type(e).__name__, str(e)[:200], traceback.format_exc()[-300:].replace("\n", " / "))
            cases.append(case)
        # ---- bottom-up only: more frames in the batch than the PAF grid has cells along a side --------------------------
        if model == "bottomup" and (not only or tiny_only):
            framesT = tiny_scene(random.Random(seed * 41 + ci))
            srcT = ip.make_source(framesT, 3, EDGES)
            clT = Classes()

            def projT(insts):
                return [dict(cls=clT.of(p), score=int(round(s_ * 1e6))) for p, s_ in insts]

            singleT, errT = [], ""
            try:
                for f in range(8):
                    o0 = run_batch("bottomup-tiny", srcT, framesT, [f], 0, refine)
                    singleT.append(projT(sum(o0.get(f, []), [])))
            except Exception as e:
                errT = "singleton run: %s: %s" % (type(e).__name__, str(e)[:200])
            for b in ([0, 1, 2, 3, 4, 5, 6, 7], [7, 3, 5, 1, 6, 0, 2, 4], [0, 1, 2, 3, 4, 5]):
                if tiny_only and b != only["batch"]:
                    continue
                case = dict(id=len(cases), model="bottomup", k=0, refine=refine or "none", batch=b, animals=[1] * 8, single=singleT, singlek=singleT,
                            recs=[], raised=errT, combo=["bottomup-tiny", 0, refine], seed=seed, family="tiny_frames_big_batch")
                if not errT:
                    try:
                        o = run_batch("bottomup-tiny", srcT, framesT, b, 0, refine)
                        for fid, lst in o.items():
                            for insts in lst:
                                case["recs"].append(dict(fid=fid, insts=projT(insts)))
                    except Exception as e:
                        case["raised"] = "%s: %s" % (type(e).__name__, str(e)[:200])
                cases.append(case)
        # ---- top-down, no user limit: the centroid-only predictor (keypoints from the labels), with one over-detected frame ------
        if model == "topdown" and k == 0 and refine is None and not only:
            framesG = scene(random.Random(seed * 43 + ci), False)
            srcG = ip.make_source(framesG, 3, EDGES)
            # the stub sees a spurious animal in frame 3 - the frame with the most animals, so that it has MORE centroids than the
            # label set has slots - and one in frame 2 (false-positive centroid peaks away from the labelled ones)
            stubG = [dict(fr, animals=list(fr["animals"])) for fr in framesG]
            stubG[3]["animals"].append(np.array([[60.0, 50.0], [67.0, 51.0], [69.0, 56.0]]))
            stubG[2]["animals"].append(np.array([[70.0, 50.0], [77.0, 51.0], [79.0, 56.0]]))
            clG = Classes()

            def projG(insts):
                return [dict(cls=clG.of(p), score=int(round(s_ * 1e6))) for p, s_ in insts]

            singleG, errG = [], ""
            try:
                o0 = run_centroid_only(srcG, framesG, stubG, [0, 1, 2, 3], bs=1)       # every frame alone in its batch
                for f in range(4):
                    singleG.append(projG(sum(o0.get(f, []), [])))
            except Exception as e:
                errG = "singleton run: %s: %s" % (type(e).__name__, str(e)[:200])
            for b_, bs_ in (([0, 1, 2, 3], 2), ([3, 2, 1, 0], 2), ([2, 3, 0, 1], 3), ([1, 2, 3, 0], 4), ([2, 1, 3, 0], 2)):
                case = dict(id=len(cases), model="topdown", k=0, refine="none", batch=b_, bs=bs_,
                            # instances per frame as the stage reports them alone (the over-detected frame returns its spurious centroid
                            # matched to the nearest labelled animal: one more instance than animals - by design of the matching)
                            animals=([len(x) for x in singleG] if len(singleG) == 4 else [len(fr["animals"]) for fr in framesG]), single=singleG,
                            singlek=singleG, recs=[], raised=errG, combo=["centroid-only", 0, None], seed=seed, family="centroid_only_with_over_detection")
                if not errG:
                    try:
                        o = run_centroid_only(srcG, framesG, stubG, b_, bs=bs_)
                        for fid, lst in o.items():
                            for insts in lst:
                                case["recs"].append(dict(fid=fid, insts=projG(insts)))
                    except Exception as e:
                        case["raised"] = "%s: %s" % (type(e).__name__, str(e)[:200])
                cases.append(case)
        # ---- the same combination through the VideoReader provider: consecutive frames [s, e) of ONE video in batches of bs
        if only and ((not only.get("range") and only.get("batch") is not None) or tiny_only):
            continue
        framesV = [dict(fr, video=0) for fr in scene(random.Random(seed * 37 + ci), model == "single")]
        if k == 0:
            # animals per frame 1, 0, 2, 3: later batches hold MORE animals than any frame of the first one (what a model
            # object remembers from its first batch must not cap the later ones; seeds C02_r13 / C12_r13)
            framesV = [framesV[1], framesV[0], framesV[2], framesV[3]]
        else:
            framesV = framesV[2:] + framesV[:2]              # 2, 3, 0, 1: an empty frame in the middle of a batch, not only first
        srcV = ip.make_source(framesV, 3, EDGES)
        clV = Classes()

        def projV(insts):
            return [dict(cls=clV.of(p), score=int(round(s_ * 1e6))) for p, s_ in insts]

        singleV, singlekV, errV = [], [], ""
        try:
            for f in range(4):
                o0 = run_range(model, srcV, framesV, f, f + 1, 1, 0, refine)
                ok_ = run_range(model, srcV, framesV, f, f + 1, 1, k, refine) if k else o0
                singleV.append(projV(sum(o0.get(f, []), [])))
                singlekV.append(projV(sum(ok_.get(f, []), [])))
        except Exception as e:
            errV = "singleton run: %s: %s" % (type(e).__name__, str(e)[:200])
        for (s0, e0, bs) in (RANGES if tier == "thorough" else RANGES[:4] + [RANGES[4 + ci % 3]]):
            if only and [s0, e0, bs] != only.get("range"):
                continue
            case = dict(id=len(cases), model=model, k=k, refine=refine or "none", batch=list(range(s0, e0)), animals=[len(fr["animals"]) for fr in framesV],
                        single=singleV, singlek=singlekV, recs=[], raised=errV, combo=[model, k, refine], seed=seed, range=[s0, e0, bs], provider="VideoReader")
            if not errV:
                try:
                    o = run_range(model, srcV, framesV, s0, e0, bs, k, refine)
                    for fid, lst in o.items():
                        for insts in lst:
                            case["recs"].append(dict(fid=fid, insts=projV(insts)))
                except Exception as e:
                    import traceback
                    case["raised"] = "%s: %s | %s" % (type(e).__name__, str(e)[:200], traceback.format_exc()[-300:].replace("\n", " / "))
            cases.append(case)
    # ---- real trained network (the repository's bottom-up test checkpoint) through the repository's own entry point
    # main(): consecutive frames of the asset video in batches of different sizes vs each frame alone -------------------
    if not only:
        from harness import shim
        from harness.realnet import predict_range
        F = list(range(6 if tier == "quick" else 16))
        cl = Classes()

        def projr(insts):
            return [dict(cls=cl.of(p), score=int(round(s * 1e6))) for p, s, _t in insts]

        thr = 0.1
        single, stable, err = [], [], ""
        try:
            for f in F:
                base = predict_range(shim.REPO, "bottomup", f, f + 1, 1, peak_threshold=thr)
                lo = predict_range(shim.REPO, "bottomup", f, f + 1, 1, peak_threshold=thr * 0.8)
                hi = predict_range(shim.REPO, "bottomup", f, f + 1, 1, peak_threshold=thr * 1.25)
                b_, l_, h_ = [sum([i for _f, i in r], []) for r in (base, lo, hi)]
                single.append(projr(b_))
                # a frame is judged only if no peak sits near the threshold (a 1e-7 numeric difference between batch
                # sizes must not be able to flip a detection): same instances at 0.8x and 1.25x the threshold
                stable.append(sorted(x["cls"] for x in projr(l_)) == sorted(x["cls"] for x in single[-1]) == sorted(x["cls"] for x in projr(h_)))
        except Exception as e:
            err = "singleton run: %s: %s" % (type(e).__name__, str(e)[:200])
        Fs = [f for f in F if not err and stable[f]]
        res.clause("real_network_frames_skipped_peak_near_threshold", len(F) - len(Fs))
        for bs in ((2, 4) if tier == "quick" else (2, 3, 4, 8)):
            for qm in ((1, 4) if tier == "quick" else (1, 2, 8)):
                case = dict(id=len(cases), model="real-bottomup", k=0, refine="none", batch=Fs, animals=[len(x) for x in single] if not err else [],
                            single=single, singlek=single, recs=[], raised=err, combo=["real-bottomup", bs, qm], seed=seed)
                if not err:
                    try:
                        for fi, insts in predict_range(shim.REPO, "bottomup", F[0], F[-1] + 1, bs, queue_maxsize=qm, peak_threshold=thr):
                            if fi in Fs or fi not in F:
                                case["recs"].append(dict(fid=fi, insts=projr(insts)))
                    except Exception as e:
                        case["raised"] = "%s: %s" % (type(e).__name__, str(e)[:200])
                cases.append(case)
        res.coverage["real_network_batch_runs"] = sum(1 for c in cases if c["model"] == "real-bottomup")
    keep = ("id", "k", "batch", "animals", "single", "singlek", "recs", "raised")
    j = judge("Judge_C12", [{k_: v for k_, v in c.items() if k_ in keep} for c in cases], timeout=900, per_shard_min=40)
    res.add_judge("Judge_C12", j, "%d real batch runs" % len(cases))
    for cid, clause in j["rejected"]:
        c = cases[int(cid)]
        key = dict(where={"single": "SingleInstancePredictor", "topdown": "TopDownPredictor", "bottomup": "BottomUpPredictor", "real-bottomup": "main():bottomup checkpoint"}[c["model"]], kind=clause, max_instances=c["k"])
        if clause == "raised":
            key["error"] = c["raised"].split(":")[0 if not c["raised"].startswith("singleton") else 1].strip()
        if c.get("provider"):
            key["provider"] = c["provider"]
        res.violation(key, clause, dict(combo=c["combo"], batch=c["batch"], range=c.get("range"), recs=c["recs"], singlek=c["singlek"], single=c["single"], animals=c["animals"]),
                      "%s k=%s refine=%s batch=%s %s %s" % (c["model"], c["k"], c["refine"], c["batch"], ("VideoReader range/batch size %s" % c["range"]) if c.get("range") else "", c["raised"]))
    res.clause("batches_with_empty_frame", sum(1 for c in cases if 0 in c["batch"]))
    res.clause("batches_larger_than_the_paf_grid", sum(1 for c in cases if c.get("family") == "tiny_frames_big_batch"))
    res.clause("video_reader_range_runs", sum(1 for c in cases if c.get("provider") == "VideoReader"))
    res.clause("runs_with_max_instances", sum(1 for c in cases if c["k"]))
    res.coverage.update(evaluations=len(cases), exhaustive=(tier == "thorough"),
                        distinct_nontrivial=len({(c["model"], c["k"], c["refine"], str(c["batch"])) for c in cases if len(c["batch"]) >= 2}),
                        rule="all 40 batches of <= 3 of 4 frames (0..3 animals, two videos) in thorough; all of size <= 2 plus 8 of size 3 in quick; x model type x max_instances {none,1,2} x refinement; non-trivial = batch of at least 2 frames")
    if cases:
        res.sample({k_: cases[len(cases) // 2][k_] for k_ in ("model", "k", "batch", "recs", "singlek")})
    res.assumptions += ["ideal-network stubs (see C02/C03); LabelsReader (arbitrary batches) and VideoReader (consecutive ranges x batch sizes) providers; predict(make_labels=True) through the sleap-io compatibility shim",
                        "an all-NaN PredictedInstance (what the single-instance predictor emits for a frame with no detection) counts as no instance",
                        "equality classes by allclose (2e-3 px) clustering of instance coordinate arrays"]
    return res


def replay(rp, seed):
    c = rp["case"]
    return run("thorough", seed, only=dict(combo=c["combo"], batch=c["batch"], range=c.get("range")))
