"""C11: datasets never alter or invent labels; the same index gives the same sample.

design check : MC_DataStore - heap model of the store layer (labels, cache, returned tensors as addresses):
               4 dataset classes x np_chunks x anchor {None, node 1, node 2} x user_instances_only x 5 label
               families, every read history of length <= 4 over {first, second, last} index, one functional
               call on the returned sample anywhere; NothingMutated / ArgsUntouched (action properties),
               CacheIsCache0, ResultFunctionOfIndex, SameIndexSameSample, LenOK, MissingOK.  The same
               properties on small-scope exhaustive label sets (Grid: every label set over 2 nodes of one
               frame with 1-2 [quick] / 1-3 instances and of two frames with 1-2 + 1 instances [thorough]).
               Counter models that MUST violate: generate_centroids as coded (writes the midpoint through the
               anchor view: MissingOK at Build, ArgsUntouched at Call, SameIndexSameSample through the shallow
               sample copy) and a __getitem__ step writing through a view of the cache (NothingMutated).
spec -> code  : TLC exports the configurations, label sets and maximal read histories it enumerated
               (MC_DataStore!Export, PrintT from the reached states); each is replayed on a FRESH real dataset
               over in-memory sio.Labels; after construction and after every __getitem__ the label arrays,
               every cache tensor / every .npz on disk and the returned sample are compared with deep
               snapshots / with the first read of a fresh dataset.  Some histories are replayed again with the
               functional API applied to the returned sample's tensors in the middle (event Call(f)).
code -> spec  : seeded random label sets, configurations (scale, stride, rgb, size matching, node count) and
               longer read sequences, same observation.
judge        : Trace_DataStore (each event is the DataStore action; observation vs specification state),
               Judge_C11 (functional API: the caller's tensors, also as views of a base, before / after).
"""
import random
import shutil
import tempfile
import time
from concurrent.futures import ThreadPoolExecutor

from harness.evidence import Result
from harness.tlc import check_model, judge, run_tlc, TLCError, NCPU

MC = """CONSTANTS MaxReads = %d
 MaxCalls = %d
 AsCoded = %s
 ViewWrite = %s
 Grid = %d
SPECIFICATION Spec
%s
CHECK_DEADLOCK FALSE
"""
ALL_PROPS = ("INVARIANT CacheIsCache0\nINVARIANT ResultFunctionOfIndex\nINVARIANT SameIndexSameSample\n"
             "INVARIANT LenOK\nINVARIANT MissingOK\nPROPERTY NothingMutated\nPROPERTY ArgsUntouched")
TRACE_CFG = "INIT Init\nNEXT Next\nCONSTRAINT Check\nPOSTCONDITION Report\nCHECK_DEADLOCK FALSE\n"
WHERE = {"bottomup": "BottomUpDataset", "centered": "CenteredInstanceDataset", "centroid": "CentroidDataset",
         "single": "SingleInstanceDataset"}


# ------------------------------------------------------------------------------ workers --------
def _quiet():
    from loguru import logger

    logger.disable("sleap_nn")


def _job_config(job):
    """One configuration: replay every given history on a fresh real dataset."""
    import harness.datastore_util as du

    _quiet()
    cfg, lab, hists, kw = job
    refs, out = {}, []
    for h in hists:
        reads, ca = (h["reads"], h["calls_after"]) if isinstance(h, dict) else (h, None)
        evs = du.replay(cfg, lab, reads, refs, calls_after=ca, **kw)
        out.append(dict(cfg=du.trace_cfg(cfg), full_cfg=cfg, lab=du.lab_json(lab), ev=evs, reads=list(reads), calls_after=ca, kw=kw))
    return out


def _job_many(jobs):
    return [t for j in jobs for t in _job_config(j)]


def _job_battery(job):
    import harness.datastore_util as du

    _quiet()
    lab, anchor, seed = job
    recs = du.functional_battery(lab, anchor, seed)
    for r in recs:
        r["lab"], r["anchor"] = du.lab_json(lab), anchor
    return recs


def _warm():
    import kornia  # noqa: F401
    import sleap_nn.data.custom_datasets  # noqa: F401
    import harness.datastore_util as du

    _quiet()
    lab = du.lab_from_vis([[("u", [1, 1])]])
    du.replay(dict(cls="centered", chunks=False, anchor=0, uio=True), lab, [1])


class _Pool:
    """fork pool created BEFORE any thread exists; falls back to in-process for tiny job lists"""

    def __init__(self, procs):
        import multiprocessing as mp

        _warm()
        self.pool = mp.get_context("fork").Pool(procs) if procs > 1 else None

    def submit(self, fn, jobs):
        if self.pool is None:
            class _R:
                def __init__(self, v):
                    self.v = v

                def get(self, timeout=None):
                    return self.v
            return _R([fn(j) for j in jobs])
        return self.pool.map_async(fn, jobs, chunksize=1)

    def close(self):
        if self.pool is not None:
            self.pool.terminate()
            self.pool.join()


# ------------------------------------------------------------------------------ random cases ---
def random_case(rng):
    """A seeded random label set + configuration + read sequence (code -> spec)."""
    nn = rng.choice([2, 3, 3, 4, 5])
    cls = rng.choice(["bottomup", "centered", "centroid", "single"])
    nf = rng.randint(1, 5)
    h, w = rng.choice([(40, 48), (33, 47), (64, 64), (48, 40)])
    lab, used = [], set()
    for f in range(nf):
        ni = 1 if cls == "single" else rng.choice([0, 1, 1, 2, 2, 3])
        fr = []
        for a in range(ni):
            mode = rng.choice(["full", "full", "rand", "rand", "empty", "one"])
            vs = [1] * nn if mode == "full" else [0] * nn if mode == "empty" else [rng.randint(0, 1) for _ in range(nn)]
            if mode == "one":
                vs = [0] * nn
                vs[rng.randrange(nn)] = 1
            pts = []
            for v in vs:
                if not v:
                    pts.append([0, 0, 0])
                    continue
                while True:
                    p = (rng.randint(16, 4 * (w - 5)), rng.randint(16, 4 * (h - 5)))
                    if p not in used:
                        used.add(p)
                        break
                pts.append([p[0], p[1], 1])
            fr.append(dict(k=rng.choice(["u", "u", "p"]), p=pts))
        lab.append(fr)
    if not any(fr for fr in lab):
        lab[0] = [dict(k="u", p=[[20 + 8 * n, 24 + 4 * n, 1] for n in range(nn)])]
    scale = rng.choice([1.0, 1.0, 0.5, 2.0])
    mhw = rng.choice([(None, None), (None, None), (h + 8, w + 16), (2 * h, 2 * w)])
    cfg = dict(cls=cls, chunks=rng.random() < 0.3, anchor=rng.randint(0, nn), uio=rng.random() < 0.6, scale=scale,
               max_hw=list(mhw), max_stride=rng.choice([1, 2, 8, 16]), rgb=rng.random() < 0.3,
               ostride=rng.choice([1, 2, 4]), pstride=rng.choice([2, 4, 8]), crop_hw=list(rng.choice([(16, 16), (24, 32)])))
    kw = dict(hw=(h, w), channels=rng.choice([1, 1, 3]), seed=rng.randint(0, 10 ** 6))
    return cfg, lab, kw


def _expected_len(cfg, lab):
    """harness-side copy of Sources' length, ONLY to choose read indices in range (TLC judges the real len)"""
    n = 0
    for fr in lab:
        users = [i for i in fr if i["k"] == "u"]
        sel = users if (cfg["uio"] and users) else fr
        ne = [i for i in sel if any(p[2] for p in i["p"])]
        n += (1 if ne else 0) if cfg["cls"] != "centered" else len(ne)
    return n


# ------------------------------------------------------------------------------ classification -
def _kind(clause):
    return clause.split("_at_event_")[0].split("_for_event_")[0]


def _detail(t, clause):
    ev_no = int(clause.rsplit("_", 1)[1]) if clause.rsplit("_", 1)[1].isdigit() else 1
    e = t["ev"][min(ev_no, len(t["ev"])) - 1]
    c = t["full_cfg"]
    labtxt = "; ".join("f%d:[%s]" % (f + 1, ", ".join("%s%s" % (i["k"], "".join(str(p[2]) for p in i["p"])) for i in fr)) for f, fr in enumerate(t["lab"]))
    return ("%s(np_chunks=%s, anchor_part=%s, user_instances_only=%s) labels(visibility) %s reads=%s%s event %d %s: %s" % (
        WHERE[c["cls"]], c["chunks"], (None if c["anchor"] == 0 else c["anchor"] - 1), c["uio"], labtxt, t["reads"],
        (" (functional API applied to the returned sample after read %d)" % t["calls_after"]) if t.get("calls_after") is not None else "", ev_no, e["op"],
        ({k: e[k] for k in ("raised", "len", "src", "pts", "lab", "mem") if k in e} if e["op"] == "build"
         else {k: e[k] for k in ("i", "f", "raised", "res", "cache", "pts", "zero", "pzero", "lab", "mem") if k in e})))[:1500]


# ------------------------------------------------------------------------------ run ------------
def run(tier, seed):
    import harness.datastore_util as du

    res = Result("C11")
    rng = random.Random(seed)
    quick = tier == "quick"
    t00 = time.time()
    # ---- fork the observation pool BEFORE any thread exists; then TLC runs in threads --------------
    du.TMP_ROOT = tempfile.mkdtemp(prefix="verif_c11_")  # inherited by the forked workers; removed below
    pool = _Pool(max(1, min(NCPU, 16) - 2))
    ex = ThreadPoolExecutor(max_workers=8)
    try:
        # export first (it is on the critical path of the replay); the design check of the same model runs beside it
        f_exp = ex.submit(run_tlc, "MC_DataStore", MC % (4, 0, "FALSE", "FALSE", 0, "CONSTRAINT Export"), workers=1, timeout=900)
        f_main = ex.submit(check_model, "MC_DataStore", MC % (4, 0 if quick else 1, "FALSE", "FALSE", 0, ALL_PROPS), timeout=1500,
                           workers=max(2, NCPU // 4), require_actions=("Build", "DoGetItem") + (() if quick else ("DoCall",)))
        f_call = ex.submit(check_model, "MC_DataStore", MC % (2, 1, "FALSE", "FALSE", 0, ALL_PROPS), timeout=900, workers=1,
                           require_actions=("Build", "DoGetItem", "DoCall"))
        f_ac1 = ex.submit(check_model, "MC_DataStore", MC % (2, 1, "TRUE", "FALSE", 0, "INVARIANT MissingOK"), timeout=900, workers=1,
                          expect_violation=("invariant", "MissingOK"))
        f_ac2 = ex.submit(check_model, "MC_DataStore", MC % (2, 1, "TRUE", "FALSE", 0, "INVARIANT SameIndexSameSample"), timeout=900,
                          workers=1, expect_violation=("invariant", "SameIndexSameSample"))
        f_ac3 = ex.submit(check_model, "MC_DataStore", MC % (2, 1, "TRUE", "FALSE", 0, "PROPERTY ArgsUntouched"), timeout=900, workers=1,
                          expect_violation=("action_property", "ArgsUntouched"))
        f_vw = ex.submit(check_model, "MC_DataStore", MC % (2, 0, "FALSE", "TRUE", 0, "PROPERTY NothingMutated"), timeout=900, workers=1,
                         expect_violation=("action_property", "NothingMutated"))
        grid = 1 if quick else 2
        f_grid = ex.submit(run_tlc, "MC_DataStore", MC % (3, 0, "FALSE", "FALSE", grid, ALL_PROPS.replace("PROPERTY ArgsUntouched", "") + "\nCONSTRAINT Export"),
                           workers=1, timeout=1500)
        # ---- case space exported by TLC ------------------------------------------------------
        rx = f_exp.result()
        if rx.error or rx.violation:
            raise TLCError("case-space export failed: %s %s\n%s" % (rx.error, rx.violation, rx.out[-2000:]))
        labs, hists = du.parse_export(rx)
        if len(labs) != 240 or any(t not in labs for t in hists):
            raise TLCError("case-space export incomplete: %d configurations" % len(labs))
        total_hist = sum(len(v) for v in hists.values())
        res.add_mc("MC_DataStore export: 240 configurations, %d maximal read histories of length 4" % total_hist, rx,
                   "LAB / HIST lines printed from the states TLC reached")
        per_cfg = 7 if quick else 10 ** 9
        jobs = []
        for t in sorted(labs):
            cfg = du.cfg_of_tuple(t)
            hs = sorted(hists.get(t, []))
            if len(hs) > per_cfg:
                # quick: the histories that re-read immediately / after another index, plus a seeded sample
                must = [h for h in hs if h in ([1, 1, 1, 1], [1, 2, 1, 2], [2, 1, 1, 2])]
                rest = [h for h in hs if h not in must]
                hs = must + rng.sample(rest, per_cfg - len(must))
            if not hs:
                hs = [[]]  # no sample at all: construction and Len are still judged
            else:
                # the same histories again with the functional API applied to the sample returned by the 2nd read
                # (Call(f) of the specification: allowed anywhere, must change nothing)
                pick = [hs[0]] if quick else [hs[0], hs[len(hs) // 2], hs[-1]]
                hs = hs + [dict(reads=h, calls_after=2) for h in pick]
            jobs.append((cfg, du.lab_from_vis(labs[t][0]), hs, {}))
        n_rand = 300 if quick else 6000
        rjobs = []
        for _ in range(n_rand):
            cfg, lab, kw = random_case(rng)
            n = _expected_len(cfg, lab)
            reads = [rng.randint(1, n) for _ in range(rng.randint(2, 8))] if n else []
            if n and rng.random() < 0.5:
                reads.append(reads[0])
            rjobs.append((cfg, lab, [dict(reads=reads, calls_after=rng.randint(1, len(reads) - 1)) if (reads and rng.random() < 0.25) else reads], kw))
        bat = {}
        for t in sorted(labs):
            cfg = du.cfg_of_tuple(t)
            if cfg["chunks"] or cfg["uio"] or cfg["cls"] not in ("bottomup", "single"):
                continue
            bat[(cfg["cls"], cfg["fam"], cfg["anchor"])] = (du.lab_from_vis(labs[t][0]), cfg["anchor"], seed)
        bjobs = list(bat.values())
        for _ in range(10 if quick else 60):
            cfg, lab, kw = random_case(rng)
            bjobs.append((lab, cfg["anchor"], rng.randint(0, 10 ** 6)))
        # thorough: split the 81-history configurations so that the pool stays balanced
        sjobs = []
        for cfg, lab, hs, kw in jobs:
            for k in range(0, len(hs), 27):
                sjobs.append((cfg, lab, hs[k:k + 27], kw))
        a_spec = pool.submit(_job_config, sjobs)
        a_rand = pool.submit(_job_config, rjobs)
        a_bat = pool.submit(_job_battery, bjobs)
        # ---- small-scope exhaustive label sets (TLC: MC_DataStore with Grid > 0) ------------------
        rg = f_grid.result()
        if rg.error or rg.violation:
            raise TLCError("grid design check / export failed: %s %s\n%s" % (rg.error, rg.violation, rg.out[-2000:]))
        gcases = du.parse_grid(rg)
        want_grid = {1: 72 * 24, 2: (584 + 1088) * 24}[grid]
        if len(gcases) != want_grid:
            raise TLCError("grid export incomplete: %d of %d" % (len(gcases), want_grid))
        res.add_mc("MC_DataStore Grid=%d: %d (label set, configuration) pairs over 2 nodes, history <<first, last, first>>" % (grid, len(gcases)), rg,
                   "all invariants + NothingMutated on the small-scope exhaustive label sets; LAB lines exported")
        gjobs = [[(cfg, du.lab_from_vis(vis), [[1, n, 1] if n else []], {}) for cfg, vis, n in gcases[k:k + 40]] for k in range(0, len(gcases), 40)]
        a_grid = pool.submit(_job_many, gjobs)
        spec_traces = [t for part in a_spec.get(3000) for t in part]
        rand_traces = [t for part in a_rand.get(3000) for t in part]
        calls = [c for part in a_bat.get(3000) for c in part]
        grid_traces = [t for part in a_grid.get(3000) for t in part]
        if len(grid_traces) != len(gcases):
            raise TLCError("replayed %d of %d grid cases" % (len(grid_traces), len(gcases)))
    except BaseException:
        ex.shutdown(wait=False, cancel_futures=True)
        raise
    finally:
        pool.close()
        shutil.rmtree(du.TMP_ROOT, ignore_errors=True)
        du.TMP_ROOT = None
    res.coverage["observe_wall_s"] = round(time.time() - t00, 1)
    want = sum(len(j[2]) for j in jobs)
    if len(spec_traces) != want or (not quick and want < total_hist):
        raise TLCError("replayed %d of %d exported histories" % (len(spec_traces), want))

    # ---- judge -------------------------------------------------------------------------------
    traces = spec_traces + rand_traces + grid_traces
    for k, t in enumerate(traces):
        t["id"] = k
    # binding canaries: two corrupted copies of a history of the control family (a returned sample marked as
    # different from the fresh read; len(dataset) off by one) MUST be rejected by TLC
    import copy

    base = next((t for t in spec_traces if t["full_cfg"].get("fam") == 5 and t["full_cfg"]["cls"] == "bottomup"
                 and len(t["ev"]) >= 3 and t["ev"][-1]["op"] == "get" and not any(e["raised"] for e in t["ev"])), None)
    canaries = []
    if base is not None:
        c1, c2 = copy.deepcopy(base), copy.deepcopy(base)
        c1["ev"][-1]["res"] = 1
        c2["ev"][0]["len"] += 1
        for k, c in enumerate((c1, c2)):
            c["id"] = len(traces) + k
            canaries.append(c)
    j = judge("Trace_DataStore", [dict(id=t["id"], cfg=t["cfg"], lab=t["lab"], ev=t["ev"]) for t in traces + canaries],
              cfg_text=TRACE_CFG, per_shard_min=500, timeout=1500)
    got = {int(cid): clause for cid, clause in j["rejected"] if int(cid) >= len(traces)}
    if len(got) != len(canaries):  # (on a broken tree the base itself may be rejected first: any clause counts)
        raise TLCError("binding canaries not rejected: %s" % (got,))
    j["rejected"] = [(cid, clause) for cid, clause in j["rejected"] if int(cid) < len(traces)]
    j["rejected_n"] -= len(canaries)
    res.coverage["binding_canaries_rejected"] = sorted(got.values()) if canaries else "skipped (no control history available)"
    res.add_judge("Trace_DataStore", j, "%d histories exported by TLC (of %d) + %d seeded random histories + %d small-scope label-set cases exported by TLC" % (len(spec_traces), total_hist, len(rand_traces), len(grid_traces)))
    seen = {}
    for cid, clause in j["rejected"]:
        t = traces[int(cid)]
        key = dict(where=WHERE[t["full_cfg"]["cls"]], kind=_kind(clause))
        evno = clause.rsplit("_", 1)[1]
        if evno.isdigit() and 1 <= int(evno) <= len(t["ev"]) and t["ev"][int(evno) - 1]["op"] == "call":
            key["where"] = t["ev"][int(evno) - 1]["f"]  # the helper that was applied to the returned sample
        sig = (key["where"], key["kind"])
        seen[sig] = seen.get(sig, 0) + 1
        if seen[sig] <= 4:
            res.violation(key, clause, dict(type="dataset", cfg=t["full_cfg"], lab=t["lab"], reads=t["reads"], calls_after=t["calls_after"], kw=t["kw"]), _detail(t, clause))
    if j["rejected_n"] > len(j["rejected"]):
        res.coverage["rejections_not_listed"] = j["rejected_n"] - len(j["rejected"])
    res.coverage["rejected_by_key"] = {"%s/%s" % k: n for k, n in sorted(seen.items())}

    for k, c in enumerate(calls):
        c["id"] = k
    jc = judge("Judge_C11", [dict(id=c["id"], f=c["f"], raised=c["raised"], args=c["args"]) for c in calls], per_shard_min=1500, timeout=900)
    res.add_judge("Judge_C11 (functional API, Call(f))", jc, "%d calls of %d helpers on the caller's tensors (plain and as views of a base)" % (len(calls), len({c["f"] for c in calls})))
    seenc = {}
    for cid, clause in jc["rejected"]:
        c = calls[int(cid)]
        fn = c["f"].split("(")[0]
        key = dict(where=fn, kind=clause)
        seenc[(fn, clause)] = seenc.get((fn, clause), 0) + 1
        if seenc[(fn, clause)] <= 3:
            labtxt = "; ".join("[%s]" % ", ".join("%s%s" % (i["k"], "".join(str(p[2]) for p in i["p"])) for i in fr) for fr in c["lab"])
            res.violation(key, clause, dict(type="call", f=c["f"], lab=c["lab"], anchor=c["anchor"]),
                          "%s anchor_ind=%s labels(visibility) %s: %s %s" % (c["f"], None if c["anchor"] == 0 else c["anchor"] - 1, labtxt, c["args"], c["raised"]))
    if jc["rejected_n"] > len(jc["rejected"]):
        res.coverage["call_rejections_not_listed"] = jc["rejected_n"] - len(jc["rejected"])

    # ---- design checks (ran in the background) -------------------------------------------------
    try:
        r = f_main.result()
        res.add_mc("MC_DataStore 240 configurations, every read history of length <= 4%s" % ("" if quick else ", one functional call anywhere"), r,
                   "NothingMutated, ArgsUntouched, CacheIsCache0, ResultFunctionOfIndex, SameIndexSameSample, LenOK, MissingOK")
        if r.violation:
            raise TLCError("DataStore design check failed: %s\n%s" % (r.violation, r.out[-2500:]))
        r = f_call.result()
        res.add_mc("MC_DataStore reads<=2, one functional call anywhere", r, "same properties")
        if r.violation:
            raise TLCError("DataStore design check (calls) failed: %s\n%s" % (r.violation, r.out[-2500:]))
        res.add_mc("MC_DataStore as coded (generate_centroids writes through the anchor view), Build", f_ac1.result(),
                   "must violate MissingOK: the stored instances gain a keypoint that is missing in the labels")
        res.add_mc("MC_DataStore as coded, Call on a returned sample that aliases the cache", f_ac2.result(),
                   "must violate SameIndexSameSample: Build, GetItem(i), Call(generate_centroids), GetItem(i)")
        res.add_mc("MC_DataStore as coded, Call", f_ac3.result(), "must violate ArgsUntouched")
        res.add_mc("MC_DataStore counter model (a __getitem__ step writes through a view of the cache)", f_vw.result(),
                   "must violate NothingMutated")
    finally:
        ex.shutdown(wait=True)

    # ---- measured coverage --------------------------------------------------------------------
    def has_missing(t):
        return any(p[2] == 0 for fr in t["lab"] for i in fr for p in i["p"])

    def rereads(t):
        return len(set(t["reads"])) < len(t["reads"])

    for t in traces:
        c, lab = t["full_cfg"], t["lab"]
        if rereads(t):
            res.clause("history_rereads_an_index")
        if t.get("calls_after") is not None:
            res.clause("history_with_functional_calls_on_the_returned_sample")
        if c["chunks"]:
            res.clause("np_chunks")
        if c["anchor"] and any(any(p[2] for p in i["p"]) and i["p"][c["anchor"] - 1][2] == 0 for fr in lab for i in fr if c["anchor"] <= len(i["p"])):
            res.clause("anchor_node_missing_in_a_nonempty_instance")
        if any(not any(p[2] for p in i["p"]) for fr in lab for i in fr):
            res.clause("fully_empty_instance")
        if any(fr and all(i["k"] == "p" for i in fr) for fr in lab):
            res.clause("predicted_only_frame")
            if c["uio"] and any(fr and all(i["k"] == "p" for i in fr) and any(any(p[2] for p in i["p"]) for i in fr) for fr in lab):
                res.clause("predicted_only_frame_yields_samples_with_user_instances_only (as coded, permitted by the spec)")
        if t["ev"] and t["ev"][0]["mem"] != [list(range(1, len(fr) + 1)) for fr in lab]:
            res.clause("build_filtered_the_frames_instance_lists_in_place (as coded, modelled as a Build effect)")
        if any(e["op"] == "get" and any(z for z in e["zero"]) for e in t["ev"]):
            res.clause("sample_with_identically_zero_confmap_channel")
    res.clause("functional_calls_on_views", sum(1 for c in calls if any(a["name"].endswith(".base") for a in c["args"])))
    res.clause("process_lf_filtered_lf_instances_in_place (as coded)", sum(c.get("filtered_in_place", 0) for c in calls))
    nontrivial = {(str(t["full_cfg"]), str(t["lab"]), str(t["reads"]), str(t.get("calls_after"))) for t in traces if rereads(t) or has_missing(t)}
    res.coverage.update(
        evaluations=len(traces) + len(calls), distinct_nontrivial=len(nontrivial), exhaustive=not quick,
        spec_histories_total=total_hist, spec_histories_replayed=len(spec_traces), random_histories=len(rand_traces),
        functional_calls=len(calls), grid_cases=len(grid_traces),
        rule="spec->code: the maximal read histories (length 4 over first/second/last index) TLC exported for the 240 configurations "
             "(all %d when thorough; [1,1,1,1], [1,2,1,2], [2,1,1,2] + a seeded sample, 7 per configuration, when quick), each on a fresh real dataset over "
             "lattice labels (quarter pixel, unique per frame/animal/node, inside the image); code->spec: seeded random label sets "
             "(1-5 frames, 0-3 instances, 2-5 nodes, user/predicted, empty / partial / single-node instances), scale in {1, 0.5, 2}, size matching, "
             "max_stride, rgb, 2-9 reads over all indices; small scope: every label set over 2 nodes of one frame with 1-2 instances (quick) / one frame with 1-3 instances and "
             "two frames of 1-2 + 1 instances (thorough) x 4 classes x 3 anchors x user_instances_only, history first-last-first. Non-trivial = the history re-reads an index or the label set has a missing keypoint; "
             "distinct by (configuration, label set, history)" % total_hist)
    if traces:
        t = traces[0]
        res.sample(dict(cfg=t["full_cfg"], reads=t["reads"], events=[{k: v for k, v in e.items() if k != "pts"} for e in t["ev"]][:3]))
    if calls:
        res.sample(dict(call=calls[0]["f"], args=calls[0]["args"]))
    res.assumptions += [
        "array-backed videos and in-memory sio.Labels stand in for .slp files; the dataset classes, process_lf and every helper are the real code",
        "'unchanged' / 'same sample' = same keys, shapes, NaN masks and allclose (atol = rtol = 1e-6) against a deep snapshot / the first read of a fresh dataset",
        "the in-place user-instance filter (lf.instances = lf.user_instances) is modelled as an effect of Build on the frame's instance list, not as a label change; "
        "a predicted-only frame keeps its predicted instances under user_instances_only (as coded) - both are counted under 'clauses'",
        "augmentation off (apply_aug=False); single process (no DataLoader workers, no distributed barrier); single-instance datasets get one instance per frame",
    ]
    return res


def replay(rp, seed):
    import harness.datastore_util as du

    _quiet()
    res = Result("C11")
    c = rp["case"]
    du.TMP_ROOT = tempfile.mkdtemp(prefix="verif_c11_")
    try:
        return _replay(rp, c, res, du, seed)
    finally:
        shutil.rmtree(du.TMP_ROOT, ignore_errors=True)
        du.TMP_ROOT = None


def _replay(rp, c, res, du, seed):
    if c.get("type") == "call":
        recs = [r for r in du.functional_battery(c["lab"], c["anchor"], seed) if r["f"] == c["f"]]
        for k, r in enumerate(recs):
            r["id"] = k
        j = judge("Judge_C11", [dict(id=r["id"], f=r["f"], raised=r["raised"], args=r["args"]) for r in recs], shards=1)
        for cid, clause in j["rejected"][:1]:
            res.violation(rp["key"], clause, c, str(recs[int(cid)]["args"]))
        return res
    kw = dict(c.get("kw") or {})
    if "hw" in kw:
        kw["hw"] = tuple(kw["hw"])
    evs = du.replay(c["cfg"], c["lab"], c["reads"], None, calls_after=c.get("calls_after"), **kw)
    t = dict(id=0, cfg=du.trace_cfg(c["cfg"]), lab=c["lab"], ev=evs, full_cfg=c["cfg"], reads=c["reads"], calls_after=c.get("calls_after"))
    j = judge("Trace_DataStore", [dict(id=0, cfg=t["cfg"], lab=t["lab"], ev=t["ev"])], cfg_text=TRACE_CFG, shards=1)
    for cid, clause in j["rejected"]:
        res.violation(rp["key"], clause, c, _detail(t, clause))
    return res
