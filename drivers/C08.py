"""C08: peak grouping always terminates with a partition of the detected peaks.

design check : MC_Assembly - the greedy assembly AS CODED over a ValidOrder equals the connected components of
               the accepted one-to-one matches for every tree <= 4 nodes, <= 2 peaks per node, every accepted
               set; with an arbitrary edge order the theorem must fail (C17 is load-bearing)
spec -> code  : (a) match_candidates_sample on all / sampled score matrices over {NaN,-2,0,1,3} up to 3x3
code -> spec  : (b) PAFScorer.predict on seeded random scenes (0..3 peaks per node, coincident peaks of two node
               types, peaks outside the PAF extent, empty samples in a batch, random PAF tensors, all scorer
               parameters); the observed line scores and matches are part of the record
judge        : Judge_C08 (MatchClauseEdge / GroupingClause evaluated by TLC)
"""
import itertools
import math
import random

import numpy as np

from harness.evidence import Result
from harness.tlc import check_model, judge, TLCError

ASM = "CONSTANTS MaxN = %d\n P = 2\n AnyOrder = %s\nINIT Init\nNEXT Next\nINVARIANT AssemblyIsComponents\nINVARIANT OnePeakPerNode\nCHECK_DEADLOCK FALSE\n"
Q = 1 << 16
LEVELS = [None, -2.0, 0.0, 1.0, 3.0]


def q_of(x):
    return int(round(float(x) * Q))


def conn(e, s, d, score):
    nan = not math.isfinite(float(score))
    return dict(e=int(e), s=int(s), d=int(d), q=(0 if nan else q_of(score)), nan=bool(nan))


def match_case(mat):
    """mat: n_src x n_dst list of levels (None = NaN).  Calls the real match_candidates_sample."""
    import torch
    from sleap_nn.inference.paf_grouping import match_candidates_sample

    ns, nd = len(mat), len(mat[0])
    pairs = [(s, d) for s in range(ns) for d in range(nd)]
    edge_inds = torch.zeros(len(pairs), dtype=torch.int32)
    # peak indices: src peaks 0..ns-1, dst peaks ns..ns+nd-1 (global peak index space of the sample)
    epi = torch.tensor([[s, ns + d] for s, d in pairs], dtype=torch.int32)
    scores = torch.tensor([float("nan") if mat[s][d] is None else mat[s][d] for s, d in pairs], dtype=torch.float32)
    rec = dict(kind="match", cand=[conn(0, s, d, float("nan") if mat[s][d] is None else mat[s][d]) for s, d in pairs],
               matches=[], raised="", mat=[[("nan" if v is None else v) for v in row] for row in mat])
    try:
        me, ms, md, msc = match_candidates_sample(edge_inds, epi, scores, 1)
        rec["matches"] = [conn(int(e), int(s), int(d), float(v)) for e, s, d, v in zip(me, ms, md, msc)]
    except Exception as ex:
        rec["raised"] = "%s: %s" % (type(ex).__name__, str(ex)[:120])
    return rec


def random_tree(n, rng):
    order = list(range(n))
    rng.shuffle(order)
    t = [(order[rng.randrange(i)], order[i]) for i in range(1, n)]
    rng.shuffle(t)
    return t


def scene(rng):
    """One PAFScorer.predict call on a batch; returns the list of per-sample records."""
    import torch
    from sleap_nn.inference.paf_grouping import PAFScorer

    n = rng.choice([2, 3, 3, 4])
    edges = random_tree(n, rng)
    names = ["n%d" % k for k in range(n)]
    stride = rng.choice([1, 2, 4])
    h, w = rng.choice([4, 6, 9]), rng.choice([4, 7, 10])
    params = dict(max_edge_length_ratio=rng.choice([0.25, 1.0, 2.0]), dist_penalty_weight=rng.choice([1.0, 2.0]),
                  n_points=rng.choice([1, 4, 8, 10]), min_instance_peaks=rng.choice([0, 0, 1, 2, 3, 0.5, 1.0]),
                  min_line_scores=rng.choice([-0.5, 0.0, 0.125, 0.25]))
    sc = PAFScorer(part_names=names, edges=[(names[s], names[d]) for s, d in edges], pafs_stride=stride, **params)
    B = rng.choice([1, 2, 3])
    pafs = torch.tensor(np.array([[[[rng.randint(-4, 4) / 4.0 for _ in range(2 * len(edges))] for _ in range(w)] for _ in range(h)] for _ in range(B)]), dtype=torch.float32)
    if rng.random() < 0.3:  # a coherent field: every edge points along +x so that high scores and real groupings occur
        pafs[..., 0::2] = 1.0
        pafs[..., 1::2] = 0.0
    peaks, vals, chans, samples = [], [], [], []
    for b in range(B):
        pk, vv, ch = [], [], []
        if not (B > 1 and rng.random() < 0.25):  # empty sample inside a batch
            for node in range(n):
                used = set()
                for _ in range(rng.choice([0, 1, 1, 2, 2, 3])):
                    if pk and rng.random() < 0.15:
                        xy = tuple(rng.choice(pk))  # coincident with a peak of (possibly) another node type
                    else:
                        xy = (rng.randint(-2, w * stride + 2), rng.randint(-2, h * stride + 2))
                    if xy in used:
                        continue
                    used.add(xy)
                    pk.append(list(xy)); vv.append(rng.randint(1, 32) / 32.0); ch.append(node)
        if pk and rng.random() < 0.5:
            # the detector lists peaks in (row, column, channel) order - node types interleaved, not grouped by node
            perm = list(range(len(pk)))
            rng.shuffle(perm)
            pk, vv, ch = [pk[i] for i in perm], [vv[i] for i in perm], [ch[i] for i in perm]
        peaks.append(torch.tensor(pk, dtype=torch.float32).reshape(-1, 2))
        vals.append(torch.tensor(vv, dtype=torch.float32))
        chans.append(torch.tensor(ch, dtype=torch.int32))
        samples.append((pk, vv, ch))
    minpeaks = params["min_instance_peaks"]
    minpeaks_abs = int(minpeaks * n) if isinstance(minpeaks, float) else minpeaks
    base = dict(kind="predict", n_nodes=n, edges=[list(e) for e in edges], ord=[int(x) for x in sc.sorted_edge_inds],
                minq=q_of(params["min_line_scores"]), minpeaks=int(minpeaks_abs), params=params, stride=stride, hw=[h, w], batch=B)
    recs = []
    try:
        out = sc.predict(pafs, torch.nested.nested_tensor(peaks), torch.nested.nested_tensor(vals), torch.nested.nested_tensor(chans))
        pinst, pvals, pscores, edge_inds, edge_peak_inds, line_scores = out
        m = sc.match_candidates(edge_inds, edge_peak_inds, line_scores)
        if rng.random() < 0.5:
            # matches computed once, grouped twice: first by a stricter scorer (min_line_scores 0.9, as in a threshold sweep),
            # then by this one - the instances judged below are those of the SECOND grouping of the same match tensors
            import attr
            strict = attr.evolve(sc, min_line_scores=0.9)
            nest = (torch.nested.nested_tensor(peaks), torch.nested.nested_tensor(vals), torch.nested.nested_tensor(chans))
            strict.group_instances(*nest, *m)
            pinst, pvals, pscores = sc.group_instances(*nest, *m)
        for b in range(B):
            pk, vv, ch = samples[b]
            grouped = [[k for k in range(len(pk)) if ch[k] == node] for node in range(n)]
            local = {k: grouped[ch[k]].index(k) for k in range(len(pk))}
            rec = dict(base, sample=b, raised="",
                       peaks=[[[int(pk[k][0]), int(pk[k][1]), int(round(vv[k] * 32))] for k in grouped[node]] for node in range(n)],
                       cand=[conn(int(e), local[int(pi[0])], local[int(pi[1])], float(s)) for e, pi, s in zip(edge_inds[b], edge_peak_inds[b], line_scores[b])],
                       matches=[conn(int(e), int(s), int(d), float(v)) for e, s, d, v in zip(m[0][b], m[1][b], m[2][b], m[3][b])],
                       inst=[], iscore=[])
            for inst, iv, isc in zip(pinst[b], pvals[b], pscores[b]):
                row = []
                for node in range(n):
                    x, y = float(inst[node][0]), float(inst[node][1])
                    if math.isnan(x) or math.isnan(y):
                        row.append([0, 0, 0, 0])
                    else:
                        row.append([int(round(x)), int(round(y)), int(round(float(iv[node]) * 32)), 1])
                rec["inst"].append(row)
                rec["iscore"].append(q_of(float(isc)))
            rec["near_threshold"] = any((not c["nan"]) and abs(c["q"] - rec["minq"]) < 3 for c in rec["matches"])
            recs.append(rec)
    except Exception as ex:
        recs.append(dict(base, sample=-1, raised="%s: %s" % (type(ex).__name__, str(ex)[:160]), peaks=[], cand=[], matches=[], inst=[], iscore=[],
                         near_threshold=False, coincident=any(len({tuple(p) for p in s[0]}) < len(s[0]) for s in samples),
                         scene=dict(peaks=[s[0] for s in samples], chans=[s[2] for s in samples])))
    return recs


def key_of(c, clause):
    key = dict(where="match_candidates_sample" if c["kind"] == "match" else "PAFScorer.predict", kind=clause)
    if clause == "raised":
        key["error"] = c["raised"].split(":")[0] + (":infeasible" if "infeasible" in c["raised"] else "")
    return key


def run(tier, seed):
    res = Result("C08")
    rng = random.Random(seed)
    n_asm = 4
    r = check_model("MC_Assembly", ASM % (n_asm, "FALSE"), timeout=900, require_actions=("ProcessConnection",))
    res.add_mc("MC_Assembly trees<=%d nodes, <=2 peaks/node, every ValidOrder, every accepted set" % n_asm, r, "as-coded greedy assembly = connected components")
    if r.violation:
        raise TLCError("assembly theorem failed: %s\n%s" % (r.violation, r.out[-1500:]))
    rc = check_model("MC_Assembly", ASM % (3, "TRUE"), timeout=600, expect_violation=("invariant", "AssemblyIsComponents"))
    res.add_mc("MC_Assembly with arbitrary (non parent-first) edge orders", rc, "must fail: the assembly needs C17's order")
    # (a) score matrices
    cases = []
    shapes = [(1, 1), (1, 2), (2, 1), (1, 3), (3, 1), (2, 2)]
    for ns, nd in shapes:
        for vals in itertools.product(LEVELS, repeat=ns * nd):
            cases.append(match_case([list(vals[i * nd:(i + 1) * nd]) for i in range(ns)]))
    n_exh = len(cases)
    for ns, nd, cnt in ((2, 3, 1500), (3, 2, 1500), (3, 3, 3000)):
        cnt = cnt if tier == "quick" else cnt * 8
        for _ in range(cnt):
            cases.append(match_case([[rng.choice(LEVELS) for _ in range(nd)] for _ in range(ns)]))
    # (a') calls of match_candidates_sample recorded while the repository's own tests run (tracing pytest plugin)
    from harness import shim
    from harness.repo_tests import record
    recs, rc, tail = record(["tests/inference/test_paf_grouping.py"], shim.REPO)
    n_repo = 0
    for rec in recs:
        if rec["fn"] == "match_candidates_sample":
            for cc in rec["cases"]:
                cases.append(dict(kind="match", cand=cc["cand"], matches=cc["matches"], raised=rec["raised"], mat="(recorded from tests/inference/test_paf_grouping.py)"))
                n_repo += 1
    res.coverage["calls_recorded_from_repo_tests"] = n_repo
    n_match = len(cases)
    # (b) predict scenes
    n_scenes = 1500 if tier == "quick" else 20000
    skipped = 0
    for k in range(n_scenes):
        srng = random.Random(seed * 104729 + k)
        for rec in scene(srng):
            rec["scene_seed"] = seed * 104729 + k
            if rec.get("near_threshold"):
                skipped += 1
                continue
            cases.append(rec)
    for k, c in enumerate(cases):
        c["id"] = k
    keep = ("id", "kind", "cand", "matches", "raised", "n_nodes", "edges", "ord", "minq", "minpeaks", "peaks", "inst", "iscore")
    j = judge("Judge_C08", [{k: v for k, v in c.items() if k in keep} for c in cases], timeout=1800)
    res.add_judge("Judge_C08", j, "%d score matrices (%d exhaustive up to 2x2) + %d predict samples" % (n_match, n_exh, len(cases) - n_match))
    for cid, clause in j["rejected"]:
        c = cases[int(cid)]
        small = {k: v for k, v in c.items() if k not in ("cand",) or len(str(v)) < 4000}
        res.violation(key_of(c, clause), clause, small, (c["raised"] or "") + (" mat=%s" % c.get("mat") if c["kind"] == "match" else " scene_seed=%s sample=%s" % (c.get("scene_seed"), c.get("sample"))))
    if j["rejected_n"] > len(j["rejected"]):
        res.coverage["rejections_not_listed"] = j["rejected_n"] - len(j["rejected"])
    pred = [c for c in cases[n_match:]]
    res.clause("predict_samples_with_instances", sum(1 for c in pred if c["inst"]))
    res.clause("predict_samples_with_nan_scores", sum(1 for c in pred if any(x["nan"] for x in c["cand"])))
    res.clause("predict_samples_empty", sum(1 for c in pred if not any(c["peaks"])) if pred else 0)
    res.clause("predict_samples_filtered_by_min_instance_peaks", sum(1 for c in pred if c["minpeaks"] >= 2))
    res.clause("matrices_with_nan", sum(1 for c in cases[:n_match] if any(x["nan"] for x in c["cand"])))
    res.clause("skipped_near_min_line_score", skipped)
    res.coverage.update(evaluations=len(cases), exhaustive=False,
                        distinct_nontrivial=len({str(c["cand"]) + str(c.get("peaks")) for c in cases if len(c["cand"]) >= 2}),
                        rule="(a) all score matrices over {NaN,-2,0,1,3} of shapes up to 2x2 and 1x3, seeded samples of 2x3/3x2/3x3; (b) seeded random predict scenes (tree 2-4 nodes, 0-3 peaks per node incl. coincident peaks of different node types and peaks outside the PAF extent, empty samples in batches, random quarter-valued PAFs or a coherent +x field, all scorer parameters). Samples whose accepted/unaccepted decision lies within 3 quanta (2^-16) of min_line_scores are skipped and counted. Non-trivial = at least 2 candidate connections")
    if pred:
        c = next((c for c in pred if c["inst"]), pred[0])
        res.sample({k: c[k] for k in ("edges", "ord", "peaks", "matches", "inst", "iscore", "minq", "minpeaks")})
    res.sample(dict(matrix=cases[n_exh - 1]["mat"], matches=cases[n_exh - 1]["matches"]))
    res.assumptions += ["line scores are taken as observed (their geometric correctness is C03's subject); projection to 2^-16 quanta with 1 quantum slack per pair",
                        "peaks of one node type are distinct (a local-maximum detector cannot return the same cell twice)"]
    return res


def replay(rp, seed):
    res = Result("C08")
    c = rp["case"]
    if c["kind"] == "match":
        recs = [match_case([[None if v == "nan" else v for v in row] for row in c["mat"]])]
    else:
        recs = [r for r in scene(random.Random(c["scene_seed"])) if r.get("sample") in (c.get("sample"), -1)]
    for k, r in enumerate(recs):
        r["id"] = k
    keep = ("id", "kind", "cand", "matches", "raised", "n_nodes", "edges", "ord", "minq", "minpeaks", "peaks", "inst", "iscore")
    j = judge("Judge_C08", [{k: v for k, v in r.items() if k in keep} for r in recs], shards=1)
    for cid, clause in j["rejected"]:
        res.violation(rp["key"], clause, recs[int(cid)])
    return res
