"""C15: keypoint similarity and instance matching obey their mathematical contracts.

design check : MC_EvalMatch (MatchInstances machine: every frame with 0..G gt, 0..P predictions, every OKS rank
               matrix incl. NaN, every score pattern incl. ties, two thresholds: each gt / prediction at most
               once, pairs + remaining gt = all gt, every pair above threshold, finished runs = AllRuns)
spec -> code  : small exhaustive / systematic families through the real compute_oks, compute_instance_area,
               match_instances (all OKS level matrices via a substituted compute_oks, plus real geometry),
               hungarian_matching, greedy_matching, compute_iou
judge        : Judge_C15 (Eval.tla: OKS clauses in the log domain on the quarter-pixel lattice, relations
               base / translate / permute / move, MatchClause = reply is a run of the machine for the observed
               OKS matrix, OptAssign, greedy run, IoU clauses)
"""
import itertools
import random
import warnings

import numpy as np

from harness import eval_util as U
from harness.evidence import Result
from harness.tlc import TLCError, check_model, judge

MC_CFG = ("CONSTANTS MaxG = %d\nMaxP = %d\nMaxLevel = %d\nScoreLevels = %d\nINIT Init\nNEXT Next\n"
          "INVARIANTS GtOnce PredOnce Conserved AboveThr FinishedIsARun DetIsARun\nCHECK_DEADLOCK FALSE\n")

S_VALUES = (1, 4, 20)          # stddev = s/40: 0.025 (default), 0.1, 0.5
SCALES = (-1, 0, 16, 256)      # -1: scale=None (bounding-box area); else A16 = scale*16


# ------------------------------------------------------------------ OKS ------------------------
def oks_matrix(E, gts, prs, opt, sarr=None):
    # sarr: the caller's per-keypoint stddev ARRAY (documented option), one object shared by every call of the case
    kw = dict(stddev=(sarr if sarr is not None else opt["s"] / 40.0), use_cocoeval=opt["coco"])
    if opt["scale"] >= 0:
        kw["scale"] = opt["scale"] / 16.0
    dt = "float32" if opt.get("f4") else "float64"       # poses out of torch are float32; all test coordinates are exact in both
    M = E.compute_oks(np.stack([U.pose_np(p) for p in gts]).astype(dt), np.stack([U.pose_np(p) for p in prs]).astype(dt), **kw)
    if M.shape != (len(gts), len(prs)):
        raise ValueError("compute_oks returned shape %s for %d x %d" % (M.shape, len(gts), len(prs)))
    return [[U.obs(M[g, p]) for p in range(len(prs))] for g in range(len(gts))]


def observe_oks(c):
    """fills area, M, ks, rels[*].M, raised"""
    from sleap_nn import evaluation as E

    gts, prs, opt = c["gts"], c["prs"], c["opt"]
    G, P, N = len(gts), len(prs), len(gts[0])
    c.update(raised="", area=[-1] * G, M=[], ks=[], argmut=False)
    # a per-keypoint stddev ARRAY (documented option): uniform, or - every other array case - a different value per node
    sn = [S_VALUES[(n + G + P) % 3] if (opt.get("sarr") and (G + P + N) % 2) else opt["s"] for n in range(N)]
    opt["sn"] = sn
    sarr = np.array([v / 40.0 for v in sn]) if opt.get("sarr") else None
    sarr0 = None if sarr is None else sarr.copy()
    skip = dict(cls="skip", kq=0, q=0)
    with warnings.catch_warnings():
        warnings.simplefilter("ignore")
        try:
            areas = []
            for g in range(G):
                a = float(np.asarray(E.compute_instance_area(U.pose_np(gts[g]))).ravel()[0])
                areas.append(a)
                c["area"][g] = int(round(a * 16)) if np.isfinite(a) and abs(a * 16 - round(a * 16)) < 1e-6 else -1
            c["M"] = oks_matrix(E, gts, prs, opt, sarr)
            ks = []
            for g in range(G):
                scale = opt["scale"] / 16.0 if opt["scale"] >= 0 else areas[g]
                row = []
                for p in range(P):
                    per = []
                    for n in range(N):
                        if not gts[g][n]:
                            per.append(skip)
                            continue
                        v = E.compute_oks(U.pose_np([gts[g][n]])[None], U.pose_np([prs[p][n]])[None], scale=scale,
                                          stddev=sn[n] / 40.0, use_cocoeval=opt["coco"])
                        per.append(U.obs_ks(np.asarray(v).ravel()[0]))
                    row.append(per)
                ks.append(row)
            c["ks"] = ks
            for r in c["rels"]:
                if r["t"] == "translate":
                    sh = lambda pose: [[nd[0] + r["dx"], nd[1] + r["dy"]] if nd else [] for nd in pose]  # noqa: E731
                    r["M"] = oks_matrix(E, [sh(p) for p in gts], [sh(p) for p in prs], opt, sarr)
                elif r["t"] == "permute":
                    r["M"] = oks_matrix(E, [gts[k - 1] for k in r["pg"]], [prs[k - 1] for k in r["pp"]], opt, sarr)
                elif r["t"] == "move":
                    prs2 = [list(p) for p in prs]
                    prs2[r["p"] - 1][r["n"] - 1] = r["to"]
                    r["M"] = oks_matrix(E, gts, prs2, opt, sarr)
        except Exception as e:  # noqa: BLE001
            c["raised"] = "%s: %s" % (type(e).__name__, e)
    # measurement: did any call write into the caller's stddev array?
    c["argmut"] = bool(sarr is not None and not np.array_equal(sarr, sarr0))
    return c


def mk_rels(rng, gts, prs):
    G, P, N = len(gts), len(prs), len(gts[0])
    rels = [dict(t="translate", dx=rng.randint(-40, 40), dy=rng.randint(-40, 40))]
    # image-scale and far translations (lattice units of 1/4 px: 1024 px, 3072 px, 2^20 px) - still exact in float32 / float64
    far = rng.choice([(4096, 12288), (12288, -4096), (-8192, 4096), (1 << 22, 1 << 22)])
    rels.append(dict(t="translate", dx=far[0], dy=far[1]))
    if G * P > 1:
        pg, pp = list(range(1, G + 1)), list(range(1, P + 1))
        rng.shuffle(pg)
        rng.shuffle(pp)
        if pg == sorted(pg) and pp == sorted(pp):
            (pg if G > 1 else pp).reverse()
        rels.append(dict(t="permute", pg=pg, pp=pp))
    p, n = rng.randint(1, P), rng.randint(1, N)
    rels.append(dict(t="move", p=p, n=n, to=[rng.randint(-4, 20), rng.randint(-4, 20)]))
    p, n = rng.randint(1, P), rng.randint(1, N)
    old = prs[p - 1][n - 1]
    rels.append(dict(t="move", p=p, n=n, to=[] if old else [rng.randint(0, 16), rng.randint(0, 16)]))
    for r in rels:
        for k, v in dict(dx=0, dy=0, pg=[], pp=[], p=0, n=0, to=[], M=[]).items():
            r.setdefault(k, v)
    return rels


def rand_pose(rng, N, pattern):
    return [[rng.randint(0, 16), rng.randint(0, 16)] if pattern[n] else [] for n in range(N)]


def oks_cases(tier, rng):
    quick = tier == "quick"
    out = []
    opts = [dict(s=s, coco=c, scale=a, sarr=False, f4=bool((i + j + k) % 2)) for i, s in enumerate(S_VALUES) for j, c in enumerate((True, False)) for k, a in enumerate(SCALES)]
    # family A: one node, gt at (8,8), prediction over the whole 17x17 lattice (stride 2 in quick) or missing
    step = 2 if quick else 1
    for opt in opts:
        for x in list(range(0, 17, step)):
            for y in list(range(0, 17, step)):
                gts, prs = [[[8, 8]]], [[[x, y]]]
                out.append(dict(kind="oks", fam="A", gts=gts, prs=prs, opt=opt, rels=mk_rels(rng, gts, prs)))
        gts, prs = [[[8, 8]]], [[[]]]
        out.append(dict(kind="oks", fam="A", gts=gts, prs=prs, opt=opt, rels=mk_rels(rng, gts, prs)))
    nA = len(out)
    # family B: 2-3 nodes, every gt NaN pattern (>= 1 visible) x every prediction NaN pattern x options x K placements
    K = 1 if quick else 8
    for N in (2, 3):
        pats = list(itertools.product((True, False), repeat=N))
        for gp in [p for p in pats if any(p)]:
            for pp in pats:
                for opt in opts:
                    for k in range(K):
                        G, P = rng.choice([(1, 1), (1, 1), (2, 1), (1, 2), (2, 2)])
                        gts = [rand_pose(rng, N, gp)] + [rand_pose(rng, N, rng.choice([p for p in pats if any(p)])) for _ in range(G - 1)]
                        special = rng.random()
                        if special < 0.15:       # prediction identical to the gt on the gt's visible nodes
                            first = [list(nd) if nd else ([rng.randint(0, 16), rng.randint(0, 16)] if pp[n] else []) for n, nd in enumerate(gts[0])]
                        elif special < 0.4:      # near the gt
                            first = [[nd[0] + rng.randint(-2, 2), nd[1] + rng.randint(-2, 2)] if (nd and pp[n]) else ([rng.randint(0, 16), rng.randint(0, 16)] if pp[n] else []) for n, nd in enumerate(gts[0])]
                        else:
                            first = rand_pose(rng, N, pp)
                        if special > 0.9 and N >= 2:   # degenerate box: collinear gt (area 0 when scale is None)
                            for nd in gts[0]:
                                if nd:
                                    nd[1] = 8
                        prs = [first] + [rand_pose(rng, N, rng.choice(pats)) for _ in range(P - 1)]
                        # a third of the cases pass the documented per-keypoint stddev ARRAY (same values), one object shared by
                        # the base call and all relation calls of the case
                        out.append(dict(kind="oks", fam="B", gts=gts, prs=prs, opt=dict(opt, sarr=(rng.random() < 0.34)), rels=mk_rels(rng, gts, prs)))
    return out, nA


# ------------------------------------------------------------------ match_instances ------------
LEVEL_VALUE = {-1: float("nan"), 0: 0.0, 1: 0.3, 2: 0.6, 3: 0.9}


def observe_match(c):
    """c: G, P, sc (ints), thr (float), and either table (G x P levels; compute_oks substituted) or gts/prs
    (real geometry).  Fills I (ranks), reply, raised."""
    from sleap_nn import evaluation as E

    G, P, thr = c["G"], c["P"], c["thr"]
    stub = "table" in c
    if stub:
        gts = [[[40 * g, 0]] for g in range(G)]
        prs = [[[40 * p, 20]] for p in range(P)]
        vals = [[LEVEL_VALUE[c["table"][g][p]] for p in range(P)] for g in range(G)]
        N = 1
    else:
        gts, prs, N = c["gts"], c["prs"], c["N"]
    # real geometry, every other case: a missing node keeps stale coordinates in the instance and is flagged not visible (what
    # the GUI stores for a hidden node) - Instance.numpy() says NaN, it is exactly as missing as before
    stale = (not stub) and (G + P + len(c["sc"]) + int(sum(c["sc"]))) % 2 == 1
    fg = U.build_frame(gts, 0, N, stale=stale)
    fp = U.build_frame(prs, 0, N, scores=c["sc"], stale=stale)
    c["raised"] = ""
    c["reply"] = dict(pairs=[], fn=[])
    orig = E.compute_oks
    with warnings.catch_warnings():
        warnings.simplefilter("ignore")
        try:
            if stub:
                def fake(points_gt, points_pr, stddev=0.025, scale=None, **kw):
                    p = int(round(points_pr[0, 0, 0] / 10.0))
                    return np.array([[vals[int(round(points_gt[k, 0, 0] / 10.0))][p]] for k in range(len(points_gt))], dtype="float64")

                E.compute_oks = fake
            else:
                vals = [[float("nan")] * P for _ in range(G)]
                if G and P:
                    gstack = np.stack([U.pose_np(p) for p in gts])
                    for p in range(P):
                        col = orig(gstack, U.pose_np(prs[p])[None], stddev=0.025, scale=None)
                        for g in range(G):
                            vals[g][p] = float(col[g, 0])
            rank, _ = U.dense_ranks([v for row in vals for v in row], extra=[thr])
            c["I"] = dict(G=G, P=P, sc=c["sc"], ok=[[rank(v) for v in row] for row in vals], thr=rank(thr))
            pos, fns = E.match_instances(fg, fp, threshold=thr)
            gi = {id(x): k + 1 for k, x in enumerate(fg.instances)}
            pi = {id(x): k + 1 for k, x in enumerate(fp.instances)}
            c["reply"] = dict(pairs=[dict(g=gi.get(id(a.instance), 0), p=pi.get(id(b.instance), 0), okr=rank(o)) for a, b, o in pos],
                              fn=[gi.get(id(a.instance), 0) for a in fns])
        except Exception as e:  # noqa: BLE001
            c["raised"] = "%s: %s" % (type(e).__name__, e)
            c.setdefault("I", dict(G=G, P=P, sc=c["sc"], ok=[[0] * P for _ in range(G)], thr=0))
        finally:
            E.compute_oks = orig
    return c


def weak_orders(P):
    """all score patterns up to order-isomorphism: functions 1..P -> 1..P whose image is an initial segment"""
    out = []
    for f in itertools.product(range(1, P + 1), repeat=P):
        if set(f) == set(range(1, len(set(f)) + 1)):
            out.append([8 * x for x in f])
    return out or [[]]


def match_cases(tier, rng):
    quick = tier == "quick"
    out = []
    levels = (-1, 0, 1, 2, 3)
    # exhaustive: G, P <= 2, five levels (incl. NaN), every score pattern, thresholds 0 and 0.5
    for G in range(0, 3):
        for P in range(0, 3):
            for tab in itertools.product(levels, repeat=G * P):
                table = [list(tab[g * P:(g + 1) * P]) for g in range(G)]
                for sc in weak_orders(P):
                    for thr in (0, 0.5):
                        out.append(dict(kind="match", src="stub", G=G, P=P, table=table, sc=sc, thr=thr))
    n_exh = len(out)
    # sampled: up to 3 x 3 (4 x 3 in thorough)
    for _ in range(2500 if quick else 40000):
        G, P = (0 if rng.random() < 0.04 else rng.randint(1, 3 if quick else 4)), rng.randint(0, 3)
        table = [[rng.choice(levels[1:] if rng.random() < 0.8 else levels) for _ in range(P)] for _ in range(G)]
        out.append(dict(kind="match", src="stub", G=G, P=P, table=table, sc=rng.choice(weak_orders(P)), thr=rng.choice([0, 0, 0.5])))
    # real geometry, real compute_oks
    for _ in range(600 if quick else 8000):
        N = rng.choice([1, 2, 3])
        G, P = (0 if rng.random() < 0.04 else rng.randint(1, 3)), rng.randint(0, 3)
        gts = []
        for g in range(G):
            cx, cy = 100 + rng.randint(0, 60), 100 + rng.randint(0, 60)
            pose = [[cx + rng.randint(-30, 30), cy + rng.randint(-30, 30)] if rng.random() > 0.2 else [] for _ in range(N)]
            if not any(pose) and rng.random() < 0.5:
                pose[0] = [cx, cy]
            elif rng.random() < 0.06:
                pose = [[] for _ in range(N)]          # a ground-truth instance with every keypoint missing: still a gt instance
            gts.append(pose)
        prs = []
        for p in range(P):
            if gts and rng.random() < 0.85:
                src, amp = rng.choice(gts), rng.choice([0, 1, 2, 4, 8])
                prs.append([[nd[0] + rng.randint(-amp, amp), nd[1] + rng.randint(-amp, amp)] if nd and rng.random() > 0.1 else [] for nd in src])
            else:
                prs.append([[100 + rng.randint(0, 90), 100 + rng.randint(0, 90)] for _ in range(N)])
        out.append(dict(kind="match", src="geom", G=G, P=P, N=N, gts=gts, prs=prs, sc=[8 * rng.randint(1, 4) for _ in range(P)], thr=rng.choice([0, 0, 0.3])))
    return out, n_exh


# ------------------------------------------------------------------ tracker helpers ------------
def assign_cases(tier, rng):
    quick = tier == "quick"
    mats = []
    for n, m in itertools.product((1, 2, 3), repeat=2):
        if n * m <= 6:
            for vals in itertools.product((0, 1, 2), repeat=n * m):
                mats.append([list(vals[r * m:(r + 1) * m]) for r in range(n)])
    n_exh = len(mats)
    all33 = list(itertools.product((0, 1, 2), repeat=9))
    for vals in (rng.sample(all33, 1500) if quick else all33):
        mats.append([list(vals[r * 3:(r + 1) * 3]) for r in range(3)])
    for _ in range(400 if quick else 4000):
        n, m = rng.choice([(4, 4), (5, 3), (3, 5), (4, 2), (2, 4)])
        mats.append([[rng.randint(-8, 8) for _ in range(m)] for _ in range(n)])
    return mats, n_exh


def observe_assign(kind, C):
    from sleap_nn.tracking import utils as T

    c = dict(kind=kind, C=C, rows=[], cols=[], raised="")
    try:
        r, cc = (T.hungarian_matching if kind == "hung" else T.greedy_matching)(np.array(C, dtype="float64") / 4.0)
        c["rows"], c["cols"] = [int(x) for x in r], [int(x) for x in cc]
    except Exception as e:  # noqa: BLE001
        c["raised"] = "%s: %s" % (type(e).__name__, e)
    return c


def iou_cases(tier, rng):
    quick = tier == "quick"
    iv = [(a, b) for a in range(0, 4) for b in range(a, 4)]
    boxes = [[4 * x0, 4 * y0, 4 * x1, 4 * y1] for (x0, x1) in iv for (y0, y1) in iv]
    pairs = [(a, b) for a in boxes for b in boxes]
    n_all = len(pairs)
    if quick:
        pairs = rng.sample(pairs, 2500)
    for _ in range(500 if quick else 5000):
        def rb():
            x0, y0 = rng.randint(0, 40), rng.randint(0, 40)
            return [x0, y0, x0 + rng.randint(0, 30), y0 + rng.randint(0, 30)]
        pairs.append((rb(), rb()))
    return pairs, n_all


def observe_iou(a, b):
    from sleap_nn.tracking import utils as T

    c = dict(kind="iou", a=a, b=b, raised="", oab=U.obs(0), oba=U.obs(0), oaa=U.obs(0))
    fa, fb = [x / 4.0 for x in a], [x / 4.0 for x in b]
    try:
        c["oab"], c["oba"], c["oaa"] = U.obs(T.compute_iou(fa, fb)), U.obs(T.compute_iou(fb, fa)), U.obs(T.compute_iou(fa, fa))
    except Exception as e:  # noqa: BLE001
        c["raised"] = "%s: %s" % (type(e).__name__, e)
    return c


# ------------------------------------------------------------------ run ------------------------
WHERE = dict(oks="compute_oks", match="match_instances", hung="hungarian_matching", greedy="greedy_matching", iou="compute_iou")


def record(c):
    """JSON record for TLC (inputs + projected observations only)."""
    k = c["kind"]
    if k == "oks":
        return dict(id=c["id"], kind=k, gts=c["gts"], prs=c["prs"], opt=c["opt"], area=c["area"], M=c["M"], ks=c["ks"], rels=c["rels"], raised=c["raised"], argmut=bool(c.get("argmut", False)))
    if k == "match":
        return dict(id=c["id"], kind=k, I=c["I"], reply=c["reply"], raised=c["raised"])
    if k in ("hung", "greedy"):
        return dict(id=c["id"], kind=k, C=c["C"], rows=c["rows"], cols=c["cols"], raised=c["raised"])
    return dict(id=c["id"], kind=k, a=c["a"], b=c["b"], oab=c["oab"], oba=c["oba"], oaa=c["oaa"], raised=c["raised"])


def strip(c):
    k = c["kind"]
    if k == "oks":
        return dict(kind=k, gts=c["gts"], prs=c["prs"], opt=c["opt"], rels=[{x: r[x] for x in ("t", "dx", "dy", "pg", "pp", "p", "n", "to")} for r in c["rels"]])
    if k == "match":
        return {x: c[x] for x in ("kind", "src", "G", "P", "N", "table", "gts", "prs", "sc", "thr") if x in c}
    if k in ("hung", "greedy"):
        return dict(kind=k, C=c["C"])
    return dict(kind=k, a=c["a"], b=c["b"])


def detail(c):
    s = strip(c)
    extra = ""
    if c["kind"] == "oks":
        extra = " M=%s" % (c["M"],)
    elif c["kind"] == "match":
        extra = " I=%s reply=%s" % (c.get("I"), c.get("reply"))
    elif c["kind"] in ("hung", "greedy"):
        extra = " rows=%s cols=%s" % (c["rows"], c["cols"])
    else:
        extra = " iou(a,b)=%s iou(b,a)=%s" % (c["oab"], c["oba"])
    return ("%s%s raised=%s" % (s, extra, c["raised"]))[:1500]


def judge_cases(res, cases, note):
    for k, c in enumerate(cases):
        c["id"] = k
    j = judge("Judge_C15", [record(c) for c in cases], per_shard_min=100, timeout=1500)
    res.add_judge("Judge_C15", j, note)
    for cid, clause in j["rejected"]:
        c = cases[int(cid)]
        res.violation(dict(where=WHERE[c["kind"]], kind=clause), clause, strip(c), detail(c))
    if j["rejected_n"] and not j["rejected"]:
        raise TLCError("rejections without ids")
    return j


def run(tier, seed):
    res = Result("C15")
    rng = random.Random(seed)
    quick = tier == "quick"
    for g, p, lv, sl in ([(2, 3, 1, 2)] if quick else [(2, 3, 2, 3), (3, 3, 1, 2)]):
        r = check_model("MC_EvalMatch", MC_CFG % (g, p, lv, sl), timeout=1500, require_actions=("MatchStep", "SkipStep"))
        res.add_mc("MC_EvalMatch G<=%d P<=%d levels -1..%d scores %d" % (g, p, lv, sl), r,
                   "MatchInstances machine: gt once, prediction once, conservation, pairs above threshold, finished runs = AllRuns, MatchDet is a run")
        if r.violation:
            raise TLCError("design check MC_EvalMatch failed: %s\n%s" % (r.violation, r.out[-2000:]))

    import time
    t_mc = time.time()
    oks, nA = oks_cases(tier, rng)
    for c in oks:
        observe_oks(c)
    match, n_match_exh = match_cases(tier, rng)
    for c in match:
        observe_match(c)
    mats, n_assign_exh = assign_cases(tier, rng)
    assign = [observe_assign("hung", C) for C in mats] + [observe_assign("greedy", C) for C in mats]
    ipairs, n_iou_all = iou_cases(tier, rng)
    ious = [observe_iou(a, b) for a, b in ipairs]
    cases = oks + match + assign + ious
    t_obs = time.time()
    jj = judge_cases(res, cases, "compute_oks %d (one-node lattice sweep %d), match_instances %d (exhaustive level matrices %d), hungarian+greedy %d, compute_iou %d"
                % (len(oks), nA, len(match), n_match_exh, len(assign), len(ious)))

    res.coverage["phase_s"] = dict(model_checking=round(t_mc - res.t0, 1), run_real_code=round(t_obs - t_mc, 1), judge=round(time.time() - t_obs, 1))
    # harness sanity: what was enumerated is what was meant to be enumerated
    expect_match = sum((5 ** (G * P)) * len(weak_orders(P)) * 2 for G in range(3) for P in range(3))
    if n_match_exh != expect_match:
        raise TLCError("match family: enumerated %d, expected %d" % (n_match_exh, expect_match))
    expect_assign = sum(3 ** (n * m) for n in (1, 2, 3) for m in (1, 2, 3) if n * m <= 6)
    if n_assign_exh != expect_assign:
        raise TLCError("assignment family: enumerated %d, expected %d" % (n_assign_exh, expect_assign))

    vis = lambda pose: [bool(nd) for nd in pose]  # noqa: E731
    res.clause("oks_missing_gt_nodes", sum(1 for c in oks if any(not all(vis(p)) for p in c["gts"])))
    res.clause("oks_missing_pred_nodes", sum(1 for c in oks if any(not all(vis(p)) for p in c["prs"])))
    res.clause("oks_degenerate_box_scale_none", sum(1 for c in oks if c["opt"]["scale"] < 0 and not c["raised"] and c["area"][0] == 0))
    res.clause("oks_explicit_scale_zero", sum(1 for c in oks if c["opt"]["scale"] == 0))
    res.clause("oks_paper_normalisation", sum(1 for c in oks if not c["opt"]["coco"]))
    res.clause("oks_identical_on_visible", sum(1 for c in oks if not c["raised"] and c["M"] and c["M"][0][0]["cls"] == "one"))
    res.clause("oks_underflow_to_zero", sum(1 for c in oks if not c["raised"] and c["M"] and c["M"][0][0]["cls"] == "zero"))
    res.clause("oks_several_predictions", sum(1 for c in oks if len(c["prs"]) > 1))
    res.clause("oks_raised", sum(1 for c in oks if c["raised"]))
    res.clause("match_empty_gt", sum(1 for c in match if c["G"] == 0))
    res.clause("match_empty_pred", sum(1 for c in match if c["P"] == 0))
    res.clause("match_score_ties", sum(1 for c in match if len(set(c["sc"])) < len(c["sc"])))
    res.clause("match_frames_with_all_missing_gt_instance", sum(1 for c in match if c.get("src") == "geom" and any(not any(p) for p in c["gts"])))
    res.clause("match_nan_oks", sum(1 for c in match if any(v == -1 for row in c["I"]["ok"] for v in row)))
    res.clause("match_raised", sum(1 for c in match if c["raised"]))
    res.clause("assign_rectangular", sum(1 for c in assign if len(c["C"]) != len(c["C"][0])))
    res.clause("iou_disjoint", sum(1 for c in ious if c["oab"]["cls"] == "zero"))
    nontriv = {str(strip(c)) for c in cases if (c["kind"] == "oks" and c["prs"][0] != c["gts"][0])
               or (c["kind"] == "match" and c["G"] >= 1 and c["P"] >= 1)
               or (c["kind"] in ("hung", "greedy") and len(c["C"]) * len(c["C"][0]) >= 4)
               or (c["kind"] == "iou" and c["a"] != c["b"])}
    res.coverage.update(distinct_nontrivial=len(nontriv), exhaustive=True,
                        rule="non-trivial = OKS cases whose first prediction is not the gt itself, match cases with >= 1 gt and >= 1 prediction, cost matrices with >= 4 "
                             "entries, IoU of two different boxes.  Exhaustive: one-node OKS over the 17x17 quarter-pixel lattice (stride 2 in quick) x 3 stddev x 2 "
                             "normalisations x 4 scale options; every gt NaN pattern x every prediction NaN pattern for 2-3 nodes (placements seeded random, degenerate "
                             "boxes and identical poses forced); every OKS level matrix over {NaN,0,.3,.6,.9} for <= 2 x 2 instances x every score pattern (ties) x 2 "
                             "thresholds (count checked = %d); every cost matrix over {0,1,2} up to 6 entries (count checked = %d), 3x3 sampled in quick; every pair of "
                             "integer boxes in a 4x4 image (sampled in quick).  Excluded: gt instances without any visible node (OKS is 0/0)." % (expect_match, expect_assign))
    for c in (oks[3], oks[-1], match[n_match_exh - 1], assign[50], ious[0]):
        res.sample(strip(c))
    res.assumptions += [
        "compute_oks values are projected as class tag + round(v*1e8) and, per keypoint, round(-ln(ks)*64); log-domain slack |kq - floor(64x)| <= 2 + x/156 quanta",
        "exponents x >= 700 are only required to give ks = 0 or -ln(ks) >= 699 (float64 exp underflow / subnormals)",
        "ties between detection scores or between OKS values may be broken either way (the property does not fix them)",
        "match_instances level matrices are fed through a substituted sleap_nn.evaluation.compute_oks; real-geometry cases use the real one",
    ]
    return res


def replay(rp, seed):
    res = Result("C15")
    c = dict(rp["case"])
    k = c["kind"]
    if k == "oks":
        for r in c["rels"]:
            r.setdefault("M", [])
        c = observe_oks(c)
    elif k == "match":
        c = observe_match(c)
    elif k in ("hung", "greedy"):
        c = observe_assign(k, c["C"])
    else:
        c = observe_iou(c["a"], c["b"])
    c["id"] = 0
    j = judge("Judge_C15", [record(c)], shards=1)
    res.add_judge("Judge_C15", j)
    for cid, clause in j["rejected"]:
        res.violation(rp["key"], clause, strip(c), detail(c))
    return res
