"""C17: every tree skeleton gets a complete, parent-before-child edge order.

design check : MC_Toposort (all rooted labelled trees x all listings; every BFS run is a ValidOrder)
spec -> code  : the same case space is fed to toposort_edges and PAFScorer(...).sorted_edge_inds
judge        : Judge_C17 (ValidOrder evaluated by TLC), MC_CaseSpace_C17 (exhaustiveness by TLC)
"""
import itertools
import random

from harness.evidence import Result
from harness.tlc import check_model, judge, run_tlc, TLCError

MC_CFG = "CONSTANT MaxN = %d\nINIT Init\nNEXT Next\nINVARIANT OrderValidWhenDone\nINVARIANT OrderPrefixSound\nCHECK_DEADLOCK FALSE\n"


def rooted_trees(n):
    """All parent maps on 0..n-1 that are trees, as edge sets [(parent, child)]."""
    for r in range(n):
        others = [v for v in range(n) if v != r]
        for ps in itertools.product(range(n), repeat=n - 1):
            par = dict(zip(others, ps))
            ok = True
            for v in others:
                seen, x = set(), v
                while x != r:
                    if x in seen or par[x] == x:
                        ok = False
                        break
                    seen.add(x)
                    x = par[x]
                if not ok:
                    break
            if ok:
                yield [(par[v], v) for v in others]


NAME_SCHEMES = ("plain", "case_twins", "prefixes", "spaces", "config", "case_twins_config", "numeric_strings")


def part_names(scheme, n):
    if scheme in ("case_twins", "case_twins_config"):     # 'a', 'A', 'b', 'B', ... distinct, equal up to letter case
        return [("abcdefghijklmnop"[k // 2]).upper() if k % 2 else "abcdefghijklmnop"[k // 2] for k in range(n)]
    if scheme == "prefixes":                               # every name a prefix of the next
        return ["n" + "1" * (k + 1) for k in range(n)]
    if scheme == "spaces":                                 # inner whitespace and punctuation
        return ["body part %d (left/right)" % k for k in range(n)]
    if scheme == "numeric_strings":                        # names that look like OTHER nodes' indices
        return [str((k + 1) % n) for k in range(n)]
    return ["n%d" % k for k in range(n)]


def observe(edges, scheme=None):
    from sleap_nn.inference.paf_grouping import EdgeType, PAFScorer, toposort_edges

    nn = max(max(e) for e in edges) + 1
    # "however ... the skeleton was written down": the part names are distinct strings of several styles
    scheme = NAME_SCHEMES[(sum((k + 1) * (7 * a + b) for k, (a, b) in enumerate(edges)) + nn) % len(NAME_SCHEMES)] if scheme is None else scheme
    names = part_names(scheme, nn)
    rec = dict(edges=[list(e) for e in edges], ord=[], ord2=[], raised="", names=scheme, grouped=0, nn=0)
    try:
        rec["ord"] = [int(x) for x in toposort_edges([EdgeType(s, d) for s, d in edges])]
        named = [(names[s], names[d]) for s, d in edges]
        if scheme in ("config", "case_twins_config"):
            from omegaconf import OmegaConf
            conf = OmegaConf.create({"confmaps": {"part_names": names, "output_stride": 2},
                                     "pafs": {"edges": [list(e) for e in named], "output_stride": 2}})
            sc = PAFScorer.from_config(conf)
        else:
            sc = PAFScorer(part_names=names, edges=named, pafs_stride=2)
        rec["ord2"] = [int(x) for x in sc.sorted_edge_inds]
        # the order as it is USED: group one animal that has one peak per node and an accepted match on every edge - every
        # body part must end up in the one instance ("no body part is left ungrouped because of the way the skeleton was
        # written down")
        import torch
        from sleap_nn.inference.paf_grouping import group_instances_sample
        E = len(edges)
        inst, _ps, _sc = group_instances_sample(
            peaks_sample=torch.tensor([[10.0 * k, 5.0 * k] for k in range(nn)], dtype=torch.float32),
            peak_scores_sample=torch.ones(nn, dtype=torch.float32),
            peak_channel_inds_sample=torch.arange(nn, dtype=torch.int32),
            match_edge_inds_sample=torch.arange(E, dtype=torch.int32),
            match_src_peak_inds_sample=torch.zeros(E, dtype=torch.int32),
            match_dst_peak_inds_sample=torch.zeros(E, dtype=torch.int32),
            match_line_scores_sample=torch.ones(E, dtype=torch.float32),
            n_nodes=nn, sorted_edge_inds=sc.sorted_edge_inds, edge_types=sc.edge_types, min_instance_peaks=0)
        import numpy as _np
        inst = _np.asarray(inst)
        rec["grouped"] = int(_np.isfinite(inst[0]).all(axis=-1).sum()) if inst.shape[0] == 1 else -int(inst.shape[0])
        rec["nn"] = nn
        if E >= 2 and rec["grouped"] == nn:
            # ... and as it is used for a BATCH (PAFScorer.group_instances): the animal of the second frame is fully matched, the
            # animal of the first frame only on the first listed edge - what one frame lacks must not cost the next one its order
            peaks = torch.tensor([[10.0 * k, 5.0 * k] for k in range(nn)], dtype=torch.float32)
            nest = torch.nested.nested_tensor
            z = lambda n_, dt: torch.zeros(n_, dtype=dt)      # noqa: E731
            pi, _pv, _ps = sc.group_instances(
                nest([peaks, peaks]), nest([torch.ones(nn), torch.ones(nn)]), nest([torch.arange(nn, dtype=torch.int32)] * 2),
                nest([torch.zeros(1, dtype=torch.int32), torch.arange(E, dtype=torch.int32)]),
                nest([z(1, torch.int32), z(E, torch.int32)]), nest([z(1, torch.int32), z(E, torch.int32)]),
                nest([torch.ones(1), torch.ones(E)]))
            second = _np.asarray(pi[1])
            rec["grouped"] = int(_np.isfinite(second[0]).all(axis=-1).sum()) if second.shape[0] == 1 else -int(second.shape[0])
        if [tuple(int(x) for x in e) for e in sc.edge_inds] != [tuple(e) for e in edges]:
            raise AssertionError("PAFScorer.edge_inds %s are not the skeleton's edges %s (names %s)" % (list(sc.edge_inds), edges, names))
    except Exception as e:  # totality is part of the property
        rec["raised"] = "%s: %s" % (type(e).__name__, e)
    return rec


def run(tier, seed):
    res = Result("C17")
    rng = random.Random(seed)
    max_full = 5 if tier == "quick" else 6
    mc_n = 4 if tier == "quick" else 5
    r = check_model("MC_Toposort", MC_CFG % mc_n, timeout=900, require_actions=("BfsPop",))
    res.add_mc("MC_Toposort MaxN=%d" % mc_n, r, "all rooted labelled trees x all edge listings; every BFS run yields ValidOrder")
    if r.violation:
        raise TLCError("design check failed: %s" % (r.violation,))

    cases, fed_small = [], []
    for n in range(2, max_full + 1):
        for t in rooted_trees(n):
            for perm in itertools.permutations(t):
                c = observe(list(perm))
                c["id"] = len(cases)
                cases.append(c)
                if n <= 4:
                    fed_small.append(c["edges"])
    n_exh = len(cases)
    # sampled larger trees (random labelled trees via random parent of a random permutation)
    # ... and skeletons of realistic size (10-24 nodes: two-digit node numbers), bushy, or long chains with a few branches
    for n, cnt in ((max_full + 1, 3000 if tier == "quick" else 40000), (max_full + 2, 500 if tier == "quick" else 10000),
                   (0, 150 if tier == "quick" else 3000)):
        for k in range(cnt):
            big = n == 0
            nn = rng.randint(10, 24) if big else n
            order = list(range(nn))
            rng.shuffle(order)
            t = [(order[(i - 1) if (big and k % 2 and rng.random() < 0.8) else rng.randrange(i)], order[i]) for i in range(1, nn)]
            rng.shuffle(t)
            c = observe(t)
            c["id"] = len(cases)
            cases.append(c)
    # calls recorded while the repository's own tests run (tracing pytest plugin): the same judge validates them
    from harness import shim
    from harness.repo_tests import record
    recs, rc, tail = record(["tests/inference/test_paf_grouping.py"], shim.REPO)
    n_repo = 0
    for rec in recs:
        if rec["fn"] != "toposort_edges":
            continue
        es = [tuple(e) for e in rec["edges"]]
        nodes = {x for e in es for x in e}
        if len(es) != len(nodes) - 1 or len({d for _, d in es}) != len(es) or not es:
            continue  # not a tree: outside the property
        cases.append(dict(id=len(cases), edges=rec["edges"], ord=rec["ord"], ord2=rec["ord2"], raised=rec["raised"], from_repo_tests=True))
        n_repo += 1
    res.coverage["calls_recorded_from_repo_tests"] = n_repo
    for c in cases:
        if "names" in c:
            res.clause("part_names_" + c["names"])
    j = judge("Judge_C17", [{k: v for k, v in c.items() if k != "from_repo_tests"} for c in cases])
    res.add_judge("Judge_C17", j, "trees 2..%d exhaustive (%d), %d..%d nodes sampled" % (max_full, n_exh, max_full + 1, max_full + 2))
    byid = {c["id"]: c for c in cases}
    for cid, clause in j["rejected"]:
        c = byid[int(cid)]
        res.violation(dict(where="toposort_edges", clause=clause), clause, c, "edges=%s names=%s ord=%s ord2=%s %s" % (c["edges"], c.get("names"), c["ord"], c["ord2"], c["raised"]))
    if j["rejected_n"] and not j["rejected"]:
        raise TLCError("rejections without ids")
    # exhaustiveness of the fed space decided by TLC (2..4 nodes; larger n by count below)
    import json, os, tempfile
    fd, fn = tempfile.mkstemp(prefix="verif_c17_", suffix=".json")
    try:
        with os.fdopen(fd, "w") as f:
            json.dump(fed_small, f)
        rr = run_tlc("MC_CaseSpace_C17", "CONSTANT MaxN = 4\nINIT CInit\nNEXT CNext\nCHECK_DEADLOCK FALSE\n", workers=1, env={"TRACE_FILE": fn}, timeout=1500)
    finally:
        os.unlink(fn)
    if not rr.printed("CASESPACE") or rr.violation or rr.error:
        raise TLCError("case-space check failed: %s" % rr.out[-1500:])
    res.coverage["case_space_check"] = rr.printed("CASESPACE")[-1]
    distinct = len({str(c["edges"]) for c in cases[:n_exh]})
    expect = sum((n ** (n - 1)) * __import__("math").factorial(n - 1) for n in range(2, max_full + 1))
    if distinct != expect:
        raise TLCError("driver enumerated %d edge lists, expected %d" % (distinct, expect))
    res.coverage.update(distinct_nontrivial=len({str(c["edges"]) for c in cases if len(c["edges"]) >= 2}),
                        exhaustive=True,
                        rule="all listings of all rooted labelled trees on 2..%d nodes (count checked = %d; set equality with the spec's case space checked by TLC for 2..4), plus seeded random trees on %d and %d nodes; non-trivial = at least 2 edges (order can matter)" % (max_full, expect, max_full + 1, max_full + 2))
    for c in (cases[5], cases[n_exh - 1], cases[-1]):
        res.sample(dict(edges=c["edges"], sorted_edge_inds=c["ord"]))
    res.assumptions += ["networkx adjacency order is irrelevant to the property (spec allows any sibling order)",
                        "part names are distinct strings in 7 styles (plain, equal up to letter case, prefixes of each other, with spaces/punctuation, "
                        "numeric strings naming other nodes' indices; constructor and from_config); PAFScorer.edge_inds must be the skeleton's edges"]
    return res


def replay(rp, seed):
    res = Result("C17")
    c = observe([tuple(e) for e in rp["case"]["edges"]], rp["case"].get("names"))
    c["id"] = 0
    j = judge("Judge_C17", [c], shards=1)
    res.add_judge("Judge_C17", j)
    for cid, clause in j["rejected"]:
        res.violation(rp["key"], clause, c)
    return res
