"""C10: well-separated animals keep their identity across frames.

design check : MC_Tracker - every history of the scenario class (<=3 animals, window 2/3, 4-5 frames) keeps
               Identity and Distinct for 2 stores x 2 matchers x 2 reductions; without the class restriction
               Identity must fail (non-vacuity: hand-over outside the class is by design)
spec -> code  : histories = paths of TLC's dumped state graph, replayed on a fresh real Tracker for every
               feature/score pair, with seeded random permutations of the detections
judge        : Trace_Tracker (mode C10): each real frame must be a Track(D) step of the spec with the observed
               assignment; Identity / Distinct in every state
"""
import random

from harness.evidence import Result
from harness.tlc import check_model, judge, TLCError

MC = """CONSTANTS Animals = {1, 2, 3}
 None = 0
 MaxFrames = %d
 Scenario = %s
 Ws = {%s}
INIT Init
NEXT Next
CONSTRAINT ScenarioConstraint
INVARIANT Identity
INVARIANT Distinct
CHECK_DEADLOCK FALSE
"""
TRACE_CFG = "CONSTANTS Animals = {1, 2, 3}\n None = 0\nINIT Init\nNEXT Next\nCONSTRAINT Check\nPOSTCONDITION Report\nCHECK_DEADLOCK FALSE\n"


def histories_from_graph(g, rng, per_init):
    memo = {}
    for init in g.init:
        cnt = g.count_paths(init, memo)
        if cnt <= per_init:
            paths = list(g.all_paths(init))
        else:
            paths = [g.sample_path(init, rng, memo) for _ in range(per_init)]
        for p in paths:
            yield g.states[init]["cfg"], [sorted(g.states[sid]["lastD"]) for _, sid in p], cnt


def observe(tc, w, hist, rng, layout="far"):
    from harness.tracker_util import animal_pose, run_history

    drift, frames = {"layout": layout}, []
    for D in hist:
        dets = [dict(a=a, hi=True, pts=animal_pose(a, rng, drift)) for a in D]
        rng.shuffle(dets)
        frames.append(dets)
    return run_history(tc, w, frames)


def long_walk(rng, w, n_frames, layout):
    """A long scenario-class history: three animals walk steadily (3 px per frame, hundreds of px in total - far more than
    their separation), the third arrives late while the others are visible, absences are shorter than the window.
    layout "lanes": parallel lines 120 px apart; "file": one behind the other on the same line, 151 px apart - each walks over
    ground another one covered many frames (more than the window) ago.  Returns (hist, frames)."""
    from harness.tracker_util import POSE
    import numpy as np

    arrive = rng.randint(n_frames // 2, (2 * n_frames) // 3)     # the early animals have walked hundreds of px by then
    absent = {}          # frame -> animal missing (never at an arrival, never two at once, shorter than the window)
    t = arrive + 3
    first = True
    while t < n_frames - w:
        a = rng.choice([1, 2, 3])
        # the first absence is the longest the window covers (w - 1 frames): the configured window, not a default, decides
        for k in range(max(1, w - 1) if first else rng.randint(1, max(1, w - 1))):
            absent[t + k] = a
        first = False
        t += w + rng.randint(3, 9)
    hist = [sorted(a for a in (1, 2, 3) if (a < 3 or f >= arrive) and absent.get(f) != a) for f in range(n_frames)]
    return hist, walk_frames(hist, layout, rng)


def walk_frames(hist, layout, rng):
    """the detections of a long walk: positions are a function of (frame, animal, layout) only"""
    from harness.tracker_util import POSE
    import numpy as np

    frames = []
    for f, present in enumerate(hist):
        dets = []
        for a in present:
            if layout == "fast":      # 40 px per frame with 40 px bodies, lanes 400 px apart: the score of an
                base = np.array([20.0 + 40.0 * f, 60.0 + 400.0 * (a - 1)])     # animal against its own last pose is tiny (OKS ~ e^-200) but not 0
            else:
                base = np.array([20.0 + 6.0 * f, 60.0 + 120.0 * (a - 1)]) if layout == "lanes" else np.array([20.0 + 3.0 * f + 151.0 * (3 - a), 100.0])
            dets.append(dict(a=a, hi=True, pts=POSE + base))
        rng.shuffle(dets)
        frames.append(dets)
    return frames


def run(tier, seed):
    from harness.graph import dump_graph
    from harness.tracker_util import FEATURES

    res = Result("C10")
    rng = random.Random(seed)
    r = check_model("MC_Tracker", MC % (4, "TRUE", "2"), timeout=600, require_actions=("Next",))
    res.add_mc("MC_Tracker scenario class, 3 animals, w=2, 4 frames, 8 configurations", r)
    if r.violation:
        raise TLCError("C10 design check failed: %s" % (r.violation,))
    rc = check_model("MC_Tracker", MC % (4, "FALSE", "2"), timeout=600, expect_violation=("invariant", "Identity"))
    res.add_mc("MC_Tracker without the scenario restriction", rc, "must violate Identity (hand-over by design outside the class)")
    if tier == "thorough":
        r3 = check_model("MC_Tracker", MC % (5, "TRUE", "3"), timeout=1500)
        res.add_mc("MC_Tracker scenario class, w=3, 5 frames", r3)
        if r3.violation:
            raise TLCError("C10 design check failed: %s" % (r3.violation,))
    gcfgs = [(4, "2")] + ([(5, "3")] if tier == "thorough" else [(4, "3")])
    traces, total_paths = [], 0
    per_init = 20 if tier == "quick" else 700
    for mf, ws in gcfgs:
        gr, g = dump_graph("MC_Tracker", MC % (mf, "TRUE", ws), timeout=1500, workers=12)
        for cfg, hist, cnt in histories_from_graph(g, rng, per_init):
            total_paths += 1
            for feat, score in (FEATURES if tier == "thorough" else [FEATURES[len(traces) % 3]]):
                tc = dict(store=cfg["store"], match=cfg["match"], red=cfg["red"], feat=feat, score=score)
                if len(traces) % 4 == 3:      # FlowShiftTracker on a static texture (zero optical flow)
                    tc["flow"] = True
                layout = "diagonal" if len(traces) % 3 == 1 else "far"
                fr = observe(tc, cfg["w"], hist, rng, layout)
                traces.append(dict(id=len(traces), mode="C10", cfg=dict(cfg), frames=fr, tc=tc, hist=hist, layout=layout))
    # long walks (scenario class, 60-110 frames): what a track remembers beyond its window must not matter
    from harness.tracker_util import run_history
    n_long = 0
    for store in ("fixed", "local"):
        for match in ("hungarian", "greedy"):
            for red in ("mean", "max"):
                for k, (feat, score) in enumerate(FEATURES):
                    for li, layout in enumerate(("lanes", "file", "fast")):
                        # quick: one layout per (configuration, feature), rotated so that every (feature, layout) pair occurs
                        if tier == "quick" and (n_long + k) % 3 != li:
                            continue
                        # also windows larger than the constructors' default (seed C10_r12); not for the fast walkers, who would cover
                        # more than the lane separation during an absence of 7+ frames (outside the property's scenario class)
                        w = rng.choice([3, 5] if layout == "fast" else [3, 5, 8, 12])
                        hist, frames = long_walk(rng, w, rng.randint(100, 140) if layout != "fast" else rng.randint(40, 60), layout)
                        tc = dict(store=store, match=match, red=red, feat=feat, score=score)
                        cfg = dict(store=store, match=match, red=red, w=w)
                        traces.append(dict(id=len(traces), mode="C10", cfg=cfg, frames=run_history(tc, w, frames), tc=tc, hist=hist, long=layout))
                n_long += 1
    res.clause("long_walk_histories", n_long)
    res.clause("histories_with_diagonal_neighbours", sum(1 for t in traces if t.get("layout") == "diagonal"))
    j = judge("Trace_Tracker", [dict(id=t["id"], mode="C10", cfg=t["cfg"], frames=[dict(dets=f["dets"], ret=f["ret"], raised=f["raised"]) for f in t["frames"]]) for t in traces],
              cfg_text=TRACE_CFG, per_shard_min=100, timeout=1500)
    res.add_judge("Trace_Tracker (C10)", j, "histories from TLC's state graph of the scenario class")
    byid = {t["id"]: t for t in traces}
    for cid, clause in j["rejected"]:
        t = byid[int(cid)]
        kind = clause.split("_at_frame_")[0]
        fr = int(clause.split("_at_frame_")[1]) if "_at_frame_" in clause else 0
        f = t["frames"][min(fr, len(t["frames"])) - 1]
        res.violation(dict(where="Tracker.track", store=t["tc"]["store"], kind=kind), clause,
                      dict(tc=t["tc"], w=t["cfg"]["w"], hist=t["hist"], frames=t["frames"], long=t.get("long"), layout=t.get("layout", "far")),
                      "%s w=%d hist=%s frame %d: dets=%s ret=%s %s" % (t["tc"], t["cfg"]["w"], t["hist"], fr, f["dets"], f["ret"], f.get("err", "")))
    if j["rejected_n"] > len(j["rejected"]):
        res.coverage["rejections_not_listed"] = j["rejected_n"] - len(j["rejected"])
    # ---- whole inference sessions: FrameStream -> InferPlane -> Tracker (spec/System.tla) ----------------------
    from loguru import logger
    from harness.session import run_session
    logger.disable("sleap_nn")
    n_sess = 24 if tier == "quick" else 600
    sess = []
    pick = rng.sample(traces, min(n_sess, len(traces)))
    for k, t in enumerate(pick):
        kind = "topdown" if k % 2 == 0 else "bottomup"
        t = dict(t, tc={k2: v for k2, v in t["tc"].items() if k2 != "flow"})     # sessions: coordinate-coded frames are no texture for optical flow
        o = run_session(kind, t["tc"], t["cfg"]["w"], t["hist"], random.Random(seed * 131 + k))
        sess.append(dict(id=k, cfg=dict(t["cfg"]), frames=o["frames"], skipped_with_animals=o["skipped_with_animals"], kind=kind, tc=t["tc"], hist=t["hist"], raised=o["raised"], stream=o.get("stream")))
    js = judge("Trace_System", [dict(id=x["id"], cfg=x["cfg"], frames=x["frames"], skipped_with_animals=x["skipped_with_animals"]) for x in sess],
               cfg_text=TRACE_CFG, per_shard_min=20, timeout=900)
    res.add_judge("Trace_System", js, "whole predict(make_labels=True) sessions with a real Tracker attached (top-down / bottom-up, ideal stubs)")
    for cid, clause in js["rejected"]:
        x = sess[int(cid)]
        res.violation(dict(where="session:" + x["kind"], store=x["tc"]["store"], kind=clause.split("_at_frame_")[0]), clause,
                      dict(session=True, kind=x["kind"], tc=x["tc"], w=x["cfg"]["w"], hist=x["hist"], frames=x["frames"]), "%s %s hist=%s %s" % (x["kind"], x["tc"], x["hist"], x["raised"]))
    # the SAME executions projected on FrameStream (reader / queue / consumer events under the queue mutex): composition
    st = [dict(id=x["id"], cfg=x["stream"]["cfg"], ev=x["stream"]["ev"]) for x in sess if x.get("stream")]
    jf = judge("Trace_FrameStream", st, cfg_text="INIT Init\nNEXT Next\nCONSTRAINT Check\nPOSTCONDITION Report\nCHECK_DEADLOCK FALSE\n", per_shard_min=20, timeout=900)
    res.add_judge("Trace_FrameStream (sessions)", jf, "the same sessions as reader/queue/consumer traces")
    for cid, clause in jf["rejected"]:
        x = sess[int(cid)]
        res.violation(dict(where="session:" + x["kind"], store=x["tc"]["store"], kind="stream:" + clause.split("_for_event")[0]), clause,
                      dict(session=True, kind=x["kind"], tc=x["tc"], w=x["cfg"]["w"], hist=x["hist"], frames=x["frames"], stream=x["stream"]), "stream trace of session %s hist=%s" % (x["kind"], x["hist"]))
    res.coverage["system_sessions"] = len(sess)
    res.coverage.update(evaluations=len(traces) + len(sess), distinct_nontrivial=len({(str(t["tc"]), t["cfg"]["w"], str(t["hist"])) for t in traces if len(t["hist"]) >= 2 and any(len(D) >= 2 for D in t["hist"])}),
                        exhaustive=False,
                        rule="histories = maximal paths of TLC's dumped state graph of the scenario class (3 animals, w in {2,3}, 4-5 frames), sampled uniformly per configuration, each replayed on a fresh real Tracker with seeded detection permutations and sub-pixel drift; non-trivial = at least 2 frames and some frame with >= 2 animals",
                        spec_paths_replayed=total_paths)
    res.sample(dict(tc=traces[-1]["tc"], history=traces[-1]["hist"], frames=[dict(dets=f["dets"], ret=f["ret"]) for f in traces[-1]["frames"]]))
    res.assumptions += ["'far apart compared with their motion' is realised as 190 px separation, <= 0.5 px drift per frame, 40 px poses",
                        "FlowShiftTracker on a static texture only (a quarter of the replayed histories); image features, max_tracks not covered"]
    return res


def replay(rp, seed):
    res = Result("C10")
    c = rp["case"]
    rng = random.Random(seed)
    if c.get("session"):
        from harness.session import run_session
        o = run_session(c["kind"], c["tc"], c["w"], c["hist"], rng)
        cfg = dict(store=c["tc"]["store"], match=c["tc"]["match"], red=c["tc"]["red"], w=c["w"])
        j = judge("Trace_System", [dict(id=0, cfg=cfg, frames=o["frames"], skipped_with_animals=o["skipped_with_animals"])], cfg_text=TRACE_CFG, shards=1)
        for cid, clause in j["rejected"]:
            res.violation(rp["key"], clause, c)
        return res
    if c.get("long"):
        from harness.tracker_util import run_history
        fr = run_history(c["tc"], c["w"], walk_frames(c["hist"], c["long"], rng))
    else:
        fr = observe(c["tc"], c["w"], c["hist"], rng, c.get("layout", "far"))
    cfg = dict(store=c["tc"]["store"], match=c["tc"]["match"], red=c["tc"]["red"], w=c["w"])
    j = judge("Trace_Tracker", [dict(id=0, mode="C10", cfg=cfg, frames=[dict(dets=f["dets"], ret=f["ret"], raised=f["raised"]) for f in fr])], cfg_text=TRACE_CFG, shards=1)
    for cid, clause in j["rejected"]:
        res.violation(rp["key"], clause, c)
    return res
