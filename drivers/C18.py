"""C18: interchangeable data-pipeline implementations produce the same samples.

design check : MC_Frameworks - InMemory, NpChunks, ChunkStream as three behaviours of the same stage actions (Geometry.tla
               stages + store / re-crop-at-int(crop*scale) / targets) over the C04 geometry grid, one TLC run:
               Agree (THE THEOREM: all model types at scale 1; single, centroid, bottom-up at every scale),
               ExclusionIsDivergence (every centered-instance configuration at scale != 1 diverges), CacheTransparent,
               OnlyChunksQuantise, BlockAgree (Block(b) == Function(b)); counter-model run: AgreeEverywhere MUST be violated
code -> spec  : harness-built labels (several frames / animals / videos, NaN nodes, grayscale and RGB, uint8 and float) x
               configurations; the three REAL paths run (in-memory Dataset; np_chunks=True Dataset in a mkdtemp directory;
               *_data_chunks -> litdata's own serializers in memory -> *StreamingDataset.__getitem__ with
               litdata.StreamingDataset.__init__/__getitem__ substituted); samples are projected (shapes, keypoints round(x*64),
               pairwise allclose flags with the 8-bit tolerance for images) and Trace_Frameworks - which re-runs the three
               spec behaviours of exactly that configuration - judges the theorem's instance
judge        : Judge_C18 - each legacy DataPipe block iterated over a one-element source vs its functional counterpart
"""
import json
import random

from harness.evidence import Result
from harness.tlc import TLCError, check_model, judge

# ------------------------------------------------------------------------------------------ TLC cfgs
MC_CFG = """CONSTANTS HSizes = %s
 WSizes = %s
 Strides = %s
 CropSizes = {16, 32}
 Anchors = %s
INIT Init
NEXT Next
%s
CHECK_DEADLOCK FALSE
"""
MC_INVARIANTS = ("FTypeOK", "Agree", "ExclusionIsDivergence", "CacheTransparent", "OnlyChunksQuantise", "BlockAgree",
                 "SizeMatcherDiffersElsewhere")
MC_ACTIONS = ("FRead", "FSample", "FNormalize", "FSizeMatch", "FSizeMatchPad", "FResize", "FPadToStride", "FCentroid", "FCrop",
              "FOverCrop", "FReCrop", "FReCropScaled", "FCache", "FChunk8", "FConfmaps", "FMultiConfmaps", "FPAFs", "Restart")
GRID = dict(quick=("{17, 45, 64}", "{32, 64}", "{8, 32}", "{0, 3}"),
            thorough=("{17, 32, 45, 64}", "{17, 32, 45, 64}", "{1, 8, 32}", "{0, 3}"))
TRACE_CFG = "INIT Init\nNEXT Next\nCONSTRAINT Check\nPOSTCONDITION Report\nCHECK_DEADLOCK FALSE\n"

SCALES = ((1, 2), (3, 4), (1, 1), (3, 2))
SCALES_ONE = (1, 1)
FAMILIES = ("plain", "stray_empty_instance", "frame_only_empty_instances", "with_predicted_instances", "videos_share_frame_numbers")
BLOCK_TOL = 1e-6


# ------------------------------------------------------------------------------------------ jobs (JSON-able, replayable)
def _rand_instance(rng, h, w, n_nodes):
    cx, cy = rng.uniform(3, w - 4), rng.uniform(3, h - 4)
    ext = rng.choice([3.0, 6.0, 10.0])
    pts = []
    for _ in range(n_nodes):
        x = min(max(cx + rng.uniform(-ext, ext), 1.0), w - 2.0)
        y = min(max(cy + rng.uniform(-ext, ext), 1.0), h - 2.0)
        pts.append([round(x * 4) / 4.0, round(y * 4) / 4.0])          # 1/4 px lattice: exact in float32 and in 1/64 px
    hide = [k for k in range(n_nodes) if rng.random() < 0.2][: n_nodes - 1]
    for k in hide:
        pts[k] = None
    return pts


def make_job(rng, model, scale, family, jid):
    n_nodes = rng.choice([2, 3, 4])
    sizes = [(rng.choice([17, 24, 32, 45, 64]), rng.choice([17, 24, 32, 45, 64])) for _ in range(rng.choice([1, 1, 2]))]
    ch = rng.choice([1, 3])
    dtype = rng.choice(["uint8", "uint8", "float32"])
    if family == "videos_share_frame_numbers":
        # several videos of ONE size whose labelled frames carry the same frame numbers and are adjacent in label
        # order (frame 0 of video 0, frame 0 of video 1, ...): anything keyed by frame number alone mixes them up
        sizes = [sizes[0]] * rng.choice([2, 3])
    frames = []
    for vid, (h, w) in enumerate(sizes):
        for _f in range(1 if family == "videos_share_frame_numbers" else rng.choice([1, 2])):
            n_inst = 1 if model == "single_instance" else rng.choice([1, 2, 3])
            frames.append(dict(video=vid, hw=[h, w], instances=[_rand_instance(rng, h, w, n_nodes) for _ in range(n_inst)]))
    if family == "stray_empty_instance":        # an all-NaN instance next to the real ones (an empty instance left in the project)
        f = rng.choice(frames)
        f["instances"].insert(rng.randrange(len(f["instances"]) + 1), [None] * n_nodes)
    elif family == "frame_only_empty_instances":  # a labelled frame whose instances are all empty
        h, w = sizes[0]
        frames.insert(rng.randrange(len(frames) + 1), dict(video=0, hw=[h, w], instances=[[None] * n_nodes]))
    user_only = True
    if family == "with_predicted_instances":      # predicted instances next to the user-labelled ones, with either filter setting
        user_only = rng.choice([True, False]) if jid % 2 else False    # at least every second job of the family keeps the predictions
        for fi, f in enumerate(frames):
            if (fi == 0 or rng.random() < 0.7) and model != "single_instance":
                h, w = f["hw"]
                f["predicted"] = [_rand_instance(rng, h, w, n_nodes) for _ in range(rng.choice([1, 2]))]
        if model == "single_instance":            # a prediction for the one animal; only meaningful with the user filter on
            user_only = True
            h, w = frames[0]["hw"]
            frames[0]["predicted"] = [_rand_instance(rng, h, w, n_nodes)]
    mode = rng.choice(["max", "max", "fixed", "big", "small"])
    max_hw = {"max": [max(s[0] for s in sizes), max(s[1] for s in sizes)], "fixed": [64, 64], "big": [80, 96],
              "small": [24, 40]}[mode]
    cfg = dict(is_rgb=rng.choice([True, False]), max_hw=max_hw, sn=scale[0], sd=scale[1], max_stride=rng.choice([1, 8, 16, 32]),
               sigma=rng.choice([1.5, 2.5]), output_stride=rng.choice([1, 2, 4]), anchor=rng.choice([None] + list(range(n_nodes))),
               crop=rng.choice([16, 24, 32]), paf_sigma=rng.choice([2.0, 4.0]), paf_stride=rng.choice([2, 4]), user_only=user_only)
    return dict(jid=jid, model=model, family=family, seed=rng.randrange(1 << 30), n_nodes=n_nodes, ch=ch, dtype=dtype,
                frames=frames, cfg=cfg)


def build_labels(job):
    import numpy as np
    from harness.labels_util import make_labels

    frames = []
    for k, f in enumerate(job["frames"]):
        r = np.random.RandomState((job["seed"] + 7919 * k) % (2 ** 32))
        h, w = f["hw"]
        if job["dtype"] == "uint8":
            img = r.randint(0, 256, size=(h, w, job["ch"])).astype("uint8")
        else:
            img = r.uniform(0, 1, size=(h, w, job["ch"])).astype("float32")
        insts = [np.array([[np.nan, np.nan] if p is None else p for p in inst], dtype="float64") for inst in f["instances"]]
        frames.append(dict(image=img, instances=insts, video=f["video"]))
    labels = make_labels(frames, n_nodes=job["n_nodes"], stale_hidden=(job["jid"] % 2 == 1))   # hidden nodes with stale coordinates
    from harness.shim import predicted_instance

    for lf, f in zip(labels.labeled_frames, job["frames"]):
        for inst in f.get("predicted", []):
            pts = np.array([[np.nan, np.nan] if p is None else p for p in inst], dtype="float64")
            lf.instances.append(predicted_instance(pts, score=0.8, skeleton=labels.skeletons[0]))
    return labels


def _frame_of(job, video_idx, frame_idx):
    k = -1
    for f in job["frames"]:
        if f["video"] == video_idx:
            k += 1
            if k == frame_idx:
                return f
    return None


def _kp0(job, frame, occurrence, n_points_observed):
    """Labels of the frame in the spec's terms <<x64, y64, visible, animal, node>> (centered: the cropped animal only),
    padded with invisible animals up to the number of points the dataset returned."""
    nn = job["n_nodes"]
    every = list(frame["instances"]) + ([] if job["cfg"].get("user_only", True) else list(frame.get("predicted", [])))
    real = [inst for inst in every if any(p is not None for p in inst)]
    if job["model"] == "centered_instance":
        real = real[occurrence:occurrence + 1]
    rows = []
    for a, inst in enumerate(real):
        for n, p in enumerate(inst):
            rows.append([0, 0, 0, a + 1, n + 1] if p is None else [int(round(p[0] * 64)), int(round(p[1] * 64)), 1, a + 1, n + 1])
    per = 1 if job["model"] == "centroid" else nn
    want = n_points_observed // per
    for a in range(len(real), want):
        rows += [[0, 0, 0, a + 1, n + 1] for n in range(nn)]
    return rows


def run_job(job, base_id):
    """The three real paths on the job's labels -> trace records (one 'config' record + one 'sample' record per sample)."""
    from harness import frameworks_util as fu

    model, c = job["model"], job["cfg"]
    rc = dict(is_rgb=c["is_rgb"], max_hw=tuple(c["max_hw"]), scale=c["sn"] / c["sd"], max_stride=c["max_stride"], sigma=c["sigma"],
              output_stride=c["output_stride"], anchor=c["anchor"], crop_hw=(c["crop"], c["crop"]), paf_sigma=c["paf_sigma"],
              paf_stride=c["paf_stride"], user_only=c.get("user_only", True),
              # every second job reads the npz chunks through a SECOND dataset object built with use_existing_chunks=True
              reuse_chunks=lambda: build_labels(job) if job["jid"] % 2 else None)
    outs, raised = {}, []
    for fw in fu.FRAMEWORKS:
        try:
            outs[fw] = fu.RUNNERS[fw](model, build_labels(job), rc)        # fresh labels for every framework
            raised.append("")
        except Exception as e:      # one framework refusing labels the others accept is a disagreement: judged by TLC
            outs[fw] = []
            raised.append(("%s: %s" % (type(e).__name__, e))[:160])
    keyed = {}
    for fw in fu.FRAMEWORKS:
        seen, d = {}, {}
        for s in outs[fw]:
            vf = (int(s["video_idx"]), int(s["frame_idx"]))
            seen[vf] = seen.get(vf, 0) + 1
            d[vf + (seen[vf] - 1,)] = s
        keyed[fw] = d
    keysets = [sorted(keyed[fw]) for fw in fu.FRAMEWORKS]
    f0 = job["frames"][0]
    spec_cfg = dict(model=model, h=f0["hw"][0], w=f0["hw"][1], maxH=c["max_hw"][0], maxW=c["max_hw"][1], sn=c["sn"], sd=c["sd"],
                    m=c["max_stride"], cr=c["crop"], anchor=0 if c["anchor"] is None else c["anchor"] + 1, os=c["output_stride"],
                    ps=c["paf_stride"], kp0=[[64, 64, 1, 1, n + 1] for n in range(job["n_nodes"])])
    recs = [dict(id=base_id, kind="config", jid=job["jid"], family=job["family"], cfg=spec_cfg, n=[len(outs[fw]) for fw in fu.FRAMEWORKS],
                 raised=raised, ks=int(keysets[0] == keysets[1] == keysets[2]))]
    common = [k for k in keysets[0] if k in keyed["NpChunks"] and k in keyed["ChunkStream"]]
    ik, kk, tks = fu.IMG_KEY[model], fu.KP_KEY[model], fu.TARGET_KEYS[model]
    for key in common:
        ss = [keyed[fw][key] for fw in fu.FRAMEWORKS]
        obs, ninst = [], []
        for s in ss:
            ish = fu.shape_of(s[ik])
            obs.append(dict(ih=ish[-2], iw=ish[-1], ic=ish[-3], kp=fu.project_points(s[kk]), krank=len(fu.shape_of(s[kk])),
                            tsh=[fu.shape_of(s[t]) for t in tks]))
            ninst.append(int(s["num_instances"]) if "num_instances" in s else -1)
        pairs = ((0, 1), (0, 2), (1, 2))
        img = [fu.close(ss[a][ik], ss[b][ik], fu.IMG_TOL) for a, b in pairs]
        tgt = [[fu.close(ss[a][t], ss[b][t], fu.TGT_TOL) for a, b in pairs] for t in tks]
        frame = _frame_of(job, key[0], key[1])
        cfg = dict(spec_cfg, h=frame["hw"][0], w=frame["hw"][1], kp0=_kp0(job, frame, key[2], len(obs[0]["kp"])))
        recs.append(dict(id=base_id + len(recs), kind="sample", jid=job["jid"], family=job["family"], key=list(key), cfg=cfg,
                         n=recs[0]["n"], raised=raised, ks=recs[0]["ks"], obs=obs, ninst=ninst,
                         eq=dict(img=[x[0] for x in img], tgt=[[x[0] for x in t] for t in tgt]),
                         diff=dict(img=[x[1] for x in img], tgt=[[x[1] for x in t] for t in tgt])))
    return recs


# ------------------------------------------------------------------------------------------ DataPipe blocks vs functions
def _block_case(cseed, block, cid):
    """One seeded random example through the DataPipe block (one-element source) and through its functional counterpart."""
    import torch
    from harness import frameworks_util as fu
    from sleap_nn.data import confidence_maps as cm, edge_maps as em, instance_centroids as ic, instance_cropping as icr
    from sleap_nn.data import normalization as nz, resizing as rz

    rng = random.Random(cseed)
    g = torch.Generator().manual_seed(rng.randrange(1 << 30))
    h, w = rng.choice([17, 24, 32, 45, 64]), rng.choice([17, 24, 32, 45, 64])
    ch = rng.choice([1, 3])
    n_inst, n_nodes = rng.choice([1, 2, 3]), rng.choice([2, 3, 4])
    img = torch.rand((1, ch, h, w), generator=g)
    inst = torch.rand((1, n_inst, n_nodes, 2), generator=g) * torch.tensor([w - 3.0, h - 3.0]) + 1.0
    inst = torch.round(inst * 4) / 4
    for a in range(n_inst):
        for n in range(n_nodes):
            if rng.random() < 0.2 and n > 0:
                inst[0, a, n] = float("nan")
    real = rng.randint(1, n_inst)               # num_instances: the rest is NaN padding, as process_lf makes it
    inst[0, real:] = float("nan")
    params = dict(h=h, w=w, maxH=0, maxW=0)
    rb = rf = ""
    outb, outf, keys = [], [], []

    # The blocks consume STREAMS: in half of the cases the judged example comes second, after a warm-up example of
    # another image size and other keypoints (state carried from one example to the next would show).
    warm_first = [rng.random() < 0.5]

    def S(ex):
        if not warm_first[0]:
            return [ex]
        wm = {}
        for k, v in ex.items():
            if k in ("image",):
                hh, ww = max(8, v.shape[-2] - 3), max(8, v.shape[-1] - 2)
                r = torch.rand(v.shape[:-2] + (hh, ww), generator=g)
                wm[k] = (r * 255).to(torch.uint8) if v.dtype == torch.uint8 else r
            elif torch.is_tensor(v):
                wm[k] = v.clone() * 0.5 + 2.0
            else:
                wm[k] = v
        return [wm, ex]

    def run_block(dp):
        outs = [dict(o) for o in dp]            # InstanceCropper yields the same dict object again and again
        if warm_first[0]:
            drop = real if block == "InstanceCropper" else 1
            if len(outs) < drop:
                raise AssertionError("stream with a warm-up example gave %d outputs" % len(outs))
            outs = outs[drop:]
        return outs

    try:
        if block == "Normalizer":
            is_rgb = rng.choice([True, False])
            u = rng.random()
            # raw frames as uint8, as another integer type (int16 / int32 readers), or already float
            src = (img * 255).to(torch.uint8) if u < 0.4 else ((img * 255).to(torch.int32 if u < 0.5 else torch.int16) if u < 0.6 else img)
            params.update(is_rgb=int(is_rgb))
            keys = ["image"]
            try:
                outb = run_block(nz.Normalizer(S(dict(image=src.clone())), is_rgb=is_rgb))
            except Exception as e:
                rb = "%s: %s" % (type(e).__name__, e)
            x = nz.apply_normalization(src.clone())
            outf = [dict(image=nz.convert_to_rgb(x) if is_rgb else nz.convert_to_grayscale(x))]
        elif block == "SizeMatcher":
            mode = rng.choice(["same", "pad_h", "pad_w", "pad_both", "smaller"])
            mh, mw = {"same": (h, w), "pad_h": (h + rng.choice([3, 16]), w), "pad_w": (h, w + rng.choice([5, 16])),
                      "pad_both": (h + 7, w + 20), "smaller": (max(h - 5, 8), max(w - 9, 8))}[mode]
            params.update(maxH=mh, maxW=mw)
            keys = ["image"]
            if mode == "smaller":
                warm_first[0] = False
            try:
                outb = run_block(rz.SizeMatcher(S(dict(image=img.clone())), max_height=mh, max_width=mw))
            except Exception as e:
                rb = "%s: %s" % (type(e).__name__, e)
            outf = [dict(image=rz.apply_sizematcher(img.clone(), mh, mw)[0])]
        elif block == "Resizer":
            s = rng.choice([0.5, 0.75, 1.0, 1.5])
            params.update(s4=int(s * 4))
            keys = ["image", "instances"]
            try:
                outb = run_block(rz.Resizer(S(dict(image=img.clone(), instances=inst.clone())), scale=s))
            except Exception as e:
                rb = "%s: %s" % (type(e).__name__, e)
            a, b = rz.apply_resizer(img.clone(), inst.clone(), scale=s)
            outf = [dict(image=a, instances=b)]
        elif block == "PadToStride":
            m = rng.choice([1, 2, 8, 16, 32])
            params.update(m=m)
            keys = ["image"]
            try:
                outb = run_block(rz.PadToStride(S(dict(image=img.clone())), max_stride=m))
            except Exception as e:
                rb = "%s: %s" % (type(e).__name__, e)
            outf = [dict(image=rz.apply_pad_to_stride(img.clone(), max_stride=m))]
        elif block == "InstanceCentroidFinder":
            anchor = rng.choice([None] + list(range(n_nodes)))
            params.update(anchor=-1 if anchor is None else anchor)
            keys = ["centroids", "instances"]
            try:
                outb = run_block(ic.InstanceCentroidFinder(S(dict(instances=inst.clone())), anchor_ind=anchor))
            except Exception as e:
                rb = "%s: %s" % (type(e).__name__, e)
            x = inst.clone()
            outf = [dict(centroids=ic.generate_centroids(x, anchor_ind=anchor), instances=x)]
        elif block == "InstanceCropper":
            cr = rng.choice([8, 16, 24])
            params.update(cr=cr)
            keys = ["instance_image", "instance_bbox", "instance", "centroid"]
            cen = ic.generate_centroids(inst.clone(), anchor_ind=None)
            try:
                outb = run_block(icr.InstanceCropper(S(dict(image=img.clone(), instances=inst.clone(), centroids=cen.clone(),
                                                             num_instances=real)), crop_hw=(cr, cr)))
            except Exception as e:
                rb = "%s: %s" % (type(e).__name__, e)
            outf = [icr.generate_crops(img.clone(), inst[0, a].clone(), cen[0, a].clone(), (cr, cr)) for a in range(real)]
        elif block == "ConfidenceMapGenerator":
            sigma, stride = rng.choice([1.0, 1.5, 3.0]), rng.choice([1, 2, 4])
            which = rng.choice(["instances", "instance"])
            params.update(stride=stride)
            keys = ["confidence_maps"]
            pts = inst[:, :1].clone() if which == "instances" else inst[:, 0].clone()      # (1, 1, n, 2) / (1, n, 2)
            try:
                outb = run_block(cm.ConfidenceMapGenerator(S({"image": img.clone(), which: pts.clone()}), sigma=sigma,
                                                           output_stride=stride, image_key="image", instance_key=which))
            except Exception as e:
                rb = "%s: %s" % (type(e).__name__, e)
            outf = [dict(confidence_maps=cm.generate_confmaps(pts.clone(), img_hw=(h, w), sigma=sigma, output_stride=stride))]
        elif block == "MultiConfidenceMapGenerator":
            sigma, stride = rng.choice([1.0, 1.5, 3.0]), rng.choice([1, 2, 4])
            cents = rng.choice([True, False])
            params.update(stride=stride, centroids=int(cents))
            cen = ic.generate_centroids(inst.clone(), anchor_ind=None)
            keys = ["centroids_confidence_maps" if cents else "confidence_maps"]
            try:
                outb = run_block(cm.MultiConfidenceMapGenerator(S(dict(image=img.clone(), instances=inst.clone(), centroids=cen.clone(),
                                                                        num_instances=real)), sigma=sigma, output_stride=stride,
                                                                centroids=cents))
            except Exception as e:
                rb = "%s: %s" % (type(e).__name__, e)
            outf = [{keys[0]: cm.generate_multiconfmaps(cen.clone() if cents else inst.clone(), img_hw=(h, w), num_instances=real,
                                                        sigma=sigma, output_stride=stride, is_centroids=cents)}]
        elif block == "PartAffinityFieldsGenerator":
            sigma, stride = rng.choice([1.0, 2.0, 4.0]), rng.choice([1, 2, 4])
            flat = rng.choice([True, False])
            edges = torch.tensor([[k, k + 1] for k in range(n_nodes - 1)], dtype=torch.float32)
            params.update(stride=stride, flat=int(flat))
            keys = ["part_affinity_fields"]
            try:
                outb = run_block(em.PartAffinityFieldsGenerator(S(dict(image=img.clone(), instances=inst.clone())), sigma=sigma,
                                                                output_stride=stride, edge_inds=edges, flatten_channels=flat))
            except Exception as e:
                rb = "%s: %s" % (type(e).__name__, e)
            outf = [dict(part_affinity_fields=em.generate_pafs(inst.clone(), img_hw=(h, w), sigma=sigma, output_stride=stride,
                                                               edge_inds=edges, flatten_channels=flat))]
        else:
            raise ValueError(block)
    except Exception as e:
        rf = "%s: %s" % (type(e).__name__, e)
    shb, shf, eq, diff = [], [], [], []
    for k in keys:
        n = min(len(outb), len(outf))
        shb.append([fu.shape_of(o[k]) for o in outb[:n]])
        shf.append([fu.shape_of(o[k]) for o in outf[:n]])
        fl = [fu.close(outb[j][k], outf[j][k], BLOCK_TOL) for j in range(n)]
        eq.append(int(all(f[0] for f in fl)))
        diff.append(max([f[1] for f in fl] or [0]))
    return dict(id=cid, cseed=cseed, block=block, nb=len(outb), nf=len(outf), rb=rb[:160], rf=rf[:160], keys=keys, shb=shb, shf=shf, eq=eq,
                diff=diff, params=params, warm=int(warm_first[0]), **{k: params[k] for k in ("h", "w", "maxH", "maxW")})


BLOCKS = ("Normalizer", "SizeMatcher", "Resizer", "PadToStride", "InstanceCentroidFinder", "InstanceCropper",
          "ConfidenceMapGenerator", "MultiConfidenceMapGenerator", "PartAffinityFieldsGenerator")


# ------------------------------------------------------------------------------------------ judging
def _notes(j):
    notes, rej = {}, []
    for cid, clause in j["rejected"]:
        if str(cid).lstrip("-").isdigit() and int(cid) < 0:
            if clause.startswith("note:"):
                notes[clause[5:]] = notes.get(clause[5:], 0) - int(cid)
        else:
            rej.append((int(cid), clause))
    return notes, rej


def _judge_traces(res, recs, note):
    j = judge("Trace_Frameworks", recs, cfg_text=TRACE_CFG, per_shard_min=80)
    res.add_judge("Trace_Frameworks", j, note)
    notes, rej = _notes(j)
    for k, v in notes.items():
        res.clause(k, v)
    if j["rejected_n"] and not rej:
        raise TLCError("rejections without ids")
    byid = {r["id"]: r for r in recs}
    for cid, clause in rej:
        if clause.startswith("spec_theorem_fails_on_instance") or clause.startswith("spec_stuck"):
            raise TLCError("the specification itself fails on a real configuration (%s): %s" % (clause, json.dumps(byid[cid]["cfg"])))
    return rej, byid


def _violation(res, rec, clause, jobs):
    job = jobs[rec["jid"]]
    c = job["cfg"]
    key = dict(where="frameworks", model=job["model"], family=job["family"], clause=clause)
    detail = "model=%s family=%s scale=%d/%d max_hw=%s max_stride=%d is_rgb=%s %s n=%s raised=%s" % (
        job["model"], job["family"], c["sn"], c["sd"], c["max_hw"], c["max_stride"], c["is_rgb"],
        ("sample=%s diffs(img,tgt)/65536=%s %s shapes=%s" % (rec.get("key"), rec["diff"]["img"], rec["diff"]["tgt"],
                                                            [(o["ih"], o["iw"], o["tsh"]) for o in rec["obs"]])) if rec["kind"] == "sample" else "",
        rec["n"], [r for r in rec["raised"]])
    res.violation(key, clause, dict(job=job, kind=rec["kind"], key=rec.get("key")), detail)


def _design(res, tier):
    hs, ws, strides, anchors = GRID[tier]
    inv = "\n".join("INVARIANT %s" % x for x in MC_INVARIANTS)
    r = check_model("MC_Frameworks", MC_CFG % (hs, ws, strides, anchors, inv), timeout=1500, require_actions=MC_ACTIONS)
    grid = r.printed("GRID")
    res.add_mc("MC_Frameworks strides=%s" % strides, r,
               "grid (configurations, demanded, excluded, block, tie) = %s; Agree, ExclusionIsDivergence, CacheTransparent, "
               "OnlyChunksQuantise, BlockAgree, SizeMatcherDiffersElsewhere" % (grid[-1] if grid else "?"))
    if r.violation:
        raise TLCError("design check failed: %s\n%s" % (r.violation, r.out[-3000:]))
    r2 = check_model("MC_Frameworks", MC_CFG % ("{45}", "{32}", "{8}", "{0}", "INVARIANT AgreeEverywhere"), timeout=600, workers=4,
                     expect_violation=("invariant", "AgreeEverywhere"))
    res.add_mc("MC_Frameworks counter-model (agreement without the exclusion)", r2,
               "must violate: centered-instance at scale != 1 - crop-then-resize with an unscaled stored centroid vs resize-then-crop")


def _quiet():
    try:
        from loguru import logger

        logger.disable("sleap_nn")       # the SizeMatcher block logs an ERROR before it raises; the raise is what is judged
    except Exception:
        pass


def run(tier, seed):
    res = Result("C18")
    rng = random.Random(seed)
    _quiet()
    _design(res, tier)

    from harness import frameworks_util as fu

    per = 6 if tier == "quick" else 40
    jobs = []
    for model in fu.MODELS:
        for scale in SCALES:
            for _ in range(per):
                jobs.append(make_job(rng, model, scale, "plain", len(jobs)))
        for fam in FAMILIES[1:]:
            for _ in range(2 if tier == "quick" else 8):
                jobs.append(make_job(rng, model, (SCALES_ONE if fam == "videos_share_frame_numbers" else rng.choice(SCALES)), fam, len(jobs)))
    recs = []
    for job in jobs:
        recs += run_job(job, len(recs))
    samples = [r for r in recs if r["kind"] == "sample"]
    covered = {(jobs[r["jid"]]["model"], jobs[r["jid"]]["cfg"]["sn"], jobs[r["jid"]]["cfg"]["sd"]) for r in samples}
    if len(covered) != len(fu.MODELS) * len(SCALES):
        raise TLCError("driver did not cover every (model, scale): %s" % sorted(covered))
    rej, byid = _judge_traces(res, recs, "%d configurations (%d label sets x 3 frameworks), %d samples; roundtrip of chunks: %s" % (
        len(jobs), len(jobs), len(samples), fu.chunk_roundtrip()[0]))
    for cid, clause in rej:
        _violation(res, byid[cid], clause, jobs)

    # DataPipe blocks
    nb = 40 if tier == "quick" else 400
    cases = []
    for b in BLOCKS:
        for _ in range(nb):
            cases.append(_block_case(rng.randrange(1 << 30), b, len(cases)))
    jb = judge("Judge_C18", cases, per_shard_min=200)
    res.add_judge("Judge_C18", jb, "%d seeded random examples per DataPipe block (%d blocks)" % (nb, len(BLOCKS)))
    bnotes, brej = _notes(jb)
    for k, v in bnotes.items():
        res.clause(k, v)
    res.clause("block_case_second_in_stream_after_warm_up", sum(c["warm"] for c in cases))
    for b in BLOCKS:
        if b != "SizeMatcher" and bnotes.get("block_judged_" + b, 0) != nb:
            raise TLCError("block %s: not every case was judged as demanded" % b)
    for cid, clause in brej:
        c = cases[cid]
        res.violation(dict(where="datapipe_block", block=c["block"], clause=clause), clause, dict(block_case=c, seed=seed),
                      "block=%s params=%s nb=%d nf=%d rb=%r rf=%r keys=%s eq=%s diff/65536=%s" % (
                          c["block"], c["params"], c["nb"], c["nf"], c["rb"], c["rf"], c["keys"], c["eq"], c["diff"]))

    res.coverage["rejected_total"] = j_total = len(rej) + len(brej)
    res.coverage["rejected_counts_by_tlc"] = dict(frameworks=res.coverage["tlc_runs"][-2]["rejected"], blocks=jb["rejected_n"],
                                                  listed=j_total)      # TLC lists at most 25 / 12 examples per clause and shard

    def nontrivial(r):
        j = jobs[r["jid"]]
        c = j["cfg"]
        fr = _frame_of(j, r["key"][0], r["key"][1])
        return c["sn"] != c["sd"] or list(fr["hw"]) != list(c["max_hw"]) or j["model"] == "centered_instance"

    res.coverage.update(
        distinct_nontrivial=len({json.dumps([r["jid"], r["key"]]) for r in samples if nontrivial(r)}),
        exhaustive=False,
        rule="seeded random label sets (1-2 videos of sizes 17..64, 1-2 frames each, 1-3 animals, 2-4 nodes on the 1/4 px lattice, "
             "missing nodes, 1 or 3 channels, uint8 or float32) x model type x scale {1/2, 3/4, 1, 3/2} (every pair covered, checked) x "
             "max_hw {max of videos, 64x64, 80x96, 24x40} x max_stride {1, 8, 16, 32} x output stride x sigma x anchor x crop size x "
             "is_rgb; plus label sets with a stray empty instance and with a frame of only empty instances; non-trivial = a sample whose "
             "configuration resizes (scale != 1 or frame size != max_hw) or crops; DataPipe blocks: seeded random examples; "
             "design grid exhaustive in TLC")
    for r in (samples[0], samples[len(samples) // 2], samples[-1]):
        j = jobs[r["jid"]]
        res.sample(dict(model=j["model"], scale="%d/%d" % (j["cfg"]["sn"], j["cfg"]["sd"]), sample=r["key"],
                        image_hw=[(o["ih"], o["iw"]) for o in r["obs"]], eq=r["eq"], max_diff_65536=r["diff"]))
    res.assumptions += [
        "ChunkStream: litdata.StreamingDataset.__init__/__getitem__ are substituted; the chunk dicts go through %s in memory "
        "(litdata's optimize() workers and binary chunk files are not exercised); the list of inputs is the one "
        "training/get_bin_files.py builds: [(lf, videos.index(lf.video)) for lf in labels]" % fu.chunk_roundtrip()[0],
        "augmentation off (the frameworks draw random augmentations independently; C04 covers augmentation geometry)",
        "samples are matched across frameworks by (video_idx, frame_idx, occurrence), not by position",
        "image tolerance 1/255 + 1e-6 (ToPILImage truncates to 8 bits), target tolerance 1e-4, keypoints 2 quanta of 1/64 px; "
        "num_instances / orig_size / instance_bbox metadata and the rank of the keypoint tensor are recorded, not judged",
        "centered-instance at scale != 1 is outside the property: differences there are counted as notes (silent_*)",
    ]
    return res


def replay(rp, seed):
    res = Result("C18")
    _quiet()
    case = rp["case"]
    if "block_case" in case:
        c = _block_case(case["block_case"]["cseed"], case["block_case"]["block"], 0)      # the real code again, same example
        jb = judge("Judge_C18", [c], shards=1)
        res.add_judge("Judge_C18", jb)
        for cid, clause in _notes(jb)[1]:
            res.violation(rp["key"], clause, dict(block_case=c))
        return res
    job = dict(case["job"], jid=0)
    recs = run_job(job, 0)
    rej, byid = _judge_traces(res, recs, "replay")
    for cid, clause in rej:
        _violation(res, byid[cid], clause, {0: job})
    return res
