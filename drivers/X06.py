"""X06 (extension beyond the 20 listed properties): the control loop around training does what the configuration says.

System behaviour specified in spec/TrainControl.tla: max_epochs, early stopping (min_delta, patience), best.ckpt /
last.ckpt, the step and the reduce-on-plateau learning-rate schedules - as ModelTrainer.train() and
configure_optimizers() wire them into the run.

design check : MC_TrainControl - every configuration of small domains x every sequence of validation losses: Ends,
               BestIsEarliestMinimum, LastFollowsSaves, StopIsJustified, NotLate, RateMonotone, RateFloor, StepSchedule,
               NoSchedule, ReductionIsJustified, ReductionsApart; the counter-model "early stopping given the
               scheduler's patience" must violate NotLate
code -> spec  : real ModelTrainer.train() runs (all four model types; configurations written as YAML-style dicts or made
               by the builders) whose validation losses are scripted by the harness - the environment of the loop; the
               learning rate each epoch's training step really ran with (read from the real optimiser), the
               number of epochs run and the epochs stored in best.ckpt / last.ckpt are validated by Trace_TrainControl:
               the run must end exactly when the specification ends
"""
import json
import os
import random
import shutil
import subprocess
import sys
import tempfile

from harness.evidence import Result
from harness.tlc import check_model, judge, TLCError

ROOT = os.path.dirname(os.path.dirname(os.path.abspath(__file__)))
MC_CFG = """CONSTANTS MaxEpochs = %d
 Losses = %s
%s
SPECIFICATION Spec
%s
CHECK_DEADLOCK FALSE
"""
INV_NAMES = ("TypeOK", "Ends", "BestIsEarliestMinimum", "LastFollowsSaves", "StopIsJustified", "NotLate", "RateMonotone", "RateFloor",
             "StepSchedule", "NoSchedule", "ReductionIsJustified", "ReductionsApart")
INVS = "\n".join("INVARIANT " + i for i in INV_NAMES)
TRACE_CFG = "INIT TInit\nNEXT TStep\nCONSTRAINT Check\nPOSTCONDITION Report\nCHECK_DEADLOCK FALSE\n"
MODELS = ("centroid", "single_instance", "centered_instance", "bottomup")


def random_cfg(rng):
    sched = rng.choice(["none", "step", "plateau", "plateau"])
    c = dict(max_epochs=rng.randint(2, 9), es=rng.random() < 0.65, md=rng.choice([0, 0, 1, 2]), pat=rng.randint(1, 3),
             sched=sched, step=1, mode="abs", thr=0, cool=0, rpat=0, K=0, save_last=rng.random() < 0.5)
    if sched == "step":
        c["step"] = rng.randint(1, 3)
    elif sched == "plateau":
        c.update(mode=rng.choice(["abs", "rel"]), thr=rng.choice([0, 1, 2]), cool=rng.randint(0, 2), rpat=rng.randint(0, 2), K=rng.randint(1, 4))
    return c


def random_losses(rng, n):
    style = rng.choice(["random", "descending", "plateau", "late_drop", "bumpy"])
    if style == "random":
        return [rng.randint(0, 12) for _ in range(n)]
    if style == "descending":
        v, out = rng.randint(8, 16), []
        for _ in range(n):
            out.append(v)
            v = max(0, v - rng.choice([0, 1, 1, 2]))
        return out
    if style == "plateau":
        lvl = rng.randint(2, 8)
        return [lvl + (rng.choice([0, 0, 0, 1]) if i else 4) for i in range(n)]
    if style == "late_drop":
        lvl = rng.randint(4, 10)
        at = rng.randint(1, max(1, n - 1))
        return [lvl if i < at else max(0, lvl - rng.randint(1, 3)) for i in range(n)]
    v, out = rng.randint(4, 10), []
    for _ in range(n):
        v = max(0, v + rng.choice([-2, -1, 0, 1, 1]))
        out.append(v)
    return out


def symbolic(res, length):
    """Apalache: the same actions and invariants, symbolically, over larger ranges than TLC enumerates (losses 0..16, max_epochs
    <= 8, min_delta 0..3, patience 1..3, step 1..3, thresholds 0..3, cooldown 0..2, scheduler patience 0..2, min_lr lr0/2..lr0/16),
    runs of up to `length` epochs; two probes must be violated (early stops and rate reductions are reachable)."""
    from concurrent.futures import ThreadPoolExecutor
    from harness.tlc import SPEC_DIR

    src = open(os.path.join(SPEC_DIR, "TrainControl.tla")).read()
    head = src[:src.index("=============================================================================")]
    head = head.replace("MODULE TrainControl ", "MODULE TrainControlApa ").replace("EXTENDS Integers, Sequences, FiniteSets, TLC", "EXTENDS Integers, Sequences, FiniteSets, Apalache")
    a, b = head.index("VARIABLES cfg,"), head.index("vars == ")
    typed = [("cfg", "{ max_epochs: Int, es: Bool, md: Int, pat: Int, sched: Str, step: Int, mode: Str, thr: Int, cool: Int, rpat: Int, K: Int, save_last: Bool }"),
             ("hist", "Seq(Int)"), ("lrs", "Seq(Int)"), ("stopped", "Bool"), ("esBest", "Int"), ("wait", "Int"), ("k", "Int"), ("rBest", "Int"),
             ("bad", "Int"), ("cooldown", "Int"), ("ckBest", "Int"), ("ckLast", "Int"), ("reds", "Set(Int)")]
    head = head[:a] + "VARIABLES\n" + ",\n".join("  \\* @type: %s;\n  %s" % (t, v) for v, t in typed) + "\n" + head[b:]
    head = head.replace("Lowest(h) == CHOOSE", "\\* @type: (Seq(Int)) => Int;\nLowest(h) == CHOOSE")
    tmp = tempfile.mkdtemp(prefix="verif_apa_")
    try:
        with open(os.path.join(tmp, "TrainControlApa.tla"), "w") as f:
            f.write(head + open(os.path.join(SPEC_DIR, "TrainControlApa.tla.in")).read())
        obligations = [("all invariants, runs of up to %d epochs" % length, "ApaInv", length, "NoError"),
                       ("probe: early stops are reachable", "ProbeNeverStops", 3, "Error"), ("probe: rate reductions are reachable", "ProbeNeverReduces", 3, "Error")]

        def one(k_ob):
            k, (name, inv, n, want) = k_ob
            cmd = ["apalache-mc", "check", "--init=ApaInit", "--next=ApaNext", "--inv=" + inv, "--length=%d" % n, "--out-dir=" + os.path.join(tmp, "out%d" % k), "TrainControlApa.tla"]
            p = subprocess.run(cmd, cwd=tmp, stdout=subprocess.PIPE, stderr=subprocess.STDOUT, text=True, timeout=3000)
            got = "NoError" if "The outcome is: NoError" in p.stdout else ("Error" if "The outcome is: Error" in p.stdout else "?")
            return name, want, got, p.stdout[-600:]

        with ThreadPoolExecutor(max_workers=3) as ex:
            outs = list(ex.map(one, list(enumerate(obligations))))
        bad = [(n, w, g, o) for n, w, g, o in outs if w != g]
        if bad:
            raise TLCError("Apalache obligation '%s': expected %s, got %s\n%s" % bad[0])
        res.coverage["symbolic_check"] = dict(tool="apalache-mc 0.58", obligations=[o[0] for o in outs], discharged=len(outs))
    finally:
        shutil.rmtree(tmp, ignore_errors=True)


def run_jobs(jobs, repo, workers=12, timeout=1500):
    from concurrent.futures import ThreadPoolExecutor

    base = tempfile.mkdtemp(prefix="verif_x06_")
    try:
        shards = [jobs[i::workers] for i in range(workers) if jobs[i::workers]]

        def one(k_shard):
            k, shard = k_shard
            d = os.path.join(base, "w%d" % k)
            os.makedirs(d)
            jf, of = os.path.join(d, "jobs.json"), os.path.join(d, "obs.json")
            with open(jf, "w") as f:
                json.dump(dict(jobs=shard, repo=repo, work=d), f)
            env = dict(os.environ, VERIF_REPO=repo, WANDB_MODE="offline", VERIF_TORCH_THREADS="1", PYTHONHASHSEED="0", HOME=d)
            try:
                p = subprocess.run([sys.executable, os.path.join(ROOT, "harness", "traincontrol_worker.py"), jf, of], env=env,
                                   stdout=subprocess.PIPE, stderr=subprocess.STDOUT, text=True, timeout=timeout, cwd=d)
            except subprocess.TimeoutExpired:
                raise TLCError("training-control worker timed out")
            if not os.path.exists(of):
                raise TLCError("training-control worker died: " + p.stdout[-1500:])
            with open(of) as f:
                return json.load(f)

        with ThreadPoolExecutor(max_workers=workers) as ex:
            outs = list(ex.map(one, list(enumerate(shards))))
        byid = {o["id"]: o for out in outs for o in out}
        return [byid[j["id"]] for j in jobs]
    finally:
        shutil.rmtree(base, ignore_errors=True)


def run(tier, seed, only=None):
    from harness import shim

    res = Result("X06")
    rng = random.Random(seed)
    quick = tier == "quick"
    if only is None:
        dims = (5, "{0, 1, 2}") if quick else (7, "{0, 1, 2, 3}")
        r = check_model("MC_TrainControl", MC_CFG % (dims + ("", INVS)), timeout=1800, workers=12, require_actions=("Epoch",))
        res.add_mc("MC_TrainControl max_epochs<=%d losses %s" % dims, r, "all configurations x all loss sequences; " + ", ".join(INV_NAMES))
        if r.violation:
            raise TLCError("design check failed: %s" % (r.violation,))
        r2 = check_model("MC_TrainControl", MC_CFG % (4, "{0, 1, 2}", " EsPatienceWired <- SchedulerPatience", "INVARIANT NotLate"), timeout=600,
                         expect_violation=("invariant", "NotLate"))
        res.add_mc("MC_TrainControl counter-model (early stopping given the scheduler's patience)", r2, "must violate NotLate (expected)")
        symbolic(res, 3 if quick else 5)
        jobs = []
        for n in range(160 if quick else 2400):
            c = random_cfg(rng)
            jobs.append(dict(id=n, cfg=c, losses=random_losses(rng, c["max_epochs"]), model=MODELS[n % 4], structured=(n % 3 == 1)))
    else:
        jobs = [dict(j, id=n) for n, j in enumerate(only)]
    obs = run_jobs(jobs, shim.REPO, workers=(12 if len(jobs) >= 12 else max(1, len(jobs))))
    traces = [dict(id=j["id"], cfg=j["cfg"], ep=o["ep"], fin=o["fin"]) for j, o in zip(jobs, obs)]
    j = judge("Trace_TrainControl", traces, cfg_text=TRACE_CFG, per_shard_min=100, timeout=900)
    res.add_judge("Trace_TrainControl", j, "%d real training runs, %d epochs" % (len(traces), sum(len(t["ep"]) for t in traces)))
    for cid, clause in j["rejected"]:
        jb, o = jobs[int(cid)], obs[int(cid)]
        parts = clause.split("/")
        key = dict(where="ModelTrainer.train/configure_optimizers", kind=parts[0], detail=(parts[1] if len(parts) > 1 else ""))
        if parts[0] == "raised":
            key["error"] = o["fin"]["raised"].split(":")[0]
        res.violation(key, clause, dict(cfg=jb["cfg"], losses=jb["losses"], model=jb["model"], structured=jb["structured"]),
                      "model=%s structured=%s cfg=%s losses=%s epochs=%s fin=%s %s" % (jb["model"], jb["structured"], jb["cfg"], jb["losses"], o["ep"], o["fin"], o.get("tb", "")[-300:]))
    if j["rejected_n"] and not j["rejected"]:
        raise TLCError("rejections without ids")
    res.clause("runs_stopped_early", sum(1 for jb, o in zip(jobs, obs) if 0 <= o["ran"] < jb["cfg"]["max_epochs"]))
    res.clause("runs_to_max_epochs", sum(1 for jb, o in zip(jobs, obs) if o["ran"] == jb["cfg"]["max_epochs"]))
    res.clause("runs_with_rate_reduction", sum(1 for o in obs if any(e["k"] > 0 for e in o["ep"])))
    res.clause("runs_reaching_min_lr", sum(1 for jb, o in zip(jobs, obs) if jb["cfg"]["sched"] == "plateau" and any(e["k"] == jb["cfg"]["K"] for e in o["ep"])))
    for s in ("none", "step", "plateau"):
        res.clause("runs_schedule_" + s, sum(1 for jb in jobs if jb["cfg"]["sched"] == s))
    res.clause("runs_best_checkpoint_not_last_epoch", sum(1 for o in obs if 0 <= o["fin"]["best"] < o["ran"] - 1))
    res.clause("runs_structured", sum(1 for jb in jobs if jb["structured"]))
    res.clause("epochs_run", sum(len(o["ep"]) for o in obs))
    if obs:
        res.sample(dict(job=jobs[0], observed=obs[0]))
        res.sample(dict(job=jobs[-1], observed=obs[-1]))
    res.coverage.update(
        evaluations=len(traces), exhaustive=False,
        distinct_nontrivial=len({json.dumps([jb["cfg"], jb["losses"]], sort_keys=True) for jb, o in zip(jobs, obs)
                                 if o["ran"] < jb["cfg"]["max_epochs"] or any(e["k"] > 0 for e in o["ep"])}),
        rule="seeded random configurations (max_epochs 2..9, early stopping on/off, min_delta 0..1/2, patience 1..3, schedule none / step (size 1..3) / "
             "plateau (abs or rel threshold 0..1/2, cooldown 0..2, patience 0..2, min_lr lr0/2..lr0/16), save_last on/off) x scripted validation losses "
             "(random, descending, plateau, late drop, bumpy) x 4 model types x dict / builder-made configurations; non-trivial = the run stopped early or "
             "the rate was reduced; distinct by (configuration, losses).  Excluded: save_top_k other than 1, AdamW, resume_ckpt_path, profilers, wandb.")
    res.assumptions += ["the validation loss is scripted by wrapping the module's log() (value of 'val_loss' replaced per epoch); callbacks, scheduler, optimiser and trainer are real",
                        "losses / min_delta / thresholds are multiples of 1/4 and gamma = factor = 1/2, so every comparison and every rate is exact in floating point",
                        "1 training step and 1 validation batch per epoch on tests/assets/minimal_instance.pkg.slp, CPU"]
    return res


def replay(rp, seed):
    c = rp["case"]
    return run("quick", seed, only=[dict(cfg=c["cfg"], losses=c["losses"], model=c["model"], structured=c["structured"])])
