"""X05 (extension beyond the 20 listed properties): where the numbers in a network come from.

System behaviour specified in spec/Weights.tla: construction of the Lightning modules (init_weights,
pretrained_backbone_weights, pretrained_head_weights), Lightning's checkpoint writer with the module's
on_save_checkpoint, and the predictors' from_trained_models (best.ckpt, backbone_ckpt_path, head_ckpt_path).

design check : MC_Weights - every interleaving of Construct / Update / Save / InferLoad over two files up to 3 births and
               7 calls: SlotsKeepTheirKind, OverrideRules, ConstructSeparates, SaveLoadRoundTrip, FilesOnlyChangeBySave;
               the counter-model "head checkpoint loaded without filtering its keys" must violate ConstructSeparates;
               Apalache discharges an inductive invariant (SlotsKeepTheirKind, NoUnbornAtom) for any number of calls
spec -> code  : an edge cover of TLC's dumped state graph is replayed call by call on the REAL classes (module
               constructors, Trainer.save_checkpoint, Predictor.from_model_paths) for centred-instance, centroid and
               bottom-up models
code -> spec  : seeded random call sequences over four files; every recorded trace (replayed paths included) is
               validated by Trace_Weights: per parameter group (encoder, decoder, heads) the identity of the numbers
               the module holds after each call, and whether its biases are zero
"""
import copy
import hashlib
import os
import random
import shutil
import tempfile

from harness.evidence import Result
from harness.tlc import check_model, judge, TLCError

MC_CFG = """CONSTANTS Files = {"f1", "f2"}
 HeadWhole = %s
 MaxBirths = %d
 MaxDepth = %d
SPECIFICATION Spec
CONSTRAINT Bound
%s
CHECK_DEADLOCK FALSE
"""
PROPS = "\n".join(["INVARIANT " + i for i in ("TypeOK", "SlotsKeepTheirKind", "OverrideRules")] +
                  ["PROPERTY " + p for p in ("ConstructSeparates", "SaveLoadRoundTrip", "FilesOnlyChangeBySave")])
TRACE_CFG = ('CONSTANTS Files = {"f1", "f2", "f3", "f4"}\n HeadWhole = FALSE\n'
             "INIT TInit\nNEXT TStep\nCONSTRAINT Check\nPOSTCONDITION Report\nCHECK_DEADLOCK FALSE\n")
KINDS = {
    "centered": ("tests/assets/minimal_instance", "centered_instance", "TopDownCenteredInstanceModel", "confmap_model"),
    "centroid": ("tests/assets/minimal_instance_centroid", "centroid", "CentroidModel", "centroid_model"),
    "bottomup": ("tests/assets/minimal_instance_bottomup", "bottomup", "BottomUpModel", "bottomup_model"),
}
GROUPS = ("enc", "dec", "head")
NONE = "none"


def group_of(key):
    if ".backbone.enc" in key:
        return "enc"
    if ".backbone.dec" in key:
        return "dec"
    if ".head_layers" in key:
        return "head"
    return None


class World:
    """The real objects behind the four spec calls, for one model kind."""

    def __init__(self, repo, kind, tmp):
        from omegaconf import OmegaConf
        from sleap_nn.inference.utils import get_skeleton_from_config

        asset, self.model_type, self.cls, self.attr = KINDS[kind]
        self.kind, self.tmp = kind, tmp
        self.cfg = OmegaConf.load(os.path.join(repo, asset, "training_config.yaml"))
        self.skeletons = get_skeleton_from_config(self.cfg.data_config.skeletons)
        self.backbone_type = [k for k, v in self.cfg.model_config.backbone_config.items() if v is not None][0]
        self.live = None
        self.seen = {g: [] for g in GROUPS}      # per group: list of (weight-tensor digests) in order of first appearance
        self.ndir = 0

    def path(self, f):
        return None if f == NONE else os.path.join(self.tmp, "%s_%s.ckpt" % (self.kind, f))

    # ---- the four calls ----
    def construct(self, init, pb, ph):
        from sleap_nn.training import lightning_modules as lm

        cfg = copy.deepcopy(self.cfg)
        cfg.model_config.init_weights = init
        cfg.model_config.pretrained_backbone_weights = self.path(pb)
        cfg.model_config.pretrained_head_weights = self.path(ph)
        self.live = getattr(lm, self.cls)(config=cfg, skeletons=self.skeletons, model_type=self.model_type, backbone_type=self.backbone_type)

    def update(self):
        # environment action: any change of the parameters (stands for optimiser steps); every tensor moves
        import torch

        with torch.no_grad():
            for p in self.live.parameters():
                p.add_(torch.randn_like(p) * 0.05 + 0.01)

    def save(self, f):
        import lightning as L

        tr = L.Trainer(accelerator="cpu", logger=False, enable_checkpointing=False, enable_progress_bar=False, enable_model_summary=False)
        tr.strategy.connect(self.live)
        p = self.path(f)
        if os.path.exists(p):
            os.unlink(p)
        tr.save_checkpoint(p)

    def inferload(self, f, b, h):
        from omegaconf import OmegaConf
        from sleap_nn.inference.predictors import Predictor

        d = os.path.join(self.tmp, "%s_dir%d" % (self.kind, self.ndir))
        self.ndir += 1
        os.makedirs(d)
        try:
            os.symlink(self.path(f), os.path.join(d, "best.ckpt"))
            OmegaConf.save(self.cfg, os.path.join(d, "training_config.yaml"))
            pc = OmegaConf.create({"is_rgb": False, "crop_hw": None, "max_width": None, "max_height": None, "anchor_ind": None})
            p = Predictor.from_model_paths([d], backbone_ckpt_path=self.path(b), head_ckpt_path=self.path(h), preprocess_config=pc, batch_size=1)
            self.live = getattr(p, self.attr)
        finally:
            shutil.rmtree(d, ignore_errors=True)

    # ---- observation ----
    def observe(self):
        import torch

        per = {g: [] for g in GROUPS}
        zb = {g: True for g in GROUPS}
        for k, v in self.live.state_dict().items():
            g = group_of(k)
            if g is None or not torch.is_floating_point(v):
                continue
            # all-zero tensors (xavier-born biases) are the same in every birth: part of the identity, not of the blend test
            per[g].append((k.split(".", 1)[1] if k.startswith("model.") else k, hashlib.sha1(v.detach().cpu().numpy().tobytes()).hexdigest(), bool((v == 0).all())))
        # xavier_init_weights is documented for Conv2d and Linear layers (weight xavier-uniform, bias 0); transposed
        # convolutions keep torch's default initialisation
        for n, mod in self.live.named_modules():
            g = group_of(n)
            if g is not None and isinstance(mod, (torch.nn.Conv2d, torch.nn.Linear)) and mod.bias is not None:
                zb[g] = zb[g] and bool((mod.bias == 0).all())
        obs = {}
        for g in GROUPS:
            cur = tuple(sorted(per[g]))
            if cur in self.seen[g]:
                obs[g] = 3 * self.seen[g].index(cur) + GROUPS.index(g)
            elif any({c for c in cur if not c[2]} & set(old) for old in self.seen[g]):
                obs[g] = -1          # some tensors of an earlier content, some not
            else:
                self.seen[g].append(cur)
                obs[g] = 3 * (len(self.seen[g]) - 1) + GROUPS.index(g)
        return obs, zb

    def call(self, op):
        """Perform one spec call; returns the trace event."""
        ev = dict(op=list(op), obs={g: 0 for g in GROUPS}, zb={g: False for g in GROUPS}, raised="")
        try:
            if op[0] == "Construct":
                self.construct(op[1], op[2], op[3])
            elif op[0] == "Update":
                self.update()
            elif op[0] == "Save":
                self.save(op[1])
            elif op[0] == "InferLoad":
                self.inferload(op[1], op[2], op[3])
            else:
                raise TLCError("unknown call %r" % (op,))
            ev["obs"], ev["zb"] = self.observe()
        except TLCError:
            raise
        except Exception as e:  # a raising call is an observation (every call the spec enables must succeed)
            ev["raised"] = "%s: %s" % (type(e).__name__, " ".join(str(e).split())[:200])
        return ev


def inductive(res):
    """Unbounded safety: Apalache discharges an inductive invariant over the SAME actions (Weights.tla up to its properties
    section + spec/WeightsInd.tla.in) - any number of calls and births (3 files)."""
    import subprocess
    from concurrent.futures import ThreadPoolExecutor
    from harness.tlc import SPEC_DIR

    src = open(os.path.join(SPEC_DIR, "Weights.tla")).read()
    head = src[:src.index("-----------------------------------------------------------------------------\n(* properties *)")]
    head = head.replace("MODULE Weights ", "MODULE WeightsInd ").replace("EXTENDS Integers, Sequences, FiniteSets, TLC", "EXTENDS Integers, Sequences, FiniteSets, Apalache")
    c0, v0 = head.index("CONSTANTS Files"), head.index("None == ")
    head = head[:c0] + 'Files == {"f1", "f2", "f3"}\nHeadWhole == FALSE\n\n' + head[v0:]
    a, b = head.index("VARIABLES live"), head.index("vars == ")
    head = head[:a] + ("VARIABLES\n  \\* @type: Str -> Int;\n  live,\n  \\* @type: Str -> (Str -> Int);\n  file,\n  \\* @type: Int;\n  fresh,\n"
                       "  \\* @type: Set(Int);\n  xav,\n  \\* @type: Seq(Str);\n  op\n") + head[b:]
    tmp = tempfile.mkdtemp(prefix="verif_apa_")
    try:
        with open(os.path.join(tmp, "WeightsInd.tla"), "w") as f:
            f.write(head + open(os.path.join(SPEC_DIR, "WeightsInd.tla.in")).read())
        obligations = [("Init => IndInv", "Init", "IndInv", 0, "NoError"), ("IndInv /\\ Next => IndInv'", "IndInit", "IndInv", 1, "NoError"),
                       ("IndInv => SlotsKeepTheirKind /\\ NoUnbornAtom", "IndInit", "Safety", 0, "NoError"),
                       ("probe: states with written files admitted", "IndInit", "ProbeNoFileWritten", 0, "Error"),
                       ("probe: states with a live module admitted", "IndInit", "ProbeNoModule", 0, "Error"),
                       ("probe: a step is possible from the inductive states", "IndInit", "ProbeNoStep", 1, "Error")]

        def one(k_ob):
            k, (name, init, inv, length, want) = k_ob
            cmd = ["apalache-mc", "check", "--init=" + init, "--inv=" + inv, "--length=%d" % length, "--out-dir=" + os.path.join(tmp, "out%d" % k), "WeightsInd.tla"]
            p = subprocess.run(cmd, cwd=tmp, stdout=subprocess.PIPE, stderr=subprocess.STDOUT, text=True, timeout=1800)
            got = "NoError" if "The outcome is: NoError" in p.stdout else ("Error" if "The outcome is: Error" in p.stdout else "?")
            return name, want, got, p.stdout[-600:]

        with ThreadPoolExecutor(max_workers=3) as ex:
            outs = list(ex.map(one, list(enumerate(obligations))))
        bad = [(n, w, g, o) for n, w, g, o in outs if w != g]
        if bad:
            raise TLCError("Apalache obligation '%s': expected %s, got %s\n%s" % bad[0])
        res.coverage["inductive_invariant"] = dict(tool="apalache-mc 0.58", obligations=[o[0] for o in outs], discharged=len(outs),
                                                   note="SlotsKeepTheirKind and NoUnbornAtom for any number of Construct / Update / Save / InferLoad calls (3 files)")
    finally:
        shutil.rmtree(tmp, ignore_errors=True)


def run_ops(repo, kind, ops, tmp):
    d = tempfile.mkdtemp(prefix="w_", dir=tmp)
    try:
        w = World(repo, kind, d)
        ev = []
        for op in ops:
            e = w.call(op)
            ev.append(e)
            if e["raised"]:
                break
        return ev
    finally:
        shutil.rmtree(d, ignore_errors=True)


def free_ops(rng, files):
    """A seeded random call sequence that the spec enables (the harness tracks only which files exist)."""
    ops, written, live = [], [], False
    opt = lambda: rng.choice([NONE] + written) if written and rng.random() < 0.6 else NONE  # noqa: E731
    for _ in range(rng.randint(4, 14)):
        u = rng.random()
        if not live or u < 0.3:
            ops.append(["Construct", rng.choice(["default", "xavier"]), opt(), opt()])
            live = True
        elif u < 0.45:
            ops.append(["Update"])
        elif u < 0.7 or not written:
            f = rng.choice(files)
            ops.append(["Save", f])
            if f not in written:
                written.append(f)
        else:
            ops.append(["InferLoad", rng.choice(written), opt(), opt()])
    return ops


def key_of(clause, kind, ops):
    parts = clause.split("/")
    last = ""
    return dict(where="lightning_modules/predictors", kind=parts[0], group=(parts[1] if len(parts) > 1 else ""), model=kind)


def run(tier, seed, only=None):
    import torch
    from loguru import logger
    from harness import shim

    logger.disable("sleap_nn")
    import logging
    logging.getLogger("lightning.pytorch").setLevel(logging.ERROR)
    logging.getLogger("lightning").setLevel(logging.ERROR)
    logging.getLogger("lightning.pytorch.utilities.rank_zero").setLevel(logging.ERROR)
    logging.getLogger("lightning.fabric.utilities.rank_zero").setLevel(logging.ERROR)
    res = Result("X05")
    rng = random.Random(seed)
    torch.manual_seed(seed)
    quick = tier == "quick"
    tmp = tempfile.mkdtemp(prefix="verif_x05_")
    try:
        traces = []
        if only is None:
            dims = (3, 7) if quick else (4, 8)
            r = check_model("MC_Weights", MC_CFG % (("FALSE",) + dims + (PROPS,)), timeout=1500, workers=8,
                            require_actions=("Construct", "Update", "Save", "InferLoad"))
            res.add_mc("MC_Weights 2 files, <=%d births, <=%d calls" % dims, r, "all interleavings of Construct / Update / Save / InferLoad")
            if r.violation:
                raise TLCError("design check failed: %s" % (r.violation,))
            r2 = check_model("MC_Weights", MC_CFG % ("TRUE", 2, 5, "PROPERTY ConstructSeparates"), timeout=600, expect_violation=("action_property", "ConstructSeparates"))
            res.add_mc("MC_Weights counter-model (head checkpoint loaded without filtering its keys)", r2, "must violate ConstructSeparates (expected)")

            inductive(res)

            # spec -> code
            from harness.graph import dump_graph, edge_cover_paths
            gdims = (2, 5) if quick else (3, 6)
            gr, g = dump_graph("MC_Weights", MC_CFG % (("FALSE",) + gdims + ("",)), timeout=1500, workers=1)
            if len(g.init) != 1:
                raise TLCError("expected one initial state")
            paths, skipped = edge_cover_paths(g, g.init[0], 12, rng)
            n_edges = sum(len({(a, m) for a, m in v if m != n}) for n, v in g.succ.items())
            steps = 0
            for k, p in enumerate(paths):
                ops = [list(g.states[sid]["op"]) for _, sid in p]
                kind = list(KINDS)[k % 3]
                traces.append(dict(id=len(traces), kind=kind, ops=ops, src="spec_path", ev=run_ops(shim.REPO, kind, ops, tmp)))
                steps += len(ops)
            res.coverage.update(graph_states=len(g.states), graph_edges=n_edges, graph_edges_not_replayed=skipped, spec_paths_replayed=len(paths), spec_steps_replayed=steps)
            if skipped > n_edges // 20:
                raise TLCError("edge cover left %d of %d edges" % (skipped, n_edges))
            # code -> spec
            for k in range(150 if quick else 3000):
                kind = list(KINDS)[k % 3]
                ops = free_ops(rng, ["f1", "f2", "f3", "f4"])
                traces.append(dict(id=len(traces), kind=kind, ops=ops, src="free_run", ev=run_ops(shim.REPO, kind, ops, tmp)))
        else:
            for c in only:
                traces.append(dict(id=len(traces), kind=c["kind"], ops=c["ops"], src="replay", ev=run_ops(shim.REPO, c["kind"], c["ops"], tmp)))
    finally:
        shutil.rmtree(tmp, ignore_errors=True)
    j = judge("Trace_Weights", [dict(id=t["id"], ev=t["ev"]) for t in traces], cfg_text=TRACE_CFG, per_shard_min=100, timeout=900)
    res.add_judge("Trace_Weights", j, "%d call sequences on the real classes" % len(traces))
    for cid, clause in j["rejected"]:
        t = traces[int(cid)]
        bad = next((e for e in t["ev"] if e["raised"]), None)
        res.violation(key_of(clause, t["kind"], t["ops"]), clause, dict(kind=t["kind"], ops=t["ops"]),
                      "model=%s calls=%s%s" % (t["kind"], t["ops"], (" raised=" + bad["raised"]) if bad else ""))
    if j["rejected_n"] and not j["rejected"]:
        raise TLCError("rejections without ids")
    calls = [e for t in traces for e in t["ev"]]
    for name in ("Construct", "Update", "Save", "InferLoad"):
        res.clause("calls_" + name, sum(1 for e in calls if e["op"][0] == name))
    res.clause("constructs_with_backbone_file", sum(1 for e in calls if e["op"][0] == "Construct" and e["op"][2] != NONE))
    res.clause("constructs_with_head_file", sum(1 for e in calls if e["op"][0] == "Construct" and e["op"][3] != NONE))
    res.clause("constructs_with_both_files", sum(1 for e in calls if e["op"][0] == "Construct" and e["op"][2] != NONE and e["op"][3] != NONE))
    res.clause("inference_loads_backbone_override_only", sum(1 for e in calls if e["op"][0] == "InferLoad" and e["op"][2] != NONE and e["op"][3] == NONE))
    res.clause("inference_loads_head_override_only", sum(1 for e in calls if e["op"][0] == "InferLoad" and e["op"][2] == NONE and e["op"][3] != NONE))
    res.clause("inference_loads_both_overrides", sum(1 for e in calls if e["op"][0] == "InferLoad" and e["op"][2] != NONE and e["op"][3] != NONE))
    res.clause("xavier_initialisations", sum(1 for e in calls if e["op"][0] == "Construct" and e["op"][1] == "xavier"))
    if traces:
        res.sample(dict(kind=traces[0]["kind"], source=traces[0]["src"], events=traces[0]["ev"][:8]))
        res.sample(dict(kind=traces[-1]["kind"], source=traces[-1]["src"], events=traces[-1]["ev"][:8]))
    res.coverage.update(
        evaluations=len(traces), exhaustive=False,
        distinct_nontrivial=len({(t["kind"], str(t["ops"])) for t in traces if any(e["op"][0] == "InferLoad" or (e["op"][0] == "Construct" and (e["op"][2] != NONE or e["op"][3] != NONE)) for e in t["ev"])}),
        rule="spec->code: an edge cover of the dumped state graph (2 files) replayed on the real classes, model kinds rotated; code->spec: seeded random "
             "call sequences over 4 files; all validated by Trace_Weights.  Non-trivial = at least one load from a file; distinct by (model kind, call sequence).  "
             "Excluded: ImageNet pre_trained_weights (ConvNeXt / Swin-T, needs a download), two-model top-down requests with overrides (the same override file "
             "goes to both models, whose head shapes differ), resume_ckpt_path (Lightning's own restore).")
    res.assumptions += ["UNet models of the repository's three test checkpoints (tests/assets/minimal_instance*), CPU",
                        "identity of a group's numbers = SHA-1 of its weight tensors; Update is a harness-made change of every parameter (stands for optimiser steps)"]
    return res


def replay(rp, seed):
    return run("quick", seed, only=[dict(kind=rp["case"]["kind"], ops=rp["case"]["ops"])])
