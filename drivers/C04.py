"""C04: images and keypoints stay registered through all geometric preprocessing.

design check : MC_Geometry - the contract grid (sizes x (maxH,maxW) x scales x strides x crop sizes x anchors x
               four pipelines) in one TLC run: exact sizes, padding only bottom/right, crops centred, crop size a
               covering stride multiple; Registered on the SAFE part of the grid; counter-model run: Registered
               on the whole grid MUST be violated (the as-coded arithmetic drifts by > 1 output pixel)
spec -> code  : the configurations TLC enumerated are exported (JsonSerialize) and each is run through the real
               functional API on a coordinate-coded image; TLC checks that the fed set covers the exported grid
code -> spec  : the four Dataset classes end to end (stage functions wrapped in the custom_datasets namespace so
               that every stage boundary is an event), seeded random configurations, in-memory sio.Labels
judge        : Trace_Geometry re-uses the Geometry actions; after every stage the content map is FITTED from the
               pixels (harness/coordimage.py), projected to integers, and TLC evaluates Registered and the exact
               clauses; grayscale runs are compared with the RGB run under the same seed; Judge_C04 judges
               find_instance_crop_size by the TLA+ definition
"""
import json
import math
import os
import random
import tempfile
import time

from harness.evidence import Result
from harness.tlc import NCPU, TLCError, check_model, judge, run_tlc

# ------------------------------------------------------------------------------------------ TLC cfgs
MC_CFG = """CONSTANTS Sizes = {17, 32, 45, 64}
 Strides = %s
 CropSizes = {16, 32}
 SafeN = 5
 SafeD = 2
INIT Init
NEXT Next
INVARIANT TypeOK
INVARIANT SizeExact
INVARIANT PadBottomRight
INVARIANT CropCentred
INVARIANT CropSizeOK
INVARIANT %s
CHECK_DEADLOCK FALSE
"""
TRACE_CFG = "INIT Init\nNEXT Next\nCONSTRAINT Check\nPOSTCONDITION Report\nCHECK_DEADLOCK FALSE\n"
MC_ACTIONS = ("DoSizeMatch", "SizeMatchPad", "Resize", "PadToStride", "Centroid", "Crop", "OverCrop", "ReCrop", "AugmentInt")
STRIDES_ALL = "{1, 8, 16, 32}"

TINY_INT = dict(uniform_noise_min=0.0, uniform_noise_max=1e-5, uniform_noise_p=1.0, gaussian_noise_mean=0.0,
                gaussian_noise_std=5e-6, gaussian_noise_p=1.0, contrast_min=0.99999, contrast_max=1.00001,
                contrast_p=1.0, brightness=(0.99999, 1.00001), brightness_p=1.0)
STRONG_INT = dict(uniform_noise_min=0.0, uniform_noise_max=0.04, uniform_noise_p=1.0, gaussian_noise_mean=0.02,
                  gaussian_noise_std=0.004, gaussian_noise_p=1.0, contrast_min=0.5, contrast_max=2.0, contrast_p=1.0,
                  brightness=(0.7, 1.3), brightness_p=1.0)
THRESH_PLAIN, THRESH_NOISY = 0.99999, 0.9999
DATASETS = ("BottomUpDataset", "SingleInstanceDataset", "CentroidDataset", "CenteredInstanceDataset")


# ------------------------------------------------------------------------------------------ events
def _event(st, img, orig_hw, thresh, kp=None, cen=None, eff=0, bin_=None, bout=None, decode=True):
    from harness.coordimage import Fit, fit_content, kp_project, project

    if decode:
        f = fit_content(img, orig_hw, thresh=thresh)
    else:
        f = Fit(int(img.shape[-2]), int(img.shape[-1]), int(img.shape[-3]))
    d = project(f)
    return dict(st=st, h=d["h"], w=d["w"], c=d["c"], fit=d["fit"], M=d["M"], t=d["t"], A=d["A"], b=d["b"],
                res=d["res"], box=d["box"], nvalid=d["nvalid"],
                kp=kp_project(kp) if kp is not None else [], cen=kp_project(cen) if cen is not None else [],
                eff=int(round(float(eff) * 65536)), bin=bin_ or [], bout=bout or [])


def _gray_event(e):
    return dict(st=e["st"], h=e["h"], w=e["w"], c=e["c"], kp=e["kp"], cen=e["cen"], bin=e["bin"], bout=e["bout"])


def _coord_tensor(h, w, gray=False):
    import torch
    from harness.coordimage import coord_image
    from sleap_nn.data.normalization import convert_to_grayscale

    t = torch.from_numpy(coord_image(h, w).transpose(2, 0, 1).copy())[None]
    return convert_to_grayscale(t) if gray else t


def _kp_tensor(kp0):
    import torch

    return torch.tensor([[[x / 64.0, y / 64.0] if v == 1 else [float("nan")] * 2 for x, y, v, _i, _n in kp0]],
                        dtype=torch.float32)


def _aug_geo_params(rng):
    return dict(rotation=rng.choice([15.0, 45.0, 180.0]), scale=rng.choice([(0.9, 1.1), (0.8, 1.25), (1.0, 1.0)]),
                translate_width=rng.choice([0.0, 0.05, 0.1]), translate_height=rng.choice([0.0, 0.05, 0.1]),
                affine_p=1.0)


# ------------------------------------------------------------------------------------------ functional API
def run_functional(cfg, seed, gray=False, geo=None, intensity=None):
    """One spec configuration through the real functions; returns the event list."""
    import numpy as np
    import torch
    from kornia.geometry.transform import crop_and_resize
    from harness.coordimage import kp_bits
    from sleap_nn.data import resizing as rz
    from sleap_nn.data.augmentation import apply_geometric_augmentation, apply_intensity_augmentation
    from sleap_nn.data.instance_centroids import generate_centroids
    from sleap_nn.data.instance_cropping import generate_crops, make_centered_bboxes

    torch.manual_seed(seed)
    rng = random.Random(seed)
    h, w = cfg["h"], cfg["w"]
    orig = (h, w)
    thresh = THRESH_NOISY if "AugmentInt" in cfg["pipe"] else THRESH_PLAIN
    img = _coord_tensor(h, w, gray)
    kps = _kp_tensor(cfg["kp0"])
    cen = None
    s = cfg["sn"] / cfg["sd"]
    mh, mw = cfg["maxH"] or None, cfg["maxW"] or None
    dp = cfg["ds"] == "dp_full"
    dec = not gray
    ev = []
    for st in cfg["pipe"]:
        if st == "SizeMatch":
            img, eff = rz.apply_sizematcher(img, mh, mw)
            kps = kps * eff          # what every caller in sleap_nn does with the returned eff_scale
            ev.append(_event(st, img, orig, thresh, kps, cen, eff=eff, decode=dec))
        elif st == "SizeMatchPad":
            img = list(rz.SizeMatcher([{"image": img}], max_height=mh, max_width=mw))[0]["image"]
            ev.append(_event(st, img, orig, thresh, kps, cen, decode=dec))
        elif st == "Resize":
            if dp:
                ex = list(rz.Resizer([{"image": img, "instances": kps}], scale=s))[0]
                img, kps = ex["image"], ex["instances"]
            else:
                img, kps = rz.apply_resizer(img, kps, s)
            ev.append(_event(st, img, orig, thresh, kps, cen, decode=dec))
        elif st == "PadToStride":
            if dp:
                img = list(rz.PadToStride([{"image": img}], max_stride=cfg["m"]))[0]["image"]
            else:
                img = rz.apply_pad_to_stride(img, cfg["m"])
            ev.append(_event(st, img, orig, thresh, kps, cen, decode=dec))
        elif st == "Centroid":
            cen = generate_centroids(kps, anchor_ind=(cfg["anchor"] - 1) if cfg["anchor"] else None)
            ev.append(_event(st, img, orig, thresh, kps, cen, decode=dec))
        elif st in ("Crop", "OverCrop"):
            hw = (cfg["crH"], cfg["crW"])
            if st == "OverCrop":
                hw = tuple((np.array(hw) * np.sqrt(2)).astype(np.int32).tolist())
            out = generate_crops(img, kps[0], cen[0], hw)
            img, kps, cen = out["instance_image"], out["instance"], out["centroid"]
            ev.append(_event(st, img, orig, thresh, kps, cen, decode=dec))
        elif st == "AugmentInt":
            b0 = kp_bits(kps)
            torch.manual_seed(seed * 31 + 1)     # same draws for the RGB and the grayscale run
            img, kps = apply_intensity_augmentation(img, kps, **(intensity or TINY_INT))
            ev.append(_event(st, img, orig, thresh, kps, cen, bin_=b0, bout=kp_bits(kps),
                             decode=dec and intensity is None))
        elif st == "AugmentGeo":
            torch.manual_seed(seed * 31 + 2)
            img, kps = apply_geometric_augmentation(img, kps, **(geo or _aug_geo_params(rng)))
            ev.append(_event(st, img, orig, thresh, kps, cen, decode=dec))
        elif st == "ReCrop":
            hw = (cfg["crH"], cfg["crW"])
            bbox = torch.unsqueeze(make_centered_bboxes(cen[0], hw[0], hw[1]), 0)
            img = crop_and_resize(img, boxes=bbox, size=hw)
            point = bbox[0][0]
            kps, cen = kps - point, cen - point
            ev.append(_event(st, img, orig, thresh, kps, cen, decode=dec))
        else:
            raise TLCError("unknown stage %r" % st)
    return ev


def functional_case(job):
    cfg, seed, with_gray, cid = job
    geo = None
    if "AugmentGeo" in cfg["pipe"]:
        geo = _aug_geo_params(random.Random(seed * 7 + 1))
    ev = run_functional(cfg, seed, geo=geo)
    gev = [_gray_event(e) for e in run_functional(cfg, seed, gray=True, geo=geo)] if with_gray else []
    return dict(id=cid, kind="functional", seed=seed, geo=geo, cfg=cfg, ev=ev, gev=gev)


# ------------------------------------------------------------------------------------------ datasets
class StageRecorder:
    """Wraps the stage functions in the custom_datasets namespace; every call appends a raw record
    (cloned tensors) to the current sample's list.  apply_normalization opens a new sample."""

    NAMES = ("apply_normalization", "apply_sizematcher", "apply_resizer", "apply_pad_to_stride", "generate_centroids",
             "generate_crops", "apply_intensity_augmentation", "apply_geometric_augmentation", "crop_and_resize")

    def __init__(self):
        import sleap_nn.data.custom_datasets as cd

        self.cd = cd
        self.saved = {n: getattr(cd, n) for n in self.NAMES}
        self.fill = []          # per sample: list of raw records made inside _fill_cache
        self.cur = None
        self.seed = 0           # set by the driver before every __getitem__

    def __enter__(self):
        for n in self.NAMES:
            setattr(self.cd, n, self._wrap(n, self.saved[n]))
        return self

    def __exit__(self, *a):
        for n, f in self.saved.items():
            setattr(self.cd, n, f)

    def _wrap(self, name, fn):
        import torch
        from harness.coordimage import kp_bits

        def c(x):
            return x.detach().clone() if hasattr(x, "detach") else x

        def w(*a, **k):
            if name == "apply_normalization":
                self.cur = []
                self.fill.append(self.cur)
                return fn(*a, **k)
            if name == "apply_sizematcher":
                self.cur.append(dict(st="Read", img=c(a[0])))
                out = fn(*a, **k)
                self.cur.append(dict(st="SizeMatch", img=c(out[0]), eff=float(out[1]), args=[k.get("max_height"), k.get("max_width")]))
                return out
            if name == "apply_resizer":
                kin = c(a[1])
                out = fn(*a, **k)
                self.cur.append(dict(st="Resize", img=c(out[0]), kp=c(out[1]), kp_in=kin))
                return out
            if name == "apply_pad_to_stride":
                out = fn(*a, **k)
                self.cur.append(dict(st="PadToStride", img=c(out)))
                return out
            if name == "generate_centroids":
                out = fn(*a, **k)
                self.cur.append(dict(st="Centroid", cen=c(out), kp=c(a[0])))
                return out
            if name == "generate_crops":
                out = fn(*a, **k)
                self.cur.append(dict(st="OverCrop", img=c(out["instance_image"]), kp=c(out["instance"]), cen=c(out["centroid"]),
                                     args=[int(v) for v in a[3]]))
                return out
            if name == "apply_intensity_augmentation":
                b0 = kp_bits(a[1])
                torch.manual_seed(self.seed * 31 + 1)     # same draws for the RGB and the grayscale run
                out = fn(*a, **k)
                self.cur.append(dict(st="AugmentInt", img=c(out[0]), kp=c(out[1]), bin=b0, bout=kp_bits(out[1])))
                return out
            if name == "apply_geometric_augmentation":
                torch.manual_seed(self.seed * 31 + 2)
                out = fn(*a, **k)
                self.cur.append(dict(st="AugmentGeo", img=c(out[0]), kp=c(out[1])))
                return out
            if name == "crop_and_resize":
                out = fn(*a, **k)
                self.cur.append(dict(st="ReCrop", img=c(out)))
                return out
            raise AssertionError(name)

        return w


def _assemble(raw, sample, ds_name, orig, thresh, decode):
    """Raw records of one sample (+ the returned dict) -> one event per stage.  Pure plumbing: a keypoint
    tensor that is not an argument of a stage is taken from where it is next visible."""
    imgkey = "instance_image" if ds_name == "CenteredInstanceDataset" else "image"
    kpkey = {"CenteredInstanceDataset": "instance", "CentroidDataset": "centroids"}.get(ds_name, "instances")
    ev, img, kp, cen = [], None, None, None
    for i, r in enumerate(raw):
        st = r["st"]
        img = r.get("img", img)
        if st == "Read":
            ev.append(_event(st, img, orig, thresh, decode=decode))
            continue
        if st == "SizeMatch":
            nxt = next((x for x in raw[i + 1:] if x["st"] == "Resize"), None)
            kp = nxt["kp_in"] if nxt is not None else None
        elif st == "Centroid":
            if ds_name == "CentroidDataset":
                kp = r["cen"]
            else:
                kp, cen = r["kp"], r["cen"]
        elif st == "ReCrop":
            kp, cen = sample[kpkey], sample.get("centroid")
        else:
            kp = r.get("kp", kp)
            cen = r.get("cen", cen)
        ev.append(_event(st, img, orig, thresh, kp, cen, eff=r.get("eff", 0), bin_=r.get("bin"), bout=r.get("bout"),
                         decode=decode))
    ev.append(_event("Sample", sample[imgkey], orig, thresh, sample[kpkey],
                     sample.get("centroid") if ds_name == "CenteredInstanceDataset" else None, decode=decode))
    return ev


def _rand_instances(rng, h, w, n_inst, n_nodes):
    """Labels on the 1/4 px lattice inside the image, clear of the border by 1 px; some nodes not visible."""
    import numpy as np

    out = []
    for _ in range(n_inst):
        cx, cy = rng.uniform(2, w - 3), rng.uniform(2, h - 3)
        ext = rng.choice([3.0, 6.0, 12.0, max(h, w)])
        pts = []
        for _n in range(n_nodes):
            x = min(max(cx + rng.uniform(-ext, ext), 1.0), w - 2.0)
            y = min(max(cy + rng.uniform(-ext, ext), 1.0), h - 2.0)
            pts.append([round(x * 4) / 4.0, round(y * 4) / 4.0])
        # corners of the image are the worst case for any scale drift: put one node near the far corner sometimes
        if rng.random() < 0.35:
            pts[rng.randrange(n_nodes)] = [w - 2.0, h - 2.0]
        arr = np.array(pts, dtype="float64")
        hide = [k for k in range(n_nodes) if rng.random() < 0.2]
        if len(hide) > n_nodes - 2:
            hide = hide[: n_nodes - 2]
        for k in hide:
            arr[k] = np.nan
        out.append(arr)
    return out


def dataset_job(job):
    """One seeded dataset configuration: build labels, build the real Dataset, fetch every sample twice
    (RGB, and grayscale under the same seed when asked).  Returns a list of trace cases."""
    import numpy as np
    import torch
    from omegaconf import OmegaConf
    from harness.coordimage import coord_image
    from harness.labels_util import make_labels
    import sleap_nn.data.custom_datasets as cd

    ds_name, seed, with_gray, base_id = job
    rng = random.Random(seed)
    n_nodes = rng.choice([2, 3, 5])
    multi = ds_name in ("BottomUpDataset", "CentroidDataset", "CenteredInstanceDataset")
    sizes = [(rng.choice([17, 24, 32, 45, 64]), rng.choice([17, 24, 32, 45, 64])) for _ in range(rng.choice([1, 2]))]
    frames_spec = []
    for vid, (h, w) in enumerate(sizes):
        n_inst = rng.choice([1, 2, 3]) if multi else 1
        frames_spec.append(dict(video=vid, hw=(h, w), instances=_rand_instances(rng, h, w, n_inst, n_nodes)))
    mode = rng.choice(["none", "max", "fixed", "big"])
    max_hw = {"none": (None, None), "max": (max(s[0] for s in sizes), max(s[1] for s in sizes)),
              "fixed": (64, 64), "big": (80, 96)}[mode]
    sn, sd = rng.choice([(1, 2), (3, 4), (1, 1), (1, 1), (5, 4), (3, 2)])
    m = rng.choice([1, 8, 16, 32])
    cr = rng.choice([16, 32])
    crw = rng.choice([16, 32, 24])   # crop_hw = (cr, crw): non-square crops included
    anchor = rng.choice([0] + list(range(1, n_nodes + 1)))
    aug = rng.choice([(0, 0), (0, 1), (1, 1), (1, 0)])
    geo = _aug_geo_params(rng)
    geo["affine_p"] = rng.choice([1.0, 1.0, 0.5])
    augc = {}
    if aug[0]:
        augc["intensity"] = dict(TINY_INT)
    if aug[1]:
        augc["geometric"] = dict(geo)
    head = OmegaConf.create(dict(sigma=1.5, output_stride=2, anchor_part=(anchor - 1) if anchor else None))
    traces = []
    thresh = THRESH_NOISY if aug[0] else THRESH_PLAIN

    def build(gray):
        frames = []
        for fs in frames_spec:
            h, w = fs["hw"]
            frames.append(dict(video=fs["video"], image=coord_image(h, w), instances=[a.copy() for a in fs["instances"]]))
        labels = make_labels(frames, n_nodes=n_nodes)
        dcfg = OmegaConf.create(dict(user_instances_only=True, preprocessing=dict(is_rgb=not gray),
                                     augmentation_config=augc))
        kw = dict(labels=labels, data_config=dcfg, max_stride=m, scale=sn / sd, apply_aug=bool(augc), max_hw=max_hw)
        with StageRecorder() as rec:
            if ds_name == "BottomUpDataset":
                ds = cd.BottomUpDataset(confmap_head_config=head, pafs_head_config=head, **kw)
            elif ds_name == "SingleInstanceDataset":
                ds = cd.SingleInstanceDataset(confmap_head_config=head, **kw)
            elif ds_name == "CentroidDataset":
                ds = cd.CentroidDataset(confmap_head_config=head, **kw)
            else:
                ds = cd.CenteredInstanceDataset(crop_hw=(cr, crw), confmap_head_config=head, **kw)
            fill = rec.fill
            out = []
            # every index is read twice (a second epoch): registration must hold on EVERY read, also when an
            # earlier read of the same index went through the in-memory cache (seeded change C04_r2)
            for epoch in (0, 1):
                for idx in range(len(ds)):
                    torch.manual_seed(seed * 1009 + idx)
                    rec.seed = seed * 1009 + idx
                    rec.cur = []
                    sample = ds[idx]
                    out.append((fill[idx] + rec.cur, sample))
        return ds, out

    ds, rgb = build(False)
    gray = build(True)[1] if with_gray else None
    max_inst = ds.max_instances
    n_ds_samples = len(ds)
    for pos, (raw, sample) in enumerate(rgb):
        idx = pos % n_ds_samples
        if ds_name == "CenteredInstanceDataset":
            lf_idx, inst_idx = ds.instance_idx_list[idx]
            insts = [frames_spec[lf_idx]["instances"][inst_idx]]
        else:
            lf_idx = ds.lf_idx_list[idx]
            insts = list(frames_spec[lf_idx]["instances"])
        h, w = frames_spec[lf_idx]["hw"]
        kp0 = []
        for i, arr in enumerate(insts):
            for n, (x, y) in enumerate(arr):
                vis = 0 if (np.isnan(x) or np.isnan(y)) else 1
                kp0.append([int(round(x * 64)) if vis else 0, int(round(y * 64)) if vis else 0, vis, i + 1, n + 1])
        if ds_name in ("BottomUpDataset", "CentroidDataset") and max_inst != 1:
            for i in range(len(insts), max_inst):
                kp0 += [[0, 0, 0, i + 1, n + 1] for n in range(n_nodes)]
        cfg = dict(ds=ds_name, h=h, w=w, maxH=max_hw[0] or 0, maxW=max_hw[1] or 0, sn=sn, sd=sd, m=m, crH=cr, crW=crw,
                   anchor=anchor, inst=1, augI=aug[0], augG=aug[1],
                   track="centroids" if ds_name == "CentroidDataset" else "keypoints", kp0=kp0)
        ev = _assemble(raw, sample, ds_name, (h, w), thresh, True)
        gev = []
        if gray is not None:
            gev = [_gray_event(e) for e in _assemble(gray[pos][0], gray[pos][1], ds_name, (h, w), thresh, False)]
        traces.append(dict(id=base_id + pos, kind="dataset", seed=seed, job=[ds_name, seed, with_gray], index=pos, read=pos // n_ds_samples + 1,
                           geo=geo if aug[1] else None, cfg=cfg, ev=ev, gev=gev))
    return traces


# ------------------------------------------------------------------------------------------ crop size
def crop_size_cases(rng, n):
    import numpy as np
    from harness.labels_util import make_labels
    from sleap_nn.data.instance_cropping import find_instance_crop_size

    cases = []
    for i in range(n):
        n_nodes = rng.choice([2, 3, 5])
        frames = []
        for _f in range(rng.choice([1, 2, 3])):
            h, w = rng.choice([32, 64, 100]), rng.choice([32, 64, 100])
            frames.append(dict(image=np.zeros((h, w, 1), dtype=np.uint8),
                               instances=_rand_instances(rng, h, w, rng.choice([1, 2, 3]), n_nodes)))
        labels = make_labels(frames, n_nodes=n_nodes)
        sn, sd = rng.choice([(1, 2), (3, 4), (1, 1), (5, 4), (3, 2)])
        pad = rng.choice([0, 0, 4, 16])
        stride = rng.choice([1, 2, 8, 16, 32])
        mc = rng.choice([0, 0, 0, 20, 48, 64, 100])
        ext = 0
        for f in frames:
            for a in f["instances"]:
                ext = max(ext, int(round((np.nanmax(a[:, 0]) - np.nanmin(a[:, 0])) * 64)), int(round((np.nanmax(a[:, 1]) - np.nanmin(a[:, 1])) * 64)))
        rec = dict(id=i, extent64=(ext * sn) // sd if (ext * sn) % sd == 0 else -1, padding=pad, stride=stride, minCrop=mc,
                   scale=[sn, sd], got=-1, raised="")
        if rec["extent64"] < 0:
            raise TLCError("crop-size generator left the lattice")
        try:
            rec["got"] = int(find_instance_crop_size(labels, padding=pad, maximum_stride=stride, input_scaling=sn / sd,
                                                     min_crop_size=mc or None))
        except Exception as e:  # noqa: BLE001 - totality is judged by TLC
            rec["raised"] = "%s: %s" % (type(e).__name__, e)
        cases.append(rec)
    return cases


# ------------------------------------------------------------------------------------------ running
def _warm():
    """Import everything the workers need BEFORE forking (each worker would otherwise pay the imports)."""
    import kornia  # noqa: F401
    import sleap_nn.data.custom_datasets  # noqa: F401
    import harness.labels_util  # noqa: F401

    cfg = dict(ds="fn_int", h=8, w=8, maxH=0, maxW=0, sn=1, sd=1, m=1, crH=16, crW=16, anchor=0, inst=1, augI=1, augG=0,
               track="keypoints", kp0=[[64, 64, 1, 1, 1]], pipe=["AugmentInt"])
    run_functional(cfg, 0)


def _pool_map(fn, jobs, procs):
    if procs <= 1 or len(jobs) < 8:
        return [fn(j) for j in jobs]
    import multiprocessing as mp

    _warm()

    ctx = mp.get_context("fork")
    with ctx.Pool(procs) as pool:
        return pool.map(fn, jobs, chunksize=max(1, len(jobs) // (procs * 8)))


def _export_grid(strides):
    """The configurations TLC enumerates for MC_Geometry, as Python dicts (JsonSerialize)."""
    tmp = tempfile.mkdtemp(prefix="verif_c04_")
    try:
        out = os.path.join(tmp, "grid.json")
        cfg = "CONSTANTS Sizes = {17, 32, 45, 64}\n Strides = %s\n CropSizes = {16, 32}\n SafeN = 5\n SafeD = 2\nINIT XInit\nNEXT XNext\nCHECK_DEADLOCK FALSE\n" % strides
        r = run_tlc("MC_GeometryGrid", cfg, workers=1, env={"C04_MODE": "export", "C04_FILE": out}, timeout=600)
        if r.error or r.violation or not os.path.exists(out):
            raise TLCError("grid export failed: %s\n%s" % (r.error or r.violation, r.out[-2000:]))
        with open(out) as f:
            grid = json.load(f)
        return grid
    finally:
        import shutil

        shutil.rmtree(tmp, ignore_errors=True)


def _check_cover(fed, strides, mode):
    tmp = tempfile.mkdtemp(prefix="verif_c04_")
    try:
        fn = os.path.join(tmp, "fed.json")
        with open(fn, "w") as f:
            json.dump(fed, f, separators=(",", ":"))
        cfg = "CONSTANTS Sizes = {17, 32, 45, 64}\n Strides = %s\n CropSizes = {16, 32}\n SafeN = 5\n SafeD = 2\nINIT XInit\nNEXT XNext\nCHECK_DEADLOCK FALSE\n" % strides
        r = run_tlc("MC_GeometryGrid", cfg, workers=1, env={"C04_MODE": mode, "C04_FILE": fn}, timeout=600)
        p = r.printed("COVER")
        if r.error or r.violation or not p:
            raise TLCError("grid coverage check failed (%s): %s\n%s" % (mode, r.error or r.violation, r.out[-2000:]))
        return p[-1]
    finally:
        import shutil

        shutil.rmtree(tmp, ignore_errors=True)


def _key_of(case, clause):
    where = case["cfg"]["ds"]
    parts = clause.rsplit("_", 1)
    stage = parts[1] if len(parts) == 2 and parts[1][:1].isupper() else ""
    kind = clause[: -(len(stage) + 1)] if stage else clause
    return dict(where=where, stage=stage, kind=kind)


def _slim(case):
    c = dict(case)
    c["ev"] = [{k: v for k, v in e.items() if k not in ("bin", "bout")} for e in case["ev"]]
    c["gev"] = [{k: v for k, v in e.items() if k not in ("bin", "bout")} for e in case["gev"]]
    return c


def _judge_traces(res, cases, note):
    payload = [dict(id=c["id"], cfg=c["cfg"], ev=c["ev"], gev=c["gev"]) for c in cases]
    j = judge("Trace_Geometry", payload, cfg_text=TRACE_CFG, shards=max(1, min(6, len(payload) // 700)), timeout=1500)
    res.add_judge("Trace_Geometry", j, note)
    byid = {c["id"]: c for c in cases}
    totals = {}
    for cid, clause in j["rejected"]:
        if int(cid) < 0:      # per-clause totals of one shard
            totals[clause] = totals.get(clause, 0) - int(cid)
            continue
        c = byid[int(cid)]
        if clause.startswith("harness_") or clause.endswith("_Read"):
            if clause.endswith("_Read") and c["cfg"]["ds"].endswith("Dataset"):
                # a REAL Dataset read the frame itself: the image that entered its first stage is not the image of the labelled
                # frame its keypoints come from (e.g. another video's frame) - images and keypoints are not registered
                clause = "image_is_not_the_labelled_frame_Read"
                res.violation(_key_of(c, clause), clause, _slim(c), _detail(c, clause))
                continue
            raise TLCError("harness sanity failed (%s) for case %s: the image fed to the first stage is not the coordinate-coded image" % (clause, c["cfg"]))
        res.violation(_key_of(c, clause), clause, _slim(c), _detail(c, clause))
    if sum(totals.values()) != j["rejected_n"]:
        raise TLCError("rejection totals %s do not add up to %d" % (totals, j["rejected_n"]))
    res.coverage["rejected_by_clause"] = dict(sorted(totals.items()))
    return j


def _detail(c, clause):
    cfg = c["cfg"]
    return "%s %dx%d max=(%s,%s) scale=%d/%d m=%d crop=%d anchor=%d seed=%s" % (
        cfg["ds"], cfg["h"], cfg["w"], cfg["maxH"] or None, cfg["maxW"] or None, cfg["sn"], cfg["sd"], cfg["m"], cfg["crH"],
        cfg["anchor"], c.get("seed"))


def run(tier, seed):
    from loguru import logger

    logger.disable("sleap_nn")
    res = Result("C04")
    rng = random.Random(seed)
    quick = tier == "quick"
    procs = max(1, min(12, NCPU - 2))
    strides = "{8, 32}" if quick else STRIDES_ALL
    # ---- design model ----------------------------------------------------------------------
    r = check_model("MC_Geometry", MC_CFG % (strides, "RegisteredOnSafe"), timeout=1500, workers=4, require_actions=MC_ACTIONS)
    if "<AugmentGeo line" not in r.out:
        raise TLCError("vacuous model MC_Geometry: AugmentGeo never taken")
    grid_n = r.printed("GRID")
    res.add_mc("MC_Geometry strides=%s" % strides, r,
               "contract grid, %s configurations/safe; SizeExact, PadBottomRight, CropCentred, CropSizeOK everywhere, Registered on the safe part (exact resize ratios, magnification <= 5/2)" % (grid_n[-1] if grid_n else "?"))
    if r.violation:
        raise TLCError("Geometry design check failed: %s\n%s" % (r.violation, r.out[-1500:]))
    r2 = check_model("MC_Geometry", MC_CFG % ("{8}", "Registered"), timeout=600, workers=2, expect_violation=("invariant", "Registered"))
    res.add_mc("MC_Geometry counter-model (Registered on the whole grid)", r2,
               "must violate: keypoints * eff / * s vs pixel-centre resize to integer sizes drifts by more than one output pixel")
    # ---- spec -> code: exported grid through the functional API -----------------------------------
    grid = _export_grid(strides)
    full = [c for c in grid if c["ds"] in ("fn_full", "dp_full")]
    cropped = [c for c in grid if c["ds"] not in ("fn_full", "dp_full")]
    if quick:
        rng.shuffle(cropped)
        cropped = cropped[:1400]
    chosen = full + cropped
    jobs = [(c, seed * 1000003 + i, (i % 9 == 0), i) for i, c in enumerate(chosen)]
    t0 = time.time()
    cases = _pool_map(functional_case, jobs, procs)
    # intensity augmentation at full strength: keypoint bits and sizes only (content is not decodable afterwards)
    kp5 = [[0, 0, 1, 1, 1], [31 * 64, 0, 1, 1, 2], [0, 0, 0, 1, 3], [1000, 777, 1, 1, 4], [31 * 64, 31 * 64, 1, 1, 5]]
    for k in range(40 if quick else 400):
        cfg = dict(ds="fn_int", h=32, w=32, maxH=0, maxW=0, sn=1, sd=1, m=1, crH=16, crW=16, anchor=0, inst=1, augI=1, augG=0,
                   track="keypoints", kp0=kp5, pipe=["AugmentInt"])
        sd_ = seed * 77 + k
        cases.append(dict(id=len(cases), kind="functional", seed=sd_, geo=None, cfg=cfg, intensity="strong",
                          ev=run_functional(cfg, sd_, intensity=STRONG_INT),
                          gev=[_gray_event(e) for e in run_functional(cfg, sd_, gray=True, intensity=STRONG_INT)]))
    # geometric augmentation of whole, non-square frames (what the bottom-up / single-instance / centroid datasets do)
    for k in range(90 if quick else 900):
        h_, w_ = [(17, 64), (64, 17), (24, 96), (32, 64), (45, 45), (48, 64)][k % 6]
        cfg = dict(ds="fn_aug", h=h_, w=w_, maxH=0, maxW=0, sn=1, sd=1, m=1, crH=16, crW=16, anchor=0, inst=1, augI=0, augG=1,
                   track="keypoints", pipe=["AugmentGeo"],
                   kp0=[[64, 64, 1, 1, 1], [(w_ - 2) * 64, (h_ - 2) * 64, 1, 1, 2], [(w_ - 1) * 32, (h_ - 1) * 32, 1, 1, 3], [(w_ - 2) * 64, 64, 1, 1, 4]])
        sd_ = seed * 131 + k
        geo = dict(rotation=[180.0, 15.0, 90.0][k % 3], scale=(0.9, 1.1), translate_width=0.05, translate_height=0.05, affine_p=1.0)
        cases.append(dict(id=len(cases), kind="functional", seed=sd_, geo=geo, cfg=cfg, ev=run_functional(cfg, sd_, geo=geo), gev=[]))
    res.coverage["functional_wall_s"] = round(time.time() - t0, 1)
    n_fun = len(cases)
    cover = _check_cover([c["cfg"] for c in cases if c["cfg"]["ds"] not in ("fn_int", "fn_aug")], strides, "cover_full" if quick else "cover_all")
    res.coverage["grid_cover_check"] = cover
    # ---- code -> spec: the four Dataset classes ------------------------------------------------------
    n_jobs = 70 if quick else 900
    djobs, bid = [], 10 ** 6
    for k in range(n_jobs):
        for ds_name in DATASETS:
            djobs.append((ds_name, seed * 9176 + len(djobs), (len(djobs) % 4 == 0), bid))
            bid += 100
    t0 = time.time()
    for tr in _pool_map(dataset_job, djobs, procs):
        cases += tr
    res.coverage["dataset_wall_s"] = round(time.time() - t0, 1)
    n_ds = len(cases) - n_fun
    for i, c in enumerate(cases):
        c["id"] = i
    j = _judge_traces(res, cases, "%d functional-API cases on the TLC grid + %d Dataset samples (%d dataset configurations)" % (n_fun, n_ds, len(djobs)))
    # ---- find_instance_crop_size ---------------------------------------------------------------------
    cc = crop_size_cases(random.Random(seed + 5), 300 if quick else 4000)
    jc = judge("Judge_C04", cc, per_shard_min=400)
    res.add_judge("Judge_C04 find_instance_crop_size", jc, "random in-memory labels on the 1/4 px lattice")
    byid = {c["id"]: c for c in cc}
    for cid, clause in jc["rejected"]:
        res.violation(dict(where="find_instance_crop_size", stage="", kind=clause), clause, byid[int(cid)], str(byid[int(cid)]))
    # ---- measured coverage ------------------------------------------------------------------------------
    nofit = sum(1 for c in cases for e in c["ev"] if e["c"] == 3 and (e["fit"] == 0 or e["res"] >= 16) and c["cfg"]["ds"] != "fn_int")
    nev = sum(len(c["ev"]) for c in cases)
    res.clause("events", nev)
    res.clause("events_with_discarded_fit(residual>=1/16px or undecodable)", nofit)
    res.clause("gray_vs_rgb_pairs", sum(1 for c in cases if c["gev"]))
    res.clause("geometric_augmentations_measured", sum(1 for c in cases for e in c["ev"] if e["st"] == "AugmentGeo" and e["fit"] == 1 and (abs(e["M"][1]) > 40 or abs(e["M"][0] - 4096) > 40)))
    res.clause("intensity_augmentations", sum(1 for c in cases for e in c["ev"] if e["st"] == "AugmentInt"))
    res.clause("crops_near_border(valid box smaller than the crop)", sum(1 for c in cases for e in c["ev"] if e["st"] in ("Crop", "OverCrop", "ReCrop") and e["nvalid"] < e["h"] * e["w"]))
    res.clause("anchor_missing_or_none(bounding-box mid point)", sum(1 for c in cases if "Centroid" in [e["st"] for e in c["ev"]] and (c["cfg"]["anchor"] == 0 or any(k[2] == 0 and k[4] == c["cfg"]["anchor"] for k in c["cfg"]["kp0"]))))
    res.clause("two_videos_of_different_size", sum(1 for c in cases if c["kind"] == "dataset" and (c["cfg"]["maxH"], c["cfg"]["maxW"]) not in ((0, 0), (c["cfg"]["h"], c["cfg"]["w"]))))
    if nofit * 5 > nev:
        raise TLCError("more than 20%% of the content fits were discarded (%d of %d): the check would be vacuous" % (nofit, nev))
    nontrivial = len({json.dumps([c["cfg"], c.get("geo"), c.get("index")], sort_keys=True) for c in cases
                      if any(e["st"] in ("SizeMatch", "Resize") and (e["h"], e["w"]) != (c["cfg"]["h"], c["cfg"]["w"]) for e in c["ev"])
                      or any(e["st"] in ("Crop", "OverCrop", "AugmentGeo") for e in c["ev"])})
    res.coverage.update(
        evaluations=len(cases) + len(cc), distinct_nontrivial=nontrivial, exhaustive=not quick,
        rule="functional: every fn_full/dp_full configuration of the TLC grid%s, each on a coordinate-coded image with the 4 corners + centre as labels (set inclusion / equality with the spec's grid checked by TLC); datasets: seeded random configurations (1-2 videos of sizes 17..64, max_hw none/max/64x64/80x96, dyadic scales, strides 1..32, crops 16/32, anchors, augmentation on/off), labels on the 1/4 px lattice at least 1 px inside the image. Non-trivial = the image size changes in SizeMatch/Resize, or a crop or geometric augmentation happens; distinct by (configuration, augmentation parameters, sample index). Excluded: exact .5 ties of round() are accepted either way; erase/mixup; np_chunks" % (" and a seeded sample of 1400 crop pipelines" if quick else " and every crop pipeline"))
    for c in (cases[3], cases[n_fun - 50], cases[n_fun + 1], cases[-1]):
        res.sample(dict(cfg={k: v for k, v in c["cfg"].items() if k not in ("kp0", "pipe")}, labels=c["cfg"]["kp0"][:3],
                        stages=[[e["st"], e["h"], e["w"], e["M"], e["t"], e["kp"][:2]] for e in c["ev"]][:6]))
    res.assumptions += [
        "the content map is measured by least squares over pixels that are pure image content (B channel = 1), excluding a rim of max(1, 1.5/scale) original pixels; fits with residual >= 1/16 px are discarded and counted",
        "Registered is judged in the max norm with tolerance 1 + 1/16 output pixel; content/keypoint conformance to the as-coded stage arithmetic within 1/4 px resp. 3/64 px",
        "intensity augmentation on decodable runs uses magnitudes <= 1e-4 at p = 1 (the keypoint path does not depend on the magnitude); full-strength intensity runs check keypoint bit-identity and sizes only",
        "kornia.core.Tensor shim (harness/shim.py); np_chunks=False (in-memory cache)",
    ]
    return res


def replay(rp, seed):
    from loguru import logger

    logger.disable("sleap_nn")
    res = Result("C04")
    c = rp["case"]
    if "extent64" in c:
        cc = [x for x in crop_size_cases(random.Random(seed + 5), 4000) if x["id"] == c["id"]][:1]
        j = judge("Judge_C04", cc, shards=1)
        for cid, clause in j["rejected"]:
            res.violation(rp["key"], clause, cc[0])
        return res
    if c["kind"] == "functional":
        if c.get("intensity") == "strong":
            case = dict(c, ev=run_functional(c["cfg"], c["seed"], intensity=STRONG_INT),
                        gev=[_gray_event(e) for e in run_functional(c["cfg"], c["seed"], gray=True, intensity=STRONG_INT)])
        elif c["cfg"]["ds"] == "fn_aug":
            case = dict(c, ev=run_functional(c["cfg"], c["seed"], geo=c["geo"]), gev=[])
        else:
            case = functional_case((c["cfg"], c["seed"], bool(c["gev"]), 0))
        cases = [case]
    else:
        trs = dataset_job((c["job"][0], c["job"][1], c["job"][2], 0))
        cases = [t for t in trs if t["index"] == c["index"]]
    for i, x in enumerate(cases):
        x["id"] = i
    payload = [dict(id=x["id"], cfg=x["cfg"], ev=x["ev"], gev=x["gev"]) for x in cases]
    j = judge("Trace_Geometry", payload, cfg_text=TRACE_CFG, shards=1)
    res.add_judge("Trace_Geometry", j)
    for cid, clause in j["rejected"]:
        if int(cid) >= 0:
            res.violation(rp["key"], clause, _slim(cases[int(cid)]), _detail(cases[int(cid)], clause))
    return res
