"""C06: multi-peak detection returns exactly the strict local maxima above threshold.

design check : MC_Peaks (NextLocal) - every map over {-1,0,1,2} on the shapes with <= 6 cells x thresholds x
               patch sizes through the rough and refine steps: peaks sound/complete/non-adjacent, refinement
               keeps the peak set, half-patch bound on non-negative patches, symmetric => zero; the bound
               WITHOUT the non-negativity premise must be violated (counter-model).  MC_PeaksPatch: the
               patch-level theorems over complete patch spaces (all 3x3 patches, all column-sum vectors).
spec -> code  : the same case space (complete for every shape up to 2x3 / 3x2, 3x3 sampled 10 % in quick and
               complete in thorough), packed into batches of varying (samples x channels), every batch at every
               threshold, is fed as float32 to find_local_peaks_rough / find_local_peaks (None, integral 3, 5);
               TLC (MC_PeaksCaseSpace) decides that the fed set IS the spec's space.
code -> spec  : seeded random maps up to 24x24 (integers, multiples of 1/32, bumps), random batch shapes,
               patch 3 / 5 / 7.
judge        : Judge_C06 evaluates LocalPeaks / Offset (exact integers / rationals) on every case.
"""
import random
from concurrent.futures import ThreadPoolExecutor

from harness import peaks_util as pu
from harness.evidence import Result
from harness.tlc import check_model, judge, TLCError

LOCAL_INV = ("LocalSound", "RefineKeepsPeaks", "LocalRefineBound", "LocalRefineSym")
MC_CFG = "CONSTANT Level = %d\nINIT Init\nNEXT %s\n%sCHECK_DEADLOCK FALSE\n"
WHERE = dict(rough="find_local_peaks_rough", none="find_local_peaks", call="find_local_peaks")
JAVA = ("-Xmx3g", "-XX:ParallelGCThreads=2", "-XX:CICompilerCount=2")


def inv(names):
    return "".join("INVARIANT %s\n" % n for n in names)


def design_models(tier):
    lvl = 1 if tier == "quick" else 2
    out = []
    r = check_model("MC_Peaks", MC_CFG % (lvl, "NextLocal", inv(LOCAL_INV)), timeout=1500,
                    require_actions=("LocalRough", "LocalRefine"))
    out.append(("MC_Peaks local Level=%d" % lvl, r, "all maps over {-1,0,1,2} on %s x thr {-2,0,1} x P {3,5}: " % (
        "1x1, 1x2, 1x3, 2x1, 3x1, 2x2, 2x3" + (", 3x2, 1x4, 4x1" if lvl == 2 else "")) + ", ".join(LOCAL_INV), None))
    r = check_model("MC_Peaks", MC_CFG % (0, "NextLocal", inv(("LocalRefineBoundAll",))), timeout=600,
                    expect_violation=("invariant", "LocalRefineBoundAll"))
    out.append(("MC_Peaks counter-model (bound without non-negativity)", r, "must violate LocalRefineBoundAll", "expected"))
    r = check_model("MC_PeaksPatch", "CONSTANT Level = %d\nINIT Init\nNEXT Next\nCHECK_DEADLOCK FALSE\n" % lvl, timeout=900)
    if not r.printed("PATCHTHEOREMS"):
        raise TLCError("MC_PeaksPatch did not report: %s" % r.out[-1500:])
    out.append(("MC_PeaksPatch Level=%d" % lvl, r, "patch theorems T1-T5 over complete patch spaces (sizes %s)" % r.printed("PATCHTHEOREMS")[-1], None))
    return out


def key_of(clause):
    pfx, _, kind = clause.partition(":")
    return dict(where=WHERE.get(pfx, "find_local_peaks"), kind=kind or pfx)


def output_classes(rec):
    n = dict(rough_peaks=len(rec["rough"]), refined_points=0, refined_nonfinite=0, border_peaks=0, refined_moved=0)
    W, H = rec["w"], rec["h"]
    for r in rec["rough"]:
        n["border_peaks"] += (r[2] in (0, (W - 1) * pu.Q) or r[3] in (0, (H - 1) * pu.Q))
    for ref in rec["ref"]:
        for r, r0 in zip(ref["rows"], rec["rough"]):
            n["refined_points"] += 1
            n["refined_nonfinite"] += r[5] != "val"
            n["refined_moved"] += (r[5] == "val" and (r[2] != r0[2] or r[3] != r0[3]))
    return n


def judge_and_record(res, obs, note):
    for k, c in enumerate(obs):
        c["id"] = k
    j = judge("Judge_C06", obs, java_opts=JAVA, timeout=2400)
    listed, totals = pu.split_verdicts(j)
    j = dict(j, rejected=listed)
    res.add_judge("Judge_C06", j, note)
    if sum(totals.values()) != j["rejected_n"] or {cl for _, cl in listed} != set(totals):
        raise TLCError("verdict bookkeeping: totals %s vs %d rejected, listed %s" % (totals, j["rejected_n"], sorted({cl for _, cl in listed})))
    res.coverage["rejected_by_clause"] = totals
    # smallest inputs first, so that the replay files written by the CLI are the minimal ones
    listed.sort(key=lambda t: (obs[t[0]]["h"] * obs[t[0]]["w"] * obs[t[0]]["s"] * obs[t[0]]["c"], t[0]))
    for cid, clause in listed:
        c = obs[cid]
        res.violation(key_of(clause), clause, c, "h=%d w=%d batch=%dx%d thr=%d/%d maps=%s rough=%s ref=%s %s" % (
            c["h"], c["w"], c["s"], c["c"], c["thr"], c["scale"], c["maps"], c["rough"], c["ref"], c["raised"]))
    return j


def run(tier, seed):
    res = Result("C06")
    rng = random.Random(seed)
    cases, fed, n_exh = pu.build_cases(tier, rng, ps=(3, 5))
    obs = pu.run_cases(pu.observe_local, cases)
    classes = {}
    for rec in obs:
        for k, v in rec.pop("_cls").items():
            classes[k] = classes.get(k, 0) + int(v)
        for k, v in output_classes(rec).items():
            classes[k] = classes.get(k, 0) + int(v)
    # design models run (as TLC subprocesses) while the cases are being judged
    with ThreadPoolExecutor(max_workers=2) as ex:
        f_mc = ex.submit(design_models, tier)
        f_cs = ex.submit(pu.case_space_check, fed)
        j = judge_and_record(res, obs, "%d exhaustive-space batches (all shapes <= 2x3/3x2 complete, 3x3 %s), %d random" % (
            n_exh, "sampled 10%" if tier == "quick" else "complete", len(obs) - n_exh))
        for name, r, note, expected in f_mc.result():
            res.add_mc(name, r, note)
            if r.violation and not expected:
                raise TLCError("design check %s failed: %s\n%s" % (name, r.violation, r.out[-2000:]))
        rc = f_cs.result()
    res.coverage["case_space_check"] = rc.printed("CASESPACE")[-1]
    for k, v in classes.items():
        res.clause(k, v)
    res.coverage.update(
        distinct_nontrivial=pu.distinct_nontrivial(obs), exhaustive=True, map_evaluations=classes.get("maps", 0), batch_calls=res.coverage.get("evaluations", 0),
        evaluations=max(classes.get("maps", 0), res.coverage.get("evaluations", 0)),
        rule="every map over {-1,0,1,2} on 1x1, 1x2, 1x3, 1x4, 2x1, 3x1, 4x1, 2x2, 2x3, 3x2 (set equality with the spec's space decided by TLC) and on 3x3 (%s), "
             "each at thresholds -2, 0, 1 in batches of varying (samples x channels); plus random (2x2)-batches of 2x2 maps and seeded random maps up to 24x24 "
             "(integers -8..64, multiples of 1/32, zero-background bumps; patch 3/5/7).  evaluations = maps evaluated (each (sample, channel) map of each call; batch_calls = number of calls); "
             "distinct_nontrivial counts distinct (shape, threshold, map) inputs with >= 2 cells and a non-constant map.  Ties and plateaus are part of the space on purpose." % (
                 "10% sample, subset decided by TLC" if tier == "quick" else "complete, 262144, decided by TLC"))
    for k in (3, n_exh - 1, len(obs) - 1):
        c = obs[k]
        res.sample(dict(h=c["h"], w=c["w"], samples=c["s"], channels=c["c"], thr=c["thr"], scale=c["scale"],
                        maps=c["maps"][:4], rough=c["rough"][:6], integral=[dict(p=r["p"], rows=r["rows"][:6]) for r in c["ref"]]))
    res.assumptions += [
        "map values are integers or multiples of 1/32 (exact in float32); |values| <= 64, far below kornia's dilation border value 1e4",
        "integral offsets are compared with the exact rational Offset up to the slack stated in Peaks.tla (TolQ: >= 3/4096 px, growing with the patch's condition number); ill-conditioned patches (condition > 4096) are exempt from conformance, not from the bound",
        "patch sizes 3, 5 on the exhaustive space, 3..7 (even sizes included, judged by the bound only) on random maps; size 1 is not exercised",
    ]
    return res


def replay(rp, seed):
    res = Result("C06")
    c = rp["case"]
    inp = dict(h=c["h"], w=c["w"], s=c["s"], c=c["c"], thr=c["thr"], scale=c["scale"], maps=c["maps"],
               ps=[r["p"] for r in c["ref"]] or [3, 5])
    rec = pu.observe_local(inp)
    rec["id"] = 0
    j = judge("Judge_C06", [rec], shards=1)
    listed, _ = pu.split_verdicts(j)
    res.add_judge("Judge_C06", dict(j, rejected=listed))
    for cid, clause in listed:
        res.violation(rp.get("key") or key_of(clause), clause, rec, "rough=%s ref=%s" % (rec["rough"], rec["ref"]))
    return res
