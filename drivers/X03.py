"""X03 (extension beyond the 20 listed properties): the training lifecycle leaves consistent artifacts at every point.

System behaviour specified in spec/Lifecycle.tla: `sleap_nn.train.run_training` (what `train()` and the CLI run) trains,
then - when a checkpoint was saved - predicts on the validation (and test) labels with the model directory it just wrote,
evaluates, and stores predictions and metrics.  A composition of TrainRun (C19), InferConfig (X02), the inference plane and
the Evaluator: a model directory written by training must be loadable by inference, and its predictions by evaluation.

design check : Lifecycle - every crash point of every configuration (model type x save_ckpt x test file): whatever is on
               disk was computed from things that are on disk too (DependenciesHold), no inference artifacts without a
               checkpoint, a finished run leaves exactly the expected artifacts, every run finishes; the counter-model
               "metrics before predictions" must violate DependenciesHold
code -> spec  : real run_training() calls in separate processes under the audit hook of C19 (every file-write boundary
               is a recorded disk state); Trace_Lifecycle validates every disk state, the final artifact set and the
               contents of the prediction and metrics files
"""
import random

from harness.evidence import Result
from harness.tlc import check_model, judge, TLCError

MC = "SPECIFICATION %s\n%s\nCHECK_DEADLOCK FALSE\n"
INVS = "INVARIANT TypeOK\nINVARIANT DependenciesHold\nINVARIANT NoInferenceWithoutCheckpoint\nINVARIANT Complete\nPROPERTY Finishes"
MODELS = ("single_instance", "centered_instance", "centroid", "bottomup")
ARTIFACTS = ("initial_config", "training_config", "ckpt_best", "pred_val", "val_metrics", "pred_test", "test_metrics")


def jobs_for(tier, rng):
    jobs = []
    for m in MODELS:
        combos = [(True, False), (True, True), (False, False)] if tier == "quick" else [(c, t) for c in (True, False) for t in (False, True)]
        for k, (ckpt, test) in enumerate(combos):
            for structured in ((k % 2 == 0,) if tier == "quick" else (False, True)):
                jobs.append(dict(model=m, fw=("torch_dataset" if (len(jobs) % 3) else "torch_dataset_np_chunks"), wandb=(len(jobs) % 4 == 1), ckpt=ckpt,
                                 structured=structured, lowmem=False, lifecycle=True, test=test, sched="none",
                                 heads=("default" if len(jobs) % 2 else "explicit"), feed=("derived" if len(jobs) % 5 == 2 else "explicit"),
                                 media=(len(jobs) % 3 == 1)))
    return jobs


def run(tier, seed, only=None):
    from harness import shim
    from harness.trainrun import run_jobs

    res = Result("X03")
    rng = random.Random(seed)
    r = check_model("Lifecycle", MC % ("Spec", INVS), timeout=900, workers=4)
    res.add_mc("Lifecycle: 16 configurations, crash at every step", r, "DependenciesHold, NoInferenceWithoutCheckpoint, Complete, Finishes")
    if r.violation:
        raise TLCError("Lifecycle violated: %s" % (r.violation,))
    rc = check_model("Lifecycle", MC % ("SpecEarly", "INVARIANT DependenciesHold"), timeout=900, workers=4, expect_violation=("invariant", "DependenciesHold"))
    res.add_mc("Lifecycle counter-model (metrics stored before the predictions)", rc, "must violate DependenciesHold (expected)")
    jobs = only if only is not None else jobs_for(tier, rng)
    obs = run_jobs(jobs, shim.REPO, seed, workers=10, timeout=1200)
    bad = [o for o in obs if o.get("machinery")]
    if bad:
        raise TLCError("lifecycle worker failed: %s" % bad[0]["machinery"][-1500:])
    traces = []
    for k, o in enumerate(obs):
        j = o["job"]
        traces.append(dict(id=k, cfg=dict(model=j["model"], ckpt=bool(j["ckpt"]), test=bool(j.get("test"))),
                           states=[dict(files=[f for f in s["files"] if f in ARTIFACTS], keyed=s["keyed"]) for s in o["states"]],
                           done=(o.get("stage") == "done"), raised=o["raised"][:200], content=o.get("content", "")))
    jd = judge("Trace_Lifecycle", traces, shards=min(8, len(traces)), timeout=600,
               cfg_text="INIT TInit\nNEXT TNext\nCONSTRAINT Check\nPOSTCONDITION Report\nCHECK_DEADLOCK FALSE\n")
    res.add_judge("Trace_Lifecycle", jd, "%d real run_training() calls, %d disk states" % (len(traces), sum(len(t["states"]) for t in traces)))
    for cid, clause in jd["rejected"]:
        o = obs[int(cid)]
        key = dict(where="run_training", kind=clause, model=o["job"]["model"])
        if clause == "raised":
            key["error"] = o["raised"].split(":")[0]
        res.violation(key, clause, dict(job=o["job"]), "%s %s | %s" % (o["job"], o["raised"], (o.get("tb") or "")[-300:].replace("\n", " / ")))
    if jd["rejected_n"] and not jd["rejected"]:
        raise TLCError("rejections without ids")
    res.clause("disk_states_checked", sum(len(t["states"]) for t in traces))
    res.clause("runs_with_checkpoint", sum(1 for t in traces if t["cfg"]["ckpt"]))
    res.clause("runs_with_test_file", sum(1 for t in traces if t["cfg"]["test"]))
    res.clause("runs_on_labels_referring_to_a_video_file", sum(1 for o in obs if o["job"].get("media")))
    res.clause("runs_finished", sum(1 for t in traces if t["done"]))
    res.sample(dict(job=obs[0]["job"], states=[s["files"] for s in traces[0]["states"]][-6:], content=traces[0]["content"]))
    res.coverage.update(evaluations=len(traces), exhaustive=(tier == "thorough"),
                        distinct_nontrivial=len({str(t["cfg"]) + str(o["job"]["structured"]) for t, o in zip(traces, obs) if t["cfg"]["ckpt"]}),
                        rule="model type x (save_ckpt, test file) x structured/plain configuration (quick: 3 of the 4 (ckpt, test) combinations, one configuration style each); "
                             "1-step CPU runs on the repository's asset, validation = test = training labels; non-trivial = a checkpoint is saved (inference and evaluation run). "
                             "Excluded: a video file as test set (documented, but run_training opens the test file with load_slp first - observation in DESIGN.md 9.6), litdata.")
    res.assumptions += ["the audit hook of C19 (every open-for-write / rename / remove under the run directory is a disk state)",
                        "content checks: predicted frames are labelled frames of the ground truth, each once; same skeleton; metrics file has its five sections, mAP / mAR in [0, 1]"]
    return res


def replay(rp, seed):
    return run("quick", seed, only=[rp["case"]["job"]])
