"""C09: tracking never drops, duplicates or double-assigns detections, never crashes.

design check : MC_Tracker9 - with ANY injective partial assignment into existing tracks and any hi/low
               flags the reply clause holds in every reachable state and a Track step is always possible
               (deadlock checking on) - both stores, windows
code -> spec  : (a) ALL presence histories (each of 3 animals absent / high-score / low-score per frame) of
               length <= 3 (sampled in quick) and (b) seeded random scenes (crossing, coincident, NaN
               keypoints, empty frames, long absences, up to 6 animals x 30 frames) on the real Tracker for all
               store x matcher x feature/score configurations; Trace_Tracker (mode C09) judges every frame
"""
import itertools
import random

import numpy as np

from harness.evidence import Result
from harness.tlc import check_model, judge, TLCError

MC9 = """CONSTANTS Animals = {1, 2}
 None = 0
 MaxFrames = %d
 Ws = {%s}
INIT Init9
NEXT Next9
INVARIANT ReplyAlwaysOK
"""
TRACE_CFG = "CONSTANTS Animals = {1, 2, 3}\n None = 0\nINIT Init\nNEXT Next\nCONSTRAINT Check\nPOSTCONDITION Report\nCHECK_DEADLOCK FALSE\n"


def presence_frames(code, rng, drift):
    """code: tuple over animals 1..3 of 0 (absent) / 1 (hi) / 2 (low)"""
    from harness.tracker_util import animal_pose

    dets = [dict(a=a, hi=(c == 1), pts=animal_pose(a, rng, drift)) for a, c in enumerate(code, 1) if c]
    rng.shuffle(dets)
    return dets


def random_scene(rng):
    """Arbitrary scene: animals on random walks that may cross / coincide; random presence; NaN keypoints."""
    from harness.tracker_util import POSE

    k = rng.randint(1, 6)
    nf = rng.randint(2, 30)
    pos = {a: np.array([rng.uniform(0, 300), rng.uniform(0, 300)]) for a in range(1, k + 1)}
    if k >= 2 and rng.random() < 0.3:
        pos[2] = pos[1].copy()  # coincident animals
    frames = []
    gap = rng.random() < 0.4
    for f in range(nf):
        dets = []
        if gap and nf // 3 <= f < nf // 3 + rng.randint(1, 9):
            frames.append(dets)
            continue
        for a in range(1, k + 1):
            pos[a] = pos[a] + np.array([rng.uniform(-25, 25), rng.uniform(-25, 25)])
            if rng.random() < 0.25:
                continue
            pts = POSE * rng.choice([0.0, 0.5, 1.0]) + pos[a]
            r = rng.random()
            if r < 0.08:
                pts = pts.copy(); pts[rng.randrange(3)] = np.nan
            elif r < 0.11:
                pts = np.full((3, 2), np.nan)
            dets.append(dict(a=a, hi=rng.random() < 0.8, pts=pts))
        rng.shuffle(dets)
        frames.append(dets)
    return frames


def classify(clause, t):
    kind = clause.split("_at_frame_")[0]
    fr = int(clause.split("_at_frame_")[1]) if "_at_frame_" in clause else 1
    f = t["frames"][min(fr, len(t["frames"])) - 1]
    key = dict(where="Tracker.track", store=t["tc"]["store"], kind=kind)
    if kind == "raised":
        key["error"] = f["err"].split(":")[0] + (":infeasible" if "infeasible" in f["err"] else "")
    return key, fr, f


def run(tier, seed):
    from harness.tracker_util import run_history, tracker_configs

    res = Result("C09")
    rng = random.Random(seed)
    r = check_model("MC_Tracker9", MC9 % (3, "2"), timeout=900, require_actions=("Step9",), workers=8)
    res.add_mc("MC_Tracker9 2 animals, 3 frames, w=2: any assignment, any hi/low flags", r, "ReplyAlwaysOK + no deadlock (Track always possible)")
    if r.violation:
        raise TLCError("C09 design check failed: %s\n%s" % (r.violation, r.out[-1500:]))
    if tier == "thorough":
        r2 = check_model("MC_Tracker9", MC9 % (4, "1, 3"), timeout=2400, workers=8)
        res.add_mc("MC_Tracker9 4 frames, w in {1,3}", r2)
        if r2.violation:
            raise TLCError("C09 design check failed: %s" % (r2.violation,))
    tcs = tracker_configs(tier)
    codes = list(itertools.product((0, 1, 2), repeat=3))
    hists = [h for n in (1, 2, 3) for h in itertools.product(codes, repeat=n)]
    if tier == "quick":
        hists = [h for h in hists if len(h) <= 2] + rng.sample([h for h in hists if len(h) == 3], 1200)
    traces = []
    for hi_, h in enumerate(hists):
        for tc in (tcs if tier == "thorough" else [tcs[hi_ % len(tcs)]]):
            w = 1 + (hi_ % 3)
            drift = {}
            frames = [presence_frames(c, rng, drift) for c in h]
            traces.append(dict(id=len(traces), tc=tc, w=w, kind="presence", hist=[list(c) for c in h], frames=run_history(tc, w, frames)))
    n_presence = len(traces)
    n_scenes = 400 if tier == "quick" else 6000
    for i in range(n_scenes):
        tc = tcs[i % len(tcs)]
        w = rng.choice([1, 2, 3, 5])
        srng = random.Random(seed * 7919 + i)
        frames = random_scene(srng)
        traces.append(dict(id=len(traces), tc=tc, w=w, kind="scene", scene_seed=seed * 7919 + i, frames=run_history(tc, w, frames)))
    # ---- whole sessions with the REAL bottom-up network (repository test checkpoint) and the repository's entry point
    # main(tracking=True) on the asset video: detections = the same run without tracking ------------------------------
    from harness import shim
    from harness.realnet import predict_range
    from loguru import logger
    logger.disable("sleap_nn")
    n_fr = 10 if tier == "quick" else 40
    n_real = 0
    try:
        plain = dict(predict_range(shim.REPO, "bottomup", 0, n_fr, 4, peak_threshold=0.1))
        for tc in (tcs[:4] if tier == "quick" else tcs):
            w = 2 + (n_real % 3)
            trk = dict(w=w, candidates="fixed_window" if tc["store"] == "fixed" else "local_queues", feat=tc["feat"], score=tc["score"], red=tc["red"], match=tc["match"])
            frames = []
            try:
                for fi, insts in predict_range(shim.REPO, "bottomup", 0, n_fr, 4, peak_threshold=0.1, tracking=trk):
                    dets = plain.get(fi, [])
                    ret = []
                    for q, s_, t_ in insts:
                        idx = next((k + 1 for k, (dq, ds, dt) in enumerate(dets) if np.array_equal(np.isnan(dq), np.isnan(q)) and np.allclose(np.nan_to_num(dq), np.nan_to_num(q), atol=1e-3)), 0)
                        ret.append([idx, t_])
                    frames.append(dict(dets=[dict(a=k + 1, hi=(ds > 0.0)) for k, (dq, ds, dt) in enumerate(dets)], ret=ret, raised=False, err=""))
            except Exception as e:
                frames.append(dict(dets=[], ret=[], raised=True, err="%s: %s" % (type(e).__name__, str(e)[:200])))
            traces.append(dict(id=len(traces), tc=tc, w=w, kind="real_session", frames=frames))
            n_real += 1
    except Exception as e:
        raise TLCError("real-network session harness failed: %s: %s" % (type(e).__name__, e))
    res.coverage["real_network_sessions"] = n_real
    j = judge("Trace_Tracker", [dict(id=t["id"], mode="C09", cfg=dict(store=t["tc"]["store"], match=t["tc"]["match"], red=t["tc"]["red"], w=t["w"]),
                                     frames=[dict(dets=f["dets"], ret=f["ret"], raised=f["raised"]) for f in t["frames"]]) for t in traces],
              cfg_text=TRACE_CFG, per_shard_min=100, timeout=1500)
    res.add_judge("Trace_Tracker (C09)", j, "%d presence histories + %d random scenes" % (n_presence, n_scenes))
    byid = {t["id"]: t for t in traces}
    for cid, clause in j["rejected"]:
        t = byid[int(cid)]
        key, fr, f = classify(clause, t)
        case = dict(tc=t["tc"], w=t["w"], kind=t["kind"], hist=t.get("hist"), scene_seed=t.get("scene_seed"), frames=t["frames"][:fr])
        res.violation(key, clause, case, "%s w=%d frame %d: dets=%s ret=%s %s" % (t["tc"], t["w"], fr, f["dets"], f["ret"], f.get("err", "")))
    if j["rejected_n"] > len(j["rejected"]):
        res.coverage["rejections_not_listed"] = j["rejected_n"] - len(j["rejected"])
    res.clause("frames_with_no_detection", sum(1 for t in traces for f in t["frames"] if not f["dets"]))
    res.clause("frames_with_low_score_detection", sum(1 for t in traces for f in t["frames"] if any(not d["hi"] for d in f["dets"])))
    res.clause("frames_total", sum(len(t["frames"]) for t in traces))
    res.coverage.update(evaluations=len(traces), exhaustive=(tier == "thorough"),
                        distinct_nontrivial=len({(str(t["tc"]), t["w"], str([(f["dets"]) for f in t["frames"]])) for t in traces if len(t["frames"]) >= 2}),
                        rule="presence histories: each of 3 animals absent/high/low per frame, all histories of length <= 3 (thorough: x every tracker configuration; quick: length <= 2 complete, 1200 of length 3, configurations rotated); scenes: seeded random walks with crossings, coincident animals, NaN keypoints, empty stretches. Non-trivial = at least 2 frames; distinct by (configuration, window, detection sequence)")
    res.sample(dict(tc=traces[n_presence - 1]["tc"], w=traces[n_presence - 1]["w"], frames=[dict(dets=f["dets"], ret=f["ret"]) for f in traces[n_presence - 1]["frames"]]))
    res.assumptions += ["FlowShiftTracker is run on a static texture only (zero optical flow); image features, max_tracks, 'weighted' reduction not covered",
                        "detections are sio.PredictedInstance objects built by the harness; identity of returned objects is by `is`"]
    return res


def replay(rp, seed):
    from harness.tracker_util import run_history

    res = Result("C09")
    c = rp["case"]
    if c["kind"] == "real_session":
        full = run("quick", seed)
        res.violations = [v for v in full.violations if v.case.get("kind") == "real_session"]
        return res
    if c["kind"] == "scene":
        frames = random_scene(random.Random(c["scene_seed"]))
    else:
        rng, drift = random.Random(seed), {}
        frames = [presence_frames(tuple(code), rng, drift) for code in c["hist"]]
    fr = run_history(c["tc"], c["w"], frames)
    cfg = dict(store=c["tc"]["store"], match=c["tc"]["match"], red=c["tc"]["red"], w=c["w"])
    j = judge("Trace_Tracker", [dict(id=0, mode="C09", cfg=cfg, frames=[dict(dets=f["dets"], ret=f["ret"], raised=f["raised"]) for f in fr])], cfg_text=TRACE_CFG, shards=1)
    for cid, clause in j["rejected"]:
        res.violation(rp["key"], clause, c)
    return res
