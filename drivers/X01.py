"""X01 (extension beyond the 20 listed properties): the training feed never starves, skips or replays a sample.

System behaviour specified in spec/EpochFeed.tla: CyclerDataLoader + _RepeatSampler as the trainer drives them
(iter() per epoch, at most len() batches per generator, reset()).

design check : MC_EpochFeed - every configuration n<=4, b<=3, steps<=3 (0 = not given), shuffle on/off, every order a
               shuffled pass may take, every interleaving of iter / next / reset; invariants BatchSizes, Balanced,
               PassPosition, InOrder; counter-model (generator re-creating the iterator) must violate Balanced
spec -> code  : an edge cover of TLC's dumped state graph (shuffle off) is replayed, command by command, on the real
               CyclerDataLoader; the delivered batch must equal the spec state's `last` after every step
code -> spec  : seeded random command sequences on larger loaders (n<=48, shuffle on/off, short epochs, abandoned
               generators, resets); the recorded trace is validated by Trace_EpochFeed
"""
import random

from harness.evidence import Result
from harness.tlc import check_model, judge, TLCError

MC_CFG = """CONSTANTS MaxN = %d
 MaxB = %d
 MaxS = %d
 MaxTotal = %d
 Restarting = %s
 Shuffles = %s
SPECIFICATION SpecR
CONSTRAINT Bound
%s
CHECK_DEADLOCK FALSE
"""
INVS = "\n".join("INVARIANT " + i for i in ("TypeOK", "BatchSizes", "Balanced", "PassPosition", "InOrder", "TrainerStepsCoverPass"))
TRACE_CFG = ("CONSTANTS MaxN = 64\n MaxB = 64\n MaxS = 64\n Shuffles = {TRUE, FALSE}\n"
             "INIT TInit\nNEXT TNext_\nCONSTRAINT Check\nPOSTCONDITION Report\nCHECK_DEADLOCK FALSE\n")


class IndexDataset:
    """sample i is the integer i: the delivered batch names the samples it holds"""

    def __init__(self, n):
        self.n = n

    def __len__(self):
        return self.n

    def __getitem__(self, i):
        return int(i)


class Feed:
    """The real loader behind the four spec commands."""

    def __init__(self, n, b, s, shuffle):
        from sleap_nn.data.custom_datasets import CyclerDataLoader

        self.dl = CyclerDataLoader(steps_per_epoch=(s or None), dataset=IndexDataset(n), batch_size=b, shuffle=bool(shuffle), num_workers=0)
        self.gen = None

    def len(self):
        return int(len(self.dl))

    def iter(self):
        self.gen = iter(self.dl)

    def next(self):
        return [int(x) for x in next(self.gen)]

    def reset(self):
        self.dl.reset()


def replay_path(g, init, path):
    """spec -> code: returns (events, mismatch or None)."""
    ev, feed, k = [], None, 0
    for step, (act, sid) in enumerate(path):
        st = g.states[sid]
        a = act.split("(")[0].strip()
        try:
            if a == "Construct":
                c = st["cfg"]
                feed = Feed(c["n"], c["b"], c["s"], c["shuffle"])
                ev.append(["new", dict(n=c["n"], b=c["b"], s=c["s"], shuffle=bool(c["shuffle"]))])
                ev.append(["len", feed.len()])
                # a generator exists only after iter(): the spec's k = 0 before the first Iter stands for "none yet"
                feed.iter()
                ev.append(["iter", 0])
            elif a in ("Iter", "IterN"):
                feed.iter()
                ev.append(["iter", 0])
            elif a == "NextBatch":
                got = feed.next()
                ev.append(["next", got])
                if got != list(st["last"]):
                    return ev, "step %d NextBatch: code delivered %s, spec state has %s" % (step, got, list(st["last"]))
            elif a == "Reset":
                feed.reset()
                ev.append(["reset", 0])
            else:
                raise TLCError("unknown action label %r" % act)
        except TLCError:
            raise
        except Exception as e:
            return ev, "step %d %s raised %s: %s" % (step, a, type(e).__name__, e)
    return ev, None


def free_run(rng, cid):
    n = rng.choice([1, 2, 3, 5, 7, 8, 12, 16, 31, 48])
    b = rng.choice([1, 2, 3, 4, 8, 16])
    plen = -(-n // b)
    s = rng.choice([0, 0, 1, 2, max(1, plen - 1), plen, plen + 1, max(1, n // b), 7])
    shuffle = rng.random() < 0.6
    ev = [["new", dict(n=n, b=b, s=s, shuffle=shuffle)]]
    raised = ""
    try:
        feed = Feed(n, b, s, shuffle)
        L = feed.len()
        ev.append(["len", L])
        feed.iter()
        ev.append(["iter", 0])
        k = 0
        for _ in range(rng.randint(3, 60)):
            u = rng.random()
            if k >= L or u < 0.08:            # epoch over (or abandoned early: sanity check, early stopping, limit_batches)
                feed.iter()
                ev.append(["iter", 0])
                k = 0
            elif u < 0.11:
                feed.reset()
                ev.append(["reset", 0])
            else:
                ev.append(["next", feed.next()])
                k += 1
    except Exception as e:
        raised = "%s: %s" % (type(e).__name__, e)
    return dict(id=cid, ev=ev, raised=raised)


def run(tier, seed):
    res = Result("X01")
    rng = random.Random(seed)
    quick = tier == "quick"
    dims = (4, 3, 3, 7) if quick else (5, 3, 4, 9)
    r = check_model("MC_EpochFeed", MC_CFG % (dims + ("FALSE", "{TRUE, FALSE}", INVS)), timeout=1500, workers=8,
                    require_actions=("Construct", "IterN", "NextBatch", "Reset"))
    res.add_mc("MC_EpochFeed n<=%d b<=%d steps<=%d total<=%d" % dims, r, "all configurations x pass orders x iter/next/reset interleavings")
    if r.violation:
        raise TLCError("design check failed: %s" % (r.violation,))
    r2 = check_model("MC_EpochFeed", MC_CFG % ((3, 2, 2, 5) + ("TRUE", "{FALSE}", "INVARIANT Balanced")), timeout=600, expect_violation=("invariant", "Balanced"))
    res.add_mc("MC_EpochFeed counter-model (epoch generator re-creates the iterator)", r2, "must violate Balanced (expected)")

    # spec -> code
    from harness.graph import dump_graph, edge_cover_paths
    gdims = (4, 3, 3, 6) if quick else (5, 3, 3, 8)
    gr, g = dump_graph("MC_EpochFeed", MC_CFG % (gdims + ("FALSE", "{FALSE}", "")), timeout=1500, workers=1)
    if len(g.init) != 1:
        raise TLCError("expected one initial state")
    paths, skipped = edge_cover_paths(g, g.init[0], 40, rng)
    n_edges = sum(len({(a, m) for a, m in v if m != n}) for n, v in g.succ.items())
    traces, steps = [], 0
    for p in paths:
        ev, bad = replay_path(g, g.init[0], p)
        steps += len(p)
        t = dict(id=len(traces), ev=ev, raised="", path=[a for a, _ in p])
        traces.append(t)
        if bad:
            res.violation(dict(where="CyclerDataLoader", kind="spec_path", clause="code_differs_from_spec_state"), "code_differs_from_spec_state",
                          dict(kind="path", events=ev), bad)
    res.coverage.update(graph_states=len(g.states), graph_edges=n_edges, graph_edges_not_replayed=skipped, spec_paths_replayed=len(paths), spec_steps_replayed=steps)
    if skipped > n_edges // 20:
        raise TLCError("edge cover left %d of %d edges" % (skipped, n_edges))

    # code -> spec
    n_free = 1500 if quick else 20000
    for _ in range(n_free):
        traces.append(free_run(rng, len(traces)))
    for t in traces:
        if t["raised"]:
            res.violation(dict(where="CyclerDataLoader", kind="free_run", clause="raised"), "raised", dict(kind="events", events=t["ev"]), t["raised"])
    j = judge("Trace_EpochFeed", [dict(id=t["id"], ev=t["ev"]) for t in traces if not t["raised"]], cfg_text=TRACE_CFG, per_shard_min=100)
    res.add_judge("Trace_EpochFeed", j, "%d replayed spec paths + %d free runs (n<=48, b<=16)" % (len(paths), n_free))
    byid = {t["id"]: t for t in traces}
    for cid, clause in j["rejected"]:
        t = byid[int(cid)]
        res.violation(dict(where="CyclerDataLoader", kind="trace", clause=clause), clause, dict(kind="events", events=t["ev"]), "events=%s" % (t["ev"][:12],))
    if j["rejected_n"] and not j["rejected"]:
        raise TLCError("rejections without ids")
    nb = sum(1 for t in traces for e in t["ev"] if e[0] == "next")
    res.clause("events_next", nb)
    res.clause("events_iter", sum(1 for t in traces for e in t["ev"] if e[0] == "iter"))
    res.clause("events_reset", sum(1 for t in traces for e in t["ev"] if e[0] == "reset"))
    res.clause("traces_with_pass_spanning_epochs", sum(1 for t in traces if t["ev"][0][1]["s"] and t["ev"][0][1]["s"] < -(-t["ev"][0][1]["n"] // t["ev"][0][1]["b"])))
    res.clause("traces_shuffled", sum(1 for t in traces if t["ev"][0][1]["shuffle"]))
    res.sample(dict(kind="free-run trace", events=traces[-1]["ev"][:10]))
    res.sample(dict(kind="replayed spec path", actions=traces[0]["path"], events=traces[0]["ev"]))
    res.coverage.update(
        evaluations=len(traces), distinct_nontrivial=len({str(t["ev"]) for t in traces if sum(1 for e in t["ev"] if e[0] == "next") >= 2}), exhaustive=False,
        rule="spec->code: an edge cover of the dumped state graph (shuffle off; n<=%d, b<=%d, steps<=%d, <=%d batches) replayed on the real loader with the delivered batch compared to the spec state; "
             "code->spec: seeded random command sequences validated by Trace_EpochFeed.  Non-trivial = at least two batches delivered; distinct by event sequence.  "
             "Excluded: num_workers > 0 (prefetching worker processes), drop_last, custom samplers." % gdims)
    res.assumptions += ["the trainer takes at most len(loader) batches from one generator (Lightning: limit_train_batches = steps_per_epoch)",
                        "num_workers = 0; sample identity = dataset index (IndexDataset)"]
    return res


def replay(rp, seed):
    res = Result("X01")
    ev = rp["case"]["events"]
    feed, out, raised = None, [], ""
    try:
        for e in ev:
            if e[0] == "new":
                c = e[1]
                feed = Feed(c["n"], c["b"], c["s"], c["shuffle"])
                out.append(e)
            elif e[0] == "len":
                out.append(["len", feed.len()])
            elif e[0] == "iter":
                feed.iter()
                out.append(e)
            elif e[0] == "reset":
                feed.reset()
                out.append(e)
            else:
                out.append(["next", feed.next()])
    except Exception as e:
        raised = "%s: %s" % (type(e).__name__, e)
        res.violation(rp["key"], "raised", rp["case"], raised)
    j = judge("Trace_EpochFeed", [dict(id=0, ev=out)], cfg_text=TRACE_CFG, shards=1)
    res.add_judge("Trace_EpochFeed", j)
    for cid, clause in j["rejected"]:
        res.violation(rp["key"], clause, dict(kind="events", events=out), clause)
    return res
