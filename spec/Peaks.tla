------------------------------- MODULE Peaks -------------------------------
(* Peak finding (sleap_nn/inference/peak_finding.py): definition layer (what a right answer is),
   an implementation-shaped state machine (rough step, refine step), and the conformance clauses
   used by Judge_C06 / Judge_C07.

   A map is a record [h, w, v]: v is the row-major sequence of the map's values as INTEGERS
   (value * scale; the harness only generates exactly representable values), so cell (x, y)
   (x = column, y = row, 0-based as in the implementation) holds v[y*w + x + 1].
   Real-valued results are exact rationals <<num, den>>; observed float coordinates cross the
   boundary as integers in quanta of 1/Q px (Q = 4096), observed values in quanta of 1/64.       *)
EXTENDS Integers, Sequences, FiniteSets, FiniteSetsExt, SequencesExt, TLC

Q == 4096
VQ == 64
Abs(x) == IF x < 0 THEN -x ELSE x

\* ------------------------------------------------------------------ maps --------------------
At(m, x, y) == m.v[y * m.w + x + 1]
InMap(m, x, y) == x >= 0 /\ x < m.w /\ y >= 0 /\ y < m.h
Cells(m) == (0..(m.w - 1)) \X (0..(m.h - 1))
Nbr8(m, c) == {d \in ((c[1] - 1)..(c[1] + 1)) \X ((c[2] - 1)..(c[2] + 1)) :
                  d # c /\ InMap(m, d[1], d[2])}
Vals(m) == {m.v[k] : k \in 1..(m.h * m.w)}
MaxVal(m) == Max(Vals(m))
MaxCells(m) == LET mx == MaxVal(m) IN {c \in Cells(m) : At(m, c[1], c[2]) = mx}

\* ---------------------------------------------------- C06: strict local maxima --------------
IsLocalPeak(m, thr, c) ==
    LET v == At(m, c[1], c[2])
    IN v > thr /\ \A d \in Nbr8(m, c) : v > At(m, d[1], d[2])
LocalPeaks(m, thr) == {c \in Cells(m) : IsLocalPeak(m, thr, c)}

\* ---------------------------------------------------- C07: global maximum -------------------
\* r = [nan |-> BOOLEAN, pt |-> cell, val |-> Int]
GlobalOK(m, thr, r) ==
    IF MaxVal(m) < thr THEN r.nan /\ r.val = 0
    ELSE ~r.nan /\ r.pt \in MaxCells(m) /\ r.val = MaxVal(m)

\* A batch is a function (sample, channel) -> map.  The batch-level right answers are defined
\* POINTWISE: the answer for (s, c) mentions b[s, c] only.  That is the independence clause.
\* (LocalRoughClause / GlobalRoughClause below evaluate exactly these pointwise definitions on a case.)
BatchLocal(b, thr) == [sc \in DOMAIN b |-> LocalPeaks(b[sc], thr)]
BatchGlobalOK(b, thr, res) == \A sc \in DOMAIN b : GlobalOK(b[sc], thr, res[sc])

\* ---------------------------------------------------- integral refinement -------------------
\* P x P patch centred on cell c, zero outside the map; offsets are the expectation of the
\* patch grid (-h..h) under the raw map values as weights.
\* (Measured: for maps with a unit dimension the implementation's crop replicates the single row /
\* column instead of zero-padding it; numerator and normaliser are then both multiplied by P and the
\* cross-axis numerator is 0 either way, so the offsets coincide with this definition.)
Half(P) == (P - 1) \div 2
Wt(m, c, d) == IF InMap(m, c[1] + d[1], c[2] + d[2]) THEN At(m, c[1] + d[1], c[2] + d[2]) ELSE 0
\* the patch as a row-major sequence of P*P weights; entry k sits at displacement <<DX(k, P), DY(k, P)>>
DX(k, P) == ((k - 1) % P) - Half(P)
DY(k, P) == ((k - 1) \div P) - Half(P)
Patch(m, c, P) == [k \in 1..(P * P) |-> Wt(m, c, <<DX(k, P), DY(k, P)>>)]
PSum(p) == FoldSeq(LAMBDA a, b : a + b, 0, p)
PNumX(p, P) == PSum([k \in 1..(P * P) |-> DX(k, P) * p[k]])
PNumY(p, P) == PSum([k \in 1..(P * P) |-> DY(k, P) * p[k]])
PDen(p) == PSum(p)
PMaxAbs(p) == Max({Abs(p[k]) : k \in DOMAIN p})
PNonNeg(p) == \A k \in DOMAIN p : p[k] >= 0
PSymX(p, P) == \A k \in 1..(P * P) : p[k] = p[((k - 1) \div P) * P + (P - 1 - ((k - 1) % P)) + 1]
PSymY(p, P) == \A k \in 1..(P * P) : p[k] = p[(P - 1 - ((k - 1) \div P)) * P + ((k - 1) % P) + 1]
NumX(m, c, P) == PNumX(Patch(m, c, P), P)
NumY(m, c, P) == PNumY(Patch(m, c, P), P)
Den(m, c, P) == PDen(Patch(m, c, P))
Offset(m, c, P) == <<<<NumX(m, c, P), Den(m, c, P)>>, <<NumY(m, c, P), Den(m, c, P)>>>>
PatchNonNeg(m, c, P) == PNonNeg(Patch(m, c, P))
PatchSymX(m, c, P) == PSymX(Patch(m, c, P), P)
PatchSymY(m, c, P) == PSymY(Patch(m, c, P), P)
\* |num/den| <= (P-1)/2, exactly
BoundOK(num, den, P) == 2 * Abs(num) <= (P - 1) * Abs(den)

\* ---------------------------------------------------- implementation-shaped layer -----------
\* One action per code step.  The design models (MC_Peaks*) check the theorems the conformance
\* clauses rely on, for every map in a small space.
VARIABLES map, thr, psize, stage, peaks, offs, gpk, goffs
pvars == <<map, thr, psize, stage, peaks, offs, gpk, goffs>>

PInit(MapSpace, Thrs, Ps) ==
    /\ map \in MapSpace /\ thr \in Thrs /\ psize \in Ps
    /\ stage = "start" /\ peaks = {} /\ offs = <<>> /\ gpk = <<>> /\ goffs = <<>>

LocalRough ==      \* find_local_peaks_rough
    /\ stage = "start" /\ stage' = "local_rough"
    /\ peaks' = LocalPeaks(map, thr)
    /\ UNCHANGED <<map, thr, psize, offs, gpk, goffs>>
LocalRefine ==     \* find_local_peaks(refinement="integral"): one offset per rough peak
    /\ stage = "local_rough" /\ stage' = "local_refined"
    /\ offs' = [c \in peaks |-> Offset(map, c, psize)]
    /\ UNCHANGED <<map, thr, psize, peaks, gpk, goffs>>
GlobalRough ==     \* find_global_peaks_rough as specified: ANY cell attaining the maximum
    /\ stage = "start" /\ stage' = "global_rough"
    /\ \/ MaxVal(map) < thr /\ gpk' = [nan |-> TRUE, pt |-> <<0, 0>>, val |-> 0]
       \/ MaxVal(map) >= thr /\ \E c \in MaxCells(map) : gpk' = [nan |-> FALSE, pt |-> c, val |-> MaxVal(map)]
    /\ UNCHANGED <<map, thr, psize, peaks, offs, goffs>>
\* find_global_peaks_rough AS CODED at the pinned commit: x = first arg-max of the column maxima,
\* y = first arg-max of the row maxima, taken independently.  Counter-model: MUST violate GlobalOK.
ColMax(m, x) == Max({At(m, x, y) : y \in 0..(m.h - 1)})
RowMax(m, y) == Max({At(m, x, y) : x \in 0..(m.w - 1)})
GlobalRoughIndependent ==
    /\ stage = "start" /\ stage' = "global_rough"
    /\ \/ MaxVal(map) < thr /\ gpk' = [nan |-> TRUE, pt |-> <<0, 0>>, val |-> 0]
       \/ /\ MaxVal(map) >= thr
          /\ gpk' = [nan |-> FALSE, val |-> MaxVal(map),
                     pt |-> <<Min({x \in 0..(map.w - 1) : ColMax(map, x) = MaxVal(map)}),
                              Min({y \in 0..(map.h - 1) : RowMax(map, y) = MaxVal(map)})>>]
    /\ UNCHANGED <<map, thr, psize, peaks, offs, goffs>>
GlobalRefine ==    \* find_global_peaks(refinement="integral"): offsets for valid peaks only
    /\ stage = "global_rough" /\ stage' = "global_refined"
    /\ goffs' = (IF gpk.nan THEN <<>> ELSE Offset(map, gpk.pt, psize))
    /\ UNCHANGED <<map, thr, psize, peaks, offs, gpk>>

PNext == LocalRough \/ LocalRefine \/ GlobalRough \/ GlobalRefine
PNextAsCoded == LocalRough \/ LocalRefine \/ GlobalRoughIndependent \/ GlobalRefine

\* -- theorems (invariants of the design models) --
\* strict local maxima are above threshold, never 8-adjacent, and nothing else qualifies
LocalSound == stage \in {"local_rough", "local_refined"} =>
    /\ \A c \in peaks : At(map, c[1], c[2]) > thr
    /\ \A c \in peaks : \A d \in peaks : d \notin Nbr8(map, c)
    /\ \A c \in Cells(map) \ peaks : At(map, c[1], c[2]) <= thr \/ \E d \in Nbr8(map, c) : At(map, d[1], d[2]) >= At(map, c[1], c[2])
\* refinement keeps the peak set (count / indices) and is defined for every peak
RefineKeepsPeaks == stage = "local_refined" => DOMAIN offs = peaks
\* half-patch bound on non-negative patches with positive mass
BoundOnNonNeg(m, c, P) ==
    (PatchNonNeg(m, c, P) /\ Den(m, c, P) > 0) =>
        BoundOK(NumX(m, c, P), Den(m, c, P), P) /\ BoundOK(NumY(m, c, P), Den(m, c, P), P)
BoundOnAll(m, c, P) ==
    Den(m, c, P) # 0 /\ BoundOK(NumX(m, c, P), Den(m, c, P), P) /\ BoundOK(NumY(m, c, P), Den(m, c, P), P)
SymZero(m, c, P) ==
    /\ PatchSymX(m, c, P) => NumX(m, c, P) = 0
    /\ PatchSymY(m, c, P) => NumY(m, c, P) = 0
LocalRefineBound == stage = "local_refined" => \A c \in peaks : BoundOnNonNeg(map, c, psize)
LocalRefineSym == stage = "local_refined" => \A c \in peaks : SymZero(map, c, psize)
\* NOT a theorem (negative weights): the counter-model run must violate it
LocalRefineBoundAll == stage = "local_refined" => \A c \in peaks : BoundOnAll(map, c, psize)
GlobalRoughOK == stage \in {"global_rough", "global_refined"} => GlobalOK(map, thr, gpk)
GlobalRefineBound == (stage = "global_refined" /\ ~gpk.nan) => BoundOnNonNeg(map, gpk.pt, psize)
GlobalRefineSym == (stage = "global_refined" /\ ~gpk.nan) => SymZero(map, gpk.pt, psize)
\* a valid global peak of a non-negative map with a positive threshold always has positive mass
GlobalMassPositive == (stage = "global_refined" /\ ~gpk.nan /\ thr > 0 /\ PatchNonNeg(map, gpk.pt, psize))
                          => Den(map, gpk.pt, psize) > 0

\* ---------------------------------------------------- Gaussian-bump family ------------------
\* A member is [m |-> map, cx4, cy4]: an integer-quantised bump round(A exp(-d^2 / 2 sigma^2)) with its
\* true centre at (cx4/4, cy4/4).  (The table of values is produced by the driver - TLA+ has no
\* exp - and is the INPUT family, not an oracle: what is proved is a statement about Offset.)
\* Per axis, exactly: if the centre is on the grid line of the peak cell the offset is 0; otherwise
\* the refined coordinate is closer to the centre than the cell, by at least 1/128 px.
AxisCloser(r, num, den, c4) ==
    IF 4 * r = c4 THEN num = 0
    ELSE den > 0 /\ 128 * Abs(4 * den * r + 4 * num - c4 * den) + 4 * den <= 128 * Abs(4 * r - c4) * den
GaussOK(g, P) ==
    /\ Cardinality(MaxCells(g.m)) = 1
    /\ \A r \in MaxCells(g.m) :
          /\ 2 * Abs(4 * r[1] - g.cx4) < 4 /\ 2 * Abs(4 * r[2] - g.cy4) < 4      \* nearest cell
          /\ AxisCloser(r[1], NumX(g.m, r, P), Den(g.m, r, P), g.cx4)
          /\ AxisCloser(r[2], NumY(g.m, r, P), Den(g.m, r, P), g.cy4)

\* ---------------------------------------------------- conformance of observed outputs -------
\* Observed points are rows of integers: coordinates in quanta of 1/Q px, values in 1/VQ, and a
\* class tag cls in {"val", "nan", "inf", "huge"} (coordinates are 0 unless cls = "val").
\* Slack (stated once): the implementation crops the patch by a bilinear warp whose weights carry
\* float32 noise; measured worst case 1.4e-6 of the largest |value| in the patch per weight.  With
\* K = 2^-18 per weight, all P*P errors aligned:  |d offset| <= K P^2 maxabs (h + |offset|) / |den| px.
\* In quanta of 1/4096:  Tol = 2 + (Cond * Reach) \div 64,  Cond = P^2 maxabs \div |den| + 1,
\* Reach = h + |offset| + 1 (px, rounded up).  For non-negative patches Cond <= P^2 + 1.
\* Where Cond > 4096 the float result is meaningless (relative error of the normaliser ~ 1):
\* conformance is then not demanded (the bound clauses still are).
PCond(p, P) == (P * P * PMaxAbs(p)) \div Abs(PDen(p)) + 1
CondOf(m, c, P) == PCond(Patch(m, c, P), P)
ExpQ(num, den) == IF den > 0 THEN (Q * num) \div den ELSE (Q * (-num)) \div (-den)   \* floor; TolQ adds one quantum
TolQ(cond, eq, P) == 3 + (cond * (Half(P) + Abs(eq) \div Q + 1)) \div 64

\* first failing clause for ONE refined point: cell c = <<x, y>> of map m, patch P,
\* observed refined point (xq, yq, cls)
PointClause(m, c, P, xq, yq, cls) ==
    LET p == Patch(m, c, P)
        den == PDen(p)
        nx == PNumX(p, P)
        ny == PNumY(p, P)
        cond == IF den = 0 THEN 0 ELSE PCond(p, P)
        wellc == den # 0 /\ cond <= 4096
        ex == IF wellc THEN ExpQ(nx, den) ELSE 0
        ey == IF wellc THEN ExpQ(ny, den) ELSE 0
        tx == IF wellc THEN TolQ(cond, ex, P) ELSE 3
        ty == IF wellc THEN TolQ(cond, ey, P) ELSE 3
        dx == xq - Q * c[1]
        dy == yq - Q * c[2]
        btol == IF wellc THEN TolQ(cond, Half(P) * Q, P) ELSE 3
        inb == cls = "val" /\ Abs(dx) <= Half(P) * Q + btol /\ Abs(dy) <= Half(P) * Q + btol
        \* conformance to Offset is demanded where the exact offset itself respects the half-patch bound
        \* (always, for non-negative patches with positive mass - theorem T1/T3); where negative weights
        \* push the expectation out of the patch the property only demands the bound, so only that is judged
        conf == wellc /\ BoundOK(nx, den, P) /\ BoundOK(ny, den, P)
    IN IF conf /\ cls = "val" /\ Abs(dx) > tx /\ PSymX(p, P) THEN "symmetric_patch_moved"
       ELSE IF conf /\ cls = "val" /\ Abs(dy) > ty /\ PSymY(p, P) THEN "symmetric_patch_moved"
       ELSE IF conf /\ (cls # "val" \/ Abs(dx - ex) > tx \/ Abs(dy - ey) > ty) THEN "refine_offset_mismatch"
       ELSE IF inb THEN "ok"
       ELSE IF ~PNonNeg(p) THEN "refine_bound_negative_patch"
       ELSE IF den = 0 THEN "refine_zero_patch"
       ELSE "refine_bound"

\* priority order of the per-point clauses (most specific first)
PointPrio == <<"symmetric_patch_moved", "refine_offset_mismatch", "refine_bound", "gaussian_not_closer",
               "refine_zero_patch", "refine_bound_negative_patch">>
FirstOf(bad) == IF bad = {} THEN "ok"
                ELSE IF \E j \in 1..Len(PointPrio) : PointPrio[j] \in bad
                     THEN PointPrio[Min({j \in 1..Len(PointPrio) : PointPrio[j] \in bad})]
                     ELSE CHOOSE b \in bad : TRUE

\* observed Gaussian clause, per axis, with the same slack
AxisCloserObs(r, oq, c4, tol) ==
    IF 4 * r = c4 THEN Abs(oq - Q * r) <= tol
    ELSE Abs(oq - (Q \div 4) * c4) + tol < Abs(Q * r - (Q \div 4) * c4)

\* --- a case (one call on one batch): c.h, c.w, c.s (samples), c.c (channels), c.thr, c.maps ---
MapOf(c, s, ch) == [h |-> c.h, w |-> c.w, v |-> c.maps[s * c.c + ch + 1]]
OnGrid(xq, yq) == (xq % Q) = 0 /\ (yq % Q) = 0

\* C06, rough: rows <<s, ch, xq, yq, vq, cls>>
LocalRoughClause(c, rows) ==
    LET n == Len(rows)
        Pos(r) == <<r[1], r[2], r[3], r[4]>>
        ObsPos == {Pos(rows[k]) : k \in 1..n}
        ExpPos == UNION {{<<sc[1], sc[2], Q * p[1], Q * p[2]>> : p \in LocalPeaks(MapOf(c, sc[1], sc[2]), c.thr)} :
                          sc \in (0..(c.s - 1)) \X (0..(c.c - 1))}
    IN IF \E k \in 1..n : rows[k][6] # "val" THEN "nonfinite_point"
       ELSE IF Cardinality(ObsPos) # n THEN "duplicate_peak"
       ELSE IF ExpPos \ ObsPos # {} THEN "missing_peak"
       ELSE IF ObsPos \ ExpPos # {} THEN "spurious_peak"
       ELSE IF \E k \in 1..n : rows[k][5] # VQ * At(MapOf(c, rows[k][1], rows[k][2]), rows[k][3] \div Q, rows[k][4] \div Q)
            THEN "wrong_value"
       ELSE "ok"

\* C06, refined: same count, same order of (sample, channel, value), each point = cell + Offset
LocalRefineClause(c, rough, P, rows) ==
    IF Len(rows) # Len(rough) THEN "refine_count_changed"
    ELSE IF \E k \in 1..Len(rows) : rows[k][1] # rough[k][1] \/ rows[k][2] # rough[k][2] \/ rows[k][5] # rough[k][5]
         THEN "refine_indices_changed"
    ELSE IF P % 2 = 0 THEN
         \* even patch sizes: the patch is sampled between cells, conformance to the cell-based Offset does not apply;
         \* the property's own clause does: every point finite and within half a patch of its grid cell
         FirstOf({IF rows[k][6] # "val" THEN "refine_offset_mismatch"
                  ELSE IF 2 * Abs(rows[k][3] - rough[k][3]) > P * Q + 16 \/ 2 * Abs(rows[k][4] - rough[k][4]) > P * Q + 16 THEN "refine_bound"
                  ELSE "ok" : k \in 1..Len(rows)} \ {"ok"})
    ELSE FirstOf({PointClause(MapOf(c, rough[k][1], rough[k][2]), <<rough[k][3] \div Q, rough[k][4] \div Q>>, P,
                              rows[k][3], rows[k][4], rows[k][6]) : k \in 1..Len(rows)} \ {"ok"})

\* C07, rough: rows[s*C + ch + 1] = <<xq, yq, vq, cls>>
GlobalPointClause(m, t, row) ==
    LET mx == MaxVal(m)
        x == row[1] \div Q
        y == row[2] \div Q
    IN IF mx < t THEN (IF row[4] # "nan" THEN "below_threshold_not_nan"
                       ELSE IF row[3] # 0 THEN "below_threshold_value_not_zero" ELSE "ok")
       ELSE IF row[4] # "val" THEN "valid_peak_nonfinite"
       ELSE IF ~OnGrid(row[1], row[2]) \/ ~InMap(m, x, y) THEN "peak_off_grid"
       ELSE IF At(m, x, y) # mx THEN
            (IF Cardinality(MaxCells(m)) > 1 /\ (\E a \in MaxCells(m) : a[1] = x) /\ (\E a \in MaxCells(m) : a[2] = y)
             THEN "tied_maxima_not_a_max_cell" ELSE "not_a_max_cell")
       ELSE IF row[3] # VQ * mx THEN "wrong_value"
       ELSE "ok"
GlobalPrio == <<"below_threshold_not_nan", "below_threshold_value_not_zero", "valid_peak_nonfinite", "peak_off_grid",
                "not_a_max_cell", "wrong_value", "tied_maxima_not_a_max_cell">>
GlobalRoughClause(c, rows) ==
    IF Len(rows) # c.s * c.c THEN "shape"
    ELSE LET bad == {GlobalPointClause(MapOf(c, sc[1], sc[2]), c.thr, rows[sc[1] * c.c + sc[2] + 1]) :
                        sc \in (0..(c.s - 1)) \X (0..(c.c - 1))} \ {"ok"}
         IN IF bad = {} THEN "ok" ELSE GlobalPrio[Min({j \in 1..Len(GlobalPrio) : GlobalPrio[j] \in bad})]

\* C07, refined, relative to the rough cell reported for the same input: NaN structure and values
\* unchanged, each valid point = reported cell + Offset; gauss[k] = <<cx4, cy4>> or <<>>
GlobalRefinePoint(m, P, ro, row, g) ==
    IF ro[4] = "nan" /\ row[4] # "nan" THEN "refine_nan_structure_changed"    \* invalid peaks stay NaN
    ELSE IF ro[3] # row[3] THEN "refine_value_changed"
    ELSE IF ro[4] = "nan" THEN "ok"
    ELSE IF ro[4] # "val" \/ ~OnGrid(ro[1], ro[2]) \/ ~InMap(m, ro[1] \div Q, ro[2] \div Q) THEN "ok"   \* judged by the rough part
    ELSE IF P % 2 = 0 THEN
         \* even patch sizes: the patch is sampled between cells (bilinear), so conformance to the cell-based Offset
         \* does not apply; the property's own clauses do: finite, within half a patch, a bump centred on a cell is
         \* unmoved and an off-grid centre is approached on every axis (Gaussian family only).  Seed C07_r5.
         LET cell == <<ro[1] \div Q, ro[2] \div Q>>
             dx == row[1] - Q * cell[1]
             dy == row[2] - Q * cell[2]
         IN IF row[4] # "val" THEN "refine_offset_mismatch"
            ELSE IF 2 * Abs(dx) > P * Q + 16 \/ 2 * Abs(dy) > P * Q + 16 THEN "refine_bound"
            ELSE IF g = <<>> THEN "ok"
            ELSE IF AxisCloserObs(cell[1], row[1], g[1], 8) /\ AxisCloserObs(cell[2], row[2], g[2], 8) THEN "ok"
            ELSE "gaussian_not_closer"
    ELSE LET cell == <<ro[1] \div Q, ro[2] \div Q>>
             pc == PointClause(m, cell, P, row[1], row[2], row[4])
         IN IF pc # "ok" \/ g = <<>> THEN pc
            ELSE LET tol == IF Den(m, cell, P) = 0 THEN 3 ELSE TolQ(CondOf(m, cell, P), Half(P) * Q, P)
                 IN IF AxisCloserObs(cell[1], row[1], g[1], tol) /\ AxisCloserObs(cell[2], row[2], g[2], tol)
                    THEN "ok" ELSE "gaussian_not_closer"
GlobalRefineClause(c, rough, P, rows) ==
    IF Len(rows) # c.s * c.c \/ Len(rough) # c.s * c.c THEN "shape"
    ELSE LET bad == {GlobalRefinePoint(MapOf(c, sc[1], sc[2]), P, rough[sc[1] * c.c + sc[2] + 1], rows[sc[1] * c.c + sc[2] + 1],
                                        IF c.gauss = <<>> THEN <<>> ELSE c.gauss[sc[1] * c.c + sc[2] + 1]) :
                        sc \in (0..(c.s - 1)) \X (0..(c.c - 1))} \ {"ok"}
         IN IF "refine_nan_structure_changed" \in bad THEN "refine_nan_structure_changed"
            ELSE IF "refine_value_changed" \in bad THEN "refine_value_changed"
            ELSE FirstOf(bad)
=============================================================================
