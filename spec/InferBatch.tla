---------------------------- MODULE InferBatch ----------------------------
(* Batch layer of the inference plane (C12).  A frame f has a per-frame result R(f): a set of instances
   [id, score] that depends on the frame alone (the stages of InferPlane.tla).  RunBatch(b) attributes to
   every frame of the batch its own result (top-k by score when max_instances = k) and tags it with the
   frame's (video, frame) identity.  Properties: attribution = R(f) whatever the batch composition, order or
   size; empty frames contribute nothing and disturb nobody; kept instances are the k highest-scoring.

   AsMisaligned is a counter-model of a realistic defect class: empty results are skipped while the identity
   list is zipped by position - the properties must fail on it. *)
EXTENDS Naturals, Sequences, FiniteSets, FiniteSetsExt, TLC

CONSTANTS Frames, K, Model   \* K = 0: no limit; Model = "intended" | "misaligned"
\* frame f (a number) has f animals with distinct scores (f * 10 + j)
R(f) == {[id |-> f * 10 + j, score |-> ((f * 7 + j * 3) % 11) + 1] : j \in 1..f}
TopK(S, k) == IF k = 0 \/ Cardinality(S) <= k THEN {S}
              ELSE {T \in SUBSET S : Cardinality(T) = k /\ \A t \in T : \A u \in S \ T : t.score >= u.score}

VARIABLES batch, recs, model
bvars == <<batch, recs, model>>
Batches == {b \in UNION {[1..n -> Frames] : n \in 1..3} : \A i, j \in 1..Len(b) : i # j => b[i] # b[j]}
BInit == batch = <<>> /\ recs = <<>> /\ model = Model
RunBatch(b) ==
    /\ batch' = b
    /\ IF model = "intended"
       THEN \E pick \in [1..Len(b) -> UNION {TopK(R(f), K) : f \in Frames}] :
               /\ \A i \in 1..Len(b) : pick[i] \in TopK(R(b[i]), K)
               /\ recs' = [i \in 1..Len(b) |-> [fid |-> b[i], insts |-> pick[i]]]
       ELSE LET ne == SelectSeq([i \in 1..Len(b) |-> i], LAMBDA i : R(b[i]) # {})
            IN recs' = [j \in 1..Len(ne) |-> [fid |-> b[j], insts |-> CHOOSE T \in TopK(R(b[ne[j]]), K) : TRUE]]
    /\ UNCHANGED model
BNext == \E b \in Batches : RunBatch(b)

Attributed(f) == UNION {recs[i].insts : i \in {j \in 1..Len(recs) : recs[j].fid = f}}
Independent == \A i \in 1..Len(batch) : Attributed(batch[i]) \in TopK(R(batch[i]), K)
NoForeign == \A i \in 1..Len(recs) : \E j \in 1..Len(batch) : batch[j] = recs[i].fid
EmptyContributeNothing == \A i \in 1..Len(batch) : R(batch[i]) = {} => Attributed(batch[i]) = {}
=============================================================================
