---------------------------- MODULE DataStore ----------------------------
(* Store layer of the training-data plane (C11): what a Dataset keeps for the life of the object and
   what reading it may touch.  (DESIGN.md calls this the "store layer" of DataPlane.tla.)

   Code mapped (sleap_nn/data/custom_datasets.py, providers.py, instance_centroids.py):

     Build      Dataset.__init__: get_max_instances, _get_lf_idx_list / _get_instance_idx_list (user
                filter + empty-instance filter) and _fill_cache (process_lf | crop path, generate_centroids,
                cache[idx] = sample.copy()  |  np.savez_compressed(sample_<idx>.npz))
     GetItem(i) Dataset.__getitem__(i): sample = cache[i].copy() (a SHALLOW copy: the tensors of the
                returned dict are the cached tensors)  |  np.load(sample_<i>.npz) (fresh tensors), then
                maps are computed from the sample's points
     Call(f)    a helper of the functional API applied to the caller's tensors (here: the tensors of the
                sample that was returned last, which in memory mode ARE the cached tensors)

   Tensors live in a heap (address -> value) so that "a view written through" is expressible: the pure
   specification never writes to an existing address; the as-coded / view-writing counter models do, and
   TLC shows which clause of C11 then fails.

   Values.  A keypoint is a triple <<x4, y4, v>> (quarter-pixel lattice, v = 1) or NaN = <<0, 0, 0>>.
   labels  : sequence of frames; a frame is a sequence of instances [k |-> "u" | "p", p |-> <<points>>]
             (user / predicted).  `member` is the frame's CURRENT instance list (indices into the frame):
             the user-instance filter is applied IN PLACE to that list by the code (lf.instances =
             lf.user_instances) - modelled explicitly as an effect of Build; key points never change.
   The configuration is a variable that never changes (one TLC run covers the grid):
     cfg = [cls: "bottomup" | "centered" | "centroid" | "single", chunks: BOOLEAN (np_chunks),
            anchor: 0 (None) | node (1-based), uio: BOOLEAN (user_instances_only), ...] *)
EXTENDS Naturals, Integers, Sequences, FiniteSets, FiniteSetsExt, SequencesExt, TLC

NaN == <<0, 0, 0>>
MidPt == <<-1, -1, 1>>      \* "bounding-box midpoint of the visible points": a value that is in no label

VARIABLES cfg, labels, member,
          heap,        \* sequence of tensor values; an address is a position in it
          cache,       \* index -> [src, pts: address, ctr: address]
          cache0,      \* history: the VALUE of the cache right after Build
          out,         \* the tensors of the sample returned last: [pts: address, ctr: address]
          reads,       \* history: indices read
          results,     \* history: values returned
          built, nc    \* nc: number of functional-API calls made by the caller
vars == <<cfg, labels, member, heap, cache, cache0, out, reads, results, built, nc>>

\* ------------------------------------------------------------------ pure definitions ----------
Idx(s) == [k \in 1..Len(s) |-> k]
UserIdx(fr) == SelectSeq(Idx(fr), LAMBDA a : fr[a].k = "u")
\* as coded: the filter applies only to frames that HAVE user instances (a predicted-only frame keeps
\* its predicted instances even with user_instances_only)
Selected(c, fr) == IF c.uio /\ UserIdx(fr) # <<>> THEN UserIdx(fr) ELSE Idx(fr)
Present(inst) == \E n \in 1..Len(inst.p) : inst.p[n] # NaN
NonEmptySel(c, fr) == SelectSeq(Selected(c, fr), LAMBDA a : Present(fr[a]))
FrameLevel(c) == c.cls # "centered"
HasCentroid(c) == c.cls \in {"centroid", "centered"}
NN(lab) == LET f == CHOOSE g \in 1..Len(lab) : lab[g] # <<>> IN Len(lab[f][1].p)
MaxInst(lab) == Max({Len(lab[f]) : f \in 1..Len(lab)})      \* get_max_instances: counted before the filter
AllNaNRow(nn) == [n \in 1..nn |-> NaN]

\* the sources of the samples, in label order: <<f, 0>> (frame-level classes) or <<f, a>> (centered)
Sources(c, lab) ==
    IF FrameLevel(c)
    THEN LET fs == SelectSeq(Idx(lab), LAMBDA f : NonEmptySel(c, lab[f]) # <<>>)
         IN [k \in 1..Len(fs) |-> <<fs[k], 0>>]
    ELSE FlattenSeq([f \in 1..Len(lab) |->
                       [k \in 1..Len(NonEmptySel(c, lab[f])) |-> <<f, NonEmptySel(c, lab[f])[k]>>]])

\* independent count for the Len clause: "only non-empty instances produce samples and the length
\* equals their number" (frames with a non-empty instance for the frame-level classes)
NumNonEmpty(c, lab) ==
    IF FrameLevel(c)
    THEN Cardinality({f \in 1..Len(lab) : \E k \in 1..Len(Selected(c, lab[f])) : Present(lab[f][Selected(c, lab[f])[k]])})
    ELSE Cardinality({fa \in UNION {{<<f, a>> : a \in 1..Len(lab[f])} : f \in 1..Len(lab)} :
                        /\ \E k \in 1..Len(Selected(c, lab[fa[1]])) : Selected(c, lab[fa[1]])[k] = fa[2]
                        /\ Present(lab[fa[1]][fa[2]])})

\* which label instance each stored row is derived from (0 = padding row)
RowOrigin(c, lab, src) ==
    IF FrameLevel(c)
    THEN LET ne == NonEmptySel(c, lab[src[1]])
         IN [k \in 1..Max({Len(ne), MaxInst(lab)}) |-> IF k <= Len(ne) THEN ne[k] ELSE 0]
    ELSE <<src[2]>>
StoredRows(c, lab, src) ==
    LET org == RowOrigin(c, lab, src)
    IN [k \in 1..Len(org) |-> IF org[k] = 0 THEN AllNaNRow(NN(lab)) ELSE lab[src[1]][org[k]].p]

\* generate_centroids as specified: a NEW tensor
AnchorOf(c, row) == IF c.anchor # 0 /\ row[c.anchor] # NaN THEN row[c.anchor]
                    ELSE IF \E n \in 1..Len(row) : row[n] # NaN THEN MidPt ELSE NaN
Centroids(c, rows) == [k \in 1..Len(rows) |-> AnchorOf(c, rows[k])]
\* generate_centroids as coded: centroids = points[..., anchor, :] is a VIEW; the midpoint is assigned into it
WriteThrough(c, rows) == [k \in 1..Len(rows) |->
                            IF c.anchor # 0 /\ rows[k][c.anchor] = NaN
                            THEN [rows[k] EXCEPT ![c.anchor] = AnchorOf(c, rows[k])] ELSE rows[k]]

\* what __getitem__ derives from the stored tensors: the points themselves and which map channels are
\* identically zero BECAUSE the keypoint is missing (max-reduction over instances for bottom-up;
\* one centroid channel; PAF channel pairs of a chain skeleton n - n+1)
MustBeZero(c, rows, ctrs) ==
    IF c.cls = "centroid" THEN << \A k \in 1..Len(ctrs) : ctrs[k] = NaN >>
    ELSE [n \in 1..Len(rows[1]) |-> \A k \in 1..Len(rows) : rows[k][n] = NaN]
PafMustBeZero(c, rows) ==
    IF c.cls # "bottomup" THEN <<>>
    ELSE [e \in 1..(Len(rows[1]) - 1) |-> \A k \in 1..Len(rows) : rows[k][e] = NaN \/ rows[k][e + 1] = NaN]
Derive(c, i, rows, ctrs) == [i |-> i, pts |-> rows, ctr |-> ctrs, zero |-> MustBeZero(c, rows, ctrs),
                             pzero |-> PafMustBeZero(c, rows)]

\* ------------------------------------------------------------------ actions -------------------
CacheVal == [k \in 1..Len(cache) |-> [src |-> cache[k].src, pts |-> heap[cache[k].pts], ctr |-> heap[cache[k].ctr]]]

DSInit(Configs, LabelsOf(_)) ==
    /\ cfg \in Configs
    /\ labels = LabelsOf(cfg)
    /\ member = [f \in 1..Len(labels) |-> Idx(labels[f])]
    /\ heap = <<>> /\ cache = <<>> /\ cache0 = <<>> /\ out = [pts |-> 0, ctr |-> 0]
    /\ reads = <<>> /\ results = <<>> /\ built = FALSE /\ nc = 0

\* asCoded = TRUE: the centroid step writes the midpoint through the anchor view into the stored points
Build(asCoded) ==
    /\ ~built
    /\ LET srcs == Sources(cfg, labels)
           rows(k) == StoredRows(cfg, labels, srcs[k])
           kept(k) == IF asCoded /\ HasCentroid(cfg) THEN WriteThrough(cfg, rows(k)) ELSE rows(k)
       IN /\ heap' = [j \in 1..(2 * Len(srcs)) |->
                        IF j % 2 = 1 THEN kept((j + 1) \div 2)
                        ELSE IF HasCentroid(cfg) THEN Centroids(cfg, rows(j \div 2)) ELSE <<>>]
          /\ cache' = [k \in 1..Len(srcs) |-> [src |-> srcs[k], pts |-> 2 * k - 1, ctr |-> 2 * k]]
    /\ member' = [f \in 1..Len(labels) |-> Selected(cfg, labels[f])]
    /\ cache0' = CacheVal'
    /\ built' = TRUE
    /\ UNCHANGED <<cfg, labels, out, reads, results, nc>>

\* memory mode, frame-level classes: the returned tensors ARE the cached ones (sample = cache[i].copy());
\* centered: every returned tensor is re-derived (instance - point ...); chunks: loaded from the file
Aliased == ~cfg.chunks /\ FrameLevel(cfg)
GetItem(i) ==
    /\ built /\ i \in 1..Len(cache)
    /\ LET e == cache[i] IN
       /\ IF Aliased THEN heap' = heap /\ out' = [pts |-> e.pts, ctr |-> e.ctr]
          ELSE heap' = heap \o <<heap[e.pts], heap[e.ctr]>> /\ out' = [pts |-> Len(heap) + 1, ctr |-> Len(heap) + 2]
       /\ results' = Append(results, Derive(cfg, i, heap[e.pts], heap[e.ctr]))
    /\ reads' = Append(reads, i)
    /\ UNCHANGED <<cfg, labels, member, cache, cache0, built, nc>>

\* counter model: a step of __getitem__ works in place on the sample's tensor (a view of the cache)
GetItemViewWrite(i) ==
    /\ built /\ i \in 1..Len(cache) /\ Aliased
    /\ LET e == cache[i]
           w == [heap EXCEPT ![e.pts] = WriteThrough([cfg EXCEPT !.anchor = 1], heap[e.pts])] IN
       /\ heap' = w /\ out' = [pts |-> e.pts, ctr |-> e.ctr]
       /\ results' = Append(results, Derive(cfg, i, w[e.pts], heap[e.ctr]))
    /\ reads' = Append(reads, i)
    /\ UNCHANGED <<cfg, labels, member, cache, cache0, built, nc>>

\* the functional API on the caller's tensors (the sample returned last): pure
Call(f) ==
    /\ built /\ out.pts # 0
    /\ nc' = nc + 1
    /\ UNCHANGED <<cfg, labels, member, heap, cache, cache0, out, reads, results, built>>
\* as coded: generate_centroids(points, anchor) writes through its argument
CallAsCoded(f) ==
    /\ built /\ out.pts # 0
    /\ nc' = nc + 1
    /\ heap' = (IF f = "generate_centroids" /\ ~HasCentroid(cfg)
                THEN [heap EXCEPT ![out.pts] = WriteThrough([cfg EXCEPT !.anchor = 1], heap[out.pts])] ELSE heap)
    /\ UNCHANGED <<cfg, labels, member, cache, cache0, out, reads, results, built>>

\* ------------------------------------------------------------------ properties (C11) ----------
\* reading / calling mutates nothing
NothingMutated == [][labels' = labels /\ (built => (CacheVal' = CacheVal /\ member' = member))]_vars
ArgsUntouched == [][(nc' # nc) => heap' = heap]_vars
CacheIsCache0 == built => CacheVal = cache0
\* the result is a function of the index and of the initial cache only, whatever was read before
ResultFunctionOfIndex ==
    \A k \in 1..Len(results) : results[k] = Derive(cfg, reads[k], cache0[reads[k]].pts, cache0[reads[k]].ctr)
SameIndexSameSample == \A j, k \in 1..Len(results) : reads[j] = reads[k] => results[j] = results[k]
LenOK == built => Len(cache) = NumNonEmpty(cfg, labels)

\* Missing(labels, f, a, n) => the stored / returned row derived from (f, a) has n missing, padding rows are
\* empty, and a channel that must be zero is reported zero.  Returns "ok" or the name of the failing clause.
\* obsRows: rows of <<x4, y4, v>>;  obsZero / obsPZero: 1 = channel identically zero (<<>> = not observed)
MissingClause(c, lab, src, obsRows, obsZero, obsPZero) ==
    LET org == RowOrigin(c, lab, src)
        want == StoredRows(c, lab, src)
    IN IF Len(obsRows) # Len(org) THEN "row_count_differs"
       ELSE IF \E k \in 1..Len(org) : \E n \in 1..Len(want[k]) : want[k][n] = NaN /\ obsRows[k][n][3] # 0
            THEN "missing_keypoint_invented"
       ELSE IF obsZero # <<>> /\ (\E n \in 1..Len(obsZero) : MustBeZero(c, want, Centroids(c, want))[n] /\ obsZero[n] # 1)
            THEN "confmap_nonzero_for_missing_keypoint"
       ELSE IF obsPZero # <<>> /\ (\E e \in 1..Len(obsPZero) : PafMustBeZero(c, want)[e] /\ obsPZero[e] # 1)
            THEN "paf_nonzero_for_missing_keypoint"
       ELSE "ok"
\* identity pipelines only (scale 1, no size matching, frame-level): stored key points ARE the label's
AlteredClause(c, lab, src, obsRows) ==
    LET want == StoredRows(c, lab, src)
    IN IF Len(obsRows) = Len(want) /\ (\E k \in 1..Len(want) : \E n \in 1..Len(want[k]) :
                                         want[k][n] # NaN /\ obsRows[k][n] # want[k][n])
       THEN "keypoint_altered_or_dropped" ELSE "ok"

ZeroObs(r) == [n \in 1..Len(r.zero) |-> IF r.zero[n] THEN 1 ELSE 0]
PZeroObs(r) == [n \in 1..Len(r.pzero) |-> IF r.pzero[n] THEN 1 ELSE 0]
MissingOK ==
    /\ built => \A k \in 1..Len(cache) : MissingClause(cfg, labels, cache[k].src, heap[cache[k].pts], <<>>, <<>>) = "ok"
    /\ \A k \in 1..Len(results) :
         MissingClause(cfg, labels, cache[reads[k]].src, results[k].pts, ZeroObs(results[k]), PZeroObs(results[k])) = "ok"

\* ------------------------------------------------------------------ functional API ------------
\* one call: args = sequence of [name, eq (1 = the caller's tensor is unchanged after the call: same shape,
\* same NaN mask, allclose), nb / na (number of NaN entries before / after)]
CallClause(c) ==
    IF c.raised # "" THEN "raised"
    ELSE IF \E k \in 1..Len(c.args) : c.args[k].eq # 1 THEN "argument_mutated"
    ELSE "ok"
=============================================================================
