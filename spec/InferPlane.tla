---------------------------- MODULE InferPlane ----------------------------
(* Stages of one inference call, per keypoint and axis (C02, C03; the batch layer of C12 is in Judge_C12).

   Code mapped (predictors._predict_generator, single_instance / topdown / bottomup forward):
     SizeMatch   apply_sizematcher: ratio = min(maxH/H, maxW/W) (eff_scale), target = round(size * ratio),
                 tvf.resize to the INTEGER target, zero padding at the bottom / right
     Resize      resize_image: target = int(size * scale), tvf.resize
     Pad         apply_pad_to_stride: zero padding bottom / right to a multiple of max_stride
     Net         IDEAL network: for the image it is given, the output at stride s has its maximum for keypoint
                 k at the grid cell nearest to k's position in that image
     FindPeaks   arg-max cell (Peaks.tla), optionally refined
     Crop        top-down: crop_hw window about the (predicted) centroid; the crop's offset is re-added on
                 decode, so it cancels and only the instance stage's resizes matter
     Decode      peak * stride / scale / eff_scale (+ crop offset / scale / eff_scale)

   tvf.resize resamples about pixel centres: content at x (input px) appears at (x + 1/2) * new/old - 1/2,
   whereas Decode divides by the NOMINAL factors.  Positions are integers in units of 1/U px, tracked as an
   interval [lo, hi] (floor / ceil of every division) so that TLC's integer arithmetic is a sound enclosure. *)
EXTENDS Integers, Sequences, FiniteSets, TLC

U == 1024                                   \* position quantum: 1/1024 px
CeilDiv(a, b) == IF a >= 0 THEN (a + b - 1) \div b ELSE -((-a) \div b)
FloorDiv(a, b) == IF a >= 0 THEN a \div b ELSE -(((-a) + b - 1) \div b)
Abs(x) == IF x < 0 THEN -x ELSE x
MaxI(a, b) == IF a > b THEN a ELSE b
MinI(a, b) == IF a < b THEN a ELSE b
RoundDiv(n, d) == (2 * n + d) \div (2 * d)   \* round(n/d), halves up (python rounds halves to even: ties are not generated)

\* ---------------------------------------------------------------- size arithmetic --------------------
\* cfg fields used: H, W, maxH, maxW (0 = None), sn/sd (input scale as a rational), ms (max stride)
EffH(c) == IF c.maxH = 0 THEN c.H ELSE c.maxH
EffW(c) == IF c.maxW = 0 THEN c.W ELSE c.maxW
NeedsMatch(c) == c.H # EffH(c) \/ c.W # EffW(c)
\* eff_scale = min(hratio, wratio) as <<num, den>>: hratio > wratio <=> maxH * W > maxW * H
EffRatio(c) == IF ~NeedsMatch(c) THEN <<1, 1>>
               ELSE IF EffH(c) * c.W > EffW(c) * c.H THEN <<EffW(c), c.W>> ELSE <<EffH(c), c.H>>
MatchedHW(c) == IF ~NeedsMatch(c) THEN <<c.H, c.W>>
                ELSE LET r == EffRatio(c) IN <<RoundDiv(c.H * r[1], r[2]), RoundDiv(c.W * r[1], r[2])>>
SizeMatchOut(c) == <<EffH(c), EffW(c)>>                        \* after padding
ResizedHW(hw, sn, sd) == IF sn = sd THEN hw ELSE <<(hw[1] * sn) \div sd, (hw[2] * sn) \div sd>>
PadTo(x, m) == x + ((m - (x % m)) % m)
NetInHW(c) == LET r == ResizedHW(SizeMatchOut(c), c.sn, c.sd) IN <<PadTo(r[1], c.ms), PadTo(r[2], c.ms)>>

\* ---------------------------------------------------------------- content map of one axis ---------------
\* content position after a resize old -> new of a point in [lo, hi] (units 1/U px)
ResizeLo(lo, old, new) == FloorDiv((2 * lo + U) * new, 2 * old) - U \div 2
ResizeHi(hi, old, new) == CeilDiv((2 * hi + U) * new, 2 * old) - U \div 2
\* axis = 1 (y, heights) or 2 (x, widths); k = original position in 1/U px
AfterMatch(c, k, axis) == LET old == IF axis = 1 THEN c.H ELSE c.W
                              new == MatchedHW(c)[axis]
                          IN IF old = new THEN <<k, k>> ELSE <<ResizeLo(k, old, new), ResizeHi(k, old, new)>>
AfterScale(c, iv, axis) == LET old == SizeMatchOut(c)[axis]
                               new == ResizedHW(SizeMatchOut(c), c.sn, c.sd)[axis]
                           IN IF c.sn = c.sd THEN iv ELSE <<ResizeLo(iv[1], old, new), ResizeHi(iv[2], old, new)>>
NetPos(c, k, axis) == AfterScale(c, AfterMatch(c, k, axis), axis)   \* enclosure of the keypoint in the network input

\* what Decode does to a network-input position p (1/U px): p / scale / eff  (nominal factors)
DecodeLo(c, p) == LET r == EffRatio(c) IN FloorDiv(p * c.sd * r[2], c.sn * r[1])
DecodeHi(c, p) == LET r == EffRatio(c) IN CeilDiv(p * c.sd * r[2], c.sn * r[1])

\* Tight per-keypoint bound on |decoded - k| for an ideal network at output stride s:
\* the peak is at a cell c*s with |c*s - pos| <= s/2 (refinement can only come closer), decoded with the nominal factors.
Eps == U \div 20                                                  \* 0.05 px
TightBound(c, k, axis, s) ==
    LET iv == NetPos(c, k, axis)
        lo == DecodeLo(c, iv[1] - (s * U) \div 2)
        hi == DecodeHi(c, iv[2] + (s * U + 1) \div 2)
    IN MaxI(Abs(hi - k), Abs(lo - k)) + Eps
\* Closed form promised by the property + the stated slack (DESIGN 4, C02): half a cell in original pixels, plus per
\* resize stage the half-pixel-convention term |1/f - 1|/2 and half an output pixel of size rounding, each
\* converted to original pixels.
ClosedBound(c, s) ==
    LET r == EffRatio(c)
        a(n) == CeilDiv(n * c.sd * r[2], c.sn * r[1])                \* network-input px -> original px (1/U)
        half == a((s * U + 1) \div 2)
        m1 == IF NeedsMatch(c) THEN CeilDiv(Abs(r[2] - r[1]) * U, 2 * r[1]) + CeilDiv(U * r[2], r[1]) ELSE 0
        m2 == IF c.sn # c.sd THEN CeilDiv(CeilDiv(Abs(c.sd - c.sn) * U, 2 * c.sn) * r[2], r[1]) + a(U) ELSE 0
    IN half + m1 + m2 + Eps + 4

\* ---------------------------------------------------------------- state machine (design model) ---------------
VARIABLES cfg, stage, hw, pos, peak, dec
ivars == <<cfg, stage, hw, pos, peak, dec>>
\* pos: <<ylo, yhi, xlo, xhi>> enclosure of the keypoint; peak: chosen cell * stride (1/U px); dec: decoded <<ylo,yhi,xlo,xhi>>

IPInit(Configs) ==
    /\ cfg \in Configs
    /\ stage = "SizeMatch" /\ hw = <<cfg.H, cfg.W>> /\ pos = <<cfg.ky, cfg.ky, cfg.kx, cfg.kx>>
    /\ peak = <<0, 0>> /\ dec = <<0, 0, 0, 0>>
SizeMatch == /\ stage = "SizeMatch" /\ stage' = "Resize"
             /\ hw' = SizeMatchOut(cfg)
             /\ pos' = LET y == AfterMatch(cfg, cfg.ky, 1) x == AfterMatch(cfg, cfg.kx, 2) IN <<y[1], y[2], x[1], x[2]>>
             /\ UNCHANGED <<cfg, peak, dec>>
Resize == /\ stage = "Resize" /\ stage' = "Pad"
          /\ hw' = ResizedHW(hw, cfg.sn, cfg.sd)
          /\ pos' = LET y == AfterScale(cfg, <<pos[1], pos[2]>>, 1) x == AfterScale(cfg, <<pos[3], pos[4]>>, 2) IN <<y[1], y[2], x[1], x[2]>>
          /\ UNCHANGED <<cfg, peak, dec>>
Pad == /\ stage = "Pad" /\ stage' = "Net"
       /\ hw' = <<PadTo(hw[1], cfg.ms), PadTo(hw[2], cfg.ms)>>
       /\ UNCHANGED <<cfg, pos, peak, dec>>
\* ideal network + arg-max: ANY cell within half a stride of SOME point of the enclosure (ties, enclosure width)
Net == /\ stage = "Net" /\ stage' = "Decode"
       /\ \E cy \in 0..(hw[1] \div cfg.s), cx \in 0..(hw[2] \div cfg.s) :
            /\ 2 * (cy * cfg.s * U) >= 2 * pos[1] - cfg.s * U - 1 /\ 2 * (cy * cfg.s * U) <= 2 * pos[2] + cfg.s * U + 1
            /\ 2 * (cx * cfg.s * U) >= 2 * pos[3] - cfg.s * U - 1 /\ 2 * (cx * cfg.s * U) <= 2 * pos[4] + cfg.s * U + 1
            /\ peak' = <<cy * cfg.s * U, cx * cfg.s * U>>
       /\ UNCHANGED <<cfg, hw, pos, dec>>
Decode == /\ stage = "Decode" /\ stage' = "done"
          /\ dec' = <<DecodeLo(cfg, peak[1]), DecodeHi(cfg, peak[1]), DecodeLo(cfg, peak[2]), DecodeHi(cfg, peak[2])>>
          /\ UNCHANGED <<cfg, hw, pos, peak>>
IPNext == SizeMatch \/ Resize \/ Pad \/ Net \/ Decode

SizesAsCoded == stage \in {"Net", "Decode", "done"} => hw = NetInHW(cfg)
NetInputIsStrideMultiple == stage \in {"Net", "Decode", "done"} => (hw[1] % cfg.ms = 0 /\ hw[2] % cfg.ms = 0)
\* the theorem: every decoded answer of an ideal network is within the tight bound, and the tight bound is within
\* the closed form the property (plus stated slack) promises
DecodeWithinTight == stage = "done" =>
    /\ MaxI(Abs(dec[1] - cfg.ky), Abs(dec[2] - cfg.ky)) <= TightBound(cfg, cfg.ky, 1, cfg.s)
    /\ MaxI(Abs(dec[3] - cfg.kx), Abs(dec[4] - cfg.kx)) <= TightBound(cfg, cfg.kx, 2, cfg.s)
TightWithinClosed == /\ TightBound(cfg, cfg.ky, 1, cfg.s) <= ClosedBound(cfg, cfg.s)
                     /\ TightBound(cfg, cfg.kx, 2, cfg.s) <= ClosedBound(cfg, cfg.s)
=============================================================================
