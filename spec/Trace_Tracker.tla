---------------------------- MODULE Trace_Tracker ----------------------------
(* Batch validation of real Tracker.track() histories.
   A trace is [id, mode, cfg, frames]; a frame is [dets: seq of [a, hi], ret: seq of <<idx, trk>>, raised].
   mode "C09": every frame must satisfy the reply clause (arbitrary scenes, scores unknown to the spec).
   mode "C10": additionally each frame must be a Track(D) step of the spec from the current state whose
               assignment is the observed one (scores DEFINED by the separation abstraction), and Identity /
               Distinct must hold in every state.  Histories of this mode come from TLC's own state graph
               of the scenario class (or seeded scenario-class scenes), so a rejection is an identity error. *)
EXTENDS Tracker, Verdict, Json, IOUtils
Traces == JsonDeserialize(IOEnv.TRACE_FILE)
ASSUME VInit
VARIABLES tid, l
Fr == Traces[tid].frames
Init == /\ tid \in 1..Len(Traces) /\ l = 1
        /\ TInit({Traces[tid].cfg})

DSet(fr) == {fr.dets[i].a : i \in 1..Len(fr.dets)}
Obs(fr) == [a \in DSet(fr) |->
              LET d == CHOOSE i \in 1..Len(fr.dets) : fr.dets[i].a = a
                  hit == {i \in 1..Len(fr.ret) : fr.ret[i][1] = d}
              IN IF hit = {} THEN -1 ELSE fr.ret[CHOOSE i \in hit : TRUE][2]]
Reply(fr) == ReplyClause(fr.dets, fr.ret, fr.raised, nt)

Step10 == /\ l <= Len(Fr) /\ Traces[tid].mode = "C10"
          /\ Reply(Fr[l]) = "ok"
          /\ Track(DSet(Fr[l]))
          /\ \A a \in DSet(Fr[l]) : trackOf'[a] = Obs(Fr[l])[a]
          /\ l' = l + 1 /\ tid' = tid
Step09 == /\ l <= Len(Fr) /\ Traces[tid].mode = "C09"
          /\ Reply(Fr[l]) = "ok"
          /\ l' = l + 1 /\ tid' = tid
          /\ UNCHANGED vars
Next == Step10 \/ Step09

Check ==
    LET id == Traces[tid].id IN
    IF ~Identity THEN VReject(id, "identity_changed_at_frame_" \o ToString(l - 1)) /\ FALSE
    ELSE IF ~Distinct THEN VReject(id, "two_animals_share_a_track_at_frame_" \o ToString(l - 1)) /\ FALSE
    ELSE IF l > Len(Fr) THEN VAccept
    ELSE IF Reply(Fr[l]) # "ok" THEN VReject(id, Reply(Fr[l]) \o "_at_frame_" \o ToString(l)) /\ FALSE
    ELSE IF ENABLED Next THEN TRUE
    ELSE VReject(id, "assignment_not_allowed_by_spec_at_frame_" \o ToString(l)) /\ FALSE
Report == VReport
=============================================================================
