---------------------------- MODULE Judge_C16 ----------------------------
(* Trace validation of Evaluator(gt, pr).evaluate() (C16).  A case carries the lattice inputs of a
   label pair (frames: gt poses, predicted poses, detection scores, observed OKS rank matrix) and
   the projected dict returned by evaluate().  TLC recomputes the implementation-shaped arithmetic
   of Eval.tla from the OBSERVED positive pairs and checks conformance plus the property's clauses
   (bounds, monotone sequences, perfect-prediction fixed point) on the observed values.  "del"
   cases relate a run to the run on the same labels with some predictions deleted. *)
EXTENDS Eval, Verdict, Json, IOUtils
Cases == JsonDeserialize(IOEnv.TRACE_FILE)
ASSUME VInit
VARIABLE i
Init == i = 0 /\ mI = <<>> /\ avail = {} /\ todo = {} /\ pairs = <<>>
Next == i < Len(Cases) /\ i' = i + 1 /\ UNCHANGED mvars

Paired(c) == {f \in DOMAIN c.frames : Len(c.frames[f].gt) > 0 /\ c.frames[f].haspr}
Npig(c) == SeqSum([f \in DOMAIN c.frames |-> IF f \in Paired(c) THEN Len(c.frames[f].gt) ELSE 0])
InUnit9(q) == q >= 0 /\ q <= One9
RatioOk(o, den) == InRange(o.cls) \/ (o.cls = "nan" /\ den = 0)

StructClause(c) ==
    LET o == c.obs
        ps == o.pairs
        F == c.frames
    IN IF \E k \in DOMAIN ps : ps[k].f \notin Paired(c) \/ ps[k].g \notin 1..Len(F[ps[k].f].gt) \/ ps[k].p \notin 1..Len(F[ps[k].f].pr)
       THEN "pair_outside_paired_frames"
       ELSE IF \E k \in DOMAIN o.fn : o.fn[k].f \notin Paired(c) \/ o.fn[k].g \notin 1..Len(F[o.fn[k].f].gt) THEN "false_negative_outside_paired_frames"
       ELSE IF Len(ps) + Len(o.fn) # Npig(c) THEN "gt_instances_not_conserved"
       ELSE LET perFrame(f) ==
                    LET sel == SelectSeq(ps, LAMBDA x : x.f = f)
                        fns == SelectSeq(o.fn, LAMBDA x : x.f = f)
                    IN MatchClause([G |-> Len(F[f].gt), P |-> Len(F[f].pr), sc |-> F[f].sc, ok |-> F[f].okr, thr |-> F[f].thrk],
                                   [pairs |-> sel, fn |-> Tup([k \in DOMAIN fns |-> fns[k].g])])
            IN FirstBad(Tup([f \in DOMAIN F |-> IF f \in Paired(c) THEN perFrame(f) ELSE "ok"]))

DistClause(c) ==
    LET o == c.obs
    IN IF Len(o.d16) # Len(o.pairs) THEN "dists_shape"
       ELSE IF \E k \in DOMAIN o.pairs : \E n \in 1..c.N :
                 o.d16[k][n] # NodeD16(c.frames[o.pairs[k].f].gt[o.pairs[k].g][n], c.frames[o.pairs[k].f].pr[o.pairs[k].p][n])
            THEN "pair_distance_value" ELSE "ok"

VocClause(c) ==
    LET o == c.obs
        n == Len(o.pairs)
        npig == Npig(c)
        ms == Tup([k \in 1..n |-> [sc |-> c.frames[o.pairs[k].f].sc[o.pairs[k].p], ok9 |-> o.pairs[k].ok9]])
        ties == HasScoreTies(ms)
        oks == SortedOks(ms)
        H == Range(c.tiehi)
        R == Tup([j \in 1..10 |-> VocRow(oks, npig, Thr9(j), H)])
        S7 == Tup([j \in 1..10 |-> RowSumQ(R[j], 7)])
        rowBad(j) ==
            LET q9 == EnvQ(R[j], 9)
            IN IF Abs(o.rec[j] - QRat(R[j].tp, npig, 9)) > 1 \/ o.AR[j] # o.rec[j] THEN "recall_value"
               ELSE IF ties THEN "ok"
               ELSE IF \E k \in 1..101 : Abs(o.prec[j][k] - (IF R[j].idx[k] = 0 THEN 0 ELSE q9[R[j].idx[k]])) > 1 THEN "precision_value"
               ELSE IF Abs(o.AP[j] \div 100 - S7[j] \div 101) > 2 THEN "AP_value"
               ELSE "ok"
    IN IF \E k \in 1..n : ~InUnit9(o.pairs[k].ok9) THEN "match_score_outside_0_1"
       ELSE IF Len(o.prec) # 10 \/ \E j \in 1..10 : Len(o.prec[j]) # 101 THEN "precisions_shape"
       ELSE IF FirstBad(Tup([j \in 1..10 |-> rowBad(j)])) # "ok" THEN FirstBad(Tup([j \in 1..10 |-> rowBad(j)]))
       ELSE IF ~ties /\ Abs(o.mAP \div 100 - SeqSum([j \in 1..10 |-> S7[j] \div 10]) \div 101) > 3 THEN "mAP_value"
       ELSE IF Abs(o.mAR - QRat(SeqSum([j \in 1..10 |-> R[j].tp]), 10 * npig, 9)) > 2 THEN "mAR_value"
       ELSE "ok"

BoundsClause(c) ==
    LET o == c.obs
        n == Len(o.pairs)
    IN IF \E j \in 1..10 : ~InUnit9(o.rec[j]) \/ ~InUnit9(o.AP[j]) \/ ~InUnit9(o.AR[j]) \/ \E k \in 1..101 : ~InUnit9(o.prec[j][k])
       THEN "voc_ratio_outside_0_1"
       ELSE IF ~InUnit9(o.mAP) \/ ~InUnit9(o.mAR) THEN "mean_voc_ratio_outside_0_1"
       ELSE IF ~RatioOk(o.moks, n) THEN "mOKS_outside_0_1"
       ELSE IF ~RatioOk(o.mpck, n) \/ \E x \in DOMAIN o.mpck_parts : ~RatioOk(o.mpck_parts[x], n) THEN "PCK_outside_0_1"
       ELSE IF ~RatioOk(o.vis.precision, o.vis.tp + o.vis.fp) \/ ~RatioOk(o.vis.recall, o.vis.tp + o.vis.fn) THEN "visibility_ratio_outside_0_1"
       ELSE "ok"

MonotoneClause(c) ==
    LET o == c.obs
    IN IF \E j \in 1..9 : o.AP[j] < o.AP[j + 1] THEN "AP_increases_with_match_threshold"
       ELSE IF \E j \in 1..9 : o.AR[j] < o.AR[j + 1] THEN "AR_increases_with_match_threshold"
       ELSE IF \E k \in 1..9 : o.pck[k] > o.pck[k + 1] THEN "PCK_decreases_with_pixel_threshold"
       ELSE "ok"

VisCount(c, gv, pv) ==
    LET o == c.obs
    IN Cardinality({<<k, n>> \in (DOMAIN o.pairs) \X (1..c.N) :
            Vis(c.frames[o.pairs[k].f].gt[o.pairs[k].g][n]) = gv /\ Vis(c.frames[o.pairs[k].f].pr[o.pairs[k].p][n]) = pv})

PckVisClause(c) ==
    LET o == c.obs
        n == Len(o.pairs)
        tp == VisCount(c, TRUE, TRUE)
        fp == VisCount(c, FALSE, TRUE)
        fn == VisCount(c, TRUE, FALSE)
        tn == VisCount(c, FALSE, FALSE)
    IN IF \E k \in 1..10 : o.pck[k] < PckLo(o.d16, k) \/ o.pck[k] > PckHi(o.d16, k) THEN "PCK_count"
       ELSE IF o.mpck.cls # "nan" /\ Abs(o.mpck.q - QRat(SeqSum(o.pck), n * c.N * 10, 9)) > 2 THEN "mPCK_value"
       ELSE IF <<o.vis.tp, o.vis.fp, o.vis.fn, o.vis.tn>> # <<tp, fp, fn, tn>> THEN "visibility_counts"
       ELSE IF o.vis.precision.cls # "nan" /\ Abs(o.vis.precision.q - QRat(tp, tp + fp, 9)) > 1 THEN "visibility_precision_value"
       ELSE IF o.vis.recall.cls # "nan" /\ Abs(o.vis.recall.q - QRat(tp, tp + fn, 9)) > 1 THEN "visibility_recall_value"
       ELSE IF Abs(o.moks.q \div 100 - SeqSum([k \in 1..n |-> o.pairs[k].ok9 \div 100]) \div n) > 2 THEN "mOKS_value"
       ELSE "ok"

\* predictions identical to the ground truth, frame by frame (some bijection of identical poses)
Perfect(c) ==
    \A f \in DOMAIN c.frames :
        LET F == c.frames[f]
        IN Len(F.gt) > 0 =>
            /\ F.haspr /\ Len(F.pr) = Len(F.gt)
            /\ \E b \in Bijection(1..Len(F.gt), 1..Len(F.pr)) : \A g \in 1..Len(F.gt) : F.pr[b[g]] = F.gt[g]
PerfectClause(c) ==
    LET o == c.obs
        n == Len(o.pairs)
        vis == VisCount(c, TRUE, TRUE)
    IN IF Len(o.fn) # 0 THEN "perfect_has_false_negative"
       ELSE IF o.moks.cls # "one" THEN "perfect_mOKS_not_1"
       ELSE IF \E k \in 1..n : \E x \in 1..c.N : o.d16[k][x] > 0 THEN "perfect_distance_not_0"
       ELSE IF o.dist_cls \notin {"zero", "nan"} THEN "perfect_distance_summary_not_0"
       ELSE IF \E j \in 1..10 : o.AP[j] < One9 - 1 \/ o.AR[j] # One9 THEN "perfect_AP_AR_not_1"
       ELSE IF o.mAP < One9 - 1 \/ o.mAR # One9 THEN "perfect_mAP_mAR_not_1"
       ELSE IF \E k \in 1..10 : o.pck[k] # vis THEN "perfect_PCK_not_visible_fraction"
       ELSE IF Abs(o.mpck.q - QRat(vis, n * c.N, 9)) > 2 THEN "perfect_mPCK_not_visible_fraction"
       ELSE "ok"

EvalClause(c) ==
    IF Paired(c) = {} THEN "ok"   \* no gt frame has a prediction frame: Evaluator refuses by design
    ELSE IF c.raised # "" THEN "evaluate_raised"
    ELSE IF ~c.reeval_same THEN "second_evaluate_differs_from_first"
    ELSE IF StructClause(c) # "ok" THEN StructClause(c)
    ELSE IF DistClause(c) # "ok" THEN DistClause(c)
    ELSE IF Len(c.obs.pairs) = 0 THEN (IF c.obs.empty THEN "ok" ELSE "no_pairs_but_voc_not_empty")
    ELSE IF c.obs.empty THEN "voc_empty_with_pairs"
    ELSE IF VocClause(c) # "ok" THEN VocClause(c)
    ELSE IF BoundsClause(c) # "ok" THEN BoundsClause(c)
    ELSE IF MonotoneClause(c) # "ok" THEN MonotoneClause(c)
    ELSE IF PckVisClause(c) # "ok" THEN PckVisClause(c)
    ELSE IF Perfect(c) THEN PerfectClause(c)
    ELSE "ok"

\* c.base, c.red: eval cases; c.keep[f] = base indices of the predictions kept in frame f
DelClause(c) ==
    LET b == c.base.obs
        r == c.red.obs
        up == {j \in 1..10 : r.AR[j] > b.AR[j]}
        sc(f, p) == c.base.frames[f].sc[p]
    IN IF c.base.raised # "" \/ c.red.raised # "" THEN "ok"
       ELSE IF up = {} THEN "ok"
       ELSE IF Len(r.pairs) + Len(r.fn) < Len(b.pairs) + Len(b.fn) THEN
            \* the known finding needs a ground-truth frame WITHOUT a prediction frame in the reduced labels; losing instances
            \* although every such frame still has its (possibly empty) prediction frame is something else
            (IF \E f \in DOMAIN c.red.frames : c.red.frames[f].ng > 0 /\ ~c.red.frames[f].haspr
             THEN "recall_up_frame_without_predictions_not_counted" ELSE "recall_up_ground_truth_instances_lost")
       ELSE IF \E j \in up : \E x \in DOMAIN b.pairs : \E y \in DOMAIN r.pairs :
                 /\ b.pairs[x].f = r.pairs[y].f /\ b.pairs[x].g = r.pairs[y].g
                 /\ b.pairs[x].p # c.keep[r.pairs[y].f][r.pairs[y].p]
                 /\ b.pairs[x].ok9 < Thr9(j) /\ r.pairs[y].ok9 >= Thr9(j)
                 /\ sc(b.pairs[x].f, b.pairs[x].p) >= sc(r.pairs[y].f, c.keep[r.pairs[y].f][r.pairs[y].p])
            THEN "recall_up_deleted_prediction_outranked_better_match"
       ELSE "recall_up_other"

Clause(c) == CASE c.kind = "eval" -> EvalClause(c)
               [] c.kind = "del" -> DelClause(c)
               [] OTHER -> "unknown_case_kind"
Check == i >= 1 => VGive(Cases[i].id, Clause(Cases[i]))
Report == VReport
=============================================================================
