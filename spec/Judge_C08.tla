---------------------------- MODULE Judge_C08 ----------------------------
(* Conformance of the real PAF grouping (C08).  kind "match": match_candidates_sample on a synthetic score
   matrix, judged by MatchClauseEdge (optimal one-to-one matching over usable pairs).  kind "predict":
   one sample of PAFScorer.predict with the OBSERVED line scores and matches: matching optimal per edge,
   instances = connected components of the accepted matches, partition, scores, filter - GroupingClause. *)
EXTENDS Grouping, Verdict, Json, IOUtils
Cases == JsonDeserialize(IOEnv.TRACE_FILE)
ASSUME VInit
VARIABLE i
Init == i = 0 /\ tree = <<>> /\ fifo = <<>> /\ ord = <<>> /\ emitted = {}
Next == i < Len(Cases) /\ i' = i + 1 /\ UNCHANGED tvars
SetOf(s) == {s[k] : k \in 1..Len(s)}
Clause(c) == IF c.raised # "" THEN "raised"
             ELSE IF c.kind = "match" THEN
                  (IF Len(c.matches) # Cardinality(SetOf(c.matches)) THEN "duplicate_match_records"
                   ELSE MatchClauseEdge(SetOf(c.cand), SetOf(c.matches), 1))
             ELSE IF ~IsTree(c.edges) THEN "input_not_a_tree"
             ELSE IF ~ValidOrder(c.edges, c.ord) THEN "edge_order_invalid"
             ELSE GroupingClause(c, Len(c.edges) + 1)
Check == i >= 1 => VGive(Cases[i].id, Clause(Cases[i]))
Report == VReport
=============================================================================
