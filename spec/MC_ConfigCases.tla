---------------------------- MODULE MC_ConfigCases ----------------------------
(* C20, spec -> code: the case space the real builders / constructors are driven through, computed
   and exported by TLC (JsonSerialize -> IOEnv.OUT_FILE), plus design sanity of the argument map
   against the REAL schema (IOEnv.SCHEMA_FILE): every argument path exists in the schema (schema
   and builders have not drifted apart), no two arguments share a path, every non-default value
   really differs from the signature default.

   Families (kind = "build" unless noted):
     singles  every single choice (simple argument value or structural value) on its own
     pairs    pairwise combinations of choices of two different arguments (Full: all value
              combinations; otherwise all structural x structural, and of the rest those with
              equal value indices whose choice numbers add up to a multiple of Stride);
              backbone x head is left to the grid
     auglists every ordered list without repetition of geometric names (326) and intensity names
              (65), the single-string forms, and geometric x intensity products (sampled)
     grid     head type (default, 4 strings, 4 dicts) x backbone (12 presets, 3 empty dicts,
              3 dicts with overrides) x pre-trained weights (none / one of the family)
     bad      one invalid value through the builders (must raise)
     ctor / oneof / weights   single-field values on the configuration classes themselves *)
EXTENDS Config, Json, IOUtils
CONSTANTS Full, Stride
SchemaFile == JsonDeserialize(IOEnv.SCHEMA_FILE)
SchemaD == SchemaFile.D
SchemaSub == SchemaFile.Sub

Default == <<"default">>
NoAug == <<"none">>
Base == [kind |-> "build", fam |-> "base", args |-> EmptyFn, bb |-> Default, head |-> Default, lrs |-> Default,
         aug |-> <<"off">>, pw |-> N]

\* ------------------------------------------------------------ structural values --------------
PresetSeq == <<"unet", "unet_medium_rf", "unet_large_rf", "convnext", "convnext_tiny", "convnext_small",
               "convnext_base", "convnext_large", "swint", "swint_tiny", "swint_small", "swint_base">>
BBDicts == <<
    <<"dict", "unet", EmptyFn>>,
    <<"dict", "unet", [in_channels |-> I(3), filters |-> I(64), max_stride |-> I(32), output_stride |-> I(2)]>>,
    <<"dict", "convnext", EmptyFn>>,
    <<"dict", "convnext", [model_type |-> S("small"), stem_patch_kernel |-> I(2), filters_rate |-> R(3, 2)]>>,
    <<"dict", "swint", EmptyFn>>,
    <<"dict", "swint", [model_type |-> S("base"), window_size |-> IL(<<5, 5>>), up_interpolate |-> B(FALSE)]>> >>
BBValues == [k \in DOMAIN PresetSeq |-> <<"preset", PresetSeq[k]>>] \o BBDicts
HeadSeq == <<"single_instance", "centroid", "centered_instance", "bottomup">>
HeadDicts == <<
    <<"dict", "single_instance", [confmaps |-> [part_names |-> L(<<S("a"), S("b")>>), sigma |-> R(5, 2), output_stride |-> I(2)]]>>,
    <<"dict", "centroid", [confmaps |-> [anchor_part |-> I(0), sigma |-> R(3, 1), output_stride |-> I(4)]]>>,
    <<"dict", "centered_instance", [confmaps |-> [part_names |-> N, anchor_part |-> I(1), sigma |-> R(5, 2), output_stride |-> I(2)]]>>,
    <<"dict", "bottomup", [confmaps |-> [sigma |-> R(5, 2), output_stride |-> I(4), loss_weight |-> R(1, 1)],
                           pafs |-> [edges |-> L(<<L(<<S("a"), S("b")>>)>>), sigma |-> R(10, 1), output_stride |-> I(8),
                                     loss_weight |-> R(1, 2)]]>> >>
HeadValues == [k \in DOMAIN HeadSeq |-> <<"str", HeadSeq[k]>>] \o HeadDicts
LRSValues == <<
    <<"str", "step_lr">>, <<"str", "reduce_lr_on_plateau">>,
    <<"dict", "step_lr", [step_size |-> I(5), gamma |-> R(1, 2)]>>,
    <<"dict", "reduce_lr_on_plateau", [threshold |-> R(1, 1000), threshold_mode |-> S("abs"), cooldown |-> I(2),
                                       patience |-> I(3), factor |-> R(1, 2), min_lr |-> R(1, 100000)]>>,
    \* the two-key form of LRSchedulerConfig (what a saved training_config.yaml holds), None first / None last
    <<"dict2", "reduce_lr_on_plateau", [patience |-> I(3), factor |-> R(1, 2)], "none_first">>,
    <<"dict2", "step_lr", [step_size |-> I(5)], "none_last">>,
    <<"dict2", "step_lr", [gamma |-> R(1, 4)], "none_first">> >>
AugValues == <<
    <<"on", NoAug, NoAug>>,
    <<"on", <<"list", <<"contrast", "brightness">>>>, <<"list", <<"scale", "mixup">>>>>>,
    <<"on", <<"str", "gaussian_noise">>, <<"str", "rotation">>>>,
    <<"on", <<"dict", [uniform_noise_min |-> R(1, 10), uniform_noise_max |-> R(9, 10), uniform_noise_p |-> One]>>,
            <<"dict", [rotation |-> R(180, 1), affine_p |-> One]>>>>,
    <<"on", <<"dict", [brightness |-> T(<<R(4, 5), R(6, 5)>>), brightness_p |-> R(1, 2), contrast_max |-> R(3, 1)]>>,
            <<"dict", [scale |-> L(<<R(1, 2), R(3, 2)>>), mixup_lambda |-> L(<<R(1, 50), R(1, 10)>>), erase_p |-> R(1, 4),
                       translate_width |-> Zero]>>>> >>
StructValues == [bb |-> BBValues, head |-> HeadValues, lrs |-> LRSValues, aug |-> AugValues]
StructNames == <<"bb", "head", "lrs", "aug">>

\* ------------------------------------------------------------ choices ------------------------
\* a choice is <<argument, value index, value, is structural>>; kept in SEQUENCES (values are heterogeneous)
ConcatAll(ss) == LET RECURSIVE go(_) go(k) == IF k > Len(ss) THEN <<>> ELSE ss[k] \o go(k + 1) IN go(1)
SimpleChoices == ConcatAll([r \in ArgRows |-> [k \in DOMAIN ArgTable[r][4] |-> <<ArgTable[r][1], k, ArgTable[r][4][k], FALSE>>]])
StructChoices == ConcatAll([s \in DOMAIN StructNames |->
                    [k \in DOMAIN StructValues[StructNames[s]] |-> <<StructNames[s], k, StructValues[StructNames[s]][k], TRUE>>]])
AllChoices == SimpleChoices \o StructChoices
Apply1(c, ch) ==
    IF ~ch[4] THEN [c EXCEPT !.args = (ch[1] :> ch[3]) @@ c.args]
    ELSE IF ch[1] = "bb" THEN [c EXCEPT !.bb = ch[3]]
    ELSE IF ch[1] = "head" THEN [c EXCEPT !.head = ch[3]]
    ELSE IF ch[1] = "lrs" THEN [c EXCEPT !.lrs = ch[3]]
    ELSE [c EXCEPT !.aug = ch[3]]
Singles == [k \in DOMAIN AllChoices |-> [Apply1(Base, AllChoices[k]) EXCEPT !.fam = "single"]]
PairOK(i, j) ==
    LET a == AllChoices[i]
        b == AllChoices[j]
    IN /\ i < j /\ a[1] # b[1]
       /\ {a[1], b[1]} # {"bb", "head"}     \* backbone x head is covered completely by Grid
       /\ (Full \/ (a[4] /\ b[4]) \/ (a[2] = b[2] /\ (i + j) % Stride = 0))
PairIdx == SetToSeq({p \in (DOMAIN AllChoices) \X (DOMAIN AllChoices) : PairOK(p[1], p[2])})
Pairs == [k \in DOMAIN PairIdx |-> [Apply1(Apply1(Base, AllChoices[PairIdx[k][1]]), AllChoices[PairIdx[k][2]]) EXCEPT !.fam = "pair"]]

\* ------------------------------------------------------------ augmentation lists -------------
GeoLists == SetToSeq(OrderedLists(GeoNames))
IntLists == SetToSeq(OrderedLists(IntNames))
GeoNameSeq == SetToSeq(GeoNames)
IntNameSeq == SetToSeq(IntNames)
AugCase(ia, ga, f) == [Base EXCEPT !.aug = <<"on", ia, ga>>, !.fam = f]
ProdOffsets == IF Full THEN <<1, 7, 23>> ELSE <<7>>
ProdGeo == IF Full THEN [k \in DOMAIN GeoLists |-> k] ELSE [k \in 1..(Len(GeoLists) \div 3) |-> 3 * k]
AugLists ==
       [k \in DOMAIN GeoLists |-> AugCase(NoAug, <<"list", GeoLists[k]>>, "geolist")]
    \o [k \in DOMAIN IntLists |-> AugCase(<<"list", IntLists[k]>>, NoAug, "intlist")]
    \o [k \in DOMAIN GeoNameSeq |-> AugCase(NoAug, <<"str", GeoNameSeq[k]>>, "geostr")]
    \o [k \in DOMAIN IntNameSeq |-> AugCase(<<"str", IntNameSeq[k]>>, NoAug, "intstr")]
    \o ConcatAll([o \in DOMAIN ProdOffsets |->
          [k \in DOMAIN ProdGeo |-> AugCase(<<"list", IntLists[((ProdGeo[k] * ProdOffsets[o]) % Len(IntLists)) + 1]>>,
                                            <<"list", GeoLists[ProdGeo[k]]>>, "auglistprod")]])

\* ------------------------------------------------------------ model grid ---------------------
HeadGrid == <<Default>> \o HeadValues
WeightOf == [unet |-> <<N>>, convnext |-> <<N, S("ConvNeXt_Tiny_Weights"), S("ConvNeXt_Large_Weights")>>,
             swint |-> <<N, S("Swin_T_Weights"), S("Swin_B_Weights")>>]
Grid == ConcatAll([b \in DOMAIN BBValues |-> ConcatAll([h \in DOMAIN HeadGrid |->
            [w \in DOMAIN WeightOf[BBFamily(BBValues[b])] |->
                [Base EXCEPT !.bb = BBValues[b], !.head = HeadGrid[h], !.pw = WeightOf[BBFamily(BBValues[b])][w], !.fam = "grid"]]])])

\* ------------------------------------------------------------ invalid values -----------------
Bad(c) == [c EXCEPT !.fam = "bad"]
WithArg(a, v) == Bad([Base EXCEPT !.args = (a :> v)])
BadBuilds == <<
    WithArg("scale", R(-1, 2)), WithArg("scale", S("big")), WithArg("scale", L(<<R(1, 2), R(-1, 2)>>)),
    WithArg("learning_rate", Zero), WithArg("learning_rate", R(-1, 1000)),
    WithArg("optimizer", S("SGD")), WithArg("optimizer", S("adam")),
    WithArg("trainer_num_devices", I(-1)), WithArg("trainer_num_devices", S("cuda")),
    WithArg("early_stopping_min_delta", R(-1, 10)), WithArg("early_stopping_patience", I(-1)),
    Bad([Base EXCEPT !.bb = <<"preset", "swint_large">>]), Bad([Base EXCEPT !.bb = <<"preset", "convnext_huge">>]),
    Bad([Base EXCEPT !.bb = <<"preset", "unet_small">>]),
    Bad([Base EXCEPT !.bb = <<"dict", "swint", [model_type |-> S("huge")]>>]),
    Bad([Base EXCEPT !.bb = <<"dict", "swint", [model_type |-> S("large")]>>]),
    Bad([Base EXCEPT !.lrs = <<"dict", "step_lr", [step_size |-> I(0)]>>]),
    Bad([Base EXCEPT !.lrs = <<"dict", "reduce_lr_on_plateau", [min_lr |-> R(-1, 10)]>>]),
    Bad([Base EXCEPT !.aug = <<"on", <<"dict", [contrast_p |-> R(3, 2)]>>, NoAug>>]),
    Bad([Base EXCEPT !.aug = <<"on", <<"dict", [brightness_p |-> F("nan")]>>, NoAug>>]),
    Bad([Base EXCEPT !.aug = <<"on", NoAug, <<"dict", [erase_p |-> F("nan")]>>>>]),
    Bad([Base EXCEPT !.aug = <<"on", <<"dict", [uniform_noise_min |-> R(-1, 10)]>>, NoAug>>]),
    Bad([Base EXCEPT !.aug = <<"on", NoAug, <<"dict", [affine_p |-> R(-1, 10)]>>>>]),
    Bad([Base EXCEPT !.aug = <<"on", NoAug, <<"dict", [mixup_p |-> R(2, 1)]>>>>]),
    Bad([Base EXCEPT !.pw = S("Swin_T_Weights")]),
    Bad([Base EXCEPT !.bb = <<"preset", "convnext">>, !.pw = S("Swin_T_Weights")]),
    Bad([Base EXCEPT !.bb = <<"preset", "swint_tiny">>, !.pw = S("ConvNeXt_Tiny_Weights")]),
    Bad([Base EXCEPT !.bb = <<"dict", "convnext", EmptyFn>>, !.pw = S("resnet50")]) >>

Ctor(cls, f, v) == [kind |-> "ctor", fam |-> "ctor", cls |-> cls, field |-> f, val |-> v]
ProbProbes == <<R(-1, 10), R(-1, 1), R(3, 2), R(101, 100), Zero, One, R(1, 2), R(999, 1000), I(2), I(-1), I(1), F("nan"), F("inf"), F("-inf")>>
ProbFieldSeq == SetToSeq(ProbFields)
ScaleProbes == <<F("nan"), R(-1, 2), R(-1, 1000), S("big"), N, L(<<R(1, 2), R(-1, 2)>>), L(<<S("x")>>), I(-2),
                 Zero, R(1, 2), One, R(2, 1), L(<<R(1, 2), R(1, 2)>>), I(1), T(<<R(1, 2), R(1, 2)>>)>>
SizeProbes == <<S("tiny"), S("small"), S("base"), S("large"), S("huge"), S("Tiny"), S("")>>
CtorCases ==
       ConcatAll([f \in DOMAIN ProbFieldSeq |-> [k \in DOMAIN ProbProbes |-> Ctor(ProbFieldSeq[f][1], ProbFieldSeq[f][2], ProbProbes[k])]])
    \o [k \in DOMAIN ScaleProbes |-> Ctor("PreprocessingConfig", "scale", ScaleProbes[k])]
    \o [k \in DOMAIN SizeProbes |-> Ctor("SwinTConfig", "model_type", SizeProbes[k])]
    \o [k \in DOMAIN SizeProbes |-> Ctor("ConvNextConfig", "model_type", SizeProbes[k])]
    \o << Ctor("TrainerConfig", "optimizer_name", S("Adam")), Ctor("TrainerConfig", "optimizer_name", S("AdamW")),
          Ctor("TrainerConfig", "optimizer_name", S("SGD")), Ctor("TrainerConfig", "optimizer_name", S("")),
          Ctor("TrainerConfig", "trainer_devices", I(0)), Ctor("TrainerConfig", "trainer_devices", I(8)),
          Ctor("TrainerConfig", "trainer_devices", I(-1)), Ctor("TrainerConfig", "trainer_devices", S("auto")),
          Ctor("TrainerConfig", "trainer_devices", S("cuda")), Ctor("TrainerConfig", "trainer_devices", IL(<<0, 1>>)),
          Ctor("TrainerConfig", "trainer_devices", IL(<<0, -1>>)), Ctor("TrainerConfig", "trainer_devices", R(1, 2)),
          Ctor("OptimizerConfig", "lr", F("nan")), Ctor("EarlyStoppingConfig", "min_delta", F("nan")), Ctor("IntensityConfig", "uniform_noise_min", F("nan")),
          Ctor("OptimizerConfig", "lr", R(1, 1000)), Ctor("OptimizerConfig", "lr", Zero), Ctor("OptimizerConfig", "lr", R(-1, 1000)),
          Ctor("StepLRConfig", "step_size", I(1)), Ctor("StepLRConfig", "step_size", I(0)), Ctor("StepLRConfig", "step_size", I(-5)),
          Ctor("EarlyStoppingConfig", "min_delta", Zero), Ctor("EarlyStoppingConfig", "min_delta", R(-1, 100)),
          Ctor("EarlyStoppingConfig", "patience", I(0)), Ctor("EarlyStoppingConfig", "patience", I(-1)),
          Ctor("IntensityConfig", "uniform_noise_min", Zero), Ctor("IntensityConfig", "uniform_noise_min", R(-1, 10)),
          Ctor("IntensityConfig", "uniform_noise_max", One), Ctor("IntensityConfig", "uniform_noise_max", R(11, 10)),
          Ctor("IntensityConfig", "contrast_min", R(-1, 2)), Ctor("IntensityConfig", "contrast_max", R(-1, 2)),
          Ctor("IntensityConfig", "contrast_max", R(3, 1)),
          Ctor("ReduceLROnPlateauConfig", "min_lr", Zero), Ctor("ReduceLROnPlateauConfig", "min_lr", R(-1, 100)),
          Ctor("ReduceLROnPlateauConfig", "min_lr", L(<<R(1, 100), R(-1, 100)>>)) >>
BBFamSeq == <<"unet", "convnext", "swint">>
OrderedSubsets(s) == {t \in UNION {[1..k -> Range(s)] : k \in 0..Len(s)} :
                  \A i, j \in DOMAIN t : i < j => (CHOOSE a \in DOMAIN s : s[a] = t[i]) < (CHOOSE a \in DOMAIN s : s[a] = t[j])}
Oneof(cls, members) == [kind |-> "oneof", fam |-> "oneof", cls |-> cls, members |-> members]
OneofCases == LET bs == SetToSeq(OrderedSubsets(BBFamSeq))
                  hs == SetToSeq(OrderedSubsets(HeadSeq))
              IN [k \in DOMAIN bs |-> Oneof("BackboneConfig", bs[k])] \o [k \in DOMAIN hs |-> Oneof("HeadConfig", hs[k])]
AllWeights == <<N>> \o [k \in 1..Cardinality(ConvNextWeights) |-> S(SetToSeq(ConvNextWeights)[k])]
                    \o [k \in 1..Cardinality(SwinTWeights) |-> S(SetToSeq(SwinTWeights)[k])]
                    \o <<S("ResNet50_Weights"), S("")>>
Weights(f, w) == [kind |-> "weights", fam |-> "weights", bbfam |-> f, val |-> w]
WeightCases == ConcatAll([f \in DOMAIN BBFamSeq |-> [k \in DOMAIN AllWeights |-> Weights(BBFamSeq[f], AllWeights[k])]])

AllCases == <<Base>> \o Singles \o Pairs \o AugLists \o Grid \o BadBuilds \o CtorCases \o OneofCases \o WeightCases

\* ------------------------------------------------------------ design sanity ------------------
SchemaPaths == DOMAIN SchemaD \cup DOMAIN SchemaSub["early_stopping"]
ASSUME ArgPathsDisjoint
ASSUME \A a \in Args : ArgPaths[a] \subseteq SchemaPaths
ASSUME \A a \in Args : \A k \in DOMAIN ArgValues[a] : Canon(ArgValues[a][k]) # Canon(SigDefault[a])
ASSUME \A a \in Args : Len(ArgValues[a]) \in {1, 2}
\* every preset delta / dict override names a field of its family's schema
ASSUME \A p \in Presets : DOMAIN Over(BBPath(PresetFamily[p]), PresetDelta[p]) \subseteq DOMAIN SchemaSub[PresetFamily[p]]
VerdictOf(c) == IF c.kind = "ctor" THEN FieldVerdict(c.cls, c.field, c.val)
                ELSE IF c.kind = "oneof" THEN OneofVerdict(c.members)
                ELSE IF c.kind = "weights" THEN WeightsVerdict(c.bbfam, c.val) ELSE "build"
\* (AllCases is bound once: TLC re-evaluates a top-level definition at every reference)
ASSUME LET cs == AllCases
           fams == [k \in DOMAIN cs |-> cs[k].fam]
           vs == [k \in DOMAIN cs |-> VerdictOf(cs[k])]
           Count(f) == Cardinality({k \in DOMAIN cs : fams[k] = f})
           CountV(v) == Cardinality({k \in DOMAIN cs : vs[k] = v})
       IN /\ \A k \in DOMAIN cs : cs[k].kind = "build" => (cs[k].fam = "bad") = (RejectReason(cs[k]) # "")
          /\ PrintT(<<"CASES", Len(cs), Len(AllChoices), Count("single"), Count("pair"), Count("geolist"), Count("intlist"),
                      Count("auglistprod"), Count("grid"), Count("bad"), CountV("reject"), CountV("accept"), CountV("either")>>)
          /\ JsonSerialize(IOEnv.OUT_FILE, cs)

VARIABLE x
Init == x = 0
Next == UNCHANGED x
=============================================================================
