---------------------------- MODULE MC_CaseSpace_C17 ----------------------------
(* Exhaustiveness of the C17 replay, decided by TLC: the set of edge lists the driver fed to the
   real code equals the spec's case space (all listings of all rooted labelled trees, 2..MaxN). *)
EXTENDS MC_Toposort, Json, IOUtils
Fed == JsonDeserialize(IOEnv.TRACE_FILE)
ASSUME PrintT(<<"CASESPACE", Cardinality(Trees), Cardinality(Range(Fed)), Range(Fed) = Trees>>)
ASSUME Range(Fed) = Trees
CInit == Init
CNext == UNCHANGED tvars
=============================================================================
