---------------------------- MODULE MC_ArchClasses ----------------------------
(* Counter-run of the C14 design check: with the lines AS CODED the invariant AsCodedDesignOK MUST be
   violated.  Also prints how many Valid configurations the tree as coded gets right and lists the
   rate-3/2 rounding class exactly (projection on the fields it depends on). *)
EXTENDS MC_Arch
RoundingSet == {<<c.f, c.ms, c.os, c.hs>> :
                   c \in {d \in ValidSet : IsUNet(d) /\ d.cpb = 2 /\ d.mid /\ d.upi /\ d.stem = 0 /\ d.mt \in {"centroid", "bottomup"}
                                           /\ AsCodedOutcome(d) = "head_in_channels"}}
ASSUME PrintT(<<"ASCODED_OK", Cardinality({c \in ValidSet : AsCodedOutcome(c) = "ok"})>>)
ASSUME PrintT(<<"ROUNDING", RoundingSet>>)
=============================================================================
