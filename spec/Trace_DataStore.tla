---------------------------- MODULE Trace_DataStore ----------------------------
(* Batch validation of real Dataset histories against DataStore (C11).

   A trace is [id, cfg, lab, ev]:
     cfg  [cls, chunks, anchor, uio, ident]   ident = 1: identity pipeline (scale 1, no size matching), the
                                              stored key points of the frame-level classes ARE the label's
     lab  the label set given to the dataset: frames of instances [k, p] with p = <<x4, y4, v>> triples
     ev   events, each an observation of the real objects AFTER the call returned:
       [op "build", raised, len = len(dataset), src = frame (1-based position in labels) of every sample,
        pts = key-point rows of every cache entry / .npz file, lab, mem]
       [op "get", i (1-based), raised, res, cache, pts = key-point rows of the returned sample,
        zero / pzero = 1 for map channels (PAF channel pairs) that are identically zero, lab, mem]
       [op "call", f, raised, cache, lab, mem]   a helper of the functional API applied to the tensors of
        the sample returned last (in memory mode the frame-level classes return the cached tensors)
     lab   = 0 iff every label array (key points of every original instance, every video frame) is unchanged
     mem   = the frames' current instance lists (indices of the original instances, 0 = foreign object)
     cache = per index 0 iff the cache entry (.npz content) equals its value right after construction
     res   = 0 iff the returned sample equals the sample a FRESH dataset returns for that index as its
             first read (same keys, shapes, NaN masks, allclose) - so equal indices give equal samples
             regardless of history, within a trace and across the traces of a configuration.

   Every event must be the corresponding DataStore action from the current state (Build computes the
   expected sources / rows from the labels; GetItem needs an index in range) and the observation must
   agree with the specification state: nothing mutated, Len, Missing => NaN and zero channel. *)
EXTENDS DataStore, Verdict, Json, IOUtils
Traces == JsonDeserialize(IOEnv.TRACE_FILE)
ASSUME VInit
VARIABLES tid, l
Ev == Traces[tid].ev
LabelsOfTrace(c) == Traces[tid].lab
Init == /\ tid \in 1..Len(Traces) /\ l = 1
        /\ DSInit({Traces[tid].cfg}, LabelsOfTrace)

IsEvent(k) == l <= Len(Ev) /\ Ev[l].op = k /\ l' = l + 1 /\ tid' = tid
TBuild == IsEvent("build") /\ Build(FALSE)
TGet == IsEvent("get") /\ GetItem(Ev[l].i)
TCall == IsEvent("call") /\ Call(Ev[l].f)
Next == TBuild \/ TGet \/ TCall

FirstBad(n, M(_)) == LET bad == {k \in 1..n : M(k) # "ok"} IN IF bad = {} THEN "ok" ELSE M(Min(bad))

BuildClause(e) ==
    IF e.len # Len(cache) \/ Len(e.pts) # Len(cache) \/ Len(e.src) # Len(cache) THEN "len_differs_from_number_of_nonempty"
    ELSE IF \E k \in 1..Len(cache) : e.src[k] # cache[k].src[1] THEN "sample_source_differs"
    ELSE LET m == FirstBad(Len(cache), LAMBDA k : MissingClause(cfg, labels, cache[k].src, e.pts[k], <<>>, <<>>))
         IN IF m # "ok" THEN m
            ELSE IF cfg.ident = 1 /\ FrameLevel(cfg)
                 THEN FirstBad(Len(cache), LAMBDA k : AlteredClause(cfg, labels, cache[k].src, e.pts[k]))
                 ELSE "ok"
GetClause(e) ==
    IF Len(e.cache) # Len(cache) \/ (\E k \in 1..Len(e.cache) : e.cache[k] # 0) THEN "cache_changed_by_getitem"
    ELSE IF e.res # 0 THEN "same_index_different_sample"
    ELSE LET m == MissingClause(cfg, labels, cache[e.i].src, e.pts, e.zero, e.pzero)
         IN IF m # "ok" THEN m
            ELSE IF cfg.ident = 1 /\ FrameLevel(cfg) THEN AlteredClause(cfg, labels, cache[e.i].src, e.pts)
            ELSE "ok"
FullMember == [f \in 1..Len(labels) |-> Idx(labels[f])]
ObsClause(e) ==
    IF e.raised # "" THEN "raised"
    ELSE IF e.lab # 0 THEN "labels_changed_by_" \o e.op
    \* the frames' instance lists: the code as pinned filters them IN PLACE to the user instances while building
    \* (`member`); leaving the Labels object untouched (FullMember) conforms to the property just as well.  What
    \* no later read or call may do is change them again.
    ELSE IF e.op = "build" /\ (Len(e.mem) # Len(labels) \/ \E f \in 1..Len(labels) : e.mem[f] # member[f] /\ e.mem[f] # FullMember[f])
         THEN "instance_list_differs_after_build"
    ELSE IF e.op # "build" /\ e.mem # Ev[1].mem THEN "instance_list_changed_after_" \o e.op
    ELSE IF e.op = "build" THEN BuildClause(e)
    ELSE IF e.op = "get" THEN GetClause(e)
    ELSE IF Len(e.cache) # Len(cache) \/ (\E k \in 1..Len(e.cache) : e.cache[k] # 0) THEN "cache_changed_by_call"
    ELSE "ok"

\* like Verdict!VReject but without the cap on recorded ids: while a defect is present many histories are
\* rejected for it, and a different violation must never be crowded out of the report
Reject(id, clause) == TLCSet(3, TLCGet(3) + 1) /\ TLCSet(1, TLCGet(1) \cup {<<id, clause>>})
Check ==
    LET id == Traces[tid].id IN
    IF l > 1 /\ ObsClause(Ev[l - 1]) # "ok"
    THEN Reject(id, ObsClause(Ev[l - 1]) \o "_at_event_" \o ToString(l - 1)) /\ FALSE
    ELSE IF l > Len(Ev) THEN VAccept
    ELSE IF ENABLED Next THEN TRUE
    ELSE Reject(id, "no_spec_step_for_event_" \o ToString(l)) /\ FALSE
Report == VReport
=============================================================================
