---------------------------- MODULE MC_Toposort ----------------------------
(* Design check for C17: for every rooted labelled tree on 2..MaxN nodes and every listing
   (permutation) of its edges, every run of the breadth-first edge ordering is a ValidOrder. *)
EXTENDS Grouping
CONSTANT MaxN

\* all parent maps on nodes 0..n-1 with root r
ParentMaps(n, r) == [((0..(n - 1)) \ {r}) -> 0..(n - 1)]
EdgeSetOf(p) == {<<p[v], v>> : v \in DOMAIN p}
Listings(E) == {s \in [1..Cardinality(E) -> E] : Range(s) = E}
TreeSpace == UNION {UNION {UNION {Listings(EdgeSetOf(p)) : p \in ParentMaps(n, r)} : r \in 0..(n - 1)} : n \in 2..MaxN}
Trees == {t \in TreeSpace : IsTree(t)}

Init == TInit(Trees)
Next == TNext
=============================================================================
