---------------------------- MODULE MC_Arch ----------------------------
(* Design check for C14 over the whole configuration grid (one TLC run; cfg is chosen in Init
   and never changes).

   Grid: UNet  max_stride {8,16,32} x output_stride {1,2,4,8,16} x stem_stride {None,2,4} x
               filters_rate {3/2, 2} x filters in Filters x convs_per_block {1,2,3} x
               up_interpolate x middle_block
         ConvNeXt / SwinT  (tiny: 96 channels, custom: 8) x max_stride {16,32} x
               stem_patch_stride {2,4} x output_stride {1,2,4,8} x filters_rate {3/2, 2} x up_interpolate
         each x head type {single_instance, centered_instance, centroid} x head stride
               {1,..,32}  and  bottomup x every (confmaps stride, pafs stride) pair.
   Of these, InGrid = Valid \cup Boundary is what the property can speak about.

   Invariants (evaluated once the model is built):
     RepairedDesignOK    the C14 arithmetic holds for every Valid configuration (Repaired lines)
     AsCodedClassified   the tree as coded satisfies it exactly outside the three UNet / Model
                         defect classes, and fails in the predicted step inside them
     BoundaryNeverBuilds for Boundary configurations no decoder output carries the head's stride
     NoRoundingTies      round() in Model.__init__ never sees an exact half
   Counter-model: AsCodedDesignOK must be violated (run through MC_ArchClasses, which also lists
   the classes).  MC_ArchExport writes InGrid for the driver, MC_ArchCover checks what was fed. *)
EXTENDS Arch
CONSTANT Filters

StrideVals == {1, 2, 4, 8, 16, 32}
HeadChoices == {[mt |-> m, hs |-> <<s>>] : m \in {"single_instance", "centered_instance", "centroid"}, s \in StrideVals}
               \cup {[mt |-> "bottomup", hs |-> <<a, b>>] : a \in StrideVals, b \in StrideVals}
Mk(bb, arch, ms, os, stem, fr, f, cpb, upi, mid, h) ==
    [bb |-> bb, arch |-> arch, ms |-> ms, os |-> os, stem |-> stem, fr |-> fr, f |-> f, cpb |-> cpb,
     upi |-> upi, mid |-> mid, mt |-> h.mt, hs |-> h.hs, parts |-> 3, edges |-> 2]
UNetGrid == {Mk("unet", "unet", ms, os, stem, fr, f, cpb, upi, mid, h) :
                ms \in {8, 16, 32}, os \in {1, 2, 4, 8, 16}, stem \in {0, 2, 4}, fr \in {<<3, 2>>, <<2, 1>>},
                f \in Filters, cpb \in {1, 2, 3}, upi \in BOOLEAN, mid \in BOOLEAN, h \in HeadChoices}
WrapGrid == {Mk(bb, a[1], ms, os, stem, fr, a[2], 2, upi, TRUE, h) :
                bb \in {"convnext", "swint"}, a \in {<<"tiny", 96>>, <<"custom", 8>>}, ms \in {16, 32},
                os \in {1, 2, 4, 8}, stem \in {2, 4}, fr \in {<<3, 2>>, <<2, 1>>}, upi \in BOOLEAN, h \in HeadChoices}
Grid == UNetGrid \cup WrapGrid
ValidSet == {c \in Grid : Valid(c)}
BoundarySet == {c \in Grid : Boundary(c)}

Init == ArchInit(ValidSet \cup BoundarySet)
Next == Build

\* closed-form description of where the tree as coded goes wrong (what AsCodedClassified proves)
Predicted(c) ==
    IF IsUNet(c) /\ c.cpb = 1 /\ c.mid THEN {"encoder_conv_in_channels"}
    ELSE IF IsUNet(c) /\ ~c.mid THEN {IF c.upi THEN "decoder_conv_in_channels" ELSE "decoder_tconv_in_channels"}
    ELSE IF ~IsUNet(c) THEN (IF c.os > c.stem THEN {"head_in_channels"} ELSE {"ok"})
    ELSE IF c.fr = <<2, 1>> THEN {"ok"}
    ELSE {"ok", "head_in_channels"}      \* rate 3/2: int() and round() may disagree (set printed below)

RepairedDesignOK == (built /\ Valid(cfg)) => DesignClause(cfg, Repaired) = "ok"
AsCodedDesignOK == (built /\ Valid(cfg)) => DesignClause(cfg, AsCoded) = "ok"
AsCodedClassified == (built /\ Valid(cfg)) =>
    /\ DesignClause(cfg, AsCoded) \in Predicted(cfg)
    /\ AsCodedOutcome(cfg) = DesignClause(cfg, AsCoded)
BoundaryNeverBuilds == (built /\ Boundary(cfg)) =>
    /\ AsCodedOutcome(cfg) # "ok"
    /\ \A R \in {AsCoded, Repaired} : \E k \in 1..Len(cfg.hs) : ~InSeq(Run(cfg, R, cfg.ms, cfg.ms).strides, cfg.hs[k])

\* Python's round() is half-to-even, RoundDiv is half-up: they agree because the quotient in
\* Model.__init__ is never exactly k + 1/2
NoRoundingTies == (built /\ InGrid(cfg)) =>
    LET bb == Backbone(cfg, AsCoded, cfg.ms, cfg.ms)
        U == Len(bb.blocks)
        a == bb.maxch * Pow(cfg.fr[2], U)
        b == Pow(cfg.fr[1], U)
    IN (2 * a) % (2 * b) # b

ASSUME PrintT(<<"GRID", Cardinality(Grid), Cardinality(ValidSet), Cardinality(BoundarySet)>>)
=============================================================================
