---------------------------- MODULE Frameworks ----------------------------
(* The three user-selectable data frameworks as three BEHAVIOURS of the same stage actions (the "framework
   behaviours" layer of DataPlane, property C18).  The stage actions are the ones of Geometry.tla (C04) -
   SizeMatch, Resize, Centroid, OverCrop, ReCrop, PadToStride - plus the steps only C18 talks about:
   the cache / chunk store (where the image, and only the image, goes through 8 bits), the re-crop of the
   streaming dataset at int(crop * scale), and drawing the targets (when, on which grid, from which points).

   Code mapped (sleap_nn/data), orders transcribed from the code and its docstrings ("Note: If scale is provided
   for centered-instance model, the images are cropped out from the scaled image" - custom_datasets;
   "...cropped out of original image ... and then the cropped images are scaled" - the chunk / DataPipe path):

     InMemory     custom_datasets.*Dataset(np_chunks = False)   _fill_cache ... [Cache]  ... __getitem__
     NpChunks     custom_datasets.*Dataset(np_chunks = True)    _fill_cache ... [Chunk8] ... __getitem__
                  (ToPILImage -> np.savez_compressed -> np.load -> Image.fromarray -> ToTensor)
     ChunkStream  get_data_chunks.*_data_chunks ... [Chunk8] ... streaming_datasets.*StreamingDataset.__getitem__
                  (ToPILImage -> litdata chunk -> PILToTensor -> apply_normalization)

     model      InMemory / NpChunks                                   ChunkStream
     single     SizeMatch Resize PadToStride [store] Confmaps         SizeMatch Resize [store] PadToStride Confmaps
     bottomup   SizeMatch Resize PadToStride [store] MultiConfmaps    SizeMatch Resize [store] PadToStride MultiConfmaps
                PAFs                                                  PAFs
     centroid   SizeMatch Resize Centroid PadToStride [store]         SizeMatch Centroid Resize(image, centroids) [store]
                MultiConfmaps                                         PadToStride MultiConfmaps
     centered   SizeMatch Resize Centroid OverCrop [store] ReCrop     SizeMatch Centroid OverCrop Resize(crop, instance)
                PadToStride Confmaps                                  [store] ReCropScaled PadToStride Confmaps
                                                                      (the stored centroid is NOT resized: Geometry!Resize
                                                                       leaves cen alone - exactly what the code does)

   One TLC behaviour runs the three framework behaviours of one configuration one after the other
   (cfg.pipe = InMemory o <<Restart>> o NpChunks o <<Restart>> o ChunkStream o <<Restart>>, cfg never changes);
   Restart files the final abstract sample under fin and puts the raw frame back.  When the pipe is done:

     Agree                  Demanded(cfg) => the three final samples are the same       (THE THEOREM)
     ExclusionIsDivergence  ~Demanded(cfg) => they are NOT the same: the property's exclusion (centered-instance at
                            scale # 1) is exactly where the documented orders diverge
     AgreeEverywhere        (counter-model, must be violated) the same without the exclusion
     CacheTransparent       InMemory and NpChunks always agree (same code, only the store differs)
     OnlyChunksQuantise     the in-memory image never goes through 8 bits, the other two do, exactly once

   "The same" (SameSample): image size, every keypoint / centroid (position as coded, visibility), the position of
   the image CONTENT under every label (so an image that was not resized with its keypoints is a difference), and
   the targets (kind, grid size, number of instances used, the points they were drawn from).  The 8-bit flag is
   NOT compared: the property allows 8-bit image quantisation.  Positions are compared with TolSame (1/256 px):
   the integer "as coded" arithmetic rounds differently when mid point and scaling are swapped.

   Block mode (cfg.mode = "block"): the legacy DataPipe block and its functional counterpart as two one-stage
   behaviours from the same sample; BlockAgree: Block(b) == Function(b) wherever BlockDemanded.  All blocks of
   the property wrap the same stage as their function; the SizeMatcher block (not in the property's list) only
   pads where apply_sizematcher resizes and pads - they agree exactly when the limiting ratio is 1. *)
EXTENDS Geometry

VARIABLES q,      \* the image of the current behaviour went through uint8 (count of round trips)
          tgt,    \* targets drawn in the current behaviour: sequence of [kind, gh, gw, n, src]
          fin     \* final samples of the finished behaviours (in pipe order)
fvars == <<gvars, q, tgt, fin>>
mine == <<q, tgt, fin>>

TolSame == 4
Models == {"single", "centroid", "centered", "bottomup"}
FwNames == <<"InMemory", "NpChunks", "ChunkStream">>

\* ------------------------------------------------------------------ documented orders --------------
Store(fw) == IF fw = "InMemory" THEN "Cache" ELSE "Chunk8"
DatasetPipe(model, fw) ==       \* custom_datasets: _fill_cache ... store ... __getitem__
    CASE model = "single"   -> <<"Read", "Normalize", "SizeMatch", "Resize", "PadToStride", Store(fw), "Confmaps", "Sample">>
      [] model = "bottomup" -> <<"Read", "Normalize", "SizeMatch", "Resize", "PadToStride", Store(fw), "MultiConfmaps", "PAFs", "Sample">>
      [] model = "centroid" -> <<"Read", "Normalize", "SizeMatch", "Resize", "Centroid", "PadToStride", Store(fw), "MultiConfmaps", "Sample">>
      [] model = "centered" -> <<"Read", "Normalize", "SizeMatch", "Resize", "Centroid", "OverCrop", Store(fw), "ReCrop", "PadToStride", "Confmaps", "Sample">>
StreamPipe(model) ==            \* get_data_chunks ... chunk ... streaming_datasets.__getitem__
    CASE model = "single"   -> <<"Read", "Normalize", "SizeMatch", "Resize", "Chunk8", "PadToStride", "Confmaps", "Sample">>
      [] model = "bottomup" -> <<"Read", "Normalize", "SizeMatch", "Resize", "Chunk8", "PadToStride", "MultiConfmaps", "PAFs", "Sample">>
      [] model = "centroid" -> <<"Read", "Normalize", "SizeMatch", "Centroid", "Resize", "Chunk8", "PadToStride", "MultiConfmaps", "Sample">>
      [] model = "centered" -> <<"Read", "Normalize", "SizeMatch", "Centroid", "OverCrop", "Resize", "Chunk8", "ReCropScaled", "PadToStride", "Confmaps", "Sample">>
FwPipe(model, fw) == IF fw = "ChunkStream" THEN StreamPipe(model) ELSE DatasetPipe(model, fw)
FrameworksPipe(model) == FwPipe(model, "InMemory") \o <<"Restart">> \o FwPipe(model, "NpChunks") \o <<"Restart">>
                         \o FwPipe(model, "ChunkStream") \o <<"Restart">>

Blocks == {"Normalizer", "SizeMatcher", "Resizer", "PadToStride", "InstanceCentroidFinder", "InstanceCropper",
           "ConfidenceMapGenerator", "MultiConfidenceMapGenerator", "PartAffinityFieldsGenerator"}
BlockStages(b) ==               \* <<what the DataPipe block does, what its functional counterpart does>>
    CASE b = "Normalizer"                  -> << <<"Normalize">>, <<"Normalize">> >>            \* apply_normalization + convert_to_*
      [] b = "SizeMatcher"                 -> << <<"SizeMatchPad">>, <<"SizeMatch">> >>         \* apply_sizematcher
      [] b = "Resizer"                     -> << <<"Resize">>, <<"Resize">> >>                  \* apply_resizer
      [] b = "PadToStride"                 -> << <<"PadToStride">>, <<"PadToStride">> >>        \* apply_pad_to_stride
      [] b = "InstanceCentroidFinder"      -> << <<"Centroid">>, <<"Centroid">> >>              \* generate_centroids
      [] b = "InstanceCropper"             -> << <<"Centroid", "Crop">>, <<"Centroid", "Crop">> >>   \* generate_crops
      [] b = "ConfidenceMapGenerator"      -> << <<"Confmaps">>, <<"Confmaps">> >>              \* generate_confmaps
      [] b = "MultiConfidenceMapGenerator" -> << <<"MultiConfmaps">>, <<"MultiConfmaps">> >>    \* generate_multiconfmaps
      [] b = "PartAffinityFieldsGenerator" -> << <<"PAFs">>, <<"PAFs">> >>                      \* generate_pafs
BlockPipe(b) == <<"Read">> \o BlockStages(b)[1] \o <<"Sample", "Restart", "Read">> \o BlockStages(b)[2] \o <<"Sample", "Restart">>

\* cfg: the Geometry fields (h, w, maxH, maxW, sn, sd, m, crH, crW, anchor, inst, track, kp0, pipe) and
\*      mode ("frameworks" | "block"), model, block, os / ps (output strides of confidence maps / PAFs),
\*      tie (0 | 1: which neighbour Python's round() takes on an exact .5 - the same in every framework)
PipeOf(c) == IF c.mode = "block" THEN BlockPipe(c.block) ELSE FrameworksPipe(c.model)

\* ------------------------------------------------------------------ initial state, restart ---------
RawImg == [h |-> cfg.h, w |-> cfg.w, vw |-> cfg.w * P, vh |-> cfg.h * P, crop |-> FALSE]
RawPts == [i \in 1..Len(cfg.kp0) |-> Pt(<<cfg.kp0[i][1], cfg.kp0[i][2]>>, cfg.kp0[i][3] = 1, cfg.kp0[i][4], cfg.kp0[i][5])]
FInit(Configs) == GInit(Configs) /\ q = 0 /\ tgt = <<>> /\ fin = <<>>

Final == [h |-> img.h, w |-> img.w, q |-> q, pts |-> pts, cen |-> cen, tgt |-> tgt]
Restart ==
    /\ Step("Restart")
    /\ fin' = Append(fin, Final)
    /\ img' = RawImg /\ pts' = RawPts /\ cen' = <<>> /\ q' = 0 /\ tgt' = <<>>

\* ------------------------------------------------------------------ stages ------------------------
Keep3 == UNCHANGED mine
FRead == Read /\ Keep3
FSample == Sample /\ Keep3
FNormalize == Step("Normalize") /\ UNCHANGED <<img, pts, cen>> /\ Keep3       \* pixels only: /255, gray <-> rgb
\* apply_sizematcher: the target is round() of the scaled size; on an exact tie cfg.tie names the neighbour
SMPick == LET ws == {t[1] : t \in SMTargets}
              hs == {t[2] : t \in SMTargets}
          IN IF cfg.tie = 0 THEN <<SetMin(ws), SetMin(hs)>> ELSE <<SetMax(ws), SetMax(hs)>>
FSizeMatch == SizeMatch(SMPick[1], SMPick[2]) /\ Keep3
FSizeMatchPad == SizeMatchPad /\ Keep3
FResize == Resize /\ Keep3
FPadToStride == PadToStride /\ Keep3
FCentroid == Centroid /\ Keep3
FCrop == Crop /\ Keep3
FOverCrop == OverCrop /\ Keep3
FReCrop == ReCrop /\ Keep3
\* CenteredInstanceStreamingDataset: self.crop_hw = [int(x * input_scale) for x in crop_hw], about the stored centroid
FReCropScaled == /\ Step("ReCropScaled")
                 /\ CropAbout((cfg.crH * cfg.sn) \div cfg.sd, (cfg.crW * cfg.sn) \div cfg.sd)
                 /\ Keep3
\* the store: the in-memory cache keeps the float tensors; the .npz / litdata chunk keeps the image as 8-bit PIL
\* and every other array as it is
FCache == Step("Cache") /\ UNCHANGED <<img, pts, cen>> /\ Keep3
FChunk8 == Step("Chunk8") /\ q' = q + 1 /\ UNCHANGED <<img, pts, cen, tgt, fin>>

\* targets: make_grid_vectors = arange(0, size, stride): ceil(size / stride) cells; drawn from the points as they are NOW
Cells(n, s) == (n + s - 1) \div s
Drawn(S) == [i \in 1..Len(pts) |-> IF i \in S THEN <<pts[i].k[1], pts[i].k[2], IF pts[i].v THEN 1 ELSE 0>> ELSE <<0, 0, 2>>]
Target(kind, stride, n, S) == [kind |-> kind, gh |-> Cells(img.h, stride), gw |-> Cells(img.w, stride), n |-> n, src |-> Drawn(S)]
All == 1..Len(pts)
FConfmaps ==        \* generate_confmaps: one channel per node of the (single / cropped) instance
    /\ Step("Confmaps")
    /\ tgt' = Append(tgt, Target("confmaps", cfg.os, 1, IF cfg.model = "centered" THEN NodesOf(cfg.inst) ELSE All))
    /\ UNCHANGED <<img, pts, cen, q, fin>>
FMultiConfmaps ==   \* generate_multiconfmaps: the first num_instances instances (or centroids), max-reduced
    /\ Step("MultiConfmaps")
    /\ tgt' = Append(tgt, Target("multi", cfg.os, NInst, All))
    /\ UNCHANGED <<img, pts, cen, q, fin>>
FPAFs ==            \* generate_pafs on its own grid
    /\ Step("PAFs")
    /\ tgt' = Append(tgt, Target("pafs", cfg.ps, NInst, All))
    /\ UNCHANGED <<img, pts, cen, q, fin>>

FNext == \/ FRead \/ FSample \/ FNormalize \/ FSizeMatch \/ FSizeMatchPad \/ FResize \/ FPadToStride \/ FCentroid \/ FCrop
         \/ FOverCrop \/ FReCrop \/ FReCropScaled \/ FCache \/ FChunk8 \/ FConfmaps \/ FMultiConfmaps \/ FPAFs \/ Restart

\* ------------------------------------------------------------------ sameness of two final samples --
NearP(a, b) == Abs(a[1] - b[1]) <= TolSame /\ Abs(a[2] - b[2]) <= TolSame
SamePts(a, b) == /\ Len(a) = Len(b)
                 /\ \A i \in 1..Len(a) : /\ a[i].v = b[i].v
                                         /\ a[i].v => NearP(a[i].k, b[i].k) /\ NearP(a[i].c, b[i].c)
SameSrc(a, b) == /\ Len(a) = Len(b)
                 /\ \A i \in 1..Len(a) : a[i][3] = b[i][3] /\ (a[i][3] = 1 => NearP(a[i], b[i]))
SameTgt(a, b) == /\ Len(a) = Len(b)
                 /\ \A j \in 1..Len(a) : /\ a[j].kind = b[j].kind /\ a[j].gh = b[j].gh /\ a[j].gw = b[j].gw /\ a[j].n = b[j].n
                                         /\ SameSrc(a[j].src, b[j].src)
SameSample(a, b) == a.h = b.h /\ a.w = b.w /\ SamePts(a.pts, b.pts) /\ SameTgt(a.tgt, b.tgt)
\* first difference, by name (for counterexamples and for notes of the trace validation)
WhyDiffer(a, b) == IF a.h # b.h \/ a.w # b.w THEN "image_size"
                   ELSE IF Len(a.pts) # Len(b.pts) THEN "keypoint_count"
                   ELSE IF \E i \in 1..Len(a.pts) : a.pts[i].v # b.pts[i].v THEN "keypoint_visibility"
                   ELSE IF \E i \in 1..Len(a.pts) : a.pts[i].v /\ ~NearP(a.pts[i].k, b.pts[i].k) THEN "keypoints"
                   ELSE IF \E i \in 1..Len(a.pts) : a.pts[i].v /\ ~NearP(a.pts[i].c, b.pts[i].c) THEN "image_content"
                   ELSE IF ~SameTgt(a.tgt, b.tgt) THEN "targets"
                   ELSE "same"

Done == Stage = "done"
AllSame == \A i \in 1..Len(fin) : \A j \in 1..Len(fin) : SameSample(fin[i], fin[j])

\* ------------------------------------------------------------------ the theorem -------------------
\* where the documentation prescribes the same order of operations: every model type at scale 1, and
\* single-instance, centroid and bottom-up at every scale
Demanded(c) == c.model # "centered" \/ c.sn = c.sd
IsFw == cfg.mode = "frameworks"
Agree                 == (Done /\ IsFw /\ Demanded(cfg)) => AllSame
ExclusionIsDivergence == (Done /\ IsFw /\ ~Demanded(cfg)) => ~SameSample(fin[1], fin[3]) /\ ~SameSample(fin[2], fin[3])
AgreeEverywhere       == (Done /\ IsFw) => AllSame                                   \* counter-model: MUST be violated
CacheTransparent      == (Done /\ IsFw) => SameSample(fin[1], fin[2])
OnlyChunksQuantise    == (Done /\ IsFw) => fin[1].q = 0 /\ fin[2].q = 1 /\ fin[3].q = 1
\* Block(b) == Function(b).  SizeMatcher pads where apply_sizematcher resizes and pads: the same iff the limiting ratio is 1
LimitingRatioIsOne(c) == LET mh == IF c.maxH = 0 THEN c.h ELSE c.maxH
                             mw == IF c.maxW = 0 THEN c.w ELSE c.maxW
                         IN mh >= c.h /\ mw >= c.w /\ (mh = c.h \/ mw = c.w)
BlockDemanded(c) == c.block # "SizeMatcher" \/ LimitingRatioIsOne(c)
BlockAgree == (Done /\ cfg.mode = "block" /\ BlockDemanded(cfg)) => SameSample(fin[1], fin[2])
SizeMatcherDiffersElsewhere == (Done /\ cfg.mode = "block" /\ ~BlockDemanded(cfg)) => ~SameSample(fin[1], fin[2])
FTypeOK == TypeOK /\ q \in 0..2 /\ Len(fin) <= 3 /\ (Done => Len(fin) = IF IsFw THEN 3 ELSE 2)
=============================================================================
