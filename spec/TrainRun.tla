---------------------------- MODULE TrainRun ----------------------------
(* Write order of a training run and the API key (C19).

   The run is a program: a sequence of named steps, each of which may write a class of files under the
   output / chunk directories.  A file written from the live configuration object contains the key iff the
   object still holds it at that moment (cfgKey = "secret").  Crash is enabled in every state: the disk
   state at a crash is the disk state of that moment, so an INVARIANT over disk covers every crash point.

   Two orderings are modelled:
     "intended"  the key is taken out of the configuration object before the first write
     "as_coded"  transcribed from the pinned model_trainer.py: initial_config.yaml, the first
                 training_config.yaml and the chunk config.yaml are written before any masking; the key is
                 blanked only inside `if use_wandb:`                     (must violate NoKeyOnDisk)

   cfg = [model, fw, wandb, ckpt, structured, lowmem]; file classes are strings. *)
EXTENDS Naturals, Sequences, FiniteSets, TLC

Classes == {"initial_config", "training_config", "chunk_config", "chunk_npz", "ckpt_best", "ckpt_last",
            "metrics_csv", "hparams_yaml", "wandb_files"}
\* classes whose content is a serialisation of the live configuration object
FromConfig == {"initial_config", "training_config", "chunk_config", "ckpt_best", "ckpt_last", "hparams_yaml", "wandb_files"}

VARIABLES cfg, ordering, pc, cfgKey, disk, keyed, crashed
vars == <<cfg, ordering, pc, cfgKey, disk, keyed, crashed>>

Np(c) == c.fw = "torch_dataset_np_chunks"
\* in-memory runs fall back to npz chunks (./train_chunks, ./val_chunks) when the cache does not fit into memory
\* (check_memory > psutil.virtual_memory().available): chunks are written and must be deleted, no chunk config
Chunked(c) == Np(c) \/ c.lowmem

\* a step is <<name, class written or "", effect on the key>>
Program(c, o) ==
    LET opt(cond, s) == IF cond THEN <<s>> ELSE <<>> IN
      <<<<"MkDirs", "">>>>
   \o opt(o = "intended", <<"MaskKey", "">>)
   \o <<<<"SaveInitial", "initial_config">>, <<"Normalise", "">>, <<"SaveTraining", "training_config">>>>
   \o opt(Np(c), <<"SaveChunkCfg", "chunk_config">>)
   \o <<<<"InitModel", "">>>>
   \o opt(c.wandb, <<"InitWandb", "wandb_files">>)
   \o opt(c.wandb /\ o = "as_coded", <<"MaskKey", "">>)
   \o opt(c.wandb, <<"WandbConfigUpdate", "wandb_files">>)
   \o <<<<"SaveTraining", "training_config">>>>
   \o opt(Chunked(c), <<"WriteChunks", "chunk_npz">>)
   \o opt(c.ckpt, <<"LogHparams", "hparams_yaml">>)
   \o opt(c.ckpt, <<"LogRow", "metrics_csv">>)
   \o opt(c.ckpt, <<"CheckpointBest", "ckpt_best">>)
   \o opt(c.ckpt, <<"CheckpointLast", "ckpt_last">>)
   \o opt(c.wandb, <<"WandbFinish", "wandb_files">>)
   \o <<<<"SaveTraining", "training_config">>>>
   \o opt(Chunked(c), <<"DeleteChunks", "chunk_npz">>)

Prog == Program(cfg, ordering)

TRInit(Configs, Orderings) ==
    /\ cfg \in Configs /\ ordering \in Orderings
    /\ pc = 1 /\ cfgKey = "secret" /\ disk = {} /\ keyed = {} /\ crashed = FALSE

Step ==
    /\ ~crashed /\ pc <= Len(Prog)
    /\ LET s == Prog[pc] IN
         /\ cfgKey' = (IF s[1] = "MaskKey" THEN "blank" ELSE cfgKey)
         /\ IF s[1] = "DeleteChunks"
            THEN disk' = disk \ {"chunk_npz"} /\ keyed' = keyed \ {"chunk_npz"}
            ELSE IF s[2] = "" THEN UNCHANGED <<disk, keyed>>
            ELSE /\ disk' = disk \cup {s[2]}
                 /\ keyed' = (IF s[2] \in FromConfig /\ cfgKey = "secret" THEN keyed \cup {s[2]} ELSE keyed \ {s[2]})
    /\ pc' = pc + 1
    /\ UNCHANGED <<cfg, ordering, crashed>>
Crash == ~crashed /\ pc <= Len(Prog) /\ crashed' = TRUE /\ UNCHANGED <<cfg, ordering, pc, cfgKey, disk, keyed>>
TRNext == Step \/ Crash

Done == pc > Len(Prog) /\ ~crashed
NoKeyOnDisk == keyed = {}                       \* in every state, hence at every crash point
ArtifactsAtEnd == Done => /\ {"initial_config", "training_config"} \subseteq disk
                          /\ (cfg.ckpt => "ckpt_best" \in disk)
                          /\ "chunk_npz" \notin disk
=============================================================================
