---------------------------- MODULE Judge_C20 ----------------------------
(* Conformance of the real configuration builders / classes (C20).  Each case is the spec's input
   (echoed) plus what the real code did:
     raised / stage       exception text and the step that raised ("" if none)
     c0b                  the configuration built by calling the builders once more with the same argument objects
     c0, n1, n2, ls, nl   the configuration returned by to_sleap_nn_cfg, verify_training_cfg once and
                          twice, OmegaConf.load(OmegaConf.save(n1)) and (has_nl) verify_training_cfg of that,
                          each as [diff |-> path -> value, gone |-> paths] relative to the schema default D.
   The clause is the NAME of the first failing requirement or "ok". *)
EXTENDS Config, Verdict, Json, IOUtils
SchemaFile == JsonDeserialize(IOEnv.SCHEMA_FILE)
SchemaD == SchemaFile.D
SchemaSub == SchemaFile.Sub
Cases == JsonDeserialize(IOEnv.TRACE_FILE)
ASSUME VInit
VARIABLE i
Init == i = 0
Next == i < Len(Cases) /\ i' = i + 1

ObsCfg(o) == o.diff @@ Restrict2(D, DOMAIN D \ Range(o.gone))
FirstDiff(f, g) ==   \* "" if the two configuration values are the same function
    IF DOMAIN f # DOMAIN g THEN CHOOSE p \in (DOMAIN f \ DOMAIN g) \cup (DOMAIN g \ DOMAIN f) : TRUE
    ELSE IF \E p \in DOMAIN f : f[p] # g[p] THEN CHOOSE p \in DOMAIN f : f[p] # g[p]
    ELSE ""
Stable(name, a, b) == LET p == FirstDiff(ObsCfg(a), ObsCfg(b)) IN IF p = "" THEN "ok" ELSE name \o "/" \o p

AugClause(c, O) ==
    IF c.aug[1] # "on" THEN "ok"
    ELSE LET ia == c.aug[2]
             ga == c.aug[3]
             g == GeoRec(O)
             ic == IntRec(O)
         IN IF IsListed(ga) /\ \E n \in AugNames(ga) : ~GeoEnabled(n, g)
                THEN "listed_augmentation_disabled/geometric/" \o (CHOOSE n \in AugNames(ga) : ~GeoEnabled(n, g))
            ELSE IF IsListed(ia) /\ \E n \in AugNames(ia) : ~IntEnabled(n, ic)
                THEN "listed_augmentation_disabled/intensity/" \o (CHOOSE n \in AugNames(ia) : ~IntEnabled(n, ic))
            ELSE IF IsListed(ga) /\ \E n \in GeoNames \ AugNames(ga) : GeoEnabled(n, g)
                THEN "unlisted_augmentation_enabled/geometric/" \o (CHOOSE n \in GeoNames \ AugNames(ga) : GeoEnabled(n, g))
            ELSE IF IsListed(ia) /\ \E n \in IntNames \ AugNames(ia) : IntEnabled(n, ic)
                THEN "unlisted_augmentation_enabled/intensity/" \o (CHOOSE n \in IntNames \ AugNames(ia) : IntEnabled(n, ic))
            ELSE "ok"

ValueClause(c, E, free, O) ==
    LET bad == {p \in DOMAIN E \ free : O[p] # E[p]}
    IN IF bad = {} THEN "ok"
       ELSE LET p == CHOOSE q \in bad : TRUE
            IN IF p \in AllArgPaths
                  THEN (IF OwnerOf[p] \in DOMAIN c.args THEN "argument_not_reflected/" ELSE "signature_default_not_applied/")
                       \o OwnerOf[p] \o "@" \o p
               ELSE IF p \in DOMAIN D /\ E[p] = D[p] THEN "schema_default_not_kept/" \o p
               ELSE "value_not_as_specified/" \o p

BuildClause(c) ==
    LET reason == RejectReason(c)
    IN IF reason # "" THEN (IF c.raised # "" THEN "ok" ELSE "invalid_value_accepted/" \o reason)
       ELSE IF c.raised # "" THEN "raised_on_valid_arguments/" \o c.stage
       ELSE LET ex == Expected(c)
                E == ex.cfg
                O == ObsCfg(c.c0)
                ac == AugClause(c, O)
                vc == ValueClause(c, E, ex.free, O)
                s0 == Stable("second_call_with_the_same_arguments_differs", c.c0, c.c0b)
                s1 == Stable("normalisation_changes_value", c.c0, c.n1)
                s2 == Stable("normalisation_not_idempotent", c.n1, c.n2)
                s3 == Stable("yaml_round_trip_changes_value", c.n1, c.ls)
            IN IF DOMAIN E \ DOMAIN O # {} THEN "option_missing/" \o (CHOOSE p \in DOMAIN E \ DOMAIN O : TRUE)
               ELSE IF DOMAIN O \ DOMAIN E # {} THEN "option_unexpected/" \o (CHOOSE p \in DOMAIN O \ DOMAIN E : TRUE)
               ELSE IF ac # "ok" THEN ac
               ELSE IF vc # "ok" THEN vc
               ELSE IF s0 # "ok" THEN s0
               ELSE IF s1 # "ok" THEN s1
               ELSE IF s2 # "ok" THEN s2
               ELSE IF s3 # "ok" THEN s3
               ELSE IF c.has_nl THEN Stable("normalisation_after_load_changes_value", c.n1, c.nl) ELSE "ok"

CtorClause(c) ==
    LET v == IF c.kind \in {"ctor", "setattr"} THEN FieldVerdict(c.cls, c.field, c.val)
             ELSE IF c.kind = "oneof" THEN OneofVerdict(c.members)
             ELSE WeightsVerdict(c.bbfam, c.val)
        what == IF c.kind = "ctor" THEN c.cls \o "." \o c.field
                ELSE IF c.kind = "setattr" THEN "on_assignment/" \o c.cls \o "." \o c.field
                ELSE IF c.kind = "oneof" THEN c.cls \o ".oneof" ELSE "ModelConfig.pre_trained_weights/" \o c.bbfam
    IN IF v = "reject" /\ c.raised = "" THEN "invalid_value_accepted/" \o what
       ELSE IF v = "accept" /\ c.raised # "" THEN "valid_value_rejected/" \o what
       ELSE "ok"

Clause(c) == IF c.kind = "build" THEN BuildClause(c) ELSE CtorClause(c)
\* like Verdict!VGive but without the cap on recorded ids: the unchanged tree has hundreds of rejections of
\* two known kinds, and a different violation must never be crowded out of the report
GiveAll(id, clause) == IF clause = "ok" THEN VAccept
                       ELSE TLCSet(3, TLCGet(3) + 1) /\ TLCSet(1, TLCGet(1) \cup {<<id, clause>>})
Check == i >= 1 => GiveAll(Cases[i].id, Clause(Cases[i]))
Report == VReport
=============================================================================
