---------------------------- MODULE Geometry ----------------------------
(* Geometry stages of one training sample (the "geometry layer" of DataPlane, property C04).

   Code mapped (sleap_nn/data):
     SizeMatch    resizing.apply_sizematcher          aspect preserving tvf.resize to round(h*r), round(w*r),
                                                       zero pad bottom/right to (maxH, maxW), returns eff = r;
                                                       the CALLER multiplies the keypoints by eff
     SizeMatchPad resizing.SizeMatcher (datapipe)     zero pad bottom/right only (no resize)
     Resize       resizing.apply_resizer / Resizer    tvf.resize to int(h*s), int(w*s); keypoints * s
     PadToStride  resizing.apply_pad_to_stride        zero pad bottom/right to the next multiple of m
     Centroid     instance_centroids.generate_centroids   anchor node, else mid point of the visible bounding box
     Crop/OverCrop/ReCrop  instance_cropping.generate_crops, make_centered_bboxes + kornia crop_and_resize
                                                       corners c -+ hw/2 +- 1/2, keypoints minus the top-left corner;
                                                       OverCrop uses int(hw * sqrt 2), ReCrop the un-augmented centroid
     AugmentInt   augmentation.apply_intensity_augmentation   pixels only
     AugmentGeo   augmentation.apply_geometric_augmentation   one affine T for pixels and keypoints
     Read / Sample  the image as handed to the first stage / the dict returned by Dataset.__getitem__

   Abstract image.  DESIGN.md describes it as [h, w, A, b, valid] with (A, b) the affine map between its
   pixel coordinates and original-image coordinates.  TLC has 32-bit integers and no rationals, so the
   affine map is represented by the images of the probe points that matter - the labelled keypoints:
     pts[i].p   the label in original coordinates (1/64 px lattice)
     pts[i].c   where the CONTENT that was at the label is in the current image   (1/1024 px, "as coded")
     pts[i].k   where the transformed KEYPOINT is                                  (1/1024 px, "as coded")
   "As coded" means the arithmetic the stages are written to perform: pixel centres at integers,
   tvf.resize maps u -> (u + 1/2) * new/old - 1/2, keypoints are multiplied by eff / s.  The property
   (Registered) says |c - k| < one output pixel; the as-coded model is what lets TLC (a) find, on the
   design model, where that arithmetic itself breaks the property and (b) tell, on a recorded trace, a
   violation that is exactly this known drift from any other misregistration.

   All stage actions take the values the code chooses (target size, measured augmentation) as
   parameters, so the same actions serve the exhaustive design model (parameters quantified) and trace
   validation (parameters bound to the log). *)
EXTENDS Integers, Sequences, FiniteSets, TLC

P == 1024                     \* position units per pixel (content / keypoint positions)
Q == 64                       \* label units per pixel (original labels, observed keypoints)
PQ == P \div Q
TolReg  == P + P \div 16      \* Registered: under one output pixel (+ slack: 2 quanta of 1/64 and the projection quanta)
TolConf == P \div 4           \* observed content / keypoints vs the as-coded positions
TolKp   == 3 * PQ             \* observed keypoints vs as-coded keypoints: 2 quanta of 1/64 px + rounding

VARIABLES cfg,    \* never changes: [ds, h, w, maxH, maxW, sn, sd, m, crH, crW, anchor, inst, augI, augG, track, kp0, pipe]
                  \*   maxH/maxW = 0: None; scale = sn/sd; anchor = 0: None; inst: the instance that is cropped;
                  \*   track = "centroids": the centroids replace the keypoints (CentroidDataset);
                  \*   kp0: labels <<x64, y64, visible, instance, node>>
          pc,     \* number of pipeline stages already performed
          img,    \* [h, w, vw, vh, crop]: size; valid extent in P units (as coded), crop = TRUE: not anchored
          pts,    \* sequence of [p, c, k, v, inst, node]
          cen     \* sequence (per instance) of [p, c, k, v]: centroids; <<>> before the Centroid stage
gvars == <<cfg, pc, img, pts, cen>>

\* ------------------------------------------------------------------ arithmetic helpers ----------
Abs(x) == IF x < 0 THEN -x ELSE x
Max2(a, b) == IF a > b THEN a ELSE b
Min2(a, b) == IF a < b THEN a ELSE b
MulDiv(x, n, d) == (2 * x * n + d) \div (2 * d)                  \* nearest integer to x*n/d  (d > 0)
ResizePos(x, new, old) == MulDiv(x + P \div 2, new, old) - P \div 2   \* pixel-centre convention of tvf.resize
CeilTo(x, m) == ((x + m - 1) \div m) * m
\* Python round() of an exact ratio n/d: nearest, either neighbour allowed on an exact tie (float noise decides)
RoundSet(n, d) == IF 2 * (n % d) = d THEN {n \div d, n \div d + 1} ELSE {(2 * n + d) \div (2 * d)}
\* int(n * sqrt 2): the integer it is
IntSqrt2(n) == CHOOSE r \in 0..(2 * n) : r * r <= 2 * n * n /\ (r + 1) * (r + 1) > 2 * n * n
SetMax(S) == CHOOSE x \in S : \A y \in S : y <= x
SetMin(S) == CHOOSE x \in S : \A y \in S : y >= x
Cheb(a, b) == Max2(Abs(a[1] - b[1]), Abs(a[2] - b[2]))

\* ------------------------------------------------------------------ pipelines ---------------------
AllStages(ds) ==
    CASE ds = "fn_full"    -> <<"SizeMatch", "Resize", "PadToStride">>
      [] ds = "dp_full"    -> <<"SizeMatchPad", "Resize", "PadToStride">>
      [] ds = "fn_int"     -> <<"AugmentInt">>
      [] ds = "fn_aug"     -> <<"AugmentGeo">>
      [] ds = "fn_crop"    -> <<"SizeMatch", "Resize", "Centroid", "Crop", "PadToStride">>
      [] ds = "fn_topdown" -> <<"SizeMatch", "Resize", "Centroid", "OverCrop", "AugmentInt", "AugmentGeo", "ReCrop", "PadToStride">>
      [] ds \in {"BottomUpDataset", "SingleInstanceDataset"}
                           -> <<"Read", "SizeMatch", "Resize", "PadToStride", "AugmentInt", "AugmentGeo", "Sample">>
      [] ds = "CentroidDataset"
                           -> <<"Read", "SizeMatch", "Resize", "Centroid", "PadToStride", "AugmentInt", "AugmentGeo", "Sample">>
      [] ds = "CenteredInstanceDataset"
                           -> <<"Read", "SizeMatch", "Resize", "Centroid", "OverCrop", "AugmentInt", "AugmentGeo", "ReCrop", "PadToStride", "Sample">>
Keep(c, s) == (s = "AugmentInt" => c.augI = 1) /\ (s = "AugmentGeo" => c.augG = 1)
Pipeline(c) == SelectSeq(AllStages(c.ds), LAMBDA s : Keep(c, s))
\* cfg.pipe = Pipeline(cfg), stored in the configuration so that it is computed once
Stage == IF pc < Len(cfg.pipe) THEN cfg.pipe[pc + 1] ELSE "done"
LastStage == IF pc = 0 THEN "init" ELSE cfg.pipe[pc]
Step(s) == Stage = s /\ pc' = pc + 1 /\ cfg' = cfg

\* ------------------------------------------------------------------ initial state -----------------
Pt(p, v, inst, node) == [p |-> p, c |-> <<p[1] * PQ, p[2] * PQ>>, k |-> <<p[1] * PQ, p[2] * PQ>>,
                          v |-> v, inst |-> inst, node |-> node]
GInit(Configs) ==
    /\ cfg \in Configs
    /\ pc = 0
    /\ img = [h |-> cfg.h, w |-> cfg.w, vw |-> cfg.w * P, vh |-> cfg.h * P, crop |-> FALSE]
    /\ pts = [i \in 1..Len(cfg.kp0) |-> Pt(<<cfg.kp0[i][1], cfg.kp0[i][2]>>, cfg.kp0[i][3] = 1, cfg.kp0[i][4], cfg.kp0[i][5])]
    /\ cen = <<>>

MapPts(fc(_), fk(_)) == [i \in 1..Len(pts) |-> [pts[i] EXCEPT !.c = fc(pts[i].c), !.k = fk(pts[i].k)]]
MapCen(fc(_), fk(_)) == [i \in 1..Len(cen) |-> [cen[i] EXCEPT !.c = fc(cen[i].c), !.k = fk(cen[i].k)]]

\* ------------------------------------------------------------------ stage actions -----------------
MaxH == IF cfg.maxH = 0 THEN img.h ELSE cfg.maxH          \* 0 stands for None
MaxW == IF cfg.maxW = 0 THEN img.w ELSE cfg.maxW
SMNoop == MaxH = img.h /\ MaxW = img.w
SMByWidth == MaxH * img.w > MaxW * img.h                   \* hratio > wratio
Eff == IF SMNoop THEN <<1, 1>> ELSE IF SMByWidth THEN <<MaxW, img.w>> ELSE <<MaxH, img.h>>
SMTargets == IF SMNoop THEN {<<img.w, img.h>>}
             ELSE RoundSet(img.w * Eff[1], Eff[2]) \X RoundSet(img.h * Eff[1], Eff[2])

Read == Step("Read") /\ UNCHANGED <<img, pts, cen>>
Sample == Step("Sample") /\ UNCHANGED <<img, pts, cen>>

SizeMatch(tw, th) ==
    /\ Step("SizeMatch")
    /\ <<tw, th>> \in SMTargets
    /\ tw >= 1 /\ th >= 1
    /\ img' = [h |-> MaxH, w |-> MaxW, vw |-> tw * P, vh |-> th * P, crop |-> FALSE]
    /\ pts' = MapPts(LAMBDA c : <<ResizePos(c[1], tw, img.w), ResizePos(c[2], th, img.h)>>,
                     LAMBDA k : <<MulDiv(k[1], Eff[1], Eff[2]), MulDiv(k[2], Eff[1], Eff[2])>>)
    /\ cen' = cen

SizeMatchPad ==        \* the SizeMatcher datapipe: pad only (it raises when the image is larger)
    /\ Step("SizeMatchPad")
    /\ MaxH >= img.h /\ MaxW >= img.w
    /\ img' = [img EXCEPT !.h = MaxH, !.w = MaxW]
    /\ UNCHANGED <<pts, cen>>

ResizeH == (img.h * cfg.sn) \div cfg.sd                    \* int(h * s)
ResizeW == (img.w * cfg.sn) \div cfg.sd
Resize ==
    /\ Step("Resize")
    /\ IF cfg.sn = cfg.sd THEN UNCHANGED <<img, pts>>
       ELSE /\ ResizeH >= 1 /\ ResizeW >= 1
            /\ img' = [h |-> ResizeH, w |-> ResizeW, vw |-> MulDiv(img.vw, ResizeW, img.w),
                       vh |-> MulDiv(img.vh, ResizeH, img.h), crop |-> img.crop]
            /\ pts' = MapPts(LAMBDA c : <<ResizePos(c[1], ResizeW, img.w), ResizePos(c[2], ResizeH, img.h)>>,
                             LAMBDA k : <<MulDiv(k[1], cfg.sn, cfg.sd), MulDiv(k[2], cfg.sn, cfg.sd)>>)
    /\ cen' = cen

PadToStride ==
    /\ Step("PadToStride")
    /\ img' = [img EXCEPT !.h = CeilTo(img.h, cfg.m), !.w = CeilTo(img.w, cfg.m)]
    /\ UNCHANGED <<pts, cen>>

\* centroid of one instance: the anchor node if visible, else the mid point of the visible bounding box
Insts == {pts[i].inst : i \in 1..Len(pts)}
NodesOf(n) == {i \in 1..Len(pts) : pts[i].inst = n}
VisOf(n) == {i \in NodesOf(n) : pts[i].v}
AnchorOf(n) == {i \in VisOf(n) : pts[i].node = cfg.anchor}
Mid(S, f(_)) == <<(SetMin({f(i)[1] : i \in S}) + SetMax({f(i)[1] : i \in S})) \div 2,
                  (SetMin({f(i)[2] : i \in S}) + SetMax({f(i)[2] : i \in S})) \div 2>>
CentroidRec(n) ==
    IF VisOf(n) = {} THEN [p |-> <<0, 0>>, c |-> <<0, 0>>, k |-> <<0, 0>>, v |-> FALSE]
    ELSE IF AnchorOf(n) # {}
         THEN LET a == CHOOSE i \in AnchorOf(n) : TRUE IN [p |-> pts[a].p, c |-> pts[a].c, k |-> pts[a].k, v |-> TRUE]
         \* pre-centroid maps are positive diagonal, so the mid point of the box commutes with them
         ELSE [p |-> Mid(VisOf(n), LAMBDA i : pts[i].p), c |-> Mid(VisOf(n), LAMBDA i : pts[i].c),
               k |-> Mid(VisOf(n), LAMBDA i : pts[i].k), v |-> TRUE]
NInst == IF Insts = {} THEN 0 ELSE SetMax(Insts)
Centroid ==
    /\ Step("Centroid")
    /\ cen' = [n \in 1..NInst |-> CentroidRec(n)]
    /\ IF cfg.track = "centroids"       \* CentroidDataset: the centroids are the keypoints from here on
       THEN pts' = [n \in 1..NInst |-> LET r == CentroidRec(n) IN
                       [p |-> r.p, c |-> r.c, k |-> r.k, v |-> r.v, inst |-> n, node |-> 0]]
       ELSE pts' = pts
    /\ img' = img

\* crop of size (ch, cw) about the centroid of cfg.inst: output pixel (0,0) <-> source c - hw/2 + 1/2
CropAbout(ch, cw) ==
    LET ctr == cen[cfg.inst].k
        px == ctr[1] - cw * (P \div 2) + P \div 2
        py == ctr[2] - ch * (P \div 2) + P \div 2
        sh(z) == <<z[1] - px, z[2] - py>>
    IN /\ cen # <<>> /\ cen[cfg.inst].v
       /\ img' = [h |-> ch, w |-> cw, vw |-> 0, vh |-> 0, crop |-> TRUE]
       /\ pts' = MapPts(sh, sh)
       /\ cen' = MapCen(sh, sh)
Crop == Step("Crop") /\ CropAbout(cfg.crH, cfg.crW)
OverCrop == Step("OverCrop") /\ CropAbout(IntSqrt2(cfg.crH), IntSqrt2(cfg.crW))
ReCrop == Step("ReCrop") /\ CropAbout(cfg.crH, cfg.crW)        \* about the stored, un-augmented centroid

AugmentInt == Step("AugmentInt") /\ UNCHANGED <<img, pts, cen>>
\* one affine for pixels and keypoints: positions after the augmentation are parameters
\* (design model: images under a chosen T; trace validation: measured from the content)
AugmentGeo(newc, newk) ==
    /\ Step("AugmentGeo")
    /\ pts' = [i \in 1..Len(pts) |-> [pts[i] EXCEPT !.c = newc[i], !.k = newk[i]]]
    /\ UNCHANGED <<img, cen>>      \* the stored centroid is NOT augmented (custom_datasets re-crops about it)

\* ------------------------------------------------------------------ properties (C04) --------------
Vis == {i \in 1..Len(pts) : pts[i].v}
\* the content that was at the label is found at the transformed keypoint, to under one output pixel
Registered == \A i \in Vis : Cheb(pts[i].c, pts[i].k) < TolReg
SizeExact ==
    CASE LastStage \in {"SizeMatch", "SizeMatchPad"} -> img.h = (IF cfg.maxH = 0 THEN cfg.h ELSE cfg.maxH)
                                                     /\ img.w = (IF cfg.maxW = 0 THEN cfg.w ELSE cfg.maxW)
      [] LastStage = "PadToStride" -> img.h % cfg.m = 0 /\ img.w % cfg.m = 0
      [] LastStage \in {"Crop", "ReCrop"} -> img.h = cfg.crH /\ img.w = cfg.crW
      [] OTHER -> TRUE
\* padding only at the bottom and right: the valid region starts at (0,0) and lies inside the image
PadBottomRight == ~img.crop => (img.vw >= P /\ img.vh >= P /\ img.vw <= img.w * P /\ img.vh <= img.h * P)
\* a crop is centred on the centroid: the centroid sits at ((w-1)/2, (h-1)/2)
CropCentred == LastStage \in {"Crop", "OverCrop", "ReCrop"} =>
                   cen[cfg.inst].k = <<(img.w - 1) * (P \div 2), (img.h - 1) * (P \div 2)>>
TypeOK == pc \in 0..Len(cfg.pipe) /\ img.h >= 1 /\ img.w >= 1

\* find_instance_crop_size as a function of the largest instance extent (1/64 px, already scaled),
\* the padding and the stride:  ceil(max(extent + padding, min_crop) / stride) * stride
UserCrop(stride, minCrop) == minCrop > 0 /\ minCrop % stride = 0     \* a usable user-specified size is returned as is
CropSizeSpec(extent64, padding, stride, minCrop) ==
    IF UserCrop(stride, minCrop) THEN minCrop
    ELSE LET need64 == Max2(extent64 + padding * Q, minCrop * Q) IN CeilTo((need64 + Q - 1) \div Q, stride)
CropSizeClause(extent64, padding, stride, minCrop, got) ==
    IF got % stride # 0 THEN "crop_size_not_a_stride_multiple"
    ELSE IF UserCrop(stride, minCrop) THEN (IF got = minCrop THEN "ok" ELSE "crop_size_not_the_requested_one")
    ELSE IF got * Q < extent64 + padding * Q THEN "crop_size_does_not_cover_largest_instance"
    ELSE IF got < minCrop THEN "crop_size_below_min_crop_size"
    ELSE IF got # CropSizeSpec(extent64, padding, stride, minCrop) THEN "crop_size_not_the_smallest_multiple"
    ELSE "ok"
=============================================================================
