---------------------------- MODULE Trace_Weights ----------------------------
(* Batch trace validation for Weights.  A trace is [id, ev]; each event is one real call and what the module in memory
   held afterwards:
     op      <<"Construct", init, pb, ph>> | <<"Update">> | <<"Save", f>> | <<"InferLoad", f, b, h>>   ("none" = not given)
     obs     [enc, dec, head -> id]  identity of the numbers in each group: the harness numbers the distinct contents it
             has seen per group in order of first appearance (3k + group index); -1 = the group's tensors are partly
             those of an earlier content and partly not (no atom is ever blended)
     zb      [enc, dec, head -> BOOLEAN]  every Conv2d / Linear bias of the group is zero
     raised  "" or the exception text
   The monitor runs the Weights action named by op and keeps the correspondence m between the spec's atoms and the
   observed ids: a group the spec says holds a known atom must show that atom's id, a group the spec says is born fresh
   must show an id never seen before, and exactly the xavier-born atoms have zero biases. *)
EXTENDS Weights, Verdict, Json, IOUtils
Traces == JsonDeserialize(IOEnv.TRACE_FILE)
ASSUME VInit
VARIABLES tid, l, m, bad
tvars == <<vars, tid, l, m, bad>>
Ev == Traces[tid].ev
Dom(mm) == {p[1] : p \in mm}
Rng(mm) == {p[2] : p \in mm}
Img(mm, a) == (CHOOSE p \in mm : p[1] = a)[2]
GroupSeq == <<"enc", "dec", "head">>
First(P(_)) == GroupSeq[CHOOSE i \in 1..3 : P(GroupSeq[i]) /\ \A j \in 1..(i - 1) : ~P(GroupSeq[j])]

Judge(w, e, mm, xv) ==
    LET Mixed(g) == e.obs[g] = -1
        Wrong(g) == w[g] \in Dom(mm) /\ e.obs[g] # Img(mm, w[g])
        Stale(g) == w[g] \notin Dom(mm) /\ e.obs[g] \in Rng(mm)
        Bias(g)  == e.zb[g] # (w[g] \in xv)
    IN IF \E g \in Groups : Mixed(g) THEN "group_blends_two_contents/" \o First(Mixed)
       ELSE IF \E g \in Groups : Wrong(g) THEN "weights_not_from_the_specified_source/" \o First(Wrong)
       ELSE IF \E g \in Groups : Stale(g) THEN "weights_copied_where_fresh_ones_are_specified/" \o First(Stale)
       ELSE IF \E g \in Groups : Bias(g) THEN "bias_initialisation/" \o First(Bias)
       ELSE "ok"

TInit == /\ tid \in 1..Len(Traces) /\ l = 1 /\ m = {} /\ bad = "ok" /\ Init
Act(e) == CASE e.op[1] = "Construct" -> Construct(e.op[2], e.op[3], e.op[4])
            [] e.op[1] = "Update"    -> Update
            [] e.op[1] = "Save"      -> Save(e.op[2])
            [] e.op[1] = "InferLoad" -> InferLoad(e.op[2], e.op[3], e.op[4])
            [] OTHER -> FALSE
TStep == /\ l <= Len(Ev) /\ l' = l + 1 /\ tid' = tid
         /\ Ev[l].raised = ""
         /\ Act(Ev[l])
         /\ bad' = Judge(live', Ev[l], m, xav')
         /\ m' = m \cup {<<live'[g], Ev[l].obs[g]>> : g \in {x \in Groups : live'[x] \notin Dom(m)}}
Inv == IF ~TypeOK THEN "TypeOK" ELSE IF ~SlotsKeepTheirKind THEN "SlotsKeepTheirKind" ELSE IF ~OverrideRules THEN "OverrideRules" ELSE "ok"
Why == IF Ev[l].raised # "" THEN "raised/" \o Ev[l].op[1] ELSE "call_not_enabled_in_the_specification/" \o Ev[l].op[1]
Check ==
    LET id == Traces[tid].id IN
    IF bad # "ok" THEN VReject(id, bad) /\ FALSE
    ELSE IF Inv # "ok" THEN VReject(id, Inv) /\ FALSE
    ELSE IF l > Len(Ev) THEN VAccept
    ELSE IF ENABLED TStep THEN TRUE ELSE VReject(id, Why) /\ FALSE
Report == VReport
=============================================================================
