---------------------------- MODULE Lifecycle ----------------------------
(* The training lifecycle behind `sleap_nn.train.run_training` (what `train()` and the CLI run): train, then - when a
   checkpoint was saved - predict on the validation labels with the model directory just written, evaluate, and the
   same for the test labels.  Extension X03: a composition of TrainRun (C19), InferConfig (X02), the inference plane
   and the Evaluator; not one of the 20 listed properties.

     cfg     [model, ckpt, test]   model type, save_ckpt, a test label file given
     stage   "start" .. "done" | "crashed"
     files   artifact classes present under the run directory:
             initial_config, training_config, ckpt_best, pred_val, val_metrics, pred_test, test_metrics

   Every step may be the last one (Crash): each reachable `files` is a possible content of the directory after a crash. *)
EXTENDS Naturals, FiniteSets, TLC

VARIABLES cfg, stage, files
vars == <<cfg, stage, files>>

Models == {"single_instance", "centered_instance", "centroid", "bottomup"}
Configs == [model : Models, ckpt : BOOLEAN, test : BOOLEAN]
Artifacts == {"initial_config", "training_config", "ckpt_best", "pred_val", "val_metrics", "pred_test", "test_metrics"}

Init == cfg \in Configs /\ stage = "start" /\ files = {}

Step(from, to, adds) == stage = from /\ stage' = to /\ files' = files \cup adds /\ UNCHANGED cfg
WriteInitial  == Step("start", "configured", {"initial_config"})
WriteTraining == Step("configured", "ready", {"training_config"})
Train         == Step("ready", "trained", IF cfg.ckpt THEN {"ckpt_best"} ELSE {})
SkipInference == ~cfg.ckpt /\ Step("trained", "done", {})
PredictVal    == cfg.ckpt /\ Step("trained", "val_predicted", {"pred_val"})
EvalVal       == Step("val_predicted", "val_evaluated", {"val_metrics"})
FinishNoTest  == ~cfg.test /\ Step("val_evaluated", "done", {})
PredictTest   == cfg.test /\ Step("val_evaluated", "test_predicted", {"pred_test"})
EvalTest      == Step("test_predicted", "done", {"test_metrics"})
Crash         == stage \notin {"done", "crashed"} /\ stage' = "crashed" /\ UNCHANGED <<cfg, files>>

\* counter-model: metrics written before the predictions they were computed from are saved
EvalValEarly  == cfg.ckpt /\ Step("trained", "val_early", {"val_metrics"})
SaveValLate   == Step("val_early", "val_evaluated", {"pred_val"})

Next == WriteInitial \/ WriteTraining \/ Train \/ SkipInference \/ PredictVal \/ EvalVal \/ FinishNoTest \/ PredictTest \/ EvalTest \/ Crash
NextEarly == Next \/ EvalValEarly \/ SaveValLate
Spec == Init /\ [][Next]_vars /\ WF_vars(WriteInitial \/ WriteTraining \/ Train \/ SkipInference \/ PredictVal \/ EvalVal \/ FinishNoTest \/ PredictTest \/ EvalTest)
SpecEarly == Init /\ [][NextEarly]_vars

\* ==PROPERTIES==
TypeOK == cfg \in Configs /\ files \subseteq Artifacts
\* whatever is on disk was computed from things that are on disk too - at every crash point
Needs(a) == CASE a = "training_config" -> {"initial_config"}
              [] a = "ckpt_best"       -> {"training_config"}
              [] a = "pred_val"        -> {"ckpt_best", "training_config"}
              [] a = "val_metrics"     -> {"pred_val"}
              [] a = "pred_test"       -> {"val_metrics"}
              [] a = "test_metrics"    -> {"pred_test"}
              [] OTHER                 -> {}
Dependencies(fs) == \A a \in fs : Needs(a) \subseteq fs
DependenciesHold == Dependencies(files)
NothingWithoutCheckpoint(c, fs) == ~c.ckpt => fs \cap {"ckpt_best", "pred_val", "val_metrics", "pred_test", "test_metrics"} = {}
NoInferenceWithoutCheckpoint == NothingWithoutCheckpoint(cfg, files)
NoTestWithoutTestFile(c, fs) == ~c.test => fs \cap {"pred_test", "test_metrics"} = {}
Expected(c) == {"initial_config", "training_config"} \cup (IF c.ckpt THEN {"ckpt_best", "pred_val", "val_metrics"} ELSE {})
               \cup (IF c.ckpt /\ c.test THEN {"pred_test", "test_metrics"} ELSE {})
Complete == stage = "done" => files = Expected(cfg)
Finishes == <>(stage \in {"done", "crashed"})
=============================================================================
