---------------------------- MODULE MC_PeaksGauss ----------------------------
(* C07, "on a Gaussian bump refinement moves the estimate toward the true centre": for the exported
   family of integer-quantised bumps round(1000 exp(-d^2 / 2 sigma^2)) (centres on the 1/4-px
   lattice away from half-cell ties and at least a half patch away from the border, sigma in
   quarter pixels) and every patch size, the specified global detector picks the unique nearest
   cell and the specified Offset moves each off-grid axis at least 1/128 px closer to the true
   centre and leaves an on-grid axis unmoved.  The family is read from the JSON file the driver
   also feeds to the real code: Fam[k] = [h, w, v, cx4, cy4, s4].                                *)
EXTENDS Peaks, Json, IOUtils
Fam == JsonDeserialize(IOEnv.TRACE_FILE)
VARIABLE gi
GInit == /\ gi \in 1..Len(Fam)
         /\ PInit({[h |-> Fam[gi].h, w |-> Fam[gi].w, v |-> Fam[gi].v]}, {200}, {3, 5, 7})
GRough == GlobalRough /\ UNCHANGED gi
GRefine == GlobalRefine /\ UNCHANGED gi
GNext == GRough \/ GRefine
GaussUnique == Cardinality(MaxCells(map)) = 1
GaussNearest == stage = "global_rough" => (~gpk.nan /\ 2 * Abs(4 * gpk.pt[1] - Fam[gi].cx4) < 4 /\ 2 * Abs(4 * gpk.pt[2] - Fam[gi].cy4) < 4)
GaussCloser == stage = "global_refined" =>
    /\ AxisCloser(gpk.pt[1], goffs[1][1], goffs[1][2], Fam[gi].cx4)
    /\ AxisCloser(gpk.pt[2], goffs[2][1], goffs[2][2], Fam[gi].cy4)
\* non-vacuity: off-grid and on-grid axes both occur
ASSUME \E k \in 1..Len(Fam) : Fam[k].cx4 % 4 # 0
ASSUME \E k \in 1..Len(Fam) : Fam[k].cx4 % 4 = 0 /\ Fam[k].cy4 % 4 # 0
ASSUME PrintT(<<"GAUSSFAMILY", Len(Fam)>>)
=============================================================================
