---------------------------- MODULE MC_ConfigAug ----------------------------
(* Design check for C20 (b): the augmentation-list loop of get_aug_config as a state machine, one
   named action per branch, over ALL ordered lists without repetition of the 5 geometric names
   (326 incl. the empty list) and of the 4 intensity names (65).
   AsCoded = TRUE  : the transcription of the code (affine branches reset their siblings) - the
                     invariant ListedEnabled MUST be violated (e.g. <<"rotation", "scale">>).
   AsCoded = FALSE : the intended loop - ListedEnabled and FoldIsDefinition hold for every list.
   Expected size: (326 + 65) lists, <= 7 states each: 2,347 distinct states. *)
EXTENDS Config
CONSTANT AsCoded
NoSchema == <<>>
VARIABLES fam, lst, k, cfg
vars == <<fam, lst, k, cfg>>

Init == /\ fam \in {"geo", "int"}
        /\ lst \in (IF fam = "geo" THEN OrderedLists(GeoNames) ELSE OrderedLists(IntNames))
        /\ k = 0
        /\ cfg = (IF fam = "geo" THEN GeoDefaultLit ELSE IntDefaultLit)

\* entering the `for` loop (the intended builder neutralises the affine magnitudes here)
ListStart == /\ k = 0
             /\ k' = 1
             /\ cfg' = (IF fam = "geo" /\ ~AsCoded THEN GeoListStart(cfg) ELSE cfg)
             /\ UNCHANGED <<fam, lst>>
GeoStep(n) == /\ fam = "geo" /\ k >= 1 /\ k <= Len(lst) /\ lst[k] = n
              /\ cfg' = (IF AsCoded THEN ApplyGeoAsCoded(n, cfg) ELSE ApplyGeoIntended(n, cfg, GeoDefaultLit))
              /\ k' = k + 1
              /\ UNCHANGED <<fam, lst>>
ApplyRotation == GeoStep("rotation")
ApplyScale == GeoStep("scale")
ApplyTranslate == GeoStep("translate")
ApplyErase == GeoStep("erase_scale")
ApplyMixup == GeoStep("mixup")
ApplyIntensity == /\ fam = "int" /\ k >= 1 /\ k <= Len(lst)
                  /\ cfg' = ApplyInt(lst[k], cfg)
                  /\ k' = k + 1
                  /\ UNCHANGED <<fam, lst>>
Next == ListStart \/ ApplyRotation \/ ApplyScale \/ ApplyTranslate \/ ApplyErase \/ ApplyMixup \/ ApplyIntensity

Done == k = Len(lst) + 1
\* every augmentation named in the list is enabled, whatever the order
ListedEnabled == Done => \A n \in Range(lst) : IF fam = "geo" THEN GeoEnabled(n, cfg) ELSE IntEnabled(n, cfg)
\* the fold over the list equals the definition, a function of the SET of names
FoldIsDefinition == Done => IF fam = "geo" THEN GeoAgrees(cfg, Range(lst), GeoDefaultLit)
                                           ELSE cfg = IntOf(Range(lst), IntDefaultLit)
\* nothing that was not named is switched on
OnlyListedEnabled == Done => IF fam = "geo" THEN \A n \in GeoNames \ Range(lst) : ~GeoEnabled(n, cfg)
                                            ELSE \A n \in IntNames \ Range(lst) : ~IntEnabled(n, cfg)
=============================================================================
