---------------------------- MODULE MC_EvalDelete ----------------------------
(* "Deleting predictions can never increase recall" on the implementation-shaped model (C16):
   one frame, matching done ONCE at OKS threshold 0 in descending detection score (MatchDet), true
   positives counted afterwards by OKS >= tau.  Instance: OKS rank matrix over 0..3 (0 = OKS 0, never
   matched), scores, the kept subset of predictions, tau in 2..3.
     DeleteNeverIncreasesRecall  is expected to be REFUTED by TLC (counter model);
     IncreaseOnlyByOutranking    must hold: whenever recall increases, some gt instance was matched
        in the full run to a prediction with OKS < tau that ranks at least as high as the
        prediction with OKS >= tau that takes it after the deletion. *)
EXTENDS Eval
CONSTANTS MaxG, MaxP, ScoreLevels
VARIABLE dI
Init == /\ \E g \in 1..MaxG : \E p \in 1..MaxP :
             \E s \in [1..p -> 1..ScoreLevels] : \E o \in [1..g -> [1..p -> 0..3]] :
             \E kp \in (SUBSET (1..p)) \ {1..p} : \E t \in 2..3 :
                dI = [I |-> [G |-> g, P |-> p, sc |-> s, ok |-> o, thr |-> 0], keep |-> kp, tau |-> t]
        /\ mI = <<>> /\ avail = {} /\ todo = {} /\ pairs = <<>>
Next == UNCHANGED <<dI, mI, avail, todo, pairs>>
BasePairs == MatchDet(dI.I)
RedPairs == RunDet(dI.I, 1..dI.I.G, dI.keep, <<>>)
TP(ps) == Cardinality({i \in 1..Len(ps) : dI.I.ok[ps[i][1]][ps[i][2]] >= dI.tau})
DeleteNeverIncreasesRecall == TP(RedPairs) <= TP(BasePairs)
\* the counter model whose violation is realised on the real Evaluator (distinct detection scores)
DeleteNeverIncreasesRecallDistinctScores == IsInjective(dI.I.sc) => DeleteNeverIncreasesRecall
Outranked(I, tau, bp, rp) ==
    \E i \in 1..Len(bp) : \E j \in 1..Len(rp) :
        /\ bp[i][1] = rp[j][1] /\ bp[i][2] # rp[j][2]
        /\ I.ok[bp[i][1]][bp[i][2]] < tau /\ I.ok[rp[j][1]][rp[j][2]] >= tau
        /\ I.sc[bp[i][2]] >= I.sc[rp[j][2]]
IncreaseOnlyByOutranking == TP(RedPairs) > TP(BasePairs) => Outranked(dI.I, dI.tau, BasePairs, RedPairs)
=============================================================================
