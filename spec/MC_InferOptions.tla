---------------------------- MODULE MC_InferOptions ----------------------------
(* Design check of InferOptions over all requests of small option domains: every option that applies to a request is
   visible in Placed (changing it changes the placement record: NoOptionLost), an option that does not apply changes
   nothing (NoLeak), the two thresholds of a pair are placed independently (ThresholdsSeparate), and tracking options
   never touch the stages (TrackingSeparate).  Counter-model PairCollapsed: "a pair's first number for every stage". *)
EXTENDS InferOptions
CONSTANT PairCollapsed
VARIABLE r
PathSeqs == {<<"centroid", "centered">>, <<"centered", "centroid">>, <<"centered">>, <<"centroid">>, <<"bottomup">>}
Opts == [pt1 : {2, 5}, pt2 : {None, 3}, refine : {"none", "integral"}, patch : {5}, maxinst : {None, 2}, confmaps : BOOLEAN,
         melr : {25}, dpw : {100}, npts : {10}, mip : {0}, mls : {25, 50}, pafs : BOOLEAN, graph : {FALSE},
         tracking : BOOLEAN, win : {5}, ist : {0}, cand : {"fixed_window", "local_queues"}, feat : {"keypoints"}, score : {"oks"},
         red : {"mean"}, match : {"hungarian", "greedy"}, flow : BOOLEAN, ofs : {100}, ofw : {21}, ofl : {3}]
Requests == [paths : PathSeqs, o : Opts]
Init == r \in Requests
Next == UNCHANGED r
PlacedM(q) == IF PairCollapsed THEN [Placed(q) EXCEPT !.i_pt = IF TopDown(q) /\ HasI(q) THEN q.o.pt1 ELSE None] ELSE Placed(q)
With(q, f, v) == [q EXCEPT !.o = [q.o EXCEPT ![f] = v]]
\* the pair's second number reaches the centred-instance stage and nothing else
ThresholdsSeparate ==
    TopDown(r) /\ HasI(r) => LET a == PlacedM(With(r, "pt2", 3))
                                 b == PlacedM(With(r, "pt2", 4))
                             IN a.i_pt = 3 /\ b.i_pt = 4 /\ [a EXCEPT !.i_pt = 0] = [b EXCEPT !.i_pt = 0]
\* an option that applies is visible
NoOptionLost ==
    /\ PlacedM(With(r, "refine", "none")) # PlacedM(With(r, "refine", "integral")) \/ (TopDown(r) /\ ~HasC(r) /\ ~HasI(r))
    /\ PlacedM(With(r, "confmaps", TRUE)) # PlacedM(With(r, "confmaps", FALSE))
    /\ PlacedM(With(r, "pt1", 2)) # PlacedM(With(r, "pt1", 5)) \/ (TopDown(r) /\ ~HasC(r) /\ r.o.pt2 # None)
    /\ BottomUp(r) => PlacedM(With(r, "mls", 25)) # PlacedM(With(r, "mls", 50))
    /\ r.o.tracking => PlacedM(With(r, "match", "greedy")) # PlacedM(With(r, "match", "hungarian"))
\* an option that does not apply changes nothing
NoLeak ==
    /\ ~BottomUp(r) => PlacedM(With(r, "mls", 25)) = PlacedM(With(r, "mls", 50)) /\ PlacedM(With(r, "pafs", TRUE)) = PlacedM(With(r, "pafs", FALSE))
    /\ ~r.o.tracking => PlacedM(With(r, "match", "greedy")) = PlacedM(With(r, "match", "hungarian"))
    /\ ~(r.o.tracking /\ r.o.flow) => PlacedM(With(r, "ofs", 50)) = PlacedM(With(r, "ofs", 100))
StageFields == {"c_pt", "c_refine", "c_patch", "c_maxinst", "c_confmaps", "i_pt", "i_refine", "i_patch", "i_confmaps", "b_pt", "b_refine",
                "b_patch", "b_confmaps", "b_maxinst", "melr", "dpw", "npts", "mip", "mls", "pafs", "graph", "class"}
TrackingSeparate ==
    LET a == PlacedM(With(r, "tracking", TRUE))
        b == PlacedM(With(r, "tracking", FALSE))
    IN \A f \in StageFields : a[f] = b[f]
=============================================================================
