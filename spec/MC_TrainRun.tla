---------------------------- MODULE MC_TrainRun ----------------------------
EXTENDS TrainRun
CONSTANT Ordering
Configs == [model : {"single_instance", "centered_instance", "centroid", "bottomup"},
            fw : {"torch_dataset", "torch_dataset_np_chunks"}, wandb : BOOLEAN, ckpt : BOOLEAN, structured : BOOLEAN, lowmem : BOOLEAN]
Init == TRInit({c \in Configs : c.lowmem => c.fw = "torch_dataset"}, {Ordering})
Next == TRNext
=============================================================================
