---------------------------- MODULE MC_TrainRun ----------------------------
EXTENDS TrainRun
CONSTANT Ordering
Configs == [model : {"single_instance", "centered_instance", "centroid", "bottomup"},
            fw : {"torch_dataset", "torch_dataset_np_chunks"}, wandb : BOOLEAN, ckpt : BOOLEAN, structured : BOOLEAN]
Init == TRInit(Configs, {Ordering})
Next == TRNext
=============================================================================
