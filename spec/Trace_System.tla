---------------------------- MODULE Trace_System ----------------------------
(* Validation of whole inference sessions.  A trace is [id, cfg, frames]; frames = the LabeledFrames of the
   returned sio.Labels in output order: [fidx, want: set (as sequence) of animals labelled in that frame,
   dets: seq of [a, hi] - the predicted instances attributed to animals (a = 0: not attributable), ret: seq of
   <<index into dets, track>>, raised].  Frames without detections may be absent from the output (top-down) -
   they are listed in `skipped` and must be frames without animals. *)
EXTENDS System, Verdict, Json, IOUtils
Traces == JsonDeserialize(IOEnv.TRACE_FILE)
ASSUME VInit
VARIABLES tid, l
Fr == Traces[tid].frames
SetOf(s) == {s[k] : k \in 1..Len(s)}
Init == /\ tid \in 1..Len(Traces) /\ l = 1
        /\ SInit({Traces[tid].cfg})
DSet(fr) == {fr.dets[i].a : i \in 1..Len(fr.dets)}
Obs(fr) == [a \in DSet(fr) |->
              LET d == CHOOSE i \in 1..Len(fr.dets) : fr.dets[i].a = a
                  hit == {i \in 1..Len(fr.ret) : fr.ret[i][1] = d}
              IN IF hit = {} THEN -1 ELSE fr.ret[CHOOSE i \in hit : TRUE][2]]
FrameClause(fr) ==
    IF fr.raised THEN "raised"
    ELSE IF fr.fidx <= lastFrame THEN "frame_out_of_order_or_repeated"
    ELSE IF \E i \in 1..Len(fr.dets) : fr.dets[i].a = 0 THEN "instance_not_attributable_to_a_labelled_animal"
    ELSE IF Cardinality(DSet(fr)) # Len(fr.dets) THEN "animal_detected_twice"
    ELSE IF DSet(fr) # SetOf(fr.want) THEN "detected_animals_differ_from_labels"
    ELSE ReplyClause(fr.dets, fr.ret, FALSE, nt)
Step == /\ l <= Len(Fr)
        /\ FrameClause(Fr[l]) = "ok"
        /\ SessionStep(Fr[l].fidx, DSet(Fr[l]))
        /\ \A a \in DSet(Fr[l]) : trackOf'[a] = Obs(Fr[l])[a]
        /\ l' = l + 1 /\ tid' = tid
Next == Step
Check ==
    LET id == Traces[tid].id IN
    IF ~Identity THEN VReject(id, "identity_changed_at_frame_" \o ToString(l - 1)) /\ FALSE
    ELSE IF ~Distinct THEN VReject(id, "two_animals_share_a_track_at_frame_" \o ToString(l - 1)) /\ FALSE
    ELSE IF l > Len(Fr) THEN (IF Traces[tid].skipped_with_animals = 0 THEN VAccept ELSE VReject(id, "frame_with_animals_missing_from_output") /\ FALSE)
    ELSE IF FrameClause(Fr[l]) # "ok" THEN VReject(id, FrameClause(Fr[l]) \o "_at_frame_" \o ToString(l)) /\ FALSE
    ELSE IF ENABLED Next THEN TRUE
    ELSE VReject(id, "assignment_not_allowed_by_spec_at_frame_" \o ToString(l)) /\ FALSE
Report == VReport
=============================================================================
