---------------------------- MODULE MC_ArchExport ----------------------------
(* spec -> code: writes the configuration space InGrid = ValidSet \cup BoundarySet of MC_Arch as JSON
   (C14_EXPORT) - every configuration the driver builds the real Model for. *)
EXTENDS MC_Arch, Json, IOUtils
ASSUME JsonSerialize(IOEnv.C14_EXPORT, SetToSeq(ValidSet \cup BoundarySet))
EInit == ArchInit({CHOOSE c \in ValidSet : TRUE})
ENext == UNCHANGED avars
=============================================================================
