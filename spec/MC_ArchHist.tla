---------------------------- MODULE MC_ArchHist ----------------------------
(* Design check for the "model as a function" half of C14: every call history of at most
   MaxCalls calls over three frames (frames 1 and 3 share a size, frame 2 has the other
   orientation; a call is one frame or a batch of two equally sized frames) on a model whose
   only state is the padding attribute of MaxPool2dWithSamePadding.

   OddSizes = FALSE : all sides are multiples of max_stride (the property's domain).  Stateless must
                      hold: the first-call padding decision is 0 at every level, so overwriting
                      `padding` is benign.
   WithFresh        : histories may also contain calls on pristine copies (FreshForward).
   OddSizes = TRUE  : counter-model; frame 2 has a side of 1.5 x max_stride.  Stateless MUST be
                      violated (first call pads the odd level, later calls floor it). *)
EXTENDS Arch
CONSTANTS MaxCalls, OddSizes, WithFresh

H(bb, arch, ms, os, stem, fr, f, upi, mt, hs) ==
    [bb |-> bb, arch |-> arch, ms |-> ms, os |-> os, stem |-> stem, fr |-> fr, f |-> f, cpb |-> 2,
     upi |-> upi, mid |-> TRUE, mt |-> mt, hs |-> hs, parts |-> 3, edges |-> 2]
Cfgs == {H("unet", "unet", 8, 1, 0, <<3, 2>>, 4, TRUE, "bottomup", <<1, 2>>),
         H("unet", "unet", 16, 2, 2, <<2, 1>>, 4, FALSE, "centroid", <<4>>),
         H("convnext", "custom", 16, 2, 2, <<2, 1>>, 8, TRUE, "single_instance", <<2>>),
         H("swint", "custom", 32, 2, 4, <<2, 1>>, 8, TRUE, "centered_instance", <<4>>)}
ASSUME \A c \in Cfgs : Valid(c) /\ AsCodedOutcome(c) = "ok"

FrameSize(c, id) == IF id = 2 THEN (IF OddSizes THEN <<(3 * EncStride(c)) \div 2, c.ms>> ELSE <<2 * c.ms, c.ms>>)
                    ELSE <<c.ms, 2 * c.ms>>
Calls == {<<1>>, <<2>>, <<3>>, <<1, 3>>, <<3, 1>>}
X(c, ids) == [ids |-> ids, h |-> FrameSize(c, ids[1])[1], w |-> FrameSize(c, ids[1])[2]]

Fwd == Len(hist) < MaxCalls /\ \E ids \in Calls : Forward(X(cfg, ids))
\* reference results from pristine copies (WithFresh = FALSE for the graph the driver replays: it
\* prepends the references itself)
Fresh == WithFresh /\ Len(hist) < MaxCalls /\ \E ids \in {<<1>>, <<2>>, <<3>>} : FreshForward(X(cfg, ids))
Init == ArchInit(Cfgs)
Next == Build \/ Fwd \/ Fresh
=============================================================================
