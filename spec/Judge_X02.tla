---------------------------- MODULE Judge_X02 ----------------------------
(* Conformance of the real request resolution (Predictor.from_model_paths ... make_pipeline) with InferConfig!Eff:
   each case is [id, r (the request), o (the observed resolution, o.raised = "" or the exception text)]. *)
EXTENDS InferConfig, Verdict, Json, IOUtils
Cases == JsonDeserialize(IOEnv.TRACE_FILE)
ASSUME VInit
VARIABLE i
Init == i = 0
Next == i < Len(Cases) /\ i' = i + 1
Check == i >= 1 => VGive(Cases[i].id, Clause(Cases[i].r, Cases[i].o))
Report == VReport
=============================================================================
