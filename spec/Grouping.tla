---------------------------- MODULE Grouping ----------------------------
(* PAF grouping: definition layer (what a right answer is) and implementation-shaped layer
   (the algorithms as state machines).  Used by MC_Toposort / MC_Assembly (design checks),
   Judge_C17 / Judge_C08 (conformance of the real code).

   Edges are pairs <<src, dst>> of node indices; an edge list is a sequence of edges; edge
   indices are 0-based as in the implementation (sorted_edge_inds). *)
EXTENDS Naturals, Integers, Sequences, FiniteSets, SequencesExt, FiniteSetsExt, Functions, TLC


\* ----------------------------------------------------------------- trees --------------------
NodesOf(edges) == UNION {{e[1], e[2]} : e \in Range(edges)}
Dsts(edges) == {e[2] : e \in Range(edges)}
Roots(edges) == NodesOf(edges) \ Dsts(edges)

\* edges form a rooted tree: |E| = |V| - 1, one root, every non-root has exactly one incoming
\* edge, and every node reaches the root by following incoming edges.
IsTree(edges) ==
    LET V == NodesOf(edges)
        E == Range(edges)
        par(v) == CHOOSE e \in E : e[2] = v
        RECURSIVE reaches(_, _)
        reaches(v, k) == IF v \in Roots(edges) THEN TRUE
                         ELSE IF k = 0 THEN FALSE ELSE reaches(par(v)[1], k - 1)
    IN /\ Len(edges) >= 1
       /\ Cardinality(E) = Len(edges)
       /\ Cardinality(V) = Len(edges) + 1
       /\ Cardinality(Roots(edges)) = 1
       /\ \A v \in V \ Roots(edges) : Cardinality({e \in E : e[2] = v}) = 1
       /\ \A e \in E : e[1] # e[2]
       /\ \A v \in V : reaches(v, Cardinality(V))

\* C17: ord (sequence of 0-based edge indices) contains every edge exactly once and lists an edge
\* only after the edge leading into its source node.
ValidOrderClause(edges, ord) ==
    LET n == Len(edges)
        pos(k) == CHOOSE i \in 1..Len(ord) : ord[i] = k
    IN IF Len(ord) # n THEN "order_length"
       ELSE IF Range(ord) # 0..(n - 1) THEN "order_not_a_permutation"
       ELSE IF \E k \in 0..(n - 1) : \E j \in 0..(n - 1) :
                  edges[j + 1][2] = edges[k + 1][1] /\ pos(j) > pos(k) THEN "child_before_parent"
       ELSE "ok"
ValidOrder(edges, ord) == ValidOrderClause(edges, ord) = "ok"


\* =============================================================== C08: matching and assembly =====
\* A peak is identified by <<node, idx>> (idx 0-based within the node's peaks, as in PeakID).
\* A connection is a record [e |-> edge index (0-based), s |-> src idx, d |-> dst idx, q |-> score (int), nan |-> BOOLEAN].

InjPartial(S, T) == UNION {{f \in [A -> T] : \A x, y \in A : x # y => f[x] # f[y]} : A \in SUBSET S}

\* --- per-edge optimal one-to-one matching (linear_sum_assignment semantics) -----------------------
\* usable: set of <<s, d>> pairs with a valid score; sc[<<s, d>>]: score.  A matching is a set of usable
\* pairs, one-to-one.  Optimal = maximum cardinality, then maximum total.
IsMatching(M) == \A a, b \in M : a # b => (a[1] # b[1] /\ a[2] # b[2])
Matchings(usable) == {M \in SUBSET usable : IsMatching(M)}
TotalOf(M, sc) == FoldSet(LAMBDA p, acc : acc + sc[p], 0, M)
MaxCard(usable) == Max({Cardinality(M) : M \in Matchings(usable)})
OptTotal(usable, sc) == Max({TotalOf(M, sc) : M \in {X \in Matchings(usable) : Cardinality(X) = MaxCard(usable)}})

\* observed matches of one edge type (as connection records) against the candidates of that edge
MatchClauseEdge(cands, obs, slack) ==
    LET usable == {<<c.s, c.d>> : c \in {x \in cands : ~x.nan}}
        sc == [p \in usable |-> (CHOOSE c \in cands : c.s = p[1] /\ c.d = p[2]).q]
        good == {<<m.s, m.d>> : m \in {x \in obs : ~x.nan}}
    IN IF \E m \in obs : ~(\E c \in cands : c.s = m.s /\ c.d = m.d /\ c.nan = m.nan /\ (c.nan \/ c.q = m.q)) THEN "match_is_not_a_candidate"
       ELSE IF ~IsMatching({<<m.s, m.d>> : m \in obs}) \/ Cardinality({<<m.s, m.d>> : m \in obs}) # Cardinality(obs) THEN "match_not_one_to_one"
       ELSE IF usable = {} THEN "ok"
       ELSE IF Cardinality(good) < MaxCard(usable) THEN "match_not_maximum_cardinality"
       ELSE IF TotalOf(good, sc) + slack * Cardinality(good) < OptTotal(usable, sc) THEN "match_total_not_maximal"
       ELSE "ok"

\* --- connected components of the accepted connections ----------------------------------------------
SrcPeak(edges, c) == <<edges[c.e + 1][1], c.s>>
DstPeak(edges, c) == <<edges[c.e + 1][2], c.d>>
PeaksOf(edges, A) == UNION {{SrcPeak(edges, c), DstPeak(edges, c)} : c \in A}
RECURSIVE Grow(_, _, _)
Grow(edges, A, S) ==
    LET T == S \cup UNION {{SrcPeak(edges, c), DstPeak(edges, c)} : c \in {x \in A : SrcPeak(edges, x) \in S \/ DstPeak(edges, x) \in S}}
    IN IF T = S THEN S ELSE Grow(edges, A, T)
Components(edges, A) == {Grow(edges, A, {p}) : p \in PeaksOf(edges, A)}
ScoreOf(edges, A, comp) == FoldSet(LAMBDA c, acc : acc + c.q, 0, {c \in A : SrcPeak(edges, c) \in comp})

\* --- greedy instance assembly as coded (assign_connections_to_instances) ------------------------------
\* conns: sequence of connection records in processing order (edge types in sorted order, connections in
\* list order).  asg: function PeakID -> instance id.  One step per connection.
AsmStep(edges, asg, c) ==
    LET sp == SrcPeak(edges, c)
        dp == DstPeak(edges, c)
        sAs == sp \in DOMAIN asg
        dAs == dp \in DOMAIN asg
        newId == IF DOMAIN asg = {} THEN 0 ELSE Max({asg[p] : p \in DOMAIN asg}) + 1
        ext(f, p, v) == [x \in DOMAIN f \cup {p} |-> IF x = p THEN v ELSE f[x]]
    IN IF ~sAs /\ ~dAs THEN ext(ext(asg, sp, newId), dp, newId)                       \* case 1
       ELSE IF sAs /\ ~dAs THEN ext(asg, dp, asg[sp])                                    \* case 2
       ELSE IF sAs /\ dAs THEN                                                           \* case 3 (+ merge)
            LET si == asg[sp]
                di == asg[dp]
                a1 == ext(asg, dp, si)
                sN == {p[1] : p \in {x \in DOMAIN a1 : a1[x] = si}}
                dN == {p[1] : p \in {x \in DOMAIN a1 : a1[x] = di}}
            IN IF sN \cap dN = {} THEN [x \in DOMAIN a1 |-> IF a1[x] = di THEN si ELSE a1[x]] ELSE a1
       ELSE asg                                                                            \* dst only: NOT handled (as coded)
InstancesOf(asg) == {{p \in DOMAIN asg : asg[p] = i} : i \in {asg[p] : p \in DOMAIN asg}}

\* --- the full ValidGrouping clause for one recorded case (Judge_C08) ----------------------------------------
\* c.peaks: per node a sequence of <<x, y, v>>;  c.inst: sequence of instances, each a sequence over nodes of
\* <<x, y, v, present>> (present = 1 / 0);  c.iscore: instance scores;  c.matches / c.cand: connection records.
SigOfComp(c, comp) == [n \in 1..c.n_nodes |->
                         IF \E p \in comp : p[1] = n - 1
                         THEN LET p == CHOOSE p \in comp : p[1] = n - 1 IN
                              <<c.peaks[n][p[2] + 1][1], c.peaks[n][p[2] + 1][2], c.peaks[n][p[2] + 1][3], 1>>
                         ELSE <<0, 0, 0, 0>>]
GroupingClause(c, slackScore) ==
    LET E == 0..(Len(c.edges) - 1)
        cands(e) == {c.cand[i] : i \in {j \in 1..Len(c.cand) : c.cand[j].e = e}}
        obs(e) == {c.matches[i] : i \in {j \in 1..Len(c.matches) : c.matches[j].e = e}}
        bad == {e \in E : MatchClauseEdge(cands(e), obs(e), 1) # "ok"}
        A == {c.matches[i] : i \in {j \in 1..Len(c.matches) : ~c.matches[j].nan /\ c.matches[j].q >= c.minq}}
        comps == {k \in Components(c.edges, A) : Cardinality(k) >= c.minpeaks}
        want == {SigOfComp(c, k) : k \in comps}
        got == {c.inst[i] : i \in 1..Len(c.inst)}
    IN IF c.raised # "" THEN "raised"
       ELSE IF Len(c.matches) # Cardinality({c.matches[i] : i \in 1..Len(c.matches)}) THEN "duplicate_match_records"
       ELSE IF bad # {} THEN MatchClauseEdge(cands(CHOOSE e \in bad : TRUE), obs(CHOOSE e \in bad : TRUE), 1)
       ELSE IF \E k1, k2 \in comps : k1 # k2 /\ k1 \cap k2 # {} THEN "spec_components_overlap"
       ELSE IF \E k \in comps : \E p1, p2 \in k : p1 # p2 /\ p1[1] = p2[1] THEN "component_has_two_peaks_of_one_node"
       ELSE IF Cardinality(got) # Len(c.inst) THEN "duplicate_instances"
       ELSE IF \E g \in got : \E n \in 1..c.n_nodes : g[n][4] = 1 /\
                   ~(\E k \in 1..Len(c.peaks[n]) : c.peaks[n][k] = <<g[n][1], g[n][2], g[n][3]>>) THEN "keypoint_is_not_an_input_peak"
       ELSE IF \E g1, g2 \in got : g1 # g2 /\ \E n \in 1..c.n_nodes : g1[n][4] = 1 /\ g1[n] = g2[n] THEN "peak_in_two_instances"
       ELSE IF got # want THEN "instances_are_not_the_components"
       ELSE IF \E i \in 1..Len(c.inst) :
                 LET k == CHOOSE k \in comps : SigOfComp(c, k) = c.inst[i]
                     d == c.iscore[i] - ScoreOf(c.edges, A, k)
                 IN d > slackScore \/ -d > slackScore THEN "instance_score_not_sum_of_edge_scores"
       ELSE "ok"

\* ------------------------------------------------ breadth-first edge order (toposort_edges) --
\* State machine for nx.bfs_edges from the root: a FIFO of visited nodes; popping node v emits
\* all edges leaving v (in any order - networkx uses adjacency insertion order, which the
\* property does not care about).  Any run yields a ValidOrder: this is what MC_Toposort checks
\* for every tree and every listing; a depth-first POST-order (DfsPost = TRUE) must fail.
VARIABLES tree, fifo, ord, emitted
tvars == <<tree, fifo, ord, emitted>>

IndexOfEdge(edges, e) == (CHOOSE k \in 1..Len(edges) : edges[k] = e) - 1

TInit(TreeSpace) ==
    /\ tree \in TreeSpace
    /\ fifo = <<CHOOSE r \in Roots(tree) : TRUE>>
    /\ ord = <<>>
    /\ emitted = {}

BfsPop ==
    /\ fifo # <<>>
    /\ LET v == Head(fifo)
           out == {e \in Range(tree) : e[1] = v}
       IN \E s \in {t \in [1..Cardinality(out) -> out] : Range(t) = out} :
            /\ ord' = ord \o [i \in 1..Len(s) |-> IndexOfEdge(tree, s[i])]
            /\ fifo' = Tail(fifo) \o [i \in 1..Len(s) |-> s[i][2]]
            /\ emitted' = emitted \cup out
    /\ UNCHANGED tree

TDone == fifo = <<>>
TNext == BfsPop
TSpec(TreeSpace) == TInit(TreeSpace) /\ [][TNext]_tvars

OrderValidWhenDone == TDone => ValidOrder(tree, ord)
OrderPrefixSound == \A i \in 1..Len(ord) : \A j \in 0..(Len(tree) - 1) :
                        (tree[j + 1][2] = tree[ord[i] + 1][1]) => \E h \in 1..(i - 1) : ord[h] = j
=============================================================================
