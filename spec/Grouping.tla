---------------------------- MODULE Grouping ----------------------------
(* PAF grouping: definition layer (what a right answer is) and implementation-shaped layer
   (the algorithms as state machines).  Used by MC_Toposort / MC_Assembly (design checks),
   Judge_C17 / Judge_C08 (conformance of the real code).

   Edges are pairs <<src, dst>> of node indices; an edge list is a sequence of edges; edge
   indices are 0-based as in the implementation (sorted_edge_inds). *)
EXTENDS Naturals, Integers, Sequences, FiniteSets, SequencesExt, FiniteSetsExt, Functions, TLC


\* ----------------------------------------------------------------- trees --------------------
NodesOf(edges) == UNION {{e[1], e[2]} : e \in Range(edges)}
Dsts(edges) == {e[2] : e \in Range(edges)}
Roots(edges) == NodesOf(edges) \ Dsts(edges)

\* edges form a rooted tree: |E| = |V| - 1, one root, every non-root has exactly one incoming
\* edge, and every node reaches the root by following incoming edges.
IsTree(edges) ==
    LET V == NodesOf(edges)
        E == Range(edges)
        par(v) == CHOOSE e \in E : e[2] = v
        RECURSIVE reaches(_, _)
        reaches(v, k) == IF v \in Roots(edges) THEN TRUE
                         ELSE IF k = 0 THEN FALSE ELSE reaches(par(v)[1], k - 1)
    IN /\ Len(edges) >= 1
       /\ Cardinality(E) = Len(edges)
       /\ Cardinality(V) = Len(edges) + 1
       /\ Cardinality(Roots(edges)) = 1
       /\ \A v \in V \ Roots(edges) : Cardinality({e \in E : e[2] = v}) = 1
       /\ \A e \in E : e[1] # e[2]
       /\ \A v \in V : reaches(v, Cardinality(V))

\* C17: ord (sequence of 0-based edge indices) contains every edge exactly once and lists an edge
\* only after the edge leading into its source node.
ValidOrderClause(edges, ord) ==
    LET n == Len(edges)
        pos(k) == CHOOSE i \in 1..Len(ord) : ord[i] = k
    IN IF Len(ord) # n THEN "order_length"
       ELSE IF Range(ord) # 0..(n - 1) THEN "order_not_a_permutation"
       ELSE IF \E k \in 0..(n - 1) : \E j \in 0..(n - 1) :
                  edges[j + 1][2] = edges[k + 1][1] /\ pos(j) > pos(k) THEN "child_before_parent"
       ELSE "ok"
ValidOrder(edges, ord) == ValidOrderClause(edges, ord) = "ok"

\* ------------------------------------------------ breadth-first edge order (toposort_edges) --
\* State machine for nx.bfs_edges from the root: a FIFO of visited nodes; popping node v emits
\* all edges leaving v (in any order - networkx uses adjacency insertion order, which the
\* property does not care about).  Any run yields a ValidOrder: this is what MC_Toposort checks
\* for every tree and every listing; a depth-first POST-order (DfsPost = TRUE) must fail.
VARIABLES tree, fifo, ord, emitted
tvars == <<tree, fifo, ord, emitted>>

IndexOfEdge(edges, e) == (CHOOSE k \in 1..Len(edges) : edges[k] = e) - 1

TInit(TreeSpace) ==
    /\ tree \in TreeSpace
    /\ fifo = <<CHOOSE r \in Roots(tree) : TRUE>>
    /\ ord = <<>>
    /\ emitted = {}

BfsPop ==
    /\ fifo # <<>>
    /\ LET v == Head(fifo)
           out == {e \in Range(tree) : e[1] = v}
       IN \E s \in {t \in [1..Cardinality(out) -> out] : Range(t) = out} :
            /\ ord' = ord \o [i \in 1..Len(s) |-> IndexOfEdge(tree, s[i])]
            /\ fifo' = Tail(fifo) \o [i \in 1..Len(s) |-> s[i][2]]
            /\ emitted' = emitted \cup out
    /\ UNCHANGED tree

TDone == fifo = <<>>
TNext == BfsPop
TSpec(TreeSpace) == TInit(TreeSpace) /\ [][TNext]_tvars

OrderValidWhenDone == TDone => ValidOrder(tree, ord)
OrderPrefixSound == \A i \in 1..Len(ord) : \A j \in 0..(Len(tree) - 1) :
                        (tree[j + 1][2] = tree[ord[i] + 1][1]) => \E h \in 1..(i - 1) : ord[h] = j
=============================================================================
