---------------------------- MODULE EpochFeed ----------------------------
(* The training feed: sleap_nn.data.custom_datasets.CyclerDataLoader (+ _RepeatSampler) as the trainer uses it
   (ModelTrainer._create_data_loaders_torch_dataset), num_workers = 0.

   A CyclerDataLoader is an endless stream of batches cut into "epochs" only by its __len__: the trainer calls
   iter(loader) at the start of an epoch and takes at most len(loader) batches from that generator.  All the
   generators read the SAME underlying iterator, so a pass over the dataset may span epochs and nothing is skipped
   or replayed at an epoch boundary.  The underlying batch sampler is repeated for ever; every repetition ("pass")
   visits every sample exactly once, in index order when shuffle is off.

   state
     cfg        [n, b, s, shuffle]   samples, batch size, steps per epoch (0 = not given), shuffle
     phase      "new" | "ready"
     remaining  samples of the current pass not yet delivered ({} = the next batch opens a new pass)
     k          batches taken from the current epoch generator
     count      sample -> number of deliveries since construction / the last reset()
     total      batches delivered since construction / the last reset()
     last       the batch delivered last (sequence), <<>> before the first                                    *)
EXTENDS Naturals, Sequences, FiniteSets, TLC

CONSTANTS MaxN, MaxB, MaxS, Shuffles
VARIABLES cfg, phase, remaining, k, count, total, last
vars == <<cfg, phase, remaining, k, count, total, last>>

Configs == [n : 1..MaxN, b : 1..MaxB, s : 0..MaxS, shuffle : Shuffles]
NoCfg == [n |-> 0, b |-> 1, s |-> 0, shuffle |-> FALSE]

Samples(c) == 0..(c.n - 1)
Min(a, b) == IF a < b THEN a ELSE b
CeilDiv(a, b) == (a + b - 1) \div b
PassLen(c) == CeilDiv(c.n, c.b)                     \* drop_last is off: the last batch of a pass may be short
EpochLen(c) == IF c.s = 0 THEN PassLen(c) ELSE c.s   \* CyclerDataLoader.__len__
\* steps_per_epoch as ModelTrainer derives it when the configuration leaves it out (train) / always (val)
TrainerSteps(n, b) == IF n \div b = 0 THEN 1 ELSE n \div b

\* the sequences a pass may deliver next: min(b, |rem|) distinct samples of rem; the smallest in order if ~shuffle
SortedSeq(S) ==
    LET RECURSIVE srt(_)
        srt(T) == IF T = {} THEN <<>> ELSE LET m == CHOOSE x \in T : \A y \in T : x <= y IN <<m>> \o srt(T \ {m})
    IN srt(S)
Range(q) == {q[i] : i \in 1..Len(q)}
Injective(q) == \A i, j \in 1..Len(q) : q[i] = q[j] => i = j
IsBatch(c, rem, q) ==
    LET sz == Min(c.b, Cardinality(rem)) IN
    /\ Len(q) = sz /\ Range(q) \subseteq rem /\ Injective(q)
    /\ (~c.shuffle => q = SubSeq(SortedSeq(rem), 1, sz))
Batches(c, rem) ==          \* the same, enumerated (model checking only)
    LET sz == Min(c.b, Cardinality(rem)) IN
    IF c.shuffle THEN {q \in [1..sz -> rem] : Injective(q)} ELSE {SubSeq(SortedSeq(rem), 1, sz)}

Init == /\ cfg = NoCfg /\ phase = "new" /\ remaining = {} /\ k = 0 /\ count = <<>> /\ total = 0 /\ last = <<>>

Construct(c) ==
    /\ phase = "new"
    /\ cfg' = c /\ phase' = "ready"
    /\ count' = [x \in Samples(c) |-> 0]
    /\ UNCHANGED <<remaining, k, total, last>>

\* iter(loader): a new epoch generator; the underlying iterator is untouched
Iter == /\ phase = "ready" /\ k' = 0 /\ UNCHANGED <<cfg, phase, remaining, count, total, last>>

\* next(generator): the trainer takes at most len(loader) batches per generator
Deliver(batch) ==
    LET rem0 == IF remaining = {} THEN Samples(cfg) ELSE remaining IN
    /\ phase = "ready" /\ k < EpochLen(cfg)
    /\ IsBatch(cfg, rem0, batch)
    /\ remaining' = rem0 \ Range(batch)
    /\ k' = k + 1 /\ total' = total + 1 /\ last' = batch
    /\ count' = [x \in Samples(cfg) |-> IF x \in Range(batch) THEN count[x] + 1 ELSE count[x]]
    /\ UNCHANGED <<cfg, phase>>
NextBatch == \E batch \in Batches(cfg, IF remaining = {} THEN Samples(cfg) ELSE remaining) : Deliver(batch)

\* loader.reset(): a fresh underlying iterator, the next batch opens a new pass
Reset == /\ phase = "ready" /\ remaining' = {} /\ total' = 0 /\ count' = [x \in Samples(cfg) |-> 0]
         /\ UNCHANGED <<cfg, phase, k, last>>

Next == (\E c \in Configs : Construct(c)) \/ Iter \/ NextBatch \/ Reset
Spec == Init /\ [][Next]_vars

\* ==PROPERTIES==
TypeOK == /\ phase \in {"new", "ready"}
          /\ phase = "ready" => /\ cfg \in Configs /\ remaining \subseteq Samples(cfg) /\ remaining # Samples(cfg)
                                /\ k \in 0..EpochLen(cfg) /\ DOMAIN count = Samples(cfg)

\* every batch is full except the one that closes a pass, which holds what is left (never empty, never dropped)
BatchSizes == (phase = "ready" /\ total > 0) =>
    /\ Len(last) >= 1 /\ Len(last) <= cfg.b /\ Injective(last)
    /\ (remaining # {} => Len(last) = cfg.b)
    /\ (remaining = {} => Len(last) = cfg.n - cfg.b * (PassLen(cfg) - 1))

\* a pass is a partition of the samples: after t batches every sample was delivered floor(t / PassLen) or
\* ceil(t / PassLen) times - nobody starves, nobody is favoured, however epochs cut the stream
Balanced == phase = "ready" =>
    \A x \in Samples(cfg) : /\ count[x] >= total \div PassLen(cfg)
                            /\ count[x] <= CeilDiv(total, PassLen(cfg))
                            /\ (x \in remaining => count[x] = total \div PassLen(cfg))
PassPosition == phase = "ready" =>
    Cardinality(remaining) = (IF total % PassLen(cfg) = 0 THEN 0 ELSE cfg.n - cfg.b * (total % PassLen(cfg)))

\* shuffle off: batch number t of a pass is <<t*b, ..., t*b + b - 1>> cut at n
InOrder == (phase = "ready" /\ ~cfg.shuffle /\ total > 0) =>
    LET t == (total - 1) % PassLen(cfg) IN last = [i \in 1..Min(cfg.b, cfg.n - t * cfg.b) |-> t * cfg.b + i - 1]

\* with the trainer's own steps_per_epoch a pass never needs more than two epochs (PassLen <= EpochLen + 1)
TrainerStepsCoverPass == \A n \in 1..MaxN, b \in 1..MaxB : CeilDiv(n, b) <= TrainerSteps(n, b) + 1
=============================================================================
