---------------------------- MODULE Trace_TrainRun ----------------------------
(* Validation of real training runs.  A trace is [id, cfg, states, fin]: states is the sequence of disk states
   observed at every file-write boundary of the real run (and at exit) - each one a possible post-crash state -
   as [ev: class about to be written/removed, files: classes present, keyed: classes containing the key].
   The monitor binds the spec's disk / keyed variables to the observation, requires NoKeyOnDisk in EVERY state,
   requires every write to be a write the program of this configuration can perform (classes of the program,
   or "other"/lightning-internal files that are not configuration serialisations), and at the end the
   terminal properties of a completed run. *)
EXTENDS TrainRun, Verdict, Json, IOUtils
Traces == JsonDeserialize(IOEnv.TRACE_FILE)
ASSUME VInit
VARIABLES tid, l
St == Traces[tid].states
SetOf(s) == {s[k] : k \in 1..Len(s)}
Init == /\ tid \in 1..Len(Traces) /\ l = 0
        /\ TRInit({Traces[tid].cfg}, {"intended"})
Observe == /\ l < Len(St) /\ l' = l + 1 /\ tid' = tid
           /\ disk' = SetOf(St[l + 1].files) /\ keyed' = SetOf(St[l + 1].keyed)
           /\ UNCHANGED <<cfg, ordering, pc, cfgKey, crashed>>
Next == Observe
ProgramClasses == {Prog[k][2] : k \in 1..Len(Prog)} \cup {"exit", "other", "chunk_other", "ckpt_other", "metrics_csv", "hparams_yaml"}
Fin == Traces[tid].fin
Check ==
    LET id == Traces[tid].id IN
    IF keyed # {} THEN VReject(id, "key_on_disk/" \o (CHOOSE c \in keyed : TRUE) \o "/before_write_of/" \o St[l].ev) /\ FALSE
    ELSE IF l >= 1 /\ St[l].ev \notin ProgramClasses THEN VReject(id, "write_not_in_program/" \o St[l].ev) /\ FALSE
    ELSE IF l < Len(St) THEN TRUE
    ELSE IF Fin.raised THEN VReject(id, "run_raised") /\ FALSE
    ELSE IF ~({"initial_config", "training_config"} \subseteq disk) THEN VReject(id, "config_artifact_missing") /\ FALSE
    ELSE IF cfg.ckpt /\ "ckpt_best" \notin disk THEN VReject(id, "checkpoint_missing") /\ FALSE
    ELSE IF "chunk_npz" \in disk THEN VReject(id, "chunks_not_deleted") /\ FALSE
    ELSE IF ~Fin.initial_equal THEN VReject(id, "initial_config_differs_from_supplied") /\ FALSE
    ELSE IF ~Fin.final_equal THEN VReject(id, "training_config_differs_from_used") /\ FALSE
    ELSE VAccept
Report == VReport
=============================================================================
