---------------------------- MODULE Trace_TrainControl ----------------------------
(* Batch trace validation for TrainControl.  A trace is [id, cfg, ep, fin] recorded from a real ModelTrainer.train():
     cfg   the trainer configuration in the spec's units (what the harness wrote into trainer_config)
     ep    one entry per epoch that ran: [v |-> the validation loss fed to that epoch (quarters),
                                          k |-> the learning rate the epoch's training step ran with, as lr0 / 2^k (-1: not a halving of lr0)]
     fin   [best |-> epoch stored in best.ckpt, last |-> epoch stored in last.ckpt (-1: no file), raised |-> "" or text]
   Every epoch that ran must be an Epoch step of the spec from the current state (so the run did not go on after the
   specified end), with the rate the spec's schedule gives; when the trace ends the spec must have ended too (so the
   run did not end before the specified end); and the checkpoints hold the epochs the spec says. *)
EXTENDS TrainControl, Verdict, Json, IOUtils
Traces == JsonDeserialize(IOEnv.TRACE_FILE)
ASSUME VInit
VARIABLES tid, l
tvars == <<vars, tid, l>>
Ep == Traces[tid].ep
Fin == Traces[tid].fin
TInit == /\ tid \in 1..Len(Traces) /\ l = 1 /\ TCInit({Traces[tid].cfg})
TStep == /\ l <= Len(Ep) /\ l' = l + 1 /\ tid' = tid
         /\ Fin.raised = ""
         /\ Ep[l].k = k
         /\ Epoch(Ep[l].v)
Inv == IF ~TypeOK THEN "TypeOK" ELSE IF ~Ends THEN "Ends" ELSE IF ~BestIsEarliestMinimum THEN "BestIsEarliestMinimum"
       ELSE IF ~StopIsJustified THEN "StopIsJustified" ELSE IF ~NotLate THEN "NotLate" ELSE IF ~RateMonotone THEN "RateMonotone"
       ELSE IF ~ReductionIsJustified THEN "ReductionIsJustified" ELSE IF ~ReductionsApart THEN "ReductionsApart" ELSE "ok"
Why == IF Fin.raised # "" THEN "raised"
       ELSE IF ~Running THEN "epoch_run_after_the_specified_end/" \o (IF stopped THEN "early_stopping" ELSE "max_epochs")
       ELSE IF Ep[l].k # k THEN "learning_rate_differs_from_the_schedule/" \o cfg.sched
       ELSE "no_spec_step"
AtEnd == IF Running THEN "run_ended_before_the_specified_end/" \o (IF cfg.es THEN "early_stopping_on" ELSE "early_stopping_off")
         ELSE IF Fin.best # ckBest THEN "best_checkpoint_is_not_the_earliest_lowest_epoch"
         ELSE IF Fin.last # ckLast THEN "last_checkpoint"
         ELSE "ok"
Check ==
    LET id == Traces[tid].id IN
    IF Inv # "ok" THEN VReject(id, Inv) /\ FALSE
    ELSE IF l > Len(Ep) THEN (IF Fin.raised # "" THEN VReject(id, "raised") ELSE VGive(id, AtEnd))
    ELSE IF ENABLED TStep THEN TRUE ELSE VReject(id, Why) /\ FALSE
Report == VReport
=============================================================================
