---------------------------- MODULE FrameStream ----------------------------
(* Reader thread || bounded queue || batching consumer  (C13, consumer part of C12).

   Code mapped (sleap_nn/data/providers.py VideoReader.run / LabelsReader.run and
   sleap_nn/inference/predictors.py Predictor._predict_generator):

     ProdRead   img = self.video[idx] / lf = self.labels[idx]; lf.image   (may raise -> except -> finally)
     ProdPut    self.frame_buffer.put(sample)            blocks while the queue is full
     ProdEOS    finally: self.frame_buffer.put({"image": None, ...})   same blocking rule
     ConsGet    frame = self.pipeline.frame_buffer.get() blocks while the queue is empty
                  image None -> done = True, break; else append; batch full -> leave the for loop
     ConsInfer  outputs_list = self.inference_model(ex); yield each output   (only if imgs)
     ConsJoin   self.pipeline.join()                     blocks until the reader thread is dead

   The configuration (n frames, capacity, batch size, failing position) is a variable that never
   changes, so that ONE TLC run covers the whole configuration grid and one batch run validates
   traces of different configurations.  Frames are positions 1..n; EOS is 0. *)
EXTENDS Naturals, Sequences, SequencesExt, FiniteSets, TLC

EOS == 0
\* (the @type comments are Apalache annotations - TLC ignores them; see drivers/C13.py, inductive check)
VARIABLES
    \* @type: { n: Int, cap: Int, b: Int, fail: Int };
    cfg,      \* [n, cap, b, fail]  fail = 0: no fault, else the position whose read raises
    \* @type: Str;
    ppc,      \* producer control: "read" | "put" | "eos" | "done"
    \* @type: Int;
    pi,       \* next position the producer reads / puts
    \* @type: Seq(Int);
    q,        \* queue content (positions, EOS)
    \* @type: Str;
    cpc,      \* consumer control: "get" | "infer" | "join" | "end"
    \* @type: Seq(Int);
    batch,    \* frames collected for the current batch
    \* @type: Bool;
    sawEOS,   \* done flag of the consumer
    \* @type: Seq(Seq(Int));
    out,      \* sequence of batches handed to the inference model
    \* @type: Int;
    eosPut    \* number of end-of-stream markers ever enqueued
vars == <<cfg, ppc, pi, q, cpc, batch, sawEOS, out, eosPut>>

\* @type: (Set({ n: Int, cap: Int, b: Int, fail: Int })) => Bool;
FSInit(Configs) ==
    /\ cfg \in Configs
    /\ ppc = (IF cfg.n = 0 THEN "eos" ELSE "read")
    /\ pi = 1 /\ q = <<>>
    /\ cpc = "get" /\ batch = <<>> /\ sawEOS = FALSE /\ out = <<>> /\ eosPut = 0

ProdRead ==
    /\ ppc = "read"
    /\ ppc' = (IF pi = cfg.fail THEN "eos" ELSE "put")
    /\ UNCHANGED <<cfg, pi, q, cpc, batch, sawEOS, out, eosPut>>

ProdPut ==
    /\ ppc = "put" /\ Len(q) < cfg.cap
    /\ q' = Append(q, pi) /\ pi' = pi + 1
    /\ ppc' = (IF pi = cfg.n THEN "eos" ELSE "read")
    /\ UNCHANGED <<cfg, cpc, batch, sawEOS, out, eosPut>>

ProdEOS ==
    /\ ppc = "eos" /\ Len(q) < cfg.cap
    /\ q' = Append(q, EOS) /\ ppc' = "done" /\ eosPut' = eosPut + 1
    /\ UNCHANGED <<cfg, pi, cpc, batch, sawEOS, out>>

ConsGet ==
    /\ cpc = "get" /\ q # <<>>
    /\ q' = Tail(q)
    /\ IF Head(q) = EOS
       THEN /\ sawEOS' = TRUE /\ batch' = batch
            /\ cpc' = (IF batch = <<>> THEN "join" ELSE "infer")
       ELSE /\ sawEOS' = sawEOS /\ batch' = Append(batch, Head(q))
            /\ cpc' = (IF Len(batch) + 1 = cfg.b THEN "infer" ELSE "get")
    /\ UNCHANGED <<cfg, ppc, pi, out, eosPut>>

ConsInfer ==
    /\ cpc = "infer"
    /\ out' = Append(out, batch) /\ batch' = <<>>
    /\ cpc' = (IF sawEOS THEN "join" ELSE "get")
    /\ UNCHANGED <<cfg, ppc, pi, q, sawEOS, eosPut>>

ConsJoin ==
    /\ cpc = "join" /\ ppc = "done" /\ cpc' = "end"
    /\ UNCHANGED <<cfg, ppc, pi, q, batch, sawEOS, out, eosPut>>

Producer == ProdRead \/ ProdPut \/ ProdEOS
Consumer == ConsGet \/ ConsInfer \/ ConsJoin
FSNext == Producer \/ Consumer

\* ==PROPERTIES== (everything below is cut off when the module is handed to Apalache)
\* ------------------------------------------------------------------ properties (C13) --------
Frames(c) == [i \in 1..c.n |-> i]
Flat == FlattenSeq(out)
Expected == IF cfg.fail = 0 THEN Frames(cfg) ELSE SubSeq(Frames(cfg), 1, cfg.fail - 1)
InOrderOnce == IsPrefix(Flat \o batch, Frames(cfg))      \* each frame at most once, in increasing order
OneEOS      == eosPut <= 1 /\ (ppc = "done" => eosPut = 1)
FullBatches == \A k \in 1..Len(out) : Len(out[k]) = cfg.b \/ (k = Len(out) /\ sawEOS /\ Len(out[k]) \in 1..cfg.b)
AtEnd       == cpc = "end" => (Flat = Expected /\ q = <<>> /\ ppc = "done" /\ batch = <<>>)
Bounded     == Len(q) <= cfg.cap
NothingAfterEOS == \A i \in 1..Len(q) : q[i] = EOS => i = Len(q)
NoDeadlock  == (ENABLED FSNext) \/ cpc = "end"
Terminates  == <>(cpc = "end")
TypeOK == /\ ppc \in {"read", "put", "eos", "done"} /\ cpc \in {"get", "infer", "join", "end"}
          /\ pi \in 1..(cfg.n + 1) /\ Len(batch) <= cfg.b
=============================================================================
