---------------------------- MODULE Verdict ----------------------------
(* Verdict registers for batch judging / batch trace validation (run with -workers 1).
   register 1: set of <<id, clause>> of rejected cases (capped PER CLAUSE so that a frequent finding
               cannot crowd out a rare one, and in total so a broken tree stays cheap)
   register 2: number of accepted cases;  register 3: number of rejected cases.
   Every case gets exactly one verdict (totality): the driver checks accepted + rejected = #cases. *)
EXTENDS TLC, TLCExt, Naturals, FiniteSets

VInit == TLCSet(1, {}) /\ TLCSet(2, 0) /\ TLCSet(3, 0)
VAccept == TLCSet(2, TLCGet(2) + 1)
VReject(id, clause) ==
    /\ TLCSet(3, TLCGet(3) + 1)
    /\ IF Cardinality({x \in TLCGet(1) : x[2] = clause}) < 12 /\ Cardinality(TLCGet(1)) < 400
       THEN TLCSet(1, TLCGet(1) \cup {<<id, clause>>}) ELSE TRUE
VGive(id, clause) == IF clause = "ok" THEN VAccept ELSE VReject(id, clause)
VReport == PrintT(<<"VERDICT", TLCGet(2), TLCGet(3), TLCGet(1)>>)
=============================================================================
