---------------------------- MODULE Arch ----------------------------
(* Backbone / head bookkeeping of sleap_nn.architectures (C14).

   Implementation-shaped layer: integer transcription of UNet.from_config, Encoder.__init__,
   Decoder.__init__ (including the `while current_stride >= output_stride` tail), the ConvNeXt /
   SwinT wrappers and Model.__init__ / Model.forward: number of blocks, the `current_strides`
   list, declared channel widths (filters_rate is a rational <<num, den>>, int() is floor), and
   the channel / spatial flow of one forward pass through those declarations.

   Every line that a confirmed defect lives in is transcribed twice, selected by a repair record R
     R.mid  : decoder input width follows the encoder output when middle_block = False
     R.cpb  : down blocks keep at least one convolution when convs_per_block = 1
     R.head : head in_channels is read from the selected decoder block instead of being
              recomputed as round(max_channels / rate^depth) * rate^factor
   AsCoded = all FALSE (the tree as it is), Repaired = all TRUE (the intended design the real
   code is judged against).  MC_Arch proves the C14 arithmetic for Repaired on the whole grid,
   shows that AsCoded violates it, and classifies exactly where.

   A configuration is a record
     [bb, ms, os, stem, fr, f, cpb, upi, mid, mt, hs, parts, edges, arch]
   (see harness/arch_util.py for the meaning of the fields; stem = 0 stands for None).

   Model as a function: `Forward` appends a call to the history of a model whose only state is
   the `padding` attribute that MaxPool2dWithSamePadding overwrites on its first call. *)
EXTENDS Naturals, Integers, Sequences, FiniteSets, SequencesExt, FiniteSetsExt, Functions, TLC

\* ------------------------------------------------------------------ arithmetic ------------
\* powers of 2 and 3 come from tables (TLC interprets recursion slowly; the grid needs ~10^8 of them)
P2 == <<1, 2, 4, 8, 16, 32, 64, 128, 256, 512, 1024, 2048, 4096>>
P3 == <<1, 3, 9, 27, 81, 243, 729, 2187, 6561, 19683, 59049>>
RECURSIVE PowRec(_, _)
PowRec(b, e) == IF e <= 0 THEN 1 ELSE b * PowRec(b, e - 1)
Pow(b, e) == IF e <= 0 \/ b = 1 THEN 1
             ELSE IF b = 2 /\ e < 13 THEN P2[e + 1]
             ELSE IF b = 3 /\ e < 11 THEN P3[e + 1]
             ELSE PowRec(b, e)
IsPow2(n) == n \in {1, 2, 4, 8, 16, 32, 64, 128, 256}
Log2(n) == CHOOSE k \in 0..8 : P2[k + 1] = n
\* int(f * rate ** k) for a positive rational rate r = <<num, den>>; k may be negative
Scale(f, r, k) == IF k >= 0 THEN (f * Pow(r[1], k)) \div Pow(r[2], k)
                  ELSE (f * Pow(r[2], 0 - k)) \div Pow(r[1], 0 - k)
RoundDiv(a, b) == (2 * a + b) \div (2 * b)          \* round(a / b) away from ties (MC_Arch: NoRoundingTies)
FloorDivRate(x, r) == (x * r[2]) \div r[1]            \* x // rate
CeilDiv(a, b) == (a + b - 1) \div b
FirstIndex(s, v) == CHOOSE i \in 1..Len(s) : s[i] = v /\ \A j \in 1..(i - 1) : s[j] # v
InSeq(s, v) == \E i \in 1..Len(s) : s[i] = v

AsCoded == [mid |-> FALSE, cpb |-> FALSE, head |-> FALSE]
Repaired == [mid |-> TRUE, cpb |-> TRUE, head |-> TRUE]

IsUNet(c) == c.bb = "unet"

\* ------------------------------------------------------------------ heads -----------------
NHeads(c) == IF c.mt = "bottomup" THEN 2 ELSE 1
HeadNames(c) == CASE c.mt = "single_instance" -> <<"SingleInstanceConfmapsHead">>
                  [] c.mt = "centered_instance" -> <<"CenteredInstanceConfmapsHead">>
                  [] c.mt = "centroid" -> <<"CentroidConfmapsHead">>
                  [] c.mt = "bottomup" -> <<"MultiInstanceConfmapsHead", "PartAffinityFieldsHead">>
\* parts (confidence maps) / 1 (centroid) / 2 x edges (part affinity fields)
HeadCh(c, k) == IF c.mt = "centroid" THEN 1
                ELSE IF c.mt = "bottomup" /\ k = 2 THEN 2 * c.edges ELSE c.parts
\* what the data pipeline produces for head k on an (H, W) image: make_grid_vectors uses
\* arange(0, H, step = stride), i.e. ceil(H / stride) samples
TargetShape(c, k, H, W) == <<HeadCh(c, k), CeilDiv(H, c.hs[k]), CeilDiv(W, c.hs[k])>>
WantShape(c, k, H, W) == <<HeadCh(c, k), H \div c.hs[k], W \div c.hs[k]>>

\* ------------------------------------------------------------------ validity --------------
\* real reduction factor of the encoder
EncStride(c) == IF IsUNet(c) THEN c.ms ELSE 8 * c.stem
WellFormed(c) ==
    /\ c.bb \in {"unet", "convnext", "swint"}
    /\ c.mt \in {"single_instance", "centered_instance", "centroid", "bottomup"}
    /\ Len(c.hs) = NHeads(c)
    /\ IsPow2(c.ms) /\ IsPow2(c.os) /\ \A k \in 1..Len(c.hs) : IsPow2(c.hs[k])
    /\ c.f >= 1 /\ c.cpb >= 1 /\ c.parts >= 1 /\ c.edges >= 1
    /\ IF IsUNet(c) THEN (c.stem = 0 \/ (IsPow2(c.stem) /\ c.stem >= 2 /\ c.stem < c.ms)) /\ c.fr[1] > c.fr[2]
       ELSE /\ c.stem \in {2, 4}
            /\ c.ms % (8 * c.stem) = 0     \* max_stride must be a multiple of the real reduction
            /\ c.fr = <<2, 1>>             \* the encoders double their width per stage
            /\ c.mid
    \* the backbone decodes at least down to every head ("ideally the minimum of the head strides")
    /\ \A k \in 1..Len(c.hs) : c.os <= c.hs[k]
\* Valid: every head sits strictly below the encoder's stride, i.e. on some decoder output.
Valid(c) == WellFormed(c) /\ \A k \in 1..Len(c.hs) : c.hs[k] < EncStride(c)
\* Boundary: some head asks for the encoder's own stride (output_stride == max_stride).  No
\* decoder block produces it; the documentation neither promises nor excludes it.
Boundary(c) == /\ WellFormed(c)
               /\ \A k \in 1..Len(c.hs) : c.hs[k] <= EncStride(c)
               /\ \E k \in 1..Len(c.hs) : c.hs[k] = EncStride(c)
InGrid(c) == Valid(c) \/ Boundary(c)

\* ------------------------------------------------------------------ UNet encoder ----------
NStem(c) == IF c.stem = 0 THEN 0 ELSE Log2(c.stem)              \* UNet.from_config
NDown(c) == Log2(c.ms) - NStem(c)
NUp(c) == IF c.os <= c.ms THEN Log2(c.ms \div c.os) ELSE 0
NEnc(c) == NStem(c) + NDown(c)

\* declared conv block: din = in_channels of its first convolution, convs = number of convolutions,
\* dout = filters.  A block with 0 convolutions passes its input through.
EncBlocks(c, R) ==
    LET n == NEnc(c)
        after == Scale(c.f, c.fr, n - 1)
        wide == Scale(c.f, c.fr, n)
        blk(k) == [din |-> IF k = 0 THEN 1 ELSE Scale(c.f, c.fr, k - 1),
                   convs |-> IF k < NStem(c) THEN c.cpb
                             ELSE IF R.cpb /\ c.cpb <= 1 THEN 1 ELSE c.cpb - 1,
                   dout |-> Scale(c.f, c.fr, k)]
        mid1 == IF c.cpb > 1 THEN <<[din |-> after, convs |-> c.cpb - 1, dout |-> wide]>> ELSE <<>>
        mid2 == <<[din |-> IF R.cpb /\ c.cpb <= 1 THEN after ELSE wide, convs |-> 1, dout |-> wide]>>
    IN [k \in 1..n |-> blk(k - 1)] \o (IF c.mid THEN mid1 \o mid2 ELSE <<>>)

\* channel flow through the encoder; s = [why, xc, feats]; feats[k] = channels after block k
RECURSIVE EncFlow(_, _, _, _)
EncFlow(blocks, n, k, s) ==
    IF s.why # "ok" \/ k > Len(blocks) THEN s
    ELSE LET b == blocks[k] IN
         IF b.convs >= 1 /\ s.xc # b.din THEN [s EXCEPT !.why = "encoder_conv_in_channels"]
         ELSE LET x2 == IF b.convs >= 1 THEN b.dout ELSE s.xc IN
              EncFlow(blocks, n, k + 1, [why |-> "ok", xc |-> x2,
                                         feats |-> IF k <= n THEN Append(s.feats, x2) ELSE s.feats])

\* ------------------------------------------------------------------ decoder ---------------
\* Decoder.__init__: `up` skip blocks, then the tail `while current_stride >= output_stride`.
\* tconv = in_channels of the transposed convolution, cin = in_channels of the first refine
\* convolution (after the concat), cout = refine filters, stride = the value appended to
\* current_strides.
DecBlocks(xin, cur, filt, up, down, stem, r, os) ==
    LET bfi(b) == Scale(filt, r, down + stem - 1 - b)
        main == [b \in 1..up |->
                   LET prev == IF b = 1 THEN xin ELSE bfi(b - 2) IN
                   [tconv |-> prev, cin |-> prev + bfi(b - 1), cout |-> bfi(b - 1),
                    stride |-> cur \div Pow(2, b - 1), skip |-> TRUE]]
        cs0 == cur \div Pow(2, up)
        T == Cardinality({j \in 0..8 : cs0 \div Pow(2, j) >= os})
        tail == [j \in 1..T |->
                   LET bi == bfi(up - 1 + (j - 1)) IN
                   [tconv |-> bi, cin |-> bi, cout |-> FloorDivRate(bi, r),
                    stride |-> cs0 \div Pow(2, j - 1), skip |-> FALSE]]
    IN main \o tail

\* flow through the decoder; feats[i] = [ch, h, w] of features[i]; s = [why, xc, h, w, outs]
RECURSIVE DecFlow(_, _, _, _, _)
DecFlow(blocks, feats, upi, i, s) ==
    IF s.why # "ok" \/ i > Len(blocks) THEN s
    ELSE LET b == blocks[i]
             fail(w) == [s EXCEPT !.why = w]
         IN IF ~upi /\ s.xc # b.tconv THEN fail("decoder_tconv_in_channels")
            ELSE IF b.skip /\ i > Len(feats) THEN fail("decoder_missing_skip_feature")
            ELSE IF b.skip /\ (feats[i].h # 2 * s.h \/ feats[i].w # 2 * s.w) THEN fail("decoder_concat_spatial")
            ELSE IF s.xc + (IF b.skip THEN feats[i].ch ELSE 0) # b.cin THEN fail("decoder_conv_in_channels")
            ELSE DecFlow(blocks, feats, upi, i + 1,
                         [why |-> "ok", xc |-> b.cout, h |-> 2 * s.h, w |-> 2 * s.w,
                          outs |-> Append(s.outs, [ch |-> b.cout, h |-> 2 * s.h, w |-> 2 * s.w])])

\* ------------------------------------------------------------------ backbones -------------
\* [blocks, maxch, why, outs] for an (H, W) input whose sides are multiples of EncStride
Backbone(c, R, H, W) ==
    IF IsUNet(c)
    THEN LET n == NEnc(c)
             eb == EncBlocks(c, R)
             ef == EncFlow(eb, n, 1, [why |-> "ok", xc |-> 1, feats |-> <<>>])
             wide == Scale(c.f, c.fr, n)
             xin == IF R.mid /\ ~c.mid THEN Scale(c.f, c.fr, n - 1) ELSE wide
             blocks == DecBlocks(xin, Pow(2, n - 1), c.f, NUp(c), NDown(c), NStem(c), c.fr, c.os)
             \* features[::-1]: features[i] is encoder block n - i (1-based), at stride 2^(n-i)
             feats == IF ef.why # "ok" THEN <<>>
                      ELSE [i \in 1..n |-> [ch |-> ef.feats[n + 1 - i],
                                            h |-> H \div Pow(2, n - i), w |-> W \div Pow(2, n - i)]]
             df == IF ef.why # "ok" THEN [why |-> ef.why, outs |-> <<>>]
                   ELSE DecFlow(blocks, feats, c.upi, 1,
                                [why |-> "ok", xc |-> ef.xc, h |-> H \div c.ms, w |-> W \div c.ms, outs |-> <<>>])
         IN [blocks |-> blocks, maxch |-> wide, why |-> df.why, outs |-> df.outs]
    ELSE LET s == c.stem
             blocks == DecBlocks(8 * c.f, 4 * s, c.f, 3, 3, 0, c.fr, c.os)
             feats == <<[ch |-> 4 * c.f, h |-> H \div (4 * s), w |-> W \div (4 * s)],
                        [ch |-> 2 * c.f, h |-> H \div (2 * s), w |-> W \div (2 * s)],
                        [ch |-> c.f, h |-> H \div s, w |-> W \div s]>>
             df == DecFlow(blocks, feats, c.upi, 1,
                           [why |-> "ok", xc |-> 8 * c.f, h |-> H \div (8 * s), w |-> W \div (8 * s), outs |-> <<>>])
         IN [blocks |-> blocks, maxch |-> 8 * c.f, why |-> df.why, outs |-> df.outs]

Strides(blocks) == [i \in 1..Len(blocks) |-> blocks[i].stride]

\* ------------------------------------------------------------------ Model -----------------
MinOS(c) == Min(Range(c.hs) \cup {c.os})
\* Model.__init__ raises ValueError("x is not in list") from strides.index
BuildRaises(c, R, blocks) ==
    LET st == Strides(blocks) IN
    \E k \in 1..Len(c.hs) :
        IF R.head THEN ~InSeq(st, c.hs[k])
        ELSE c.hs[k] # MinOS(c) /\ (~InSeq(st, c.hs[k]) \/ ~InSeq(st, MinOS(c)))
HeadIn(c, R, blocks, maxch, k) ==
    LET st == Strides(blocks)
        U == Len(blocks)
        base == RoundDiv(maxch * Pow(c.fr[2], U), Pow(c.fr[1], U))
    IN IF R.head THEN blocks[FirstIndex(st, c.hs[k])].cout
       ELSE IF c.hs[k] = MinOS(c) THEN base
       ELSE Scale(base, c.fr, FirstIndex(st, MinOS(c)) - FirstIndex(st, c.hs[k]))

\* One construction + one forward pass on an (H, W) input.
\*   build : "ok" | "head_stride_not_in_list"
\*   fwd   : "ok" | first failing step of the forward pass
Run(c, R, H, W) ==
    LET bb == Backbone(c, R, H, W)
        st == Strides(bb.blocks)
        nh == Len(c.hs)
    IN IF BuildRaises(c, R, bb.blocks)
       THEN [build |-> "head_stride_not_in_list", nblocks |-> Len(bb.blocks), strides |-> st,
             headin |-> <<>>, maxch |-> bb.maxch, fwd |-> "not_built", shapes |-> <<>>, sel |-> <<>>,
             blocks |-> bb.blocks, outs |-> <<>>]
       ELSE LET hin == [k \in 1..nh |-> HeadIn(c, R, bb.blocks, bb.maxch, k)]
                bad == {k \in 1..nh : ~InSeq(st, c.hs[k])}
                sel == [k \in 1..nh |-> IF k \in bad \/ bb.why # "ok" THEN 0 ELSE FirstIndex(st, c.hs[k])]
                fwd == IF bb.why # "ok" THEN bb.why
                       ELSE IF bad # {} THEN "head_stride_not_in_list"
                       ELSE IF \E k \in 1..nh : bb.outs[sel[k]].ch # hin[k] THEN "head_in_channels"
                       ELSE "ok"
            IN [build |-> "ok", nblocks |-> Len(bb.blocks), strides |-> st, headin |-> hin,
                maxch |-> bb.maxch, fwd |-> fwd, sel |-> sel, blocks |-> bb.blocks, outs |-> bb.outs,
                shapes |-> IF fwd # "ok" THEN <<>>
                           ELSE [k \in 1..nh |-> <<HeadCh(c, k), bb.outs[sel[k]].h, bb.outs[sel[k]].w>>]]

\* Input sizes of the design check: both orientations of a non-square multiple of max_stride
Sizes(c) == {<<c.ms, 2 * c.ms>>, <<3 * c.ms, c.ms>>}

\* The C14 arithmetic for one configuration under repair record R: "ok" or the first failing clause
DesignClause(c, R) ==
    LET bad(sz) ==
          LET H == sz[1]
              W == sz[2]
              r == Run(c, R, H, W)
              bb == r
              nh == Len(c.hs)
          IN IF r.build # "ok" THEN "build_total"
             ELSE IF \E k \in 1..nh : ~InSeq(r.strides, c.hs[k]) THEN "head_stride_listed"
             ELSE IF r.fwd # "ok" THEN r.fwd
             ELSE IF \E i \in 1..Len(bb.blocks) : bb.outs[i].h * bb.blocks[i].stride # H
                                               \/ bb.outs[i].w * bb.blocks[i].stride # W THEN "strides_in_step"
             ELSE IF \E k \in 1..nh : r.headin[k] # bb.blocks[r.sel[k]].cout THEN "head_in_matches_decoder"
             ELSE IF \E k \in 1..nh : r.shapes[k] # WantShape(c, k, H, W) THEN "output_shape"
             ELSE IF \E k \in 1..nh : r.shapes[k] # TargetShape(c, k, H, W) THEN "matches_pipeline_targets"
             ELSE "ok"
        fails == {sz \in Sizes(c) : bad(sz) # "ok"}
    IN IF fails = {} THEN "ok" ELSE bad(CHOOSE sz \in fails : TRUE)

\* What the tree as coded does with configuration c: "ok" or the first failing step ...
AsCodedOutcome(c) ==
    LET r == Run(c, AsCoded, c.ms, 2 * c.ms) IN
    IF r.build # "ok" THEN r.build ELSE r.fwd
\* ... and the <<where, kind>> under which a rejection of c is reported ("unpredicted": the
\* transcription of the tree as coded sees nothing wrong with c)
AsCodedKind(c) ==
    LET o == AsCodedOutcome(c) IN
    IF Boundary(c) THEN <<"Model", "head_stride_eq_max_stride_not_in_list">>
    ELSE IF o = "ok" THEN <<c.bb, "unpredicted">>
    ELSE IF IsUNet(c) /\ c.cpb = 1 THEN <<"UNet", "convs_per_block_1_channel_mismatch">>
    ELSE IF o \in {"decoder_conv_in_channels", "decoder_tconv_in_channels"} /\ IsUNet(c) /\ ~c.mid
         THEN <<"UNet", "middle_block_false_channel_mismatch">>
    ELSE IF o = "head_in_channels" /\ IsUNet(c) THEN <<"Model.__init__", "head_in_channels_rounding">>
    ELSE IF o = "head_in_channels" THEN <<"Model.__init__", "head_in_channels_output_stride_gt_stem_stride">>
    ELSE <<c.bb, "as_coded_" \o o>>

\* ------------------------------------------------------------------ the model as a function
VARIABLES cfg, built, pool, hist
avars == <<cfg, built, pool, hist>>

\* MaxPool2dWithSamePadding: while `padding == "same"` an odd side is padded to even (ceil);
\* the first call overwrites padding with 0, afterwards an odd side is floored.
RECURSIVE Pads(_, _, _)
Pads(levels, st, n) ==
    IF levels = 0 THEN <<>>
    ELSE <<IF st = "same" THEN n % 2 ELSE 0>> \o
         Pads(levels - 1, st, IF st = "same" THEN (n + 1) \div 2 ELSE n \div 2)
\* value of the output for one frame: an unknown but fixed function of the frame and of the
\* padding decisions taken on the way down
Val(c, st, id, h, w) == IF IsUNet(c) THEN <<id, Pads(Log2(c.ms), st, h), Pads(Log2(c.ms), st, w)>>
                        ELSE <<id, <<>>, <<>>>>

ArchInit(Configs) == cfg \in Configs /\ built = FALSE /\ pool = "same" /\ hist = <<>>
Build == ~built /\ built' = TRUE /\ UNCHANGED <<cfg, pool, hist>>
\* x = [ids |-> sequence of frame ids (the batch), h, w]
Forward(x) ==
    /\ built
    /\ hist' = Append(hist, [x |-> x, out |-> [i \in 1..Len(x.ids) |-> Val(cfg, pool, x.ids[i], x.h, x.w)]])
    /\ pool' = "fixed"
    /\ UNCHANGED <<cfg, built>>

\* the same call on a pristine copy of the model (one that was never called): reads no state and
\* leaves none behind.  Comparing it with the calls of the history exposes state that sticks after
\* the first call (which a single history cannot see: its results stay a function of the frame).
FreshForward(x) ==
    /\ built
    /\ hist' = Append(hist, [x |-> x, out |-> [i \in 1..Len(x.ids) |-> Val(cfg, "same", x.ids[i], x.h, x.w)]])
    /\ UNCHANGED <<cfg, built, pool>>

\* same frame => same output, whatever was called before and whoever shares the batch
Stateless ==
    \A i \in 1..Len(hist) : \A j \in 1..Len(hist) :
        \A a \in 1..Len(hist[i].x.ids) : \A b \in 1..Len(hist[j].x.ids) :
            hist[i].x.ids[a] = hist[j].x.ids[b] => hist[i].out[a] = hist[j].out[b]
=============================================================================
