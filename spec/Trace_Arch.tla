---------------------------- MODULE Trace_Arch ----------------------------
(* Batch trace validation for Arch (C14).  A trace is [id, cfg, ev]: what was observed on the REAL
   sleap_nn Model built for configuration cfg -
     ev[1]    = [k |-> "build", raised, nblocks, strides, head_in, head_out, names]
     ev[2..]  = [k |-> "call" | "fresh", ids, h, w, raised, outs, tshape]   one per forward call
                ("fresh": the call was made on a pristine deep copy of the model), where
                outs[j] = [name, shape, cls, finite] (cls = allclose equality class of each row)
                and tshape[j] = shape of head j's targets from the real data pipeline.
   Every event must be the Arch action `Build` / `Forward(x)` from the current state; after each
   step the observation is compared with the specification (Repaired lines = intended design):
   construction is total, the decoder bookkeeping is the specified one, every output has the
   contracted name and shape (= the pipeline's target shape), and the observed values are a
   function of the frame alone: rows whose specified value `Val` is equal must lie in the same
   observed class, whatever was called before and whoever shares the batch.
   A rejection carries clause@where@kind, where <<where, kind>> = AsCodedKind(cfg) says whether the
   tree-as-coded transcription predicts a failure for this configuration ("unpredicted" if not). *)
EXTENDS Arch, Verdict, Json, IOUtils
Traces == JsonDeserialize(IOEnv.TRACE_FILE)
\* Verdict.tla keeps at most 60 rejected ids per JVM; on the unchanged tree whole defect classes are
\* rejected, so this module keeps its own uncapped set in register 4 and reports it in the same
\* VERDICT format (register 2 / 3 = accepted / rejected counts, as in Verdict.tla).
ASSUME VInit /\ TLCSet(4, {})
AReject(id, clause) == TLCSet(3, TLCGet(3) + 1) /\ TLCSet(4, TLCGet(4) \cup {<<id, clause>>})
VARIABLES tid, l
tvars == <<avars, tid, l>>

Ev == Traces[tid].ev
Init == /\ tid \in 1..Len(Traces)
        /\ l = 1
        /\ ArchInit({Traces[tid].cfg})

IsEvent(k) == l <= Len(Ev) /\ Ev[l].k = k /\ l' = l + 1 /\ tid' = tid
TBuild == IsEvent("build") /\ Build
TCall == IsEvent("call") /\ Forward([ids |-> Ev[l].ids, h |-> Ev[l].h, w |-> Ev[l].w])
TFresh == IsEvent("fresh") /\ FreshForward([ids |-> Ev[l].ids, h |-> Ev[l].h, w |-> Ev[l].w])
Next == TBuild \/ TCall \/ TFresh

BuildClause(c, e) ==
    LET r == Run(c, Repaired, c.ms, c.ms) IN
    IF e.raised # "" THEN "build_raised"
    ELSE IF e.names # HeadNames(c) THEN "head_names"
    ELSE IF \E k \in 1..NHeads(c) : e.head_out[k] # HeadCh(c, k) THEN "head_out_channels"
    ELSE IF Boundary(c) THEN "ok"                 \* no intended decoder bookkeeping exists there
    ELSE IF e.nblocks # r.nblocks THEN "decoder_depth"
    ELSE IF Len(e.strides) # Len(r.strides) \/ \E i \in 1..Len(r.strides) : e.strides[i] # r.strides[i] THEN "current_strides"
    ELSE IF \E k \in 1..NHeads(c) : e.head_in[k] # r.headin[k] THEN "head_in_channels"
    ELSE "ok"

\* m = index of the call event in Ev; the spec's record of that call is hist[m - 1]
CallClause(c, m) ==
    LET e == Ev[m]
        nh == NHeads(c)
        B == Len(e.ids)
        \* earlier rows with the same specified value but another observed class
        clash == {<<j, a, b>> \in (2..(m - 1)) \X (1..B) \X (1..2) :
                     /\ b <= Len(Ev[j].ids)
                     /\ hist[m - 1].out[a] = hist[j - 1].out[b]
                     /\ \E k \in 1..nh : /\ e.outs[k].finite /\ Ev[j].outs[k].finite
                                         /\ e.outs[k].cls[a] # Ev[j].outs[k].cls[b]}
    IN IF e.raised # "" THEN "forward_raised"
       ELSE IF Len(e.outs) # nh THEN "output_count"
       ELSE IF \E k \in 1..nh : e.outs[k].name # HeadNames(c)[k] THEN "output_name"
       ELSE IF \E k \in 1..nh : Len(e.outs[k].shape) # 4 THEN "output_rank"
       ELSE IF \E k \in 1..nh : e.outs[k].shape[1] # B \/ Len(e.outs[k].cls) # B THEN "batch_size"
       ELSE IF \E k \in 1..nh : Tail(e.outs[k].shape) # WantShape(c, k, e.h, e.w) THEN "output_shape"
       ELSE IF \E k \in 1..nh : Tail(e.outs[k].shape) # e.tshape[k] THEN "output_differs_from_pipeline_target"
       ELSE IF clash = {} THEN "ok"
       ELSE IF \E t \in clash : Ev[t[1]].k = "fresh" /\ e.k # "fresh" /\ B = 1 THEN "differs_from_never_called_model"
       ELSE IF \E t \in clash : B > 1 \/ Len(Ev[t[1]].ids) > 1 THEN "batch_row_differs_from_single_frame_result"
       ELSE "same_frame_different_output"

\* clause for the event just taken
Judge == IF l = 1 THEN (IF InGrid(cfg) THEN "ok" ELSE "cfg_outside_grid")
         ELSE IF Ev[l - 1].k = "build" THEN BuildClause(cfg, Ev[l - 1])
         ELSE CallClause(cfg, l - 1)

Check ==
    LET id == Traces[tid].id
        c == Judge
        kind == IF InGrid(cfg) THEN AsCodedKind(cfg) ELSE <<"harness", "harness">>
    IN IF c # "ok" THEN AReject(id, c \o "@" \o kind[1] \o "@" \o kind[2]) /\ FALSE
       ELSE IF l > Len(Ev)
            THEN IF Len(Ev) >= 2 THEN VAccept ELSE AReject(id, "no_call_recorded@harness@harness") /\ FALSE
            ELSE IF ENABLED Next THEN TRUE
                 ELSE AReject(id, "no_spec_step_for_event_" \o ToString(l) \o "@harness@harness") /\ FALSE
Report == PrintT(<<"VERDICT", TLCGet(2), TLCGet(3), TLCGet(4)>>)
=============================================================================
