---------------------------- MODULE Judge_C01 ----------------------------
(* Conformance of generate_confmaps / generate_multiconfmaps / ConfidenceMapGenerator /
   MultiConfidenceMapGenerator (C01): every recorded (lattice inputs, projected maps) case must
   satisfy Targets!ConfmapClause - every cell of every channel is judged. *)
EXTENDS Targets, Verdict, Json, IOUtils
Cases == JsonDeserialize(IOEnv.TRACE_FILE)
ASSUME VInit
VARIABLE i
Init == i = 0
Next == i < Len(Cases) /\ i' = i + 1
Check == i >= 1 => VGive(Cases[i].id, ConfmapClause(Cases[i]))
Report == VReport
=============================================================================
