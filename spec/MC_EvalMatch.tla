---------------------------- MODULE MC_EvalMatch ----------------------------
(* Design check of the MatchInstances machine (C15): for every frame with 0..MaxG gt instances,
   0..MaxP predictions, every OKS rank matrix over -1 (NaN), 0..MaxLevel, every score pattern over
   ScoreLevels levels (ties included) and match thresholds 0 / 1:
   each gt at most once, each prediction at most once, pairs + remaining gt = all gt, every pair
   above the threshold; every finished behaviour is one of AllRuns, and the deterministic
   refinement the code implements (MatchDet) is one of them. *)
EXTENDS Eval
CONSTANTS MaxG, MaxP, MaxLevel, ScoreLevels
Minus1 == 0 - 1
Init == \E g \in 0..MaxG : \E p \in 0..MaxP :
          \E s \in [1..p -> 1..ScoreLevels] : \E o \in [1..g -> [1..p -> Minus1..MaxLevel]] : \E t \in {0, 1} :
              MInit([G |-> g, P |-> p, sc |-> s, ok |-> o, thr |-> t])
Next == MNext
FinishedIsARun == MDone => pairs \in AllRuns(mI)
DetIsARun == (pairs = <<>> /\ todo = 1..mI.P) => MatchDet(mI) \in AllRuns(mI)
=============================================================================
