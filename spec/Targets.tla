---------------------------- MODULE Targets ----------------------------
(* Target stages of the training data plane (DESIGN.md: DataPlane.tla, stages MakeConfmaps and
   MakePAFs), as DEFINITIONS of the right answer on integer lattices.  Properties C01 and C05.

   No floats: the harness projects the implementation's float32 outputs to integers by the fixed
   rules of DESIGN.md 1.3 (restated at each clause); everything below is exact integer arithmetic.

   A "case" is a record (one call of the real code, or one ideal output built by MC_Targets):
   inputs on the lattice + projected outputs.  `ConfmapClause(c)` / `PafClause(c)` return "ok" or
   the NAME of the first failing clause.  Used by MC_Targets (design model: the ideal outputs are
   accepted, four named corruptions are rejected, nearest-cell and segment-distance lemmas) and by
   Judge_C01 / Judge_C05 (conformance of generate_confmaps / generate_multiconfmaps /
   generate_pafs and the DataPipe classes). *)
EXTENDS Integers, Sequences, FiniteSets, TLC

NaN == 1000000                    \* lattice coordinate that stands for a missing (NaN) coordinate
Abs(x) == IF x < 0 THEN -x ELSE x
Sq(x) == x * x
Visible(p) == p[1] # NaN /\ p[2] # NaN
Force(f) == f @@ (0 :> 0)         \* TLC: evaluate a function constructor once (memo table)

\* first element of `order` that occurs in the set S of verdict strings, "ok" if S \subseteq {"ok"}
FirstOf(S, order) ==
    LET hit == {k \in 1..Len(order) : order[k] \in S}
    IN IF hit # {} THEN order[CHOOSE k \in hit : \A k2 \in hit : k <= k2]
       ELSE IF S \subseteq {"ok"} THEN "ok" ELSE "unranked_verdict"

(* ======================================================================================== *)
(* MakeConfmaps  (C01)                                                                      *)
(* ---------------------------------------------------------------------------------------- *)
(* case fields                                                                              *)
(*   variant  "single" | "multi" | "centroid"                                               *)
(*   H, W, s  image height / width in px, output stride        sn, sd   sigma = sn/sd px    *)
(*   nodes    number of node types (1 for centroid)                                         *)
(*   pts      <<animal>> of <<node>> of <<x4, y4>>   coordinates in 1/4 px, NaN = missing   *)
(*   ninst    num_instances: only animals 1..ninst feed the maps (multi / centroid)         *)
(*   batch, obatch   n_samples given / leading dimension returned                           *)
(*   shape    <<channels, rows, cols>> of the returned maps (one sample)                    *)
(*   maps     <<channel>> of <<cell>> (row-major)  projected value:                         *)
(*              L >= 0   class val (v >= 1e-30):  L = round(-ln(v) * 32 sigma^2 s^2)        *)
(*              -1 zero   -2 tiny (0 < v < 1e-30)   -3 nan   -4 inf   -5 neg   -6 gt1       *)
(*   amax     <<channel>> of <<cell index>> : cells whose value is within 1e-6 (relative)  *)
(*            of the channel maximum (empty if the maximum is 0)                            *)
(*   raised   "" or the exception text                                                      *)
(* ======================================================================================== *)
CZero == -1
CTiny == -2
CNan == -3
CInf == -4
CNeg == -5
CGt1 == -6

\* 32 sigma^2 s^2 : the factor between -ln(v) and the squared distance in (1/4 px)^2
ConfKNum(c) == 32 * c.sn * c.sn * c.s * c.s
ConfK(c) == ConfKNum(c) \div (c.sd * c.sd)
\* grid size along an axis of `size` px: size / s when the stride divides the size.  Otherwise the property's
\* "H / stride" is not an integer: the grid 0, s, 2s, ... < size has ceil(size / s) samples, a grid without the
\* partial last cell floor(size / s) - both are accepted, the OBSERVED count decides which cells are judged
\* (cell k of an axis always sits at image coordinate k * s).
GridN(size, st, obs) == IF size % st = 0 THEN size \div st
                        ELSE IF obs \in {size \div st, size \div st + 1} /\ obs >= 1 THEN obs ELSE size \div st + 1
ObsDim(c, k) == IF "shape" \in DOMAIN c THEN (IF Len(c.shape) = 3 THEN c.shape[k] ELSE 0) ELSE 0
ConfRows(c) == GridN(c.H, c.s, ObsDim(c, 2))
ConfCols(c) == GridN(c.W, c.s, ObsDim(c, 3))
ConfChannels(c) == c.nodes

ConfCaseOK(c) ==
    /\ c.variant \in {"single", "multi", "centroid"}
    /\ c.s \in 1..64 /\ c.H \in 1..256 /\ c.W \in 1..256
    /\ c.sn \in 1..16 /\ c.sd \in 1..4 /\ ConfKNum(c) % (c.sd * c.sd) = 0
    /\ ConfK(c) <= 100000      \* 1/K >= 10 x the 1e-6 tie tolerance of `amax`; 103 K < 2^31
    /\ c.ninst \in 0..Len(c.pts)
    /\ (c.variant = "single" => Len(c.pts) = 1 /\ c.ninst = 1)
    /\ (c.variant = "centroid" => c.nodes = 1)
    /\ \A a \in 1..Len(c.pts) :
          /\ Len(c.pts[a]) = c.nodes
          /\ \A n \in 1..c.nodes : \A k \in 1..2 : c.pts[a][n][k] = NaN \/ c.pts[a][n][k] \in (-2048)..2048

\* the points that feed channel ch
ConfFeeds(c, ch) == {c.pts[a][ch] : a \in 1..c.ninst}
\* squared distance in (1/4 px)^2 between the grid cell (row i, column j) - image position
\* (x, y) = (j*s, i*s) - and the lattice point p
D16(c, i, j, p) == Sq(4 * j * c.s - p[1]) + Sq(4 * i * c.s - p[2])
MinOf(S) == CHOOSE d \in S : \A e \in S : d <= e
\* D16 of a cell to the nearest visible point of `vis` (vis # {})
CellD16(c, vis, idx) ==
    LET i == (idx - 1) \div ConfCols(c)
        j == (idx - 1) % ConfCols(c)
    IN MinOf({D16(c, i, j, p) : p \in vis})

\* per-cell verdict.  A = the observed arg-max set, dA = D16 of one of its members (-1: none)
ConfCellVerdict(c, ch, vis, A, dA, idx) ==
    LET L == c.maps[ch][idx]
    IN IF L = CNan THEN "nan"
       ELSE IF L = CInf THEN "inf"
       ELSE IF L = CNeg THEN "negative"
       ELSE IF L = CGt1 THEN "greater_than_1"
       ELSE IF vis = {} THEN (IF L = CZero THEN "ok" ELSE "missing_keypoint_not_zero")
       ELSE LET D == CellD16(c, vis, idx)
            IN IF L >= 0 /\ Abs(L - D) > 1 + D \div 10000 THEN "value_not_gaussian_of_distance"
               ELSE IF L < 0 /\ D <= 60 * ConfK(c) THEN "vanishes_too_early"
               ELSE IF dA < 0 \/ dA > 60 * ConfK(c) THEN "ok"
               ELSE IF D < dA \/ (D = dA /\ idx \notin A) \/ (D > dA /\ idx \in A)
                    THEN "argmax_not_nearest_cell"
               ELSE "ok"

ConfChannelVerdicts(c, ch) ==
    LET vis == {p \in ConfFeeds(c, ch) : Visible(p)}
        n == ConfRows(c) * ConfCols(c)
        A == {c.amax[ch][k] : k \in 1..Len(c.amax[ch])}
        dA == IF A = {} \/ vis = {} THEN -1 ELSE CellD16(c, vis, CHOOSE a \in A : TRUE)
    IN IF ~(A \subseteq 1..n) THEN {"bad_projection"}
       ELSE IF A = {} /\ \E idx \in 1..n : c.maps[ch][idx] \notin {CZero, CNan, CInf, CNeg} THEN {"bad_projection"}
       ELSE {ConfCellVerdict(c, ch, vis, A, dA, idx) : idx \in 1..n}

ConfOrder == <<"bad_projection", "nan", "inf", "negative", "greater_than_1", "missing_keypoint_not_zero",
               "value_not_gaussian_of_distance", "vanishes_too_early", "argmax_not_nearest_cell">>

ConfmapClause(c) ==
    IF c.raised # "" THEN "raised"
    ELSE IF ~ConfCaseOK(c) THEN "bad_case"
    ELSE IF c.obatch # c.batch THEN "batch_dimension"
    ELSE IF c.shape # <<ConfChannels(c), ConfRows(c), ConfCols(c)>> THEN "shape"
    ELSE IF Len(c.maps) # ConfChannels(c) \/ Len(c.amax) # ConfChannels(c)
            \/ \E ch \in 1..Len(c.maps) : Len(c.maps[ch]) # ConfRows(c) * ConfCols(c) THEN "shape"
    ELSE FirstOf(UNION {ConfChannelVerdicts(c, ch) : ch \in 1..ConfChannels(c)}, ConfOrder)

(* ---- lemmas used by the design model -------------------------------------------------- *)
\* columns (resp. rows) of the grid nearest to lattice coordinate x, defined per axis
NearestIdx(x, s, n) == {j \in 0..(n - 1) : \A j2 \in 0..(n - 1) : Abs(4 * j * s - x) <= Abs(4 * j2 * s - x)}
\* "the grid cell nearest the keypoint" as a set of 1-based row-major cell indices
NearestCells(c, p) == {i * ConfCols(c) + j + 1 : i \in NearestIdx(p[2], c.s, ConfRows(c)), j \in NearestIdx(p[1], c.s, ConfCols(c))}
\* cells of minimal D16 to the single point p
ArgMinCells(c, p) ==
    LET n == ConfRows(c) * ConfCols(c)
        d == Force([idx \in 1..n |-> CellD16(c, {p}, idx)])
    IN {idx \in 1..n : \A k \in 1..n : d[idx] <= d[k]}

\* the ideal projected map of case inputs c (record without maps/amax/shape): L = D16 exactly,
\* zero beyond 103 * K (float32 underflow of exp), arg-max set from the per-axis nearest cells
IdealConfmaps(c) ==
    LET n == ConfRows(c) * ConfCols(c)
        vis(ch) == {p \in ConfFeeds(c, ch) : Visible(p)}
        val(ch, idx) == IF vis(ch) = {} THEN CZero
                        ELSE LET D == CellD16(c, vis(ch), idx) IN IF D > 103 * ConfK(c) THEN CZero ELSE D
        am(ch) == IF vis(ch) = {} THEN {}
                  ELSE LET dm == MinOf({CellD16(c, vis(ch), k) : k \in 1..n})
                       IN IF dm > 103 * ConfK(c) THEN {} ELSE UNION {{k \in NearestCells(c, p) : CellD16(c, vis(ch), k) = dm} : p \in vis(ch)}
        SetToSeqAsc(S) == LET RECURSIVE f(_, _)
                              f(T, acc) == IF T = {} THEN acc ELSE LET m == MinOf(T) IN f(T \ {m}, Append(acc, m))
                          IN f(S, <<>>)
    IN [shape |-> <<ConfChannels(c), ConfRows(c), ConfCols(c)>>,
        maps |-> [ch \in 1..ConfChannels(c) |-> [idx \in 1..n |-> val(ch, idx)]],
        amax |-> [ch \in 1..ConfChannels(c) |-> SetToSeqAsc(am(ch))]] @@ c

(* ======================================================================================== *)
(* MakePAFs  (C05)                                                                          *)
(* ---------------------------------------------------------------------------------------- *)
(* case fields                                                                              *)
(*   kind     "single" (one animal, judged against the definition) |                        *)
(*            "multi"  (several animals, judged against the sum of the single-animal fields)*)
(*   H, W, s  image height / width in px, output stride                                     *)
(*   edges    <<edge>> of <<src node, dst node>>, 0-based node indices                      *)
(*   pts      <<animal>> of <<node>> of <<x2, y2>>   coordinates in 1/2 px, NaN = missing   *)
(*   shape    shape of the returned tensor                                                  *)
(*   f        <<channel>> of <<cell>> (row-major): round(value * 10^4); PNan / PInf         *)
(*   nz       <<channel>>: number of cells whose float value is not exactly 0               *)
(*   m        (single) <<edge>> of <<cell>>: round(hypot(x, y) * 10^4) of the edge's vector *)
(*   mono     (single) <<cell index>>: the cells on which monotonicity is judged pairwise   *)
(*   singles  (multi)  <<animal>> of <<channel>> of <<cell>>: field of a separate call with *)
(*            that animal alone                                                             *)
(*   raised   "" or the exception text                                                      *)
(* ======================================================================================== *)
Q == 10000
PNan == 1000000
PInf == 1000001

PafRows(c) == GridN(c.H, c.s, ObsDim(c, 2))
PafCols(c) == GridN(c.W, c.s, ObsDim(c, 3))
PafE(c) == Len(c.edges)

PafCaseOK(c) ==
    /\ c.kind \in {"single", "multi"}
    /\ c.s \in 1..64 /\ c.H \in 1..64 /\ c.W \in 1..64
    /\ (c.kind = "single" => Len(c.pts) = 1)
    /\ \A a \in 1..Len(c.pts) : \A n \in 1..Len(c.pts[a]) : \A k \in 1..2 :
          c.pts[a][n][k] = NaN \/ c.pts[a][n][k] \in (-4)..132      \* keeps every product below 2^31
    /\ \A a \in 1..Len(c.pts) : \A e \in 1..PafE(c) : \A k \in 1..2 : c.edges[e][k] \in 0..(Len(c.pts[a]) - 1)

\* in-image status of an animal (sequence of node points, 1/2 px):
\*   "in"      some node strictly inside the grid extent (0, last grid coordinate) on both axes
\*   "out"     no node inside or on the border of the image [0, W] x [0, H]  (wholly outside)
\*   "margin"  otherwise: only nodes on x = 0 / y = 0 or in the bottom/right strip between the last
\*             grid coordinate and the image border.  The property is silent there (DESIGN.md C05).
PafStatus(c, animal) ==
    LET xl == 2 * ((PafCols(c) - 1) * c.s)      \* the last grid coordinate (= ((W - 1) div s) * s on the ceil grid)
        yl == 2 * ((PafRows(c) - 1) * c.s)
        In(p) == Visible(p) /\ 0 < p[1] /\ p[1] < xl /\ 0 < p[2] /\ p[2] < yl
        Touch(p) == Visible(p) /\ 0 <= p[1] /\ p[1] <= 2 * c.W /\ 0 <= p[2] /\ p[2] <= 2 * c.H
    IN IF \E n \in 1..Len(animal) : In(animal[n]) THEN "in"
       ELSE IF \E n \in 1..Len(animal) : Touch(animal[n]) THEN "margin"
       ELSE "out"

\* class of an edge a -> b:  "missing" endpoint, "zero" length, "ok" (any positive length, sub-pixel edges
\* included: the projection denominator is the squared length itself, see fix "sub-pixel edges" in known_findings)
EdgeClass(a, b) ==
    IF ~Visible(a) \/ ~Visible(b) THEN "missing"
    ELSE LET vv == Sq(b[1] - a[1]) + Sq(b[2] - a[2])
         IN IF vv = 0 THEN "zero" ELSE "ok"

\* exact squared distance from lattice point p to the segment a-b, times |b-a|^2 (an integer in
\* (1/2 px)^4; the common factor |b-a|^2 > 0 does not change the order of distances)
SegN(p, a, b) ==
    LET vx == b[1] - a[1]
        vy == b[2] - a[2]
        rx == p[1] - a[1]
        ry == p[2] - a[2]
        vv == vx * vx + vy * vy
        dot == rx * vx + ry * vy
    IN IF dot <= 0 THEN (rx * rx + ry * ry) * vv
       ELSE IF dot >= vv THEN (Sq(p[1] - b[1]) + Sq(p[2] - b[2])) * vv
       ELSE Sq(rx * vy - ry * vx)
PafCellPoint(c, idx) == <<2 * c.s * ((idx - 1) % PafCols(c)), 2 * c.s * ((idx - 1) \div PafCols(c))>>
\* independent definition of "on the segment" (collinear and inside the bounding box)
OnSegment(p, a, b) ==
    /\ (p[1] - a[1]) * (b[2] - a[2]) = (p[2] - a[2]) * (b[1] - a[1])
    /\ p[1] >= (IF a[1] < b[1] THEN a[1] ELSE b[1]) /\ p[1] <= (IF a[1] < b[1] THEN b[1] ELSE a[1])
    /\ p[2] >= (IF a[2] < b[2] THEN a[2] ELSE b[2]) /\ p[2] <= (IF a[2] < b[2] THEN b[2] ELSE a[2])

\* field of edge k (1-based) of a single contributing animal: channels 2k-1 (x) and 2k (y)
PafFieldVerdict(c, k, a, b) ==
    LET n == PafRows(c) * PafCols(c)
        vx == b[1] - a[1]
        vy == b[2] - a[2]
        l1 == Abs(vx) + Abs(vy)
        fx == c.f[2 * k - 1]
        fy == c.f[2 * k]
        mm == c.m[k]
        Nf == Force([idx \in 1..n |-> SegN(PafCellPoint(c, idx), a, b)])
        cell(idx) ==
            \* projection rounding moves each component by <= 1/2 quantum (+ float32 error << 1/2)
            IF Abs(fx[idx] * vy - fy[idx] * vx) > l1 THEN "not_parallel_to_edge"
            ELSE IF fx[idx] * vx + fy[idx] * vy < -l1 THEN "points_from_destination_to_source"
            ELSE IF Abs(mm[idx] * mm[idx] - (fx[idx] * fx[idx] + fy[idx] * fy[idx])) > 3 * mm[idx] + 3 THEN "bad_projection"
            ELSE IF mm[idx] > Q + 2 THEN "magnitude_greater_than_1"
            ELSE IF Nf[idx] = 0 /\ mm[idx] < Q - 2 THEN "not_1_on_segment"
            ELSE "ok"
        ms == {c.mono[t] : t \in 1..Len(c.mono)}
        pair(p, q) == IF Nf[p] <= Nf[q] /\ mm[p] + 3 < mm[q] THEN "weight_increases_with_distance" ELSE "ok"
    IN IF ~(ms \subseteq 1..n) THEN "bad_projection"
       ELSE FirstOf({cell(idx) : idx \in 1..n} \cup {pair(p, q) : p \in ms, q \in ms},
                    <<"bad_projection", "not_parallel_to_edge", "points_from_destination_to_source",
                      "magnitude_greater_than_1", "not_1_on_segment", "weight_increases_with_distance">>)

PafEdgeVerdict(c, k) ==
    LET animal == c.pts[1]
        a == animal[c.edges[k][1] + 1]
        b == animal[c.edges[k][2] + 1]
        cls == EdgeClass(a, b)
        st == PafStatus(c, animal)
        zero == c.nz[2 * k - 1] = 0 /\ c.nz[2 * k] = 0
    IN IF cls = "missing" THEN (IF zero THEN "ok" ELSE "missing_endpoint_not_zero")
       ELSE IF cls = "zero" THEN (IF zero THEN "ok" ELSE "zero_length_edge_not_zero")
       ELSE IF st = "out" THEN (IF zero THEN "ok" ELSE "outside_animal_not_zero")
       ELSE IF st = "margin" /\ zero THEN "ok"
       ELSE PafFieldVerdict(c, k, a, b)

PafOrder == <<"bad_projection", "missing_endpoint_not_zero", "zero_length_edge_not_zero", "outside_animal_not_zero",
              "not_parallel_to_edge", "points_from_destination_to_source", "magnitude_greater_than_1",
              "not_1_on_segment", "weight_increases_with_distance">>

PafSumVerdict(c) ==
    LET n == PafRows(c) * PafCols(c)
        A == Len(c.pts)
        RECURSIVE sum(_, _, _)
        sum(t, ch, idx) == IF t = 0 THEN 0 ELSE c.singles[t][ch][idx] + sum(t - 1, ch, idx)
    IN IF Len(c.singles) # A \/ (\E a \in 1..A : Len(c.singles[a]) # 2 * PafE(c))
          \/ (\E a \in 1..A : \E ch \in 1..(2 * PafE(c)) : Len(c.singles[a][ch]) # n) THEN "single_call_shape"
       ELSE IF \E ch \in 1..(2 * PafE(c)) : \E idx \in 1..n : Abs(c.f[ch][idx] - sum(A, ch, idx)) > A + 1
            THEN "not_sum_of_single_animal_fields"
       ELSE "ok"

\* several animals: an edge to which no animal can contribute (each one is wholly outside, or has a
\* missing endpoint, or zero length on that edge) is exactly zero in the combined output too
PafMultiZeroVerdict(c) ==
    IF \E k \in 1..PafE(c) :
          /\ \A a \in 1..Len(c.pts) :
                \/ PafStatus(c, c.pts[a]) = "out"
                \/ EdgeClass(c.pts[a][c.edges[k][1] + 1], c.pts[a][c.edges[k][2] + 1]) \in {"missing", "zero"}
          /\ (c.nz[2 * k - 1] # 0 \/ c.nz[2 * k] # 0)
    THEN "noncontributing_animals_not_zero" ELSE "ok"

PafClause(c) ==
    IF c.raised # "" THEN "raised"
    ELSE IF ~PafCaseOK(c) THEN "bad_case"
    ELSE IF c.shape # <<2 * PafE(c), PafRows(c), PafCols(c)>> THEN "shape"
    ELSE IF Len(c.f) # 2 * PafE(c) \/ Len(c.nz) # 2 * PafE(c)
            \/ \E ch \in 1..Len(c.f) : Len(c.f[ch]) # PafRows(c) * PafCols(c) THEN "shape"
    ELSE IF \E ch \in 1..Len(c.f) : \E idx \in 1..Len(c.f[ch]) : c.f[ch][idx] = PNan THEN "nan"
    ELSE IF \E ch \in 1..Len(c.f) : \E idx \in 1..Len(c.f[ch]) : c.f[ch][idx] = PInf THEN "inf"
    ELSE IF c.kind = "multi" THEN (IF PafMultiZeroVerdict(c) # "ok" THEN PafMultiZeroVerdict(c) ELSE PafSumVerdict(c))
    ELSE IF Len(c.m) # PafE(c) \/ \E k \in 1..Len(c.m) : Len(c.m[k]) # PafRows(c) * PafCols(c) THEN "bad_projection"
    ELSE FirstOf({PafEdgeVerdict(c, k) : k \in 1..PafE(c)}, PafOrder)
=============================================================================
