---------------------------- MODULE MC_Targets ----------------------------
(* Design model of the target stages (C01, C05): exhaustive over a small configuration grid.

   cfg is chosen in the first step (Init picks a seed, PickCfg the rest) and never changes; the two actions MakeConfmaps / MakePAFs produce the
   IDEAL projected output of the stage for that cfg (exact lattice arithmetic, no floats).

   Checked for every cfg:
     ConfIdealAccepted   the ideal maps satisfy ConfmapClause (the clause is satisfiable, and the
                         arg-max set built from the PER-AXIS nearest grid cell is exactly the set
                         of cells of minimal D16: "largest at the grid cell nearest the keypoint")
     NearestIsArgMin     the same lemma stated directly, for every keypoint placement
     NearestWithinHalfStride  a keypoint inside the grid extent is within s/2 of its nearest cell
                         on each axis (so the peak value is >= exp(-1/(4 sigma^2)))
     PafLemmas           the segment-distance numerator SegN is symmetric in (src, dst), is 0 exactly
                         on the cells that lie on the segment (independent definition), never
                         exceeds the distance to either endpoint and never undercuts the distance
                         to the infinite line
     PafIdealAccepted    an ideal field (unit vector x a weight that is 1 on the segment and strictly
                         decreasing in the exact distance) satisfies PafClause, for every edge whose
                         length is an integer dividing 10^4 (axis-parallel, 3-4-5, 6-8-10), and for
                         missing / zero-length / outside edges (all-zero field)
   Checked once at start-up (ASSUME, counts printed as <<"DETECT", name, n, N>>): each named
   corruption of the ideal output is REJECTED by the clause for at least one cfg - the clauses
   discriminate x/y swap, sigma not scaled by the stride, a half-cell grid, first-animal-only,
   source/destination swap, swapped x/y channels, an unclamped (infinite-line) distance and a
   non-zero field on a missing edge. *)
EXTENDS Targets

CONSTANTS Side,        \* image side in px (H = W = Side)
          CmStep,      \* step of the keypoint lattice in 1/4 px for the one-keypoint family
          PafStep,     \* step of the endpoint lattice in 1/2 px
          Kinds        \* which families to explore: subset of {"cm1", "cm2", "paf"}  (C01: cm1, cm2; C05: paf)

VARIABLES cfg, stage, out
vars == <<cfg, stage, out>>

Sigmas == {<<1, 2>>, <<1, 1>>, <<3, 2>>, <<5, 2>>}
CmStrides == {s \in {1, 2, 4} : Side % s = 0}
PafStrides == {s \in {1, 2} : Side % s = 0}
CmLattice(step) == {x \in (-8)..(4 * Side + 8) : (x + 8) % step = 0}
PafLattice == {x \in (-2)..(2 * Side + 2) : (x + 2) % PafStep = 0}

\* ----------------------------------------------------------------- configuration spaces ----
CmSpace1(step) == [kind : {"cm1"}, variant : {"single", "multi", "centroid"}, s : CmStrides, sig : Sigmas,
                   p : CmLattice(step) \X CmLattice(step)]
\* two animals x one node on the integer-pixel lattice, each possibly missing
CoarsePts == ({x \in CmLattice(4) : x >= -4 /\ x <= 4 * Side + 4} \X {y \in CmLattice(4) : y >= -4 /\ y <= 4 * Side + 4}) \cup {<<NaN, NaN>>, <<NaN, 4>>}
CmSpace2 == [kind : {"cm2"}, variant : {"multi", "centroid"}, s : {s \in {1, 2} : Side % s = 0}, sig : {<<1, 1>>}, p : CoarsePts, p2 : CoarsePts]
PafPts == (PafLattice \X PafLattice) \cup {<<NaN, NaN>>}
PafSpace == [kind : {"paf"}, s : PafStrides, a : PafPts, b : PafPts]

CmCase(g) ==
    [variant |-> g.variant, H |-> Side, W |-> Side, s |-> g.s, sn |-> g.sig[1], sd |-> g.sig[2], nodes |-> 1,
     pts |-> IF g.kind = "cm1" THEN <<<<g.p>>>> ELSE <<<<g.p>>, <<g.p2>>>>,
     ninst |-> IF g.kind = "cm1" THEN 1 ELSE 2, batch |-> 1, obatch |-> 1, raised |-> ""]

\* ----------------------------------------------------------------- ideal PAF output --------
IntLen(a, b) == LET vv == Sq(b[1] - a[1]) + Sq(b[2] - a[2])
                IN IF \E L \in {2, 4, 5, 8, 10} : L * L = vv THEN CHOOSE L \in {2, 4, 5, 8, 10} : L * L = vv ELSE 0
PafCaseIn(g) == [kind |-> "single", H |-> Side, W |-> Side, s |-> g.s, edges |-> <<<<0, 1>>>>, pts |-> <<<<g.a, g.b>>>>, raised |-> ""]
\* which: "ideal" | "src_dst_swapped" | "xy_channels_swapped" | "unclamped_line" | "missing_not_zeroed"
IdealPaf(g, which) ==
    LET c == PafCaseIn(g)
        n == PafRows(c) * PafCols(c)
        cls == EdgeClass(g.a, g.b)
        st == PafStatus(c, <<g.a, g.b>>)
        L == IF cls = "ok" THEN IntLen(g.a, g.b) ELSE 0
        live == cls = "ok" /\ st = "in" /\ L > 0
        vx == g.b[1] - g.a[1]
        vy == g.b[2] - g.a[2]
        N(idx) == IF which = "unclamped_line"
                  THEN Sq((PafCellPoint(c, idx)[1] - g.a[1]) * vy - (PafCellPoint(c, idx)[2] - g.a[2]) * vx)
                  ELSE SegN(PafCellPoint(c, idx), g.a, g.b)
        w(idx) == (Q \div L) \div (1 + N(idx) \div (L * L))     \* weight / L : 1 on the segment, decreasing
        sgn == IF which = "src_dst_swapped" THEN -1 ELSE 1
        X == [idx \in 1..n |-> IF live THEN sgn * w(idx) * vx ELSE IF which = "missing_not_zeroed" /\ cls = "missing" THEN 1 ELSE 0]
        Y == [idx \in 1..n |-> IF live THEN sgn * w(idx) * vy ELSE 0]
        M == [idx \in 1..n |-> IF live THEN w(idx) * L ELSE IF which = "missing_not_zeroed" /\ cls = "missing" THEN 1 ELSE 0]
        nzc(F) == Cardinality({idx \in 1..n : F[idx] # 0})
        FX == IF which = "xy_channels_swapped" THEN Y ELSE X
        FY == IF which = "xy_channels_swapped" THEN X ELSE Y
    IN [shape |-> <<2, PafRows(c), PafCols(c)>>, f |-> <<FX, FY>>, nz |-> <<nzc(FX), nzc(FY)>>, m |-> <<M>>,
        mono |-> [k \in 1..n |-> k], singles |-> <<>>] @@ c
\* configurations on which an ideal field is built / on which a definite answer exists
PafBuildable(g) == LET cls == EdgeClass(g.a, g.b) IN cls \in {"missing", "zero"} \/ (cls = "ok" /\ IntLen(g.a, g.b) > 0) \/ PafStatus(PafCaseIn(g), <<g.a, g.b>>) # "in"

\* ----------------------------------------------------------------- corrupted confmaps ------
SwapPts(c) == [c EXCEPT !.pts = [a \in 1..Len(c.pts) |-> [n \in 1..Len(c.pts[a]) |-> <<c.pts[a][n][2], c.pts[a][n][1]>>]]]
\* which: "swap_xy" | "sigma_not_scaled_by_stride" | "half_cell_grid" | "first_animal_only"
CorruptConf(c, which) ==
    LET src == IF which = "swap_xy" THEN SwapPts(c)
               ELSE IF which = "half_cell_grid" THEN [c EXCEPT !.pts = [a \in 1..Len(c.pts) |-> [n \in 1..Len(c.pts[a]) |->
                        IF Visible(c.pts[a][n]) THEN <<c.pts[a][n][1] - 2 * c.s, c.pts[a][n][2] - 2 * c.s>> ELSE c.pts[a][n]]]]
               ELSE IF which = "first_animal_only" THEN [c EXCEPT !.ninst = 1]
               ELSE c
        id == IdealConfmaps(src)
        rescale(L) == IF L >= 0 /\ which = "sigma_not_scaled_by_stride" THEN L * c.s * c.s ELSE L
    IN [maps |-> [ch \in 1..Len(id.maps) |-> [idx \in 1..Len(id.maps[ch]) |-> rescale(id.maps[ch][idx])]],
        amax |-> id.amax, shape |-> id.shape] @@ c

Rejected(S, which) == Cardinality({g \in S : ConfmapClause(CorruptConf(CmCase(g), which)) # "ok"})
PafRejected(S, which) == Cardinality({g \in S : PafClause(IdealPaf(g, which)) # "ok"})
SmallCm1 == {g \in CmSpace1(2) : g.variant = "single"}
SmallCm2 == {g \in CmSpace2 : g.variant = "multi" /\ g.s = 1}
SmallPaf == {g \in PafSpace : g.s = 1 /\ PafBuildable(g) /\ (Visible(g.a) => g.a[1] % 2 = 0 /\ g.a[2] % 2 = 0)}
Detect(name, n, N) == PrintT(<<"DETECT", name, n, N>>) /\ n > 0
ASSUME "cm1" \in Kinds => \A w \in {"swap_xy", "sigma_not_scaled_by_stride", "half_cell_grid"} : Detect(w, Rejected(SmallCm1, w), Cardinality(SmallCm1))
ASSUME "cm2" \in Kinds => Detect("first_animal_only", Rejected(SmallCm2, "first_animal_only"), Cardinality(SmallCm2))
ASSUME "paf" \in Kinds => \A w \in {"src_dst_swapped", "xy_channels_swapped", "unclamped_line", "missing_not_zeroed"} : Detect(w, PafRejected(SmallPaf, w), Cardinality(SmallPaf))

\* ----------------------------------------------------------------- state machine -----------
\* TLC computes initial states on one thread: Init only picks a seed (kind + first point), the
\* action PickCfg completes the configuration (spread over all workers); cfg is constant afterwards.
Seeds == {sd \in ({"cm1"} \X CmLattice(CmStep)) \cup ({"cm2"} \X CoarsePts) \cup ({"paf"} \X PafPts) : sd[1] \in Kinds}
SpaceOf(sd) == IF sd[1] = "cm1" THEN {g \in [kind : {"cm1"}, variant : {"single", "multi", "centroid"}, s : CmStrides, sig : Sigmas,
                                              p : {sd[2]} \X CmLattice(CmStep)] : TRUE}
               ELSE IF sd[1] = "cm2" THEN [kind : {"cm2"}, variant : {"multi", "centroid"}, s : {s \in {1, 2} : Side % s = 0}, sig : {<<1, 1>>}, p : {sd[2]}, p2 : CoarsePts]
               ELSE [kind : {"paf"}, s : PafStrides, a : {sd[2]}, b : PafPts]
Init == /\ cfg \in Seeds
        /\ stage = "seed"
        /\ out = <<>>
PickCfg == /\ stage = "seed"
           /\ cfg' \in SpaceOf(cfg)
           /\ stage' = "input" /\ UNCHANGED out
MakeConfmaps == /\ stage = "input" /\ cfg.kind \in {"cm1", "cm2"}
                /\ out' = IdealConfmaps(CmCase(cfg))
                /\ stage' = "targets" /\ UNCHANGED cfg
MakePAFs == /\ stage = "input" /\ cfg.kind = "paf"
            /\ out' = (IF PafBuildable(cfg) THEN IdealPaf(cfg, "ideal") ELSE <<>>)
            /\ stage' = "targets" /\ UNCHANGED cfg
Next == PickCfg \/ MakeConfmaps \/ MakePAFs

ConfIdealAccepted == (stage = "targets" /\ cfg.kind \in {"cm1", "cm2"}) => ConfmapClause(out) = "ok"
NearestIsArgMin == (stage = "input" /\ cfg.kind = "cm1") => NearestCells(CmCase(cfg), cfg.p) = ArgMinCells(CmCase(cfg), cfg.p)
NearestWithinHalfStride ==
    (stage = "input" /\ cfg.kind = "cm1" /\ cfg.p[1] >= 0 /\ cfg.p[1] <= 4 * (Side - cfg.s) /\ cfg.p[2] >= 0 /\ cfg.p[2] <= 4 * (Side - cfg.s))
    => \A idx \in NearestCells(CmCase(cfg), cfg.p) : CellD16(CmCase(cfg), {cfg.p}, idx) <= 8 * cfg.s * cfg.s
PafLemmas ==
    (stage = "input" /\ cfg.kind = "paf" /\ EdgeClass(cfg.a, cfg.b) = "ok") =>
    LET c == PafCaseIn(cfg)
        vv == Sq(cfg.b[1] - cfg.a[1]) + Sq(cfg.b[2] - cfg.a[2])
    IN \A idx \in 1..(PafRows(c) * PafCols(c)) :
         LET p == PafCellPoint(c, idx)
             N == SegN(p, cfg.a, cfg.b)
         IN /\ N = SegN(p, cfg.b, cfg.a)
            /\ (N = 0) = OnSegment(p, cfg.a, cfg.b)
            /\ N <= (Sq(p[1] - cfg.a[1]) + Sq(p[2] - cfg.a[2])) * vv
            /\ N <= (Sq(p[1] - cfg.b[1]) + Sq(p[2] - cfg.b[2])) * vv
            /\ N >= Sq((p[1] - cfg.a[1]) * (cfg.b[2] - cfg.a[2]) - (p[2] - cfg.a[2]) * (cfg.b[1] - cfg.a[1]))
PafIdealAccepted == (stage = "targets" /\ cfg.kind = "paf" /\ out # <<>>) => PafClause(out) = "ok"
=============================================================================
