---------------------------- MODULE Tracker ----------------------------
(* Identity tracking (sleap_nn/tracking): candidate stores, matching, id allocation.  C09, C10.

   Code mapped (Tracker.track):
     get_features / get_track_instances      -> the detections of the frame (set D of animals, hi flags)
     generate_candidates / update_candidates -> Cand(t): what the store offers for track t
     get_scores + scores_to_cost_matrix      -> Score(a, t)   (C10 instance: defined from the store)
     assign_tracks (hungarian | greedy)      -> Assignments(D)
     candidate.update_tracks / add_new_tracks-> the store update and id allocation in Track(D)

   Two instances share the store and id allocation:
     C10 instance  Track(D):  scores are DEFINED from the store by the "far apart compared with their
                   motion" abstraction: similarity of a detection of animal a to a stored instance is
                   high iff that instance was animal a.  Reduction mean / max.
     C09 instance  TrackAny(dets): the assignment is ANY injective partial map into existing tracks
                   (whatever a score matrix could produce); the reply clauses must hold regardless.

   The configuration is a variable that never changes (one TLC run covers the grid). *)
EXTENDS Naturals, Integers, Sequences, FiniteSets, FiniteSetsExt, SequencesExt, Functions, TLC

CONSTANTS Animals,      \* model values / small integers
          None
VARIABLES cfg,          \* [store: "fixed"|"local", match: "hungarian"|"greedy", red: "mean"|"max", w: window]
          nt,           \* number of track ids allocated so far: tracks are 0..nt-1 (candidate.current_tracks)
          fq,           \* fixed window: sequence (<= w) of stored frames; a frame is a set of <<track, animal>>
          lq,           \* local queues: function track -> sequence (<= w) of animals
          seen,         \* history: animals detected so far
          trackOf,      \* history: animal -> track it was last given
          ok,           \* history: identity never changed and newcomers got fresh ids
          nframes,
          lastD         \* history: the detections of the last frame (makes dumped state graphs replayable)
vars == <<cfg, nt, fq, lq, seen, trackOf, ok, nframes, lastD>>

Tracks == 0..(nt - 1)

CandFixed(t) ==
    LET hit(i) == {p \in fq[i] : p[1] = t}
        idx == SelectSeq([i \in 1..Len(fq) |-> i], LAMBDA i : hit(i) # {})
    IN [k \in 1..Len(idx) |-> (CHOOSE p \in hit(idx[k]) : TRUE)[2]]
Cand(t) == IF cfg.store = "fixed" THEN CandFixed(t) ELSE lq[t]
Live == {t \in Tracks : Cand(t) # <<>>}
Count(s, a) == Cardinality({i \in 1..Len(s) : s[i] = a})

\* similarity x 6 (|cand| <= 3 keeps it integral); only defined for live tracks
Score(a, t) == IF cfg.red = "mean" THEN (6 * Count(Cand(t), a)) \div Len(Cand(t))
               ELSE IF Count(Cand(t), a) > 0 THEN 6 ELSE 0
Total(f) == FoldFunction(+, 0, [a \in DOMAIN f |-> Score(a, f[a])])
InjectiveMaps(S, T) == {f \in [S -> T] : \A x, y \in S : x # y => f[x] # f[y]}

\* hungarian (linear_sum_assignment on a rectangular matrix): maximum-cardinality, optimal total.
\* greedy: any outcome of repeatedly taking a best remaining pair until rows or columns run out.
Assignments(D) ==
    LET k == Min({Cardinality(D), Cardinality(Live)})
        cands == UNION {InjectiveMaps(S, Live) : S \in {S \in SUBSET D : Cardinality(S) = k}}
    IN IF cfg.match = "hungarian" THEN {f \in cands : \A g \in cands : Total(g) <= Total(f)}
       ELSE {f \in cands : \E o \in InjectiveMaps(1..k, DOMAIN f) :
               \A i \in 1..k : \A a \in D, t \in Live :
                  ((\A j \in 1..(i - 1) : o[j] # a /\ f[o[j]] # t) /\ (\A j \in 1..(i - 1) : TRUE))
                     => Score(a, t) <= Score(o[i], f[o[i]])}

Trim(s, w) == IF Len(s) > w THEN SubSeq(s, Len(s) - w + 1, Len(s)) ELSE s

\* store update for a complete assignment asg : D -> track (every detection in D ends with a track)
StoreUpdate(D, asg, newN) ==
    /\ nt' = newN
    /\ IF cfg.store = "fixed"
       THEN /\ fq' = (IF D = {} THEN fq ELSE Trim(Append(fq, {<<asg[a], a>> : a \in D}), cfg.w))
            /\ lq' = lq
       ELSE /\ lq' = [t \in 0..(newN - 1) |->
                        LET old == IF t \in DOMAIN lq THEN lq[t] ELSE <<>>
                            add == {a \in D : asg[a] = t}
                        IN IF add = {} THEN old ELSE Trim(Append(old, CHOOSE a \in add : TRUE), cfg.w)]
            /\ fq' = fq

\* ---------------------------------------------------------------- C10 instance ----------------
Track(D) ==
    /\ \E f \in Assignments(D) :
         LET newc == D \ DOMAIN f IN
         \E g \in InjectiveMaps(newc, nt..(nt + Cardinality(newc) - 1)) :
            LET asg == [a \in D |-> IF a \in DOMAIN f THEN f[a] ELSE g[a]] IN
            /\ StoreUpdate(D, asg, nt + Cardinality(newc))
            /\ ok' = (ok /\ (\A x \in D \cap seen : asg[x] = trackOf[x])
                         /\ (\A y \in D \ seen : \A b \in seen : trackOf[b] # asg[y]))
            /\ trackOf' = [a \in seen \cup D |-> IF a \in D THEN asg[a] ELSE trackOf[a]]
            /\ seen' = seen \cup D
    /\ nframes' = nframes + 1
    /\ lastD' = D
    /\ UNCHANGED cfg

TInit(Configs) ==
    /\ cfg \in Configs
    /\ nt = 0 /\ fq = <<>> /\ lq = <<>> /\ seen = {} /\ trackOf = <<>> /\ ok = TRUE /\ nframes = 0 /\ lastD = {}

\* the scenario class of C10
NewcomerOnlyWhenAllVisible(D) == (D \ seen # {}) => (seen \subseteq D)
AllSeenLive == \A a \in seen : trackOf[a] \in Live      \* absences shorter than the window
Identity == ok
Distinct == \A a, b \in seen : a # b => trackOf[a] # trackOf[b]

\* ---------------------------------------------------------------- C09 reply clause ------------
\* dets: sequence of [hi |-> BOOLEAN]; ret: sequence of <<index into dets (0 = not an input), track or -1>>
ReplyClause(dets, ret, raised, ntBefore) ==
    LET n == Len(dets)
        idxs == {ret[i][1] : i \in 1..Len(ret)}
        trks == {ret[i][2] : i \in {j \in 1..Len(ret) : ret[j][2] # -1}}
        tracked == {i \in 1..Len(ret) : ret[i][2] # -1}
    IN IF raised THEN "raised"
       ELSE IF \E i \in 1..Len(ret) : ret[i][1] \notin 1..n THEN "returned_foreign_detection"
       ELSE IF Cardinality(idxs) # Len(ret) THEN "returned_detection_twice"
       ELSE IF \E d \in 1..n : dets[d].hi /\ ~(\E i \in tracked : ret[i][1] = d) THEN "hi_detection_dropped_or_untracked"
       ELSE IF Cardinality(trks) # Cardinality(tracked) THEN "same_track_twice_in_frame"
       ELSE "ok"
=============================================================================
