---------------------------- MODULE MC_DataStore ----------------------------
(* Design check and case-space export for DataStore (C11).

   Label-set family (3 nodes; v = 1 visible, 0 missing; "u" user / "p" predicted instance):
     1 nan_anchor  missing anchor nodes (node 1, node 2, both)
     2 empty_inst  fully empty instances beside non-empty ones, a frame of empty instances only
     3 pred_mixed  predicted beside user instances, a predicted-only frame
     4 mixed       all of the above, an empty predicted-only frame, an all-empty user+predicted frame
     5 complete    control: nothing missing
   For the single-instance class every frame keeps its first instance only.
   Grid: 4 classes x np_chunks x anchor in {None, node 1, node 2} x user_instances_only x 5 families = 240
   configurations; every read sequence of length <= MaxReads over the indices {first, second, last};
   up to MaxCalls functional-API calls on the sample returned last, at any point of the history.

   AsCoded   = TRUE : generate_centroids writes through the anchor view (Build and Call)   -> must violate
                      MissingOK (Build), ArgsUntouched (Call), SameIndexSameSample (Build, GetItem(i),
                      Call(generate_centroids) on the returned sample that aliases the cache, GetItem(i))
   ViewWrite = TRUE : a step of __getitem__ writes through a view of the cached tensor     -> must violate
                      NothingMutated
   Measured sizes: Grid = 0, MaxReads = 4: 240 initial states, 28,200 distinct states with MaxCalls = 0
   (18,660 maximal read histories), 55,920 with MaxCalls = 1;  Grid = 1, MaxReads = 3: 1,728 initial
   states, 7,830 distinct;  Grid = 2: 40,128 initial states (see the evidence file for the state count). *)
EXTENDS DataStore
CONSTANTS MaxReads, MaxCalls, AsCoded, ViewWrite,
          Grid      \* 0: the five families;  1, 2: small-scope exhaustive label sets (see GridFams)

U(v) == <<"u", v>>
P(v) == <<"p", v>>
Families == <<
  << <<U(<<0, 1, 1>>), U(<<1, 0, 1>>)>>, <<U(<<1, 1, 1>>)>>, <<U(<<0, 0, 1>>)>> >>,
  << <<U(<<1, 1, 1>>), U(<<0, 0, 0>>)>>, <<U(<<0, 0, 0>>)>>, <<U(<<0, 0, 0>>), U(<<0, 1, 1>>)>>, <<U(<<1, 1, 0>>)>> >>,
  << <<P(<<1, 1, 1>>), U(<<1, 0, 1>>)>>, <<P(<<1, 1, 1>>)>>, <<U(<<1, 1, 1>>), P(<<0, 1, 1>>)>>, <<U(<<0, 1, 0>>)>> >>,
  << <<U(<<0, 1, 1>>), P(<<1, 1, 1>>), U(<<0, 0, 0>>)>>, <<P(<<0, 0, 0>>)>>, <<P(<<1, 0, 1>>), U(<<1, 1, 1>>)>>,
     <<U(<<0, 0, 0>>), P(<<0, 0, 0>>)>>, <<U(<<1, 0, 0>>)>> >>,
  << <<U(<<1, 1, 1>>), U(<<1, 1, 1>>)>>, <<U(<<1, 1, 1>>)>>, <<U(<<1, 1, 1>>)>> >> >>

Pt(f, a, n) == <<100 * f + 10 * a + n, 100 * f + 10 * a + n, 1>>
Mk(fam) == [f \in 1..Len(fam) |-> [a \in 1..Len(fam[f]) |->
              [k |-> fam[f][a][1], p |-> [n \in 1..Len(fam[f][a][2]) |-> IF fam[f][a][2][n] = 1 THEN Pt(f, a, n) ELSE NaN]]]]

\* Small-scope exhaustive label sets over 2 nodes (Grid > 0): an instance is user / predicted with any of the
\* 4 visibility patterns (8 types); Grid = 1: one frame of 1..2 instances (72 label sets);
\* Grid = 2: one frame of 1..3 instances (584) and two frames, one of 1..2 instances and one of a single
\* instance, in both orders (1152 - the scope in which max_instances padding, the per-frame image reuse of
\* the crop path and the video index differ between samples).  Memory mode, 24 configurations per label set,
\* fixed history <<first, last, first>>.
InstTypes == {<<k, <<v1, v2>>>> : k \in {"u", "p"}, v1 \in {0, 1}, v2 \in {0, 1}}
FramesUpTo(m) == UNION {{[j \in 1..n |-> x[j]] : x \in [1..n -> InstTypes]} : n \in 1..m}
GridFams == IF Grid = 1 THEN {<<fr>> : fr \in FramesUpTo(2)}
            ELSE {<<fr>> : fr \in FramesUpTo(3)}
                 \cup {<<a, b>> : a \in FramesUpTo(2), b \in FramesUpTo(1)}
                 \cup {<<b, a>> : a \in FramesUpTo(2), b \in FramesUpTo(1)}
LabelsOf(c) == LET m == IF Grid = 0 THEN Mk(Families[c.fam]) ELSE Mk(c.fam)
               IN IF c.cls = "single" THEN [f \in 1..Len(m) |-> <<m[f][1]>>] ELSE m

Configs == IF Grid = 0
           THEN [cls : {"bottomup", "centered", "centroid", "single"}, chunks : BOOLEAN, anchor : 0..2,
                 uio : BOOLEAN, fam : 1..Len(Families)]
           ELSE [cls : {"bottomup", "centered", "centroid", "single"}, chunks : {FALSE}, anchor : 0..2,
                 uio : BOOLEAN, fam : GridFams]
Init == DSInit(Configs, LabelsOf)

ReadIdx == {1, 2, Len(cache)} \cap (1..Len(cache))
DoBuild == Build(AsCoded)
GridIdx == IF Len(reads) = 1 THEN Len(cache) ELSE 1
DoGetItem == /\ Len(reads) < MaxReads
             /\ \E i \in (IF Grid = 0 THEN ReadIdx ELSE {GridIdx}) : GetItem(i) \/ (ViewWrite /\ GetItemViewWrite(i))
DoCall == /\ nc < MaxCalls
          /\ \E f \in {"generate_centroids", "generate_confmaps"} : IF AsCoded THEN CallAsCoded(f) ELSE Call(f)
Next == DoBuild \/ DoGetItem \/ DoCall
Spec == Init /\ [][Next]_vars

\* ---- export of the case space (run with -workers 1): one LAB line per configuration, one HIST line per
\* maximal read history; the driver replays exactly these on the real dataset classes
CfgTuple == <<cfg.cls, cfg.chunks, cfg.anchor, cfg.uio, IF Grid = 0 THEN cfg.fam ELSE 0>>
LabVis == [f \in 1..Len(labels) |-> [a \in 1..Len(labels[f]) |->
             <<labels[f][a].k, [n \in 1..Len(labels[f][a].p) |-> labels[f][a].p[n][3]]>>]]
Export == /\ (built /\ reads = <<>> /\ nc = 0) => PrintT(<<"LAB", CfgTuple, LabVis, Len(cache)>>)
          /\ (Grid = 0 /\ Len(reads) = MaxReads) => PrintT(<<"HIST", CfgTuple, reads>>)
=============================================================================
