---------------------------- MODULE Weights ----------------------------
(* Where the numbers in a network come from (extension X05: not one of the 20 listed properties).

   System behaviour: sleap_nn.training.lightning_modules (constructor of the Lightning modules: init_weights,
   pretrained_backbone_weights, pretrained_head_weights), Lightning's checkpoint writer with the module's
   on_save_checkpoint, and sleap_nn.inference.predictors (the from_trained_models constructors: best.ckpt of the model directory,
   backbone_ckpt_path, head_ckpt_path).

   A network's parameters fall into GROUPS: "enc" and "dec" (together the backbone) and "head" (all head layers).
   What a group holds is an ATOM: an opaque identity of a set of numbers.  Atoms are born - by random initialisation
   or by an update of the parameters (training) - and from then on only COPIED: into a checkpoint file, from a file
   into a module.  Nothing in this system blends two atoms or moves an atom into another group's slot.

   actions (one per real call)
     Construct(init, pb, ph)  build a Lightning module; pb / ph = the file given as pretrained_backbone_weights /
                              pretrained_head_weights (None = not given).  Backbone groups come from pb, the head from
                              ph, every group not covered is born fresh (init = "default" | "xavier"; in xavier-born
                              groups the convolution / linear biases are zero)
     Update                   the parameters change (an optimiser step): every group is a new atom
     Save(f)                  the live module is written as checkpoint file f
     InferLoad(f, b, h)       a predictor is built from the model directory whose best.ckpt is f, with backbone_ckpt_path
                              b and head_ckpt_path h (None = not given):
                                neither        every group from f            ("the best.ckpt of the model directory")
                                b only         every group from b            ("run inference on any .ckpt other than
                                                                              best.ckpt")
                                h only         head from h, backbone from f  ("a different set of head layer weights;
                                                                              if None the best.ckpt is used")
                                both           backbone from b, head from h
   `op` records the last call with its arguments (the dumped state graph has no action parameters). *)
EXTENDS Integers, Sequences, FiniteSets, TLC
CONSTANTS Files,        \* checkpoint file names
          HeadWhole     \* counter-model: the head file is loaded without filtering its keys (FALSE = as documented)

None == "none"
Groups == {"enc", "dec", "head"}
Backbone == {"enc", "dec"}
Idx(g) == CASE g = "enc" -> 0 [] g = "dec" -> 1 [] g = "head" -> 2
Inits == {"default", "xavier"}
NoW == [g \in Groups |-> -1]      \* no module / no such file

VARIABLES live,   \* NoW, or [Groups -> atom]: the module in memory
          file,   \* [Files -> NoW or [Groups -> atom]]
          fresh,  \* next unborn atom (atoms are born three at a time: fresh + Idx(g))
          xav,    \* atoms born by xavier initialisation (their biases are zero)
          op
vars == <<live, file, fresh, xav, op>>

Born(n) == [g \in Groups |-> n + Idx(g)]
Written == {f \in Files : file[f] # NoW}
Opt(S) == S \cup {None}

Init == /\ live = NoW /\ file = [f \in Files |-> NoW] /\ fresh = 0 /\ xav = {} /\ op = <<"start">>

ConstructWeights(pb, ph) ==
    [g \in Groups |->
        IF g \in Backbone
        THEN (IF pb # None THEN file[pb][g]
              ELSE IF HeadWhole /\ ph # None THEN file[ph][g]      \* counter-model only
              ELSE Born(fresh)[g])
        ELSE (IF ph # None THEN file[ph][g] ELSE Born(fresh)[g])]

Construct(init, pb, ph) ==
    /\ init \in Inits /\ pb \in Opt(Written) /\ ph \in Opt(Written)
    /\ live' = ConstructWeights(pb, ph)
    /\ xav' = IF init = "xavier" THEN xav \cup {Born(fresh)[g] : g \in Groups} ELSE xav
    /\ fresh' = fresh + 3
    /\ op' = <<"Construct", init, pb, ph>>
    /\ UNCHANGED file

Update == /\ live # NoW
          /\ live' = Born(fresh) /\ fresh' = fresh + 3
          /\ op' = <<"Update">>
          /\ UNCHANGED <<file, xav>>

Save(f) == /\ live # NoW /\ f \in Files
           /\ file' = [file EXCEPT ![f] = live]
           /\ op' = <<"Save", f>>
           /\ UNCHANGED <<live, fresh, xav>>

\* the weights an inference request ends up with (a function of the files only)
Resolve(F, f, b, h) ==
    [g \in Groups |->
        IF b # None /\ h # None THEN (IF g \in Backbone THEN F[b][g] ELSE F[h][g])
        ELSE IF b # None THEN F[b][g]
        ELSE IF h # None THEN (IF g \in Backbone /\ ~HeadWhole THEN F[f][g] ELSE F[h][g])
        ELSE F[f][g]]

InferLoad(f, b, h) ==
    /\ f \in Written /\ b \in Opt(Written) /\ h \in Opt(Written)
    /\ live' = Resolve(file, f, b, h)
    /\ op' = <<"InferLoad", f, b, h>>
    /\ UNCHANGED <<file, fresh, xav>>

Next == \/ \E i \in Inits, pb \in Opt(Files), ph \in Opt(Files) : Construct(i, pb, ph)
        \/ Update
        \/ \E f \in Files : Save(f)
        \/ \E f \in Files, b \in Opt(Files), h \in Opt(Files) : InferLoad(f, b, h)
Spec == Init /\ [][Next]_vars

-----------------------------------------------------------------------------
(* properties *)
Atoms(w) == {w[g] : g \in Groups}
TypeOK == /\ live = NoW \/ live \in [Groups -> 0..(fresh - 1)]
          /\ \A f \in Files : file[f] = NoW \/ file[f] \in [Groups -> 0..(fresh - 1)]
          /\ xav \subseteq 0..(fresh - 1)

\* an atom never sits in another group's slot: no copy crosses groups
SlotsKeepTheirKind ==
    /\ live # NoW => \A g \in Groups : live[g] % 3 = Idx(g)
    /\ \A f \in Written : \A g \in Groups : file[f][g] % 3 = Idx(g)

\* a head file never reaches the backbone, a backbone file never the head (training-time loading)
ConstructSeparates ==
    [][op'[1] = "Construct" /\ op' # op =>
          LET pb == op'[3]
              ph == op'[4]
          IN /\ \A g \in Backbone : live'[g] = IF pb # None THEN file[pb][g] ELSE fresh + Idx(g)
             /\ live'["head"] = IF ph # None THEN file[ph]["head"] ELSE fresh + 2]_vars

\* a checkpoint read back without overrides is the module that was saved
SaveLoadRoundTrip ==
    [][op'[1] = "InferLoad" /\ op'[3] = None /\ op'[4] = None => live' = file[op'[2]]]_vars

\* documented override rules, as properties of Resolve over the files written so far
OverrideRules ==
    \A f \in Written, b \in Written, h \in Written :
        /\ Resolve(file, f, b, None) = file[b]                                   \* any other .ckpt instead of best.ckpt
        /\ \A g \in Backbone : Resolve(file, f, None, h)[g] = file[f][g]        \* head override keeps the backbone
        /\ Resolve(file, f, None, h)["head"] = file[h]["head"]
        /\ \A f2 \in Written : Resolve(file, f, b, h) = Resolve(file, f2, b, h)  \* both given: best.ckpt is irrelevant
        /\ Resolve(file, f, f, f) = file[f]

\* saving never changes the module, loading never changes a file
FilesOnlyChangeBySave == [][file' # file => op'[1] = "Save"]_vars
=============================================================================
