---------------------------- MODULE MC_ConfigNorm ----------------------------
(* Design check for C20 (c): Norm / Save / Load as functions on configuration values, over every
   raw (possibly partial, possibly loosely typed) configuration of a 4-field schema:
       Norm(Norm(c)) = Norm(c)        Load(Save(Norm(c))) = Norm(c)
   LossySave = TRUE replaces the writer by one that omits None-valued keys: RoundTripLossless MUST fail.
   Raw configurations: 3 x 4 x 4 x 4 = 192; 5 stages each. *)
EXTENDS Config
CONSTANT LossySave
NoSchema == <<>>
Absent == <<"absent">>
Sch == ("a.int" :> [kind |-> "int", default |-> I(1)])
    @@ ("a.flt" :> [kind |-> "float", default |-> R(1, 2)])
    @@ ("a.opt" :> [kind |-> "any", default |-> N])
    @@ ("a.lst" :> [kind |-> "list", default |-> L(<<I(1), I(2)>>)])
RawValues == ("a.int" :> {Absent, I(1), I(7)})
          @@ ("a.flt" :> {Absent, R(1, 2), I(2), R(3, 1)})
          @@ ("a.opt" :> {Absent, N, S("x"), S("null")})
          @@ ("a.lst" :> {Absent, L(<<I(1), I(2)>>), T(<<I(3), I(4)>>), N})
RawChoices == {f \in [DOMAIN Sch -> UNION {RawValues[p] : p \in DOMAIN Sch}] : \A p \in DOMAIN Sch : f[p] \in RawValues[p]}
RawOf(f) == [p \in {q \in DOMAIN f : f[q] # Absent} |-> f[p]]

VARIABLES raw, cur, yaml, stage
vars == <<raw, cur, yaml, stage>>
Init == /\ raw \in {RawOf(f) : f \in RawChoices}
        /\ cur = raw /\ yaml = {} /\ stage = "raw"
Normalise == /\ stage = "raw" /\ cur' = Norm(Sch, raw) /\ stage' = "normalised" /\ UNCHANGED <<raw, yaml>>
Renormalise == /\ stage = "normalised" /\ cur' = Norm(Sch, cur) /\ stage' = "renormalised" /\ UNCHANGED <<raw, yaml>>
SaveYaml == /\ stage = "renormalised"
            /\ yaml' = (IF LossySave THEN SaveDroppingNone(cur) ELSE Save(cur))
            /\ stage' = "saved" /\ UNCHANGED <<raw, cur>>
LoadYaml == /\ stage = "saved" /\ cur' = Load(yaml) /\ stage' = "loaded" /\ UNCHANGED <<raw, yaml>>
Next == Normalise \/ Renormalise \/ SaveYaml \/ LoadYaml

Complete == stage # "raw" => DOMAIN cur = DOMAIN Sch
Idempotent == stage = "renormalised" => cur = Norm(Sch, raw)
RoundTripLossless == stage = "loaded" => cur = Norm(Sch, raw)
\* normalisation changes no value of a complete, well-typed configuration
FixedPoint == stage = "normalised" /\ raw = Norm(Sch, raw) => cur = raw
=============================================================================
