---------------------------- MODULE MC_InferConfig ----------------------------
(* Design check of the request resolution over the whole request space (config-as-variable idiom: one state per request).
     OrderIrrelevant      the order in which the model directories are given does not matter
     CallerWins           a value the caller gives is the effective value
     TrainingFallback     a value the caller leaves out comes from the right model's training configuration
     NonInterference      changing one caller value changes nothing but that value's effective field
     RefusedExactly       only a VideoReader request without a centroid model is refused
   Counter-model `FrameModelIsFirstGiven` (frame-level preprocessing taken from whichever model is listed first) must
   violate OrderIrrelevant. *)
EXTENDS InferConfig
CONSTANT FirstGiven
VARIABLE r

Range(q) == {q[i] : i \in DOMAIN q}
TrainRecs(k) == [scale2 : {1, 2}, max_h : {None, 400}, max_w : {None, 416}, is_rgb : BOOLEAN,
                 crop : IF k = "centered" THEN {128, 160} ELSE {None}, anchor : IF k = "centered" THEN {None, 0} ELSE {None}]
CliRecs == [max_h : {None, 512}, max_w : {None, 528}, crop : {None, 96}, anchor : {None, 1}, is_rgb : BOOLEAN]
PathSeqs == {<<"centroid", "centered">>, <<"centered", "centroid">>, <<"centered">>, <<"centroid">>, <<"bottomup">>}
Trains(p) == {f \in [Range(p) -> UNION {TrainRecs(k) : k \in Range(p)}] : \A k \in Range(p) : f[k] \in TrainRecs(k)}
Requests == UNION {[paths : {p}, train : Trains(p), cli : CliRecs, provider : {"LabelsReader", "VideoReader"}] : p \in PathSeqs}

Init == r \in Requests
Next == UNCHANGED r

Rev(q) == [i \in DOMAIN q |-> q[Len(q) + 1 - i]]
\* the resolution under test: the specified one, or the counter-model
EffM(q) == IF FirstGiven
           THEN LET fm == q.train[q.paths[1]] IN [Eff(q) EXCEPT !.max_h = Pick(q.cli.max_h, fm.max_h), !.max_w = Pick(q.cli.max_w, fm.max_w), !.scale2 = fm.scale2]
           ELSE Eff(q)

OrderIrrelevant == EffM(r) = EffM([r EXCEPT !.paths = Rev(r.paths)])
CallerWins == /\ (r.cli.max_h # None => EffM(r).max_h = r.cli.max_h)
              /\ (r.cli.max_w # None => EffM(r).max_w = r.cli.max_w)
              /\ (r.cli.crop # None /\ Class(r) = "TopDownPredictor" => EffM(r).crop = r.cli.crop)
              /\ (r.cli.anchor # None /\ EffM(r).gt_centroids /\ "centered" \in Given(r) => EffM(r).anchor = r.cli.anchor)
              /\ EffM(r).is_rgb = r.cli.is_rgb
TrainingFallback == /\ (r.cli.max_h = None => EffM(r).max_h = r.train[FrameModel(r)].max_h)
                    /\ (r.cli.max_w = None => EffM(r).max_w = r.train[FrameModel(r)].max_w)
                    /\ (r.cli.crop = None /\ "centered" \in Given(r) => EffM(r).crop = r.train["centered"].crop)
NonInterference ==
    /\ \A v \in {None, 512} : LET e2 == EffM([r EXCEPT !.cli.max_h = v]) IN [e2 EXCEPT !.max_h = EffM(r).max_h] = EffM(r)
    /\ \A v \in {None, 528} : LET e2 == EffM([r EXCEPT !.cli.max_w = v]) IN [e2 EXCEPT !.max_w = EffM(r).max_w] = EffM(r)
    /\ \A v \in {None, 96} : LET e2 == EffM([r EXCEPT !.cli.crop = v]) IN [e2 EXCEPT !.crop = EffM(r).crop] = EffM(r)
    /\ \A v \in {None, 1} : LET e2 == EffM([r EXCEPT !.cli.anchor = v]) IN [e2 EXCEPT !.anchor = EffM(r).anchor] = EffM(r)
    /\ \A v \in BOOLEAN : LET e2 == EffM([r EXCEPT !.cli.is_rgb = v]) IN [e2 EXCEPT !.is_rgb = EffM(r).is_rgb] = EffM(r)
RefusedExactly == EffM(r).refused <=> (r.provider = "VideoReader" /\ Class(r) = "TopDownPredictor" /\ "centroid" \notin Given(r))
=============================================================================
