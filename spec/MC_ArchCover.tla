---------------------------- MODULE MC_ArchCover ----------------------------
(* Coverage of the C14 replay, decided by TLC: the configurations for which the driver built the
   real Model (TRACE_FILE = list of cfg records taken from the judged traces) against the spec's
   configuration space InGrid = ValidSet \cup BoundarySet of MC_Arch.
     subset     every fed configuration is in the space
     equal      the whole space was fed                                  (thorough tier)
     equalfast  ... apart from the 28M-parameter "tiny" wrappers          (quick tier)
     bbcover    every backbone setting of the space occurs in the fed set (tiny excluded)
     headcover  every (strides, rate, head type, head strides) combination occurs (tiny excluded) *)
EXTENDS MC_Arch, Json, IOUtils
Fed == Range(JsonDeserialize(IOEnv.TRACE_FILE))
Space == ValidSet \cup BoundarySet
Fast(S) == {c \in S : c.arch # "tiny"}
BBProj(c) == <<c.bb, c.arch, c.ms, c.os, c.stem, c.fr, c.f, c.cpb, c.upi, c.mid>>
HeadProj(c) == <<c.bb, c.arch, c.ms, c.os, IF IsUNet(c) THEN 0 ELSE c.stem, c.fr, c.f, c.mt, c.hs>>
ASSUME PrintT(<<"COVER", Cardinality(Fed), Cardinality(Space), Fed \subseteq Space, Fed = Space,
                Fast(Fed) = Fast(Space),
                {BBProj(c) : c \in Fast(Fed)} = {BBProj(c) : c \in Fast(Space)},
                {HeadProj(c) : c \in Fast(Fed)} = {HeadProj(c) : c \in Fast(Space)},
                Cardinality({c \in Fed : c.arch = "tiny"})>>)
CInit == ArchInit({CHOOSE c \in ValidSet : TRUE})
CNext == UNCHANGED avars
=============================================================================
