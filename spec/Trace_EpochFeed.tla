---------------------------- MODULE Trace_EpochFeed ----------------------------
(* Batch trace validation for EpochFeed.  A trace is [id, ev] with ev a sequence of events recorded from the real
   CyclerDataLoader driven like the trainer drives it:
     <<"new", [n, b, s, shuffle]>>   construction (s = 0: steps_per_epoch not given)
     <<"len", L>>                    len(loader) as observed            (must be EpochLen)
     <<"iter", 0>>                   iter(loader)
     <<"next", <<sample ids>>>>      next(generator): the delivered batch
     <<"reset", 0>>                  loader.reset()
   Every event must be the corresponding EpochFeed action from the current state (the order of a shuffled pass is
   not logged: TLC accepts exactly the batches the pass may still deliver), and every invariant holds in every state. *)
EXTENDS EpochFeed, Verdict, Json, IOUtils
Traces == JsonDeserialize(IOEnv.TRACE_FILE)
ASSUME VInit
VARIABLES tid, l
tvars == <<vars, tid, l>>

Ev == Traces[tid].ev
TInit == /\ tid \in 1..Len(Traces) /\ l = 1 /\ Init

IsEvent(e) == l <= Len(Ev) /\ Ev[l][1] = e /\ l' = l + 1 /\ tid' = tid
TNew   == IsEvent("new") /\ Ev[l][2] \in Configs /\ Construct(Ev[l][2])
TLen   == IsEvent("len") /\ phase = "ready" /\ Ev[l][2] = EpochLen(cfg) /\ UNCHANGED vars
TIter  == IsEvent("iter") /\ Iter
TNext  == IsEvent("next") /\ Deliver(Ev[l][2])
TReset == IsEvent("reset") /\ Reset
TNext_ == TNew \/ TLen \/ TIter \/ TNext \/ TReset

Inv == IF ~TypeOK THEN "TypeOK" ELSE IF ~BatchSizes THEN "BatchSizes" ELSE IF ~Balanced THEN "Balanced"
       ELSE IF ~PassPosition THEN "PassPosition" ELSE IF ~InOrder THEN "InOrder" ELSE "ok"

Why == \* names the reason a "next" event has no spec step
    IF Ev[l][1] = "next" /\ phase = "ready"
    THEN LET rem0 == IF remaining = {} THEN Samples(cfg) ELSE remaining
             b == Ev[l][2]
         IN IF k >= EpochLen(cfg) THEN "batch_beyond_epoch_length"
            ELSE IF ~(Range(b) \subseteq Samples(cfg)) THEN "batch_has_unknown_sample"
            ELSE IF ~Injective(b) THEN "sample_twice_in_batch"
            ELSE IF ~(Range(b) \subseteq rem0) THEN "sample_delivered_twice_in_a_pass"
            ELSE IF Len(b) # Min(cfg.b, Cardinality(rem0)) THEN "batch_size"
            ELSE "batch_out_of_order"
    ELSE IF Ev[l][1] = "len" THEN "len_is_not_steps_per_epoch"
    ELSE "no_spec_step_for_" \o Ev[l][1]

Check ==
    LET id == Traces[tid].id IN
    IF Inv # "ok" THEN VReject(id, Inv) /\ FALSE
    ELSE IF l > Len(Ev) THEN VAccept
    ELSE IF ENABLED TNext_ THEN TRUE ELSE VReject(id, Why) /\ FALSE
Report == VReport
=============================================================================
