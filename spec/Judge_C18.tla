---------------------------- MODULE Judge_C18 ----------------------------
(* Block(b) == Function(b) on the real code (C18, second sentence): every case is one seeded random example that went
   through a legacy DataPipe block (iterated over a one-element source) and through the block's functional counterpart:

     block, h, w, maxH, maxW     the block and the sizes BlockDemanded of Frameworks.tla talks about (0: None)
     nb, nf                      how many examples the block yielded / the function produced (InstanceCropper: one per animal)
     rb, rf                      exception text ("" = none) of the block / the function
     keys                        names of the compared outputs;  shb / shf their shapes;  eq their allclose flags
                                 (|a - b| <= 1e-6, NaNs in the same places) - measured by the harness, judged here

   Where BlockDemanded (every block of the property; SizeMatcher - not in the property's list - only where the limiting
   ratio is 1, because the block pads where apply_sizematcher resizes): same number of outputs, same shapes, flags all 1,
   and neither side raises alone.  Elsewhere the case is accepted and counted as a note. *)
EXTENDS Frameworks, Verdict, Json, IOUtils
Cases == JsonDeserialize(IOEnv.TRACE_FILE)
ASSUME VInit /\ TLCSet(5, <<>>)
Bump(f, c) == [x \in (DOMAIN f) \cup {c} |-> IF x = c THEN (IF c \in DOMAIN f THEN f[c] ELSE 0) + 1 ELSE f[x]]
Note(n) == TLCSet(5, Bump(TLCGet(5), n))
VARIABLE i
Init == i = 0 /\ cfg = <<>> /\ pc = 0 /\ img = <<>> /\ pts = <<>> /\ cen = <<>> /\ q = 0 /\ tgt = <<>> /\ fin = <<>>
Next == i < Len(Cases) /\ i' = i + 1 /\ UNCHANGED fvars
BlockClause(c) ==
    IF c.block \notin Blocks THEN "unknown_block"
    ELSE IF c.rb # "" /\ c.rf # "" THEN "ok"
    ELSE IF c.rb # "" THEN "block_raised_" \o c.block
    ELSE IF c.rf # "" THEN "function_raised_" \o c.block
    ELSE IF c.nb # c.nf THEN "output_count_differs_" \o c.block
    ELSE IF \E k \in 1..Len(c.keys) : c.shb[k] # c.shf[k]
         THEN "shape_differs_" \o c.block \o "_" \o c.keys[CHOOSE k \in 1..Len(c.keys) : c.shb[k] # c.shf[k]]
    ELSE IF \E k \in 1..Len(c.keys) : c.eq[k] # 1
         THEN "block_differs_" \o c.block \o "_" \o c.keys[CHOOSE k \in 1..Len(c.keys) : c.eq[k] # 1]
    ELSE "ok"
Give(c) == LET cl == BlockClause(c)
               dem == BlockDemanded([block |-> c.block, h |-> c.h, w |-> c.w, maxH |-> c.maxH, maxW |-> c.maxW])
           IN IF dem THEN VGive(c.id, cl) /\ Note("block_judged_" \o c.block) /\ Note(IF cl = "ok" THEN "block_agrees_" \o c.block ELSE "block_rejected")
              ELSE VAccept /\ Note("silent_" \o c.block \o "_" \o (IF cl = "ok" THEN "agrees" ELSE "differs"))
Check == i >= 1 => Give(Cases[i])
Report == /\ TLCSet(1, TLCGet(1) \cup {<<0 - TLCGet(5)[c], "note:" \o c>> : c \in DOMAIN TLCGet(5)})
          /\ VReport
=============================================================================
