---------------------------- MODULE MC_Geometry ----------------------------
(* Design model of the geometry stages (C04): the whole configuration grid of the contract in ONE run
   (cfg is chosen in Init and never changes).

     sizes h, w in Sizes = {17, 32, 45, 64};  (maxH, maxW) in {None, equal, (64,64), (80,96)}  (equal /
     larger / different aspect, down- and up-scaling);  scales {1/2, 3/4, 1, 3/2};  strides {1, 8, 16, 32};
     crop sizes {16, 32};  anchors {None (box mid point), corner (0,0), far corner, centre};
     pipelines fn_full, dp_full, fn_crop, fn_topdown (over-crop, augment with T in Ts, re-crop, pad).
   Labels: one instance with the four corners and the centre of the original image (1/64 px lattice).

   Checked on the whole grid: TypeOK, SizeExact, PadBottomRight, CropCentred, CropSizeOK.
   Registered is checked on the SAFE part of the grid (RegisteredOnSafe) and MUST be violated on the
   whole grid (counter-model run): the as-coded arithmetic - keypoints multiplied by eff and s while
   tvf.resize works with pixel centres and integer target sizes - drifts by more than one output pixel
   for larger up-scalings.  17 904 configurations, 209 232 states. *)
EXTENDS Geometry
CONSTANTS Sizes, Strides, CropSizes
Scales == {<<1, 2>>, <<3, 4>>, <<1, 1>>, <<3, 2>>}
\* <<crop height, crop width>>: square sizes and the two non-square pairs (seed C04_r6: height/width transposed)
CropPairs == {<<a, a>> : a \in CropSizes} \cup {<<16, 32>>, <<32, 16>>}
MaxModes == {"none", "equal", "sq64", "big"}
MaxOf(mode, h, w) == CASE mode = "none" -> <<0, 0>> [] mode = "equal" -> <<h, w>>
                       [] mode = "sq64" -> <<64, 64>> [] mode = "big" -> <<80, 96>>
Labels(h, w) == << <<0, 0, 1, 1, 1>>, <<(w - 1) * Q, 0, 1, 1, 2>>, <<0, (h - 1) * Q, 1, 1, 3>>,
                   <<(w - 1) * Q, (h - 1) * Q, 1, 1, 4>>, <<(w - 1) * (Q \div 2), (h - 1) * (Q \div 2), 1, 1, 5>> >>
Base(ds, h, w, mode, s, m, cr, a) ==
    [pipe |-> AllStages(ds), ds |-> ds, h |-> h, w |-> w, maxH |-> MaxOf(mode, h, w)[1], maxW |-> MaxOf(mode, h, w)[2],
     sn |-> s[1], sd |-> s[2], m |-> m, crH |-> cr[1], crW |-> cr[2], anchor |-> a, inst |-> 1,
     augI |-> 1, augG |-> 1, track |-> "keypoints", kp0 |-> Labels(h, w)]
Full == {Base(ds, h, w, mode, s, m, <<16, 16>>, 0) : ds \in {"fn_full"}, h \in Sizes, w \in Sizes, mode \in MaxModes, s \in Scales, m \in Strides}
DPFull == {Base("dp_full", h, w, mode, s, m, <<16, 16>>, 0) : h \in Sizes, w \in Sizes, mode \in {"none", "equal", "big"}, s \in Scales, m \in Strides}
Cropped == {Base(ds, h, w, mode, s, m, cr, a) : ds \in {"fn_crop", "fn_topdown"}, h \in Sizes, w \in Sizes, mode \in MaxModes,
                                                  s \in Scales, m \in Strides, cr \in CropPairs, a \in {0, 1, 4, 5}}
Configs == Full \cup DPFull \cup Cropped

\* exact lattice-preserving augmentations about the image centre
Ts == {"id", "rot90", "shift", "scale54"}
ApplyT(T, z) == LET cx == (img.w - 1) * (P \div 2)
                    cy == (img.h - 1) * (P \div 2)
                IN CASE T = "id" -> z
                     [] T = "rot90" -> <<cx - (z[2] - cy), cy + (z[1] - cx)>>
                     [] T = "shift" -> <<z[1] + 3 * P, z[2] - 2 * P>>
                     [] T = "scale54" -> <<cx + MulDiv(z[1] - cx, 5, 4), cy + MulDiv(z[2] - cy, 5, 4)>>

Init == GInit(Configs)
DoSizeMatch == \E t \in SMTargets : SizeMatch(t[1], t[2])
DoAugmentGeo == \E T \in Ts : AugmentGeo([i \in 1..Len(pts) |-> ApplyT(T, pts[i].c)], [i \in 1..Len(pts) |-> ApplyT(T, pts[i].k)])
Next == \/ Read \/ Sample \/ DoSizeMatch \/ SizeMatchPad \/ Resize \/ PadToStride \/ Centroid \/ Crop \/ OverCrop
        \/ AugmentInt \/ DoAugmentGeo \/ ReCrop

\* largest magnification (output pixels per original pixel) reached at any stage of the pipeline, as <<n, d>>
EffOf(c) == LET mh == IF c.maxH = 0 THEN c.h ELSE c.maxH
                mw == IF c.maxW = 0 THEN c.w ELSE c.maxW
            IN IF c.ds = "dp_full" \/ (mh = c.h /\ mw = c.w) THEN <<1, 1>>
               ELSE IF mh * c.w > mw * c.h THEN <<mw, c.w>> ELSE <<mh, c.h>>
RLe(a, b) == a[1] * b[2] <= b[1] * a[2]
AugMag(c) == IF c.ds = "fn_topdown" THEN <<5, 4>> ELSE <<1, 1>>
\* SAFE part of the grid: every resize is by an exact ratio (the integer target sizes lose nothing) and no
\* stage magnifies the original by more than SafeN/SafeD; there the only drift is the half-pixel term (S-1)/2
CONSTANTS SafeN, SafeD
ExactResizes(c) ==
    LET mh == IF c.maxH = 0 THEN c.h ELSE c.maxH
        mw == IF c.maxW = 0 THEN c.w ELSE c.maxW
        e == EffOf(c)
    IN /\ (c.w * e[1]) % e[2] = 0 /\ (c.h * e[1]) % e[2] = 0
       /\ (mh * c.sn) % c.sd = 0 /\ (mw * c.sn) % c.sd = 0
SafeCfg(c) == LET e == EffOf(c) IN
              /\ ExactResizes(c)
              /\ RLe(e, <<SafeN, SafeD>>)
              /\ RLe(<<e[1] * c.sn * AugMag(c)[1], e[2] * c.sd * AugMag(c)[2]>>, <<SafeN, SafeD>>)
RegisteredOnSafe == SafeCfg(cfg) => Registered
\* crop size found for the instance (extent of the labels scaled as the keypoints are) is a covering stride multiple
ExtentQ == LET V == {i \in 1..Len(pts) : pts[i].v}
           IN Max2(SetMax({pts[i].k[1] : i \in V}) - SetMin({pts[i].k[1] : i \in V}),
                   SetMax({pts[i].k[2] : i \in V}) - SetMin({pts[i].k[2] : i \in V})) \div PQ
ASSUME \A c \in Configs : c.pipe = Pipeline(c)
ASSUME PrintT(<<"GRID", Cardinality(Configs), Cardinality({c \in Configs : SafeCfg(c)})>>)
CropSizeOK == LastStage = "Resize" =>
                 \A pad \in {0, 5} : CropSizeClause(ExtentQ, pad, cfg.m, 0, CropSizeSpec(ExtentQ, pad, cfg.m, 0)) = "ok"
=============================================================================
