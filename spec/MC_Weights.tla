---------------------------- MODULE MC_Weights ----------------------------
(* Design check of Weights: every interleaving of Construct / Update / Save / InferLoad over the given files until
   MaxBirths births (Construct or Update) and MaxDepth calls.  Counter-model HeadWhole = TRUE (the head checkpoint is
   loaded without filtering its keys) must violate ConstructSeparates and OverrideRules. *)
EXTENDS Weights
CONSTANTS MaxBirths, MaxDepth
Bound == fresh <= 3 * MaxBirths /\ TLCGet("level") <= MaxDepth
=============================================================================
