---------------------------- MODULE InferConfig ----------------------------
(* How an inference request is resolved into a predictor and its effective preprocessing
   (sleap_nn.inference.predictors: Predictor.from_model_paths -> *.from_trained_models ->
   _initialize_inference_model -> make_pipeline).  Extension X02: not one of the 20 listed properties.

   request r
     paths     sequence of model kinds in the order the model directories were given
     train     kind -> [scale2, max_h, max_w, is_rgb, crop, anchor]   the training configuration of that model
               (scale2 = 2 * preprocessing.scale; crop / anchor only meaningful for "centered"; None = null)
     cli       [max_h, max_w, crop, anchor, is_rgb]   what the caller passed (None = not given; is_rgb is a plain bool)
     provider  "LabelsReader" | "VideoReader"

   resolution (documented: "if not given, then use from training config")
     class      top-down as soon as a centroid or a centred-instance model is given, else bottom-up
     frame model the model whose training configuration describes whole-frame preprocessing:
                centroid if given, else centred-instance, else bottom-up
     max_h/max_w  the caller's value if given, else the frame model's training value
     scale2     the frame model's training scale (the caller cannot override it)
     is_rgb     the caller's flag
     crop       the caller's value if given, else the centred-instance model's training crop size
     anchor     (ground-truth centroids, i.e. no centroid model) the caller's value if given, else the centred head's
     cscale2 / iscale2   input scales of the centroid / centred-instance stage = their own training scales
     a VideoReader request without a centroid model is refused (ground truth is needed for the centroids)          *)
EXTENDS Integers, Sequences, FiniteSets, TLC

None == -1
TopDownKinds == {"centroid", "centered"}
Given(r) == {r.paths[i] : i \in DOMAIN r.paths}
Pick(c, t) == IF c # None THEN c ELSE t

Class(r) == IF Given(r) \cap TopDownKinds # {} THEN "TopDownPredictor"
            ELSE IF "bottomup" \in Given(r) THEN "BottomUpPredictor" ELSE "error"
FrameModel(r) == IF "centroid" \in Given(r) THEN "centroid" ELSE IF "centered" \in Given(r) THEN "centered" ELSE "bottomup"

Refused(r) == Class(r) = "error" \/ (Class(r) = "TopDownPredictor" /\ r.provider = "VideoReader" /\ "centroid" \notin Given(r))

Eff(r) ==
    LET fm == r.train[FrameModel(r)]
        td == Class(r) = "TopDownPredictor"
    IN [class   |-> Class(r),
        refused |-> Refused(r),
        max_h   |-> Pick(r.cli.max_h, fm.max_h),
        max_w   |-> Pick(r.cli.max_w, fm.max_w),
        scale2  |-> fm.scale2,
        is_rgb  |-> r.cli.is_rgb,
        crop    |-> IF td THEN Pick(r.cli.crop, IF "centered" \in Given(r) THEN r.train["centered"].crop ELSE None) ELSE None,
        anchor  |-> IF td /\ "centroid" \notin Given(r) /\ "centered" \in Given(r) THEN Pick(r.cli.anchor, r.train["centered"].anchor) ELSE None,
        cscale2 |-> IF td /\ "centroid" \in Given(r) THEN r.train["centroid"].scale2 ELSE None,
        iscale2 |-> IF td /\ "centered" \in Given(r) THEN r.train["centered"].scale2 ELSE None,
        gt_centroids |-> td /\ "centroid" \notin Given(r),
        gt_peaks     |-> td /\ "centered" \notin Given(r)]

\* the first clause an observed resolution `o` (same fields; o.raised = "" or the exception text) fails
FieldsJudged == <<"class", "max_h", "max_w", "scale2", "is_rgb", "crop", "anchor", "cscale2", "iscale2", "gt_centroids", "gt_peaks">>
Clause(r, o) ==
    LET e == Eff(r) IN
    IF e.refused THEN (IF o.raised # "" THEN "ok" ELSE "request_not_refused")
    ELSE IF o.raised # "" THEN "raised"
    ELSE LET bad == {i \in 1..Len(FieldsJudged) : o[FieldsJudged[i]] # e[FieldsJudged[i]]}
         IN IF bad = {} THEN "ok" ELSE "wrong_" \o FieldsJudged[CHOOSE i \in bad : \A j \in bad : i <= j]
=============================================================================
