---------------------------- MODULE MC_Assembly ----------------------------
(* Design check for C08 (and why C17 is load-bearing for it): the greedy instance assembly AS CODED
   (assign_connections_to_instances: cases neither / src only / both with merge; "dst only" unhandled),
   run over the edge types in a ValidOrder, yields exactly the connected components of the accepted
   one-to-one matches - for every rooted labelled tree on 2..MaxN nodes, every valid order, up to P peaks
   per node and every accepted set.  With AnyOrder = TRUE (orders that are not parent-before-child) the
   theorem MUST fail. *)
EXTENDS Grouping
CONSTANTS MaxN, P, AnyOrder
VARIABLES conns, asg, accepted
avars == <<tvars, conns, asg, accepted>>

ParentMaps(n, r) == [((0..(n - 1)) \ {r}) -> 0..(n - 1)]
EdgeSetOf(p) == {<<p[v], v>> : v \in DOMAIN p}
\* one canonical listing per tree (edge listing order is C17's business, not the assembly's)
TreesN == {SetToSeq(EdgeSetOf(p)) : p \in UNION {UNION {ParentMaps(n, r) : r \in 0..(n - 1)} : n \in 2..MaxN}}
Trees == {t \in TreesN : IsTree(t)}
Perms(n) == {f \in [1..n -> 0..(n - 1)] : \A i, j \in 1..n : i # j => f[i] # f[j]}
PartialMatchings == {M \in SUBSET ((0..(P - 1)) \X (0..(P - 1))) : IsMatching(M)}

Init ==
    /\ tree \in Trees
    /\ fifo = <<>> /\ emitted = {}
    /\ ord \in {o \in Perms(Len(tree)) : AnyOrder \/ ValidOrder(tree, o)}
    /\ \E ms \in [1..Len(tree) -> PartialMatchings] :
         /\ accepted = UNION {{[e |-> k - 1, s |-> m[1], d |-> m[2], q |-> 0, nan |-> FALSE] : m \in ms[k]} : k \in 1..Len(tree)}
         /\ conns = FlattenSeq([i \in 1..Len(tree) |-> SetToSeq({c \in accepted : c.e = ord[i]})])
    /\ asg = <<>>

ProcessConnection ==
    /\ conns # <<>>
    /\ asg' = AsmStep(tree, asg, Head(conns))
    /\ conns' = Tail(conns)
    /\ UNCHANGED <<tvars, accepted>>
Next == ProcessConnection

AssemblyIsComponents == (conns = <<>>) => InstancesOf(asg) = Components(tree, accepted)
OnePeakPerNode == \A I \in InstancesOf(asg) : \A p1, p2 \in I : p1 # p2 => p1[1] # p2[1]
=============================================================================
