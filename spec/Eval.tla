---------------------------- MODULE Eval ----------------------------
(* Evaluation subsystem (sleap_nn/evaluation.py, sleap_nn/tracking/utils.py): C15, C16.

   Definition layer (what a right answer is): OKS clauses in the log domain on the quarter-pixel
   lattice, one-to-one assignments (OptAssign), IoU clauses, PCK / visibility counts.
   Implementation-shaped layer: MatchInstances as a state machine (descending detection score,
   best available OKS above the threshold, pop), the greedy cost matcher, and the VOC arithmetic
   (stable sort by detection score, cumulative tp/fp, right-to-left precision envelope,
   searchsorted(side=left) over the recall thresholds k/100) in exact rationals <<num, den>>.

   Units.  Coordinates: integers = quarter pixels.  A node is <<x, y>> or <<>> (missing / NaN).
   D16 = squared distance in 1/16 px^2.  Areas A16 in 1/16 px^2.  stddev = s/40 (s = 1 is the
   default 0.025).  Observed floats cross the bridge as class tags ("nan","neg","zero","one",
   "gt1","val") plus integers: q8/q9 = round(v*10^8 / 10^9), kq = round(-ln(v)*64).
   Used by MC_EvalMatch, MC_EvalVoc, MC_EvalDelete (design checks) and Judge_C15, Judge_C16. *)
EXTENDS Naturals, Integers, Sequences, FiniteSets, SequencesExt, FiniteSetsExt, Functions, TLC

Abs(x) == IF x < 0 THEN -x ELSE x
SeqSum(s) == FoldLeft(+, 0, s)
\* TLC keeps [i \in S |-> e] as a lambda and re-evaluates e at every application; concatenation
\* forces an explicit tuple, evaluated once
Tup(s) == s \o <<>>
FirstBad(s) == LET B == {i \in DOMAIN s : s[i] # "ok"} IN IF B = {} THEN "ok" ELSE s[Min(B)]
InRange(cls) == cls \in {"zero", "one", "val"}

\* floor(num * 10^k / den) for num >= 0, den > 0, den < 2*10^8 (schoolbook division; 32-bit safe
\* as long as the result fits)
RECURSIVE QLoop(_, _, _, _)
QLoop(q, r, den, k) == IF k = 0 THEN q ELSE QLoop(q * 10 + (r * 10) \div den, (r * 10) % den, den, k - 1)
QRat(num, den, k) == QLoop(num \div den, num % den, den, k)

\* ============================================================== OKS (C15) ====================
Vis(nd) == Len(nd) = 2
VisSet(pose) == {n \in DOMAIN pose : Vis(pose[n])}
D16(a, b) == (a[1] - b[1]) * (a[1] - b[1]) + (a[2] - b[2]) * (a[2] - b[2])
BBoxArea16(pose) ==
    LET V == VisSet(pose)
        xs == {pose[n][1] : n \in V}
        ys == {pose[n][2] : n \in V}
    IN (Max(xs) - Min(xs)) * (Max(ys) - Min(ys))

\* opt = [s |-> stddev*40, coco |-> use_cocoeval, scale |-> -1 (None: bounding-box area) or A16]
AreaOf(opt, gt) == IF opt.scale < 0 THEN BBoxArea16(gt) ELSE opt.scale

\* exponent x = d^2 / (spread * scalefactor) as a rational:
\*   cocoeval:  d^2 / ((2 sigma)^2 * 2 A)   = 200 D16 / (s^2 A16)
\*   paper   :  d^2 / (sigma^2 * 2 A^2)     = 12800 D16 / (s^2 A16^2)
XNum(D, opt) == IF opt.coco THEN 200 * D ELSE 12800 * D
XDen(opt, A) == IF opt.coco THEN opt.s * opt.s * A ELSE opt.s * opt.s * A * A
\* floor(64 x)
XQ64(num, den) == 64 * (num \div den) + (64 * (num % den)) \div den

\* one keypoint: o = [cls, kq, q] observed keypoint similarity of (gt node, pred node)
KsClause(gtn, prn, opt, A, o) ==
    IF ~Vis(prn) THEN (IF o.cls = "zero" THEN "ok" ELSE "missing_pred_node_not_a_complete_miss")
    ELSE LET D == D16(gtn, prn)
             num == XNum(D, opt)
             den == XDen(opt, A)
         IN IF D = 0 THEN (IF o.cls = "one" THEN "ok" ELSE "coincident_node_not_one")
            ELSE IF den = 0 \/ num \div den >= 700
                 THEN (IF o.cls = "zero" \/ (o.cls = "val" /\ o.kq >= 699 * 64) THEN "ok"
                       ELSE "far_node_similarity_not_vanishing")
            ELSE LET xq == XQ64(num, den)
                 IN IF o.cls = "val" /\ Abs(o.kq - xq) <= 2 + xq \div 10000 THEN "ok"
                    ELSE "ks_log_value"

\* one (gt, pred) pair: o = observed OKS [cls, q]; ks = observed per-node similarities (single-node
\* calls with explicit scale = observed area); area = observed compute_instance_area*16 (or -1)
OksPairClause(gt, pr, opt, area, o, ks) ==
    LET V == VisSet(gt)
        nv == Cardinality(V)
    IN IF nv = 0 THEN "ok"    \* no visible gt node: outside the property's domain (0/0)
       ELSE IF opt.scale < 0 /\ area # BBoxArea16(gt) THEN "instance_area"
       ELSE IF ~InRange(o.cls) THEN "oks_out_of_range"
       ELSE LET A == AreaOf(opt, gt)
                \* opt.sn: the stddev of each keypoint (a per-keypoint array may hold different values; a scalar is sn[n] = s)
                per == Tup([n \in 1..Len(gt) |-> IF n \in V THEN KsClause(gt[n], pr[n], [opt EXCEPT !.s = opt.sn[n]], A, ks[n]) ELSE "ok"])
            IN IF FirstBad(per) # "ok" THEN FirstBad(per)
               ELSE IF Abs(o.q * nv - SeqSum([n \in 1..Len(gt) |-> IF n \in V THEN ks[n].q ELSE 0])) > nv + 1
                    THEN "oks_not_mean_over_visible_gt_nodes"
               ELSE IF (\A n \in V : Vis(pr[n]) /\ pr[n] = gt[n]) /\ o.cls # "one" THEN "identical_pose_not_one"
               ELSE "ok"

SameObs(a, b) == a.cls = b.cls /\ Abs(a.q - b.q) <= 1

\* relations between the base event and one derived event of the same case
RelClause(c, r) ==
    LET G == Len(c.gts)
        P == Len(c.prs)
    IN IF r.t = "translate" THEN
            (IF \A g \in 1..G : \A p \in 1..P : VisSet(c.gts[g]) = {} \/ SameObs(r.M[g][p], c.M[g][p])
             THEN "ok" ELSE "translation_changes_oks")
       ELSE IF r.t = "permute" THEN
            (IF \A g \in 1..G : \A p \in 1..P :
                    VisSet(c.gts[r.pg[g]]) = {} \/ SameObs(r.M[g][p], c.M[r.pg[g]][r.pp[p]])
             THEN "ok" ELSE "reordering_instances_changes_oks")
       ELSE IF r.t = "move" THEN   \* node r.n of prediction r.p replaced by r.to (<<>> = dropped)
            LET old == c.prs[r.p][r.n]
                bad(g) ==
                    LET gn == c.gts[g][r.n]
                        o1 == c.M[g][r.p]
                        o2 == r.M[g][r.p]
                    IN IF VisSet(c.gts[g]) = {} THEN "ok"
                       ELSE IF ~InRange(o2.cls) THEN "oks_out_of_range"
                       ELSE IF ~Vis(gn) THEN (IF SameObs(o1, o2) THEN "ok" ELSE "missing_gt_node_not_ignored")
                       ELSE LET farther == ~Vis(r.to) \/ (Vis(old) /\ D16(gn, r.to) >= D16(gn, old))
                                nearer == ~Vis(old) \/ (Vis(r.to) /\ D16(gn, r.to) <= D16(gn, old))
                            IN IF farther /\ o2.q > o1.q + 1 THEN "oks_increases_when_node_moves_farther"
                               ELSE IF nearer /\ o2.q < o1.q - 1 THEN "oks_decreases_when_node_moves_nearer"
                               ELSE "ok"
                others == \A g \in 1..G : \A p \in (1..P) \ {r.p} : VisSet(c.gts[g]) = {} \/ SameObs(r.M[g][p], c.M[g][p])
            IN IF ~others THEN "other_prediction_affected"
               ELSE FirstBad(Tup([g \in 1..G |-> bad(g)]))
       ELSE "unknown_relation"

\* c = [gts, prs, opt, area (per gt), M (G x P obs), ks (G x P x N obs), rels]
OksClause(c) ==
    LET G == Len(c.gts)
        P == Len(c.prs)
        pair(g, p) == OksPairClause(c.gts[g], c.prs[p], c.opt, c.area[g], c.M[g][p], c.ks[g][p])
        base == FirstBad(Tup([k \in 1..(G * P) |-> pair(((k - 1) \div P) + 1, ((k - 1) % P) + 1)]))
    IN IF c.raised # "" THEN "raised"
       ELSE IF c.argmut THEN "stddev_argument_mutated"         \* inputs are left untouched (a shared per-keypoint stddev array)
       ELSE IF Len(c.M) # G \/ \E g \in 1..G : Len(c.M[g]) # P THEN "oks_shape"
       ELSE IF base # "ok" THEN base
       ELSE FirstBad(Tup([k \in 1..Len(c.rels) |-> RelClause(c, c.rels[k])]))

\* ============================================ MatchInstances as a state machine (C15) ==========
(* Instance I = [G, P, sc (detection score per prediction), ok (G x P: dense rank of the OKS value,
   -1 = NaN), thr (rank of the match threshold)].  Predictions are taken in descending score;
   each takes the best still-available gt whose OKS is above the threshold, which is then removed.
   Ties (equal scores, equal OKS) may be broken either way: the property does not speak about
   them.  MatchDet is the deterministic refinement the code implements (stable order, lowest index). *)
VARIABLES mI, avail, todo, pairs
mvars == <<mI, avail, todo, pairs>>

NextPreds(I, td) == {p \in td : \A q \in td : I.sc[q] <= I.sc[p]}
Cand(I, av, p) == {g \in av : I.ok[g][p] > I.thr}
Best(I, av, p) == {g \in Cand(I, av, p) : \A h \in Cand(I, av, p) : I.ok[h][p] <= I.ok[g][p]}

MInit(I) == mI = I /\ avail = 1..I.G /\ todo = 1..I.P /\ pairs = <<>>
MatchStep == /\ avail # {}
             /\ \E p \in NextPreds(mI, todo) : \E g \in Best(mI, avail, p) :
                    /\ pairs' = Append(pairs, <<g, p>>)
                    /\ avail' = avail \ {g}
                    /\ todo' = todo \ {p}
             /\ UNCHANGED mI
SkipStep == /\ avail # {}
            /\ \E p \in NextPreds(mI, todo) :
                    /\ Best(mI, avail, p) = {}
                    /\ todo' = todo \ {p}
            /\ UNCHANGED <<mI, avail, pairs>>
MDone == todo = {} \/ avail = {}
MNext == MatchStep \/ SkipStep

GtOnce == \A i, j \in 1..Len(pairs) : pairs[i][1] = pairs[j][1] => i = j
PredOnce == \A i, j \in 1..Len(pairs) : pairs[i][2] = pairs[j][2] => i = j
Conserved == Len(pairs) + Cardinality(avail) = mI.G /\ avail \cap {pairs[i][1] : i \in 1..Len(pairs)} = {}
AboveThr == \A i \in 1..Len(pairs) : mI.ok[pairs[i][1]][pairs[i][2]] > mI.thr

\* all replies the machine can give
RECURSIVE Runs(_, _, _, _)
Runs(I, av, td, ps) ==
    IF td = {} \/ av = {} THEN {ps}
    ELSE UNION {IF Best(I, av, p) = {} THEN Runs(I, av, td \ {p}, ps)
                ELSE UNION {Runs(I, av \ {g}, td \ {p}, Append(ps, <<g, p>>)) : g \in Best(I, av, p)}
                : p \in NextPreds(I, td)}
AllRuns(I) == Runs(I, 1..I.G, 1..I.P, <<>>)

RECURSIVE RunDet(_, _, _, _)
RunDet(I, av, td, ps) ==
    IF td = {} \/ av = {} THEN ps
    ELSE LET p == Min(NextPreds(I, td))
         IN IF Best(I, av, p) = {} THEN RunDet(I, av, td \ {p}, ps)
            ELSE LET g == Min(Best(I, av, p)) IN RunDet(I, av \ {g}, td \ {p}, Append(ps, <<g, p>>))
MatchDet(I) == RunDet(I, 1..I.G, 1..I.P, <<>>)

\* reply = [pairs |-> seq of [g, p, okr], fn |-> seq of gt indices]   (1-based)
MatchClause(I, reply) ==
    LET ps == reply.pairs
        n == Len(ps)
        gs == [i \in 1..n |-> ps[i].g]
    IN IF \E i \in 1..n : ps[i].g \notin 1..I.G \/ ps[i].p \notin 1..I.P THEN "pair_index_out_of_range"
       ELSE IF \E i, j \in 1..n : i # j /\ ps[i].g = ps[j].g THEN "gt_instance_matched_twice"
       ELSE IF \E i, j \in 1..n : i # j /\ ps[i].p = ps[j].p THEN "predicted_instance_matched_twice"
       ELSE IF \E i, j \in 1..Len(reply.fn) : i # j /\ reply.fn[i] = reply.fn[j] THEN "false_negative_listed_twice"
       ELSE IF Range(reply.fn) \cap Range(gs) # {} THEN "matched_gt_also_false_negative"
       ELSE IF Range(reply.fn) \cup Range(gs) # 1..I.G THEN "gt_instances_not_conserved"
       ELSE IF \E i \in 1..n : ps[i].okr # I.ok[ps[i].g][ps[i].p] THEN "pair_oks_differs_from_compute_oks"
       ELSE IF [i \in 1..n |-> <<ps[i].g, ps[i].p>>] \notin AllRuns(I) THEN "not_a_run_of_match_machine"
       ELSE "ok"

\* ======================================= assignment helpers of the tracker (C15) ===============
\* C = n x m cost matrix (sequence of rows); rows/cols = reply, 0-based indices
Total(C, rows, cols) == SeqSum([i \in 1..Len(rows) |-> C[rows[i] + 1][cols[i] + 1]])
MinTotal(C) ==
    LET n == Len(C)
        m == Len(C[1])
    IN IF n <= m THEN Min({SeqSum([i \in 1..n |-> C[i][f[i]]]) : f \in Injection(1..n, 1..m)})
       ELSE Min({SeqSum([j \in 1..m |-> C[f[j]][j]]) : f \in Injection(1..m, 1..n)})
OneToOneClause(C, rows, cols) ==
    LET n == Len(C)
        m == Len(C[1])
        k == IF n <= m THEN n ELSE m
    IN IF Len(rows) # Len(cols) THEN "rows_cols_length"
       ELSE IF \E i \in 1..Len(rows) : rows[i] \notin 0..(n - 1) \/ cols[i] \notin 0..(m - 1) THEN "index_out_of_range"
       ELSE IF \E i, j \in 1..Len(rows) : i # j /\ rows[i] = rows[j] THEN "row_assigned_twice"
       ELSE IF \E i, j \in 1..Len(rows) : i # j /\ cols[i] = cols[j] THEN "column_assigned_twice"
       ELSE IF Len(rows) # k THEN "not_max_cardinality"
       ELSE "ok"
\* hungarian_matching: optimal (minimum total cost) among the max-cardinality one-to-one assignments
OptAssignClause(C, rows, cols) ==
    IF OneToOneClause(C, rows, cols) # "ok" THEN OneToOneClause(C, rows, cols)
    ELSE IF Total(C, rows, cols) # MinTotal(C) THEN "assignment_not_optimal"
    ELSE "ok"
\* greedy_matching: a run of the greedy machine - every step takes a cheapest edge among those whose
\* row and column are still free (equal costs: either)
GreedyClause(C, rows, cols) ==
    IF OneToOneClause(C, rows, cols) # "ok" THEN OneToOneClause(C, rows, cols)
    ELSE LET n == Len(C)
             m == Len(C[1])
             freeR(t) == (0..(n - 1)) \ {rows[h] : h \in 1..(t - 1)}
             freeC(t) == (0..(m - 1)) \ {cols[h] : h \in 1..(t - 1)}
         IN IF \E t \in 1..Len(rows) : \E r \in freeR(t) : \E cc \in freeC(t) :
                    C[r + 1][cc + 1] < C[rows[t] + 1][cols[t] + 1]
            THEN "greedy_step_not_cheapest_free_edge" ELSE "ok"

\* IoU of boxes <<xmin, ymin, xmax, ymax>> (quarter pixels, xmin <= xmax, ymin <= ymax):
\* range, symmetry, IoU(a, a) = 1, and 0 for boxes at least one pixel apart
IouClause(a, b, oab, oba, oaa) ==
    IF ~InRange(oab.cls) \/ ~InRange(oba.cls) THEN "iou_out_of_range"
    ELSE IF ~SameObs(oab, oba) THEN "iou_not_symmetric"
    ELSE IF oaa.cls # "one" THEN "iou_self_not_one"
    ELSE IF (a[3] + 4 <= b[1] \/ b[3] + 4 <= a[1] \/ a[4] + 4 <= b[2] \/ b[4] + 4 <= a[2]) /\ oab.cls # "zero"
         THEN "iou_of_separated_boxes_not_zero"
    ELSE "ok"

\* ======================================================== VOC arithmetic (C16) ================
Thr9(j) == (50 + 5 * (j - 1)) * 10000000          \* match-score thresholds 0.50 .. 0.95, j in 1..10
One9 == 1000000000

\* ms = sequence of [sc, ok9] in positive-pair order; stable descending sort by detection score
RankOf(ms, i) == Cardinality({h \in DOMAIN ms : ms[h].sc > ms[i].sc \/ (ms[h].sc = ms[i].sc /\ h < i)}) + 1
SortedOks(ms) == Tup([r \in DOMAIN ms |-> ms[CHOOSE i \in DOMAIN ms : RankOf(ms, i) = r].ok9])
HasScoreTies(ms) == \E i, j \in DOMAIN ms : i # j /\ ms[i].sc = ms[j].sc

RECURSIVE CumTP(_, _, _, _)
CumTP(oks, t9, i, acc) ==
    IF i > Len(oks) THEN acc
    ELSE CumTP(oks, t9, i + 1, Append(acc, (IF i = 1 THEN 0 ELSE acc[i - 1]) + (IF oks[i] >= t9 THEN 1 ELSE 0)))
\* right-to-left precision envelope of pr[i] = tp[i] / i  (fp[i] + tp[i] = i)
RECURSIVE EnvR(_, _, _)
EnvR(tp, i, acc) ==
    IF i = 0 THEN acc
    ELSE LET cur == <<tp[i], i>>
             best == IF acc = <<>> THEN cur ELSE (IF acc[1][1] * i > tp[i] * acc[1][2] THEN acc[1] ELSE cur)
         IN EnvR(tp, i - 1, <<best>> \o acc)

(* one match-score threshold.  oks = sorted match scores (q9), npig = #gt instances, H = the set of
   k for which the float recall threshold linspace(0,1,101)[k] lies strictly above k/100 (an exact
   tie rc = k/100 then counts as rc < threshold).  Result: precision at the 101 recall thresholds
   as rationals (<<0, 1>> beyond the last recall), tp count. *)
VocRow(oks, npig, t9, H) ==
    LET n == Len(oks)
        tp == CumTP(oks, t9, 1, <<>>)
        env == EnvR(tp, n, <<>>)
        last == IF n = 0 THEN 0 ELSE tp[n]
        \* first index whose cumulative tp reaches c  (searchsorted, side = left)
        firstIdx == Tup([c1 \in 1..(last + 1) |-> Min({i \in 1..n : tp[i] >= c1 - 1})])
        \* least tp count whose recall tp/npig is >= the k-th recall threshold
        need(k) == LET c == (k * npig + 99) \div 100
                   IN IF 100 * c = k * npig /\ k \in H THEN c + 1 ELSE c
        \* idx[k+1] = position in env of the precision reported at recall threshold k/100, 0 = none
        idx == Tup([k1 \in 1..101 |-> IF n = 0 \/ need(k1 - 1) > last THEN 0 ELSE firstIdx[need(k1 - 1) + 1]])
    IN [env |-> env, idx |-> idx, tp |-> last]
PrecAt(row, k1) == IF row.idx[k1] = 0 THEN <<0, 1>> ELSE row.env[row.idx[k1]]
\* quantised (floor, d digits) precision table of a row and its sum over the 101 recall thresholds
EnvQ(row, d) == Tup([i \in DOMAIN row.env |-> QRat(row.env[i][1], row.env[i][2], d)])
RowSumQ(row, d) == LET eq == EnvQ(row, d) IN SeqSum([k1 \in 1..101 |-> IF row.idx[k1] = 0 THEN 0 ELSE eq[row.idx[k1]]])
RatGE(a, b) == a[1] * b[2] >= b[1] * a[2]

\* ------------------------------------------------ PCK, distances, visibility ------------------
\* d16 = sequence (pairs) of sequences (nodes) of squared distances in 1/16 px^2, -1 = NaN
PckLo(d16, k) == Cardinality({<<i, n>> \in (DOMAIN d16) \X (1..(IF d16 = <<>> THEN 0 ELSE Len(d16[1]))) :
                                d16[i][n] >= 0 /\ d16[i][n] < 16 * k * k})
PckHi(d16, k) == Cardinality({<<i, n>> \in (DOMAIN d16) \X (1..(IF d16 = <<>> THEN 0 ELSE Len(d16[1]))) :
                                d16[i][n] >= 0 /\ d16[i][n] <= 16 * k * k})
NodeD16(a, b) == IF Vis(a) /\ Vis(b) THEN D16(a, b) ELSE 0 - 1
=============================================================================
