---------------------------- MODULE Judge_X07 ----------------------------
(* Conformance of the real option plumbing (X07): each case is a request r and the placements obs read from the real
   predictor that sleap_nn.inference.predictors.main() built; the verdict is InferOptions!Clause(r, obs). *)
EXTENDS InferOptions, Verdict, Json, IOUtils
Cases == JsonDeserialize(IOEnv.TRACE_FILE)
ASSUME VInit
VARIABLE i
Init == i = 0
Next == i < Len(Cases) /\ i' = i + 1
Check == i >= 1 => VGive(Cases[i].id, Clause(Cases[i].r, Cases[i].obs))
Report == VReport
=============================================================================
