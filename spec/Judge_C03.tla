---------------------------- MODULE Judge_C03 ----------------------------
(* Conformance of bottom-up inference with ideal confidence maps and PAFs (C03).  A case is one frame:
   cfg (InferPlane configuration, s = confidence-map stride), edges (tree, pairs of 0-based node indices),
   animals: sequence of poses, a pose = sequence over nodes of [x, y, vis] (1/1024 px),
   preds:   sequence of predicted instances, each a sequence over nodes of [x, y, nan].
   Expected instances = for every animal, every connected component (>= 2 nodes) of its visible nodes under
   skeleton edges whose both ends are visible.  The predictions must be in bijection with them: same visible
   pattern, every coordinate within the tight bound, nothing extra. *)
EXTENDS InferPlane, Verdict, Json, IOUtils
Cases == JsonDeserialize(IOEnv.TRACE_FILE)
ASSUME VInit
VARIABLE i
Init == i = 0 /\ cfg = <<>> /\ stage = "" /\ hw = <<>> /\ pos = <<>> /\ peak = <<>> /\ dec = <<>>
Next == i < Len(Cases) /\ i' = i + 1 /\ UNCHANGED ivars

Nodes(c) == 1..c.n_nodes
VisEdges(c, pose) == {e \in 1..Len(c.edges) : pose[c.edges[e][1] + 1].vis /\ pose[c.edges[e][2] + 1].vis}
RECURSIVE GrowN(_, _, _, _)
GrowN(c, pose, E, S) ==
    LET T == S \cup UNION {{c.edges[e][1] + 1, c.edges[e][2] + 1} : e \in {x \in E : c.edges[x][1] + 1 \in S \/ c.edges[x][2] + 1 \in S}}
    IN IF T = S THEN S ELSE GrowN(c, pose, E, T)
CompsOf(c, a) == LET pose == c.animals[a]
                     E == VisEdges(c, pose)
                     cs == {GrowN(c, pose, E, {n}) : n \in {m \in Nodes(c) : pose[m].vis}}
                 IN {<<a, k>> : k \in {x \in cs : Cardinality(x) >= 2}}
Expected(c) == UNION {CompsOf(c, a) : a \in 1..Len(c.animals)}
Fits(c, p, ex) ==           \* prediction p explains expected component ex = <<animal, node set>>
    LET pose == c.animals[ex[1]] IN
    \A n \in Nodes(c) :
       IF n \in ex[2]
       THEN /\ ~c.preds[p][n].nan
            /\ Abs(c.preds[p][n].x - pose[n].x) <= TightBound(c.cfg, pose[n].x, 2, c.cfg.s)
            /\ Abs(c.preds[p][n].y - pose[n].y) <= TightBound(c.cfg, pose[n].y, 1, c.cfg.s)
       ELSE c.preds[p][n].nan
Clause(c) ==
    LET P == 1..Len(c.preds)
        X == Expected(c)
    IN IF c.raised # "" THEN "raised"
       ELSE IF \E p \in P : ~(\E ex \in X : Fits(c, p, ex)) THEN "predicted_instance_is_not_a_labelled_group"
       ELSE IF \E ex \in X : ~(\E p \in P : Fits(c, p, ex)) THEN "labelled_group_not_returned"
       ELSE IF Len(c.preds) # Cardinality(X) THEN "instance_count"
       ELSE IF \E p1, p2 \in P : p1 # p2 /\ (\E ex \in X : Fits(c, p1, ex) /\ Fits(c, p2, ex)) THEN "group_returned_twice"
       ELSE IF c.has_other /\ ~c.other_equal THEN "providers_disagree"
       ELSE "ok"
Check == i >= 1 => VGive(Cases[i].id, Clause(Cases[i]))
Report == VReport
=============================================================================
