---------------------------- MODULE MC_TrainControl ----------------------------
(* Design check of TrainControl: every configuration of the small domains below and every sequence of validation
   losses over Losses.  Counter-model (cfg: EsPatienceWired <- SchedulerPatience): early stopping given the plateau
   scheduler's patience (a realistic slip: both sections have a `patience`) must violate NotLate or StopIsJustified. *)
EXTENDS TrainControl
CONSTANTS MaxEpochs, Losses
EsPart == {[es |-> FALSE, md |-> 0, pat |-> 1]} \cup {[es |-> TRUE, md |-> d, pat |-> p] : d \in {0, 1}, p \in {1, 2}}
SchedPart == {[sched |-> "none", step |-> 1, mode |-> "abs", thr |-> 0, cool |-> 0, rpat |-> 0, K |-> 0]}
        \cup {[sched |-> "step", step |-> s, mode |-> "abs", thr |-> 0, cool |-> 0, rpat |-> 0, K |-> 0] : s \in {1, 2}}
        \cup {[sched |-> "plateau", step |-> 1, mode |-> m, thr |-> t, cool |-> c, rpat |-> r, K |-> kk] :
                  m \in {"abs", "rel"}, t \in {0, 1}, c \in {0, 1}, r \in {0, 1}, kk \in {1, 2}}
Configs == {[max_epochs |-> n, es |-> e.es, md |-> e.md, pat |-> e.pat, sched |-> s.sched, step |-> s.step, mode |-> s.mode,
             thr |-> s.thr, cool |-> s.cool, rpat |-> s.rpat, K |-> s.K, save_last |-> sl] :
            n \in 1..MaxEpochs, e \in EsPart, s \in SchedPart, sl \in BOOLEAN}
Init == TCInit(Configs)
SchedulerPatience == cfg.rpat + 1
Next == \E v \in Losses : Epoch(v)
Spec == Init /\ [][Next]_vars
=============================================================================
