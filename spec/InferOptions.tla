---------------------------- MODULE InferOptions ----------------------------
(* Where the options of an inference call end up (extension X07: not one of the 20 listed properties).

   System behaviour: sleap_nn.inference.predictors.main() -> Predictor.from_model_paths -> the from_trained_models
   constructors -> _initialize_inference_model, the post-hoc settings main() makes on a bottom-up model's scorer, and
   Tracker.from_config.  A call names model directories and options; every option has to reach the stage that uses it:

     peak_threshold         a number: every stage that finds peaks; a pair (top-down requests only): the centroid
                            stage gets the first, the centred-instance stage the second
     integral_refinement, integral_patch_size, return_confmaps     every stage that finds peaks
     max_instances          the centroid stage (top-down) / the predictor (bottom-up: instances kept per frame)
     max_edge_length_ratio, dist_penalty_weight, n_points, min_instance_peaks, min_line_scores    the PAF scorer
     return_pafs, return_paf_graph                                                                 the bottom-up model
     tracking               off: no tracker.  on: a tracker built from window size, score threshold, candidate method,
                            features, scoring method / reduction, matching method; use_flow selects the flow-shift
                            tracker with its three optical-flow options
   Stages that work from ground truth (no centroid model: centroids from the labels; no centred-instance model: peaks
   from the labels) take no options.

   A request r = [paths, o] with o the options (numbers scaled to integers by the harness; None = -1).
   Placed(r) is the record of placements a correct implementation shows; Clause(r, obs) names the first field of an
   observed record that differs. *)
EXTENDS Integers, Sequences, FiniteSets, TLC

None == -1
Given(r) == {r.paths[i] : i \in DOMAIN r.paths}
TopDown(r) == Given(r) \cap {"centroid", "centered"} # {}
HasC(r) == "centroid" \in Given(r)
HasI(r) == "centered" \in Given(r)
BottomUp(r) == ~TopDown(r) /\ "bottomup" \in Given(r)
\* peak_threshold given as one number (pt2 = None) or as a pair
Pt1(o) == o.pt1
Pt2(o) == IF o.pt2 = None THEN o.pt1 ELSE o.pt2

Placed(r) ==
    LET o == r.o
        c == TopDown(r) /\ HasC(r)
        i == TopDown(r) /\ HasI(r)
        b == BottomUp(r)
    IN [class      |-> IF TopDown(r) THEN "TopDownPredictor" ELSE IF b THEN "BottomUpPredictor" ELSE "error",
        c_pt       |-> IF c THEN Pt1(o) ELSE None,
        c_refine   |-> IF c THEN o.refine ELSE "n/a",
        c_patch    |-> IF c THEN o.patch ELSE None,
        c_maxinst  |-> IF c THEN o.maxinst ELSE None,
        c_confmaps |-> c /\ o.confmaps,
        i_pt       |-> IF i THEN Pt2(o) ELSE None,
        i_refine   |-> IF i THEN o.refine ELSE "n/a",
        i_patch    |-> IF i THEN o.patch ELSE None,
        i_confmaps |-> i /\ o.confmaps,
        b_pt       |-> IF b THEN Pt1(o) ELSE None,
        b_refine   |-> IF b THEN o.refine ELSE "n/a",
        b_patch    |-> IF b THEN o.patch ELSE None,
        b_confmaps |-> b /\ o.confmaps,
        b_maxinst  |-> IF b THEN o.maxinst ELSE None,
        melr       |-> IF b THEN o.melr ELSE None,
        dpw        |-> IF b THEN o.dpw ELSE None,
        npts       |-> IF b THEN o.npts ELSE None,
        mip        |-> IF b THEN o.mip ELSE None,
        mls        |-> IF b THEN o.mls ELSE None,
        pafs       |-> b /\ o.pafs,
        graph      |-> b /\ o.graph,
        tracker    |-> IF ~o.tracking THEN "none" ELSE IF o.flow THEN "FlowShiftTracker" ELSE "Tracker",
        cand       |-> IF o.tracking THEN o.cand ELSE "n/a",
        win        |-> IF o.tracking THEN o.win ELSE None,
        ist        |-> IF o.tracking THEN o.ist ELSE None,
        feat       |-> IF o.tracking THEN o.feat ELSE "n/a",
        score      |-> IF o.tracking THEN o.score ELSE "n/a",
        red        |-> IF o.tracking THEN o.red ELSE "n/a",
        match      |-> IF o.tracking THEN o.match ELSE "n/a",
        ofs        |-> IF o.tracking /\ o.flow THEN o.ofs ELSE None,
        ofw        |-> IF o.tracking /\ o.flow THEN o.ofw ELSE None,
        ofl        |-> IF o.tracking /\ o.flow THEN o.ofl ELSE None]

Fields == <<"class", "c_pt", "c_refine", "c_patch", "c_maxinst", "c_confmaps", "i_pt", "i_refine", "i_patch", "i_confmaps",
            "b_pt", "b_refine", "b_patch", "b_confmaps", "b_maxinst", "melr", "dpw", "npts", "mip", "mls", "pafs", "graph",
            "tracker", "cand", "win", "ist", "feat", "score", "red", "match", "ofs", "ofw", "ofl">>
Clause(r, obs) ==
    LET e == Placed(r) IN
    IF obs.raised # "" THEN "raised"
    ELSE LET bad == {k \in 1..Len(Fields) : obs[Fields[k]] # e[Fields[k]]}
         IN IF bad = {} THEN "ok" ELSE "option_not_placed/" \o Fields[CHOOSE k \in bad : \A j \in bad : k <= j]
=============================================================================
