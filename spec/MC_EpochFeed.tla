---------------------------- MODULE MC_EpochFeed ----------------------------
(* Design check of the training feed: every configuration n <= MaxN, b <= MaxB, s <= MaxS (0 = not given),
   shuffle on/off, every order a shuffled pass may take, every interleaving of iter / next / reset, up to MaxTotal
   batches since the last reset.  Counter-model: a loader whose epoch generator re-creates the underlying iterator
   (IterRestarts) must violate Balanced - samples beyond the first EpochLen batches starve. *)
EXTENDS EpochFeed
CONSTANTS MaxTotal, Restarting
Bound == total <= MaxTotal
IterRestarts == /\ phase = "ready" /\ k' = 0 /\ remaining' = {} /\ UNCHANGED <<cfg, phase, count, total, last>>
IterR == Restarting /\ IterRestarts
IterN == ~Restarting /\ Iter
NextR == (\E c \in Configs : Construct(c)) \/ IterR \/ IterN \/ NextBatch \/ Reset
SpecR == Init /\ [][NextR]_vars
=============================================================================
