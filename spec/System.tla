---------------------------- MODULE System ----------------------------
(* Composition: one inference session = FrameStream (frames delivered once, in order) -> InferPlane (per frame,
   exactly the labelled animals are detected when the networks are ideal) -> Tracker (identity).  The session
   state is the Tracker state plus the index of the last delivered frame; a step consumes the next frame.

   Used by Trace_System to validate whole runs of the real `Predictor.predict(make_labels=True)` with a real
   Tracker attached (top-down and bottom-up predictors, ideal-network stubs, scenario-class scenes whose presence
   histories are paths of TLC's own MC_Tracker state graph). *)
EXTENDS Tracker

VARIABLES lastFrame      \* frame index of the last frame that reached the tracker (-1 initially)
svars == <<vars, lastFrame>>

SInit(Configs) == TInit(Configs) /\ lastFrame = -1

\* frame fidx arrives carrying detections of the animals in D (the labelled animals present, as the ideal networks
\* must report them); frames are consumed in increasing order, each at most once
SessionStep(fidx, D) ==
    /\ fidx > lastFrame
    /\ lastFrame' = fidx
    /\ Track(D)

InOrderOnce == lastFrame >= -1
=============================================================================
