---------------------------- MODULE Judge_C17 ----------------------------
(* Conformance of toposort_edges / PAFScorer.sorted_edge_inds (C17): every recorded
   (edge list, order) pair must satisfy ValidOrder; the input must be a tree edge list. *)
EXTENDS Grouping, Verdict, Json, IOUtils
Cases == JsonDeserialize(IOEnv.TRACE_FILE)
ASSUME VInit
VARIABLE i
Init == i = 0 /\ tree = <<>> /\ fifo = <<>> /\ ord = <<>> /\ emitted = {}
Next == i < Len(Cases) /\ i' = i + 1 /\ UNCHANGED tvars
Clause(c) == IF c.raised # "" THEN "raised"
             ELSE IF ~IsTree(c.edges) THEN "input_not_a_tree"
             ELSE IF c.ord # c.ord2 THEN "scorer_order_differs"
             ELSE IF ValidOrderClause(c.edges, c.ord) # "ok" THEN ValidOrderClause(c.edges, c.ord)
             \* the order as it is used: one animal with an accepted match on every edge is grouped completely
             \* (records from the repository's own tests carry no grouping run: nn = 0)
             ELSE IF "nn" \in DOMAIN c /\ c.nn > 0 /\ c.grouped # c.nn THEN "body_part_left_ungrouped"
             ELSE "ok"
Check == i >= 1 => VGive(Cases[i].id, Clause(Cases[i]))
Report == VReport
=============================================================================
