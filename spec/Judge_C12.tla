---------------------------- MODULE Judge_C12 ----------------------------
(* Conformance of the three real inference models to the batch layer (C12).  A case is one real batch run:
   batch: sequence of frame ids; recs: sequence of [fid, insts] as attributed by the records' (video, frame)
   identity, insts = sequence of [cls, score] (cls = equality class of the instance's coordinates);
   singlek[f + 1]: the result of running frame f ALONE with the same parameters; single[f + 1]: alone and
   without max_instances; animals[f + 1]: number of labelled animals; k = max_instances (0 = none). *)
EXTENDS Naturals, Sequences, FiniteSets, Verdict, Json, IOUtils
Cases == JsonDeserialize(IOEnv.TRACE_FILE)
ASSUME VInit
VARIABLE i
Init == i = 0
Next == i < Len(Cases) /\ i' = i + 1
Bag(s) == [c \in {s[j].cls : j \in 1..Len(s)} |-> Cardinality({j \in 1..Len(s) : s[j].cls = c})]
RecsOf(c, f) == {j \in 1..Len(c.recs) : c.recs[j].fid = f}
Attr(c, f) == IF RecsOf(c, f) = {} THEN <<>> ELSE c.recs[CHOOSE j \in RecsOf(c, f) : TRUE].insts
InBatch(c, f) == \E j \in 1..Len(c.batch) : c.batch[j] = f
TopKOK(all, kept, k) ==      \* kept = k highest-scoring of all (ties: any)
    /\ Len(kept) = (IF Len(all) < k THEN Len(all) ELSE k)
    /\ \A a \in 1..Len(kept) : \E b \in 1..Len(all) : all[b].cls = kept[a].cls
    /\ \A b \in 1..Len(all) : (\A a \in 1..Len(kept) : kept[a].cls # all[b].cls) =>
            \A a \in 1..Len(kept) : kept[a].score >= all[b].score
\* an instance's score is part of the prediction: same instance (coordinate class), same score up to 0.002 (scores in 1e-6)
AbsD(a, b) == IF a >= b THEN a - b ELSE b - a
ScoresAgree(x, y) == \A a \in 1..Len(x) : \E b \in 1..Len(y) : y[b].cls = x[a].cls /\ AbsD(y[b].score, x[a].score) <= 2000
Clause(c) ==
    IF c.raised # "" THEN "raised"
    ELSE IF \E j \in 1..Len(c.recs) : ~InBatch(c, c.recs[j].fid) THEN "record_for_frame_not_in_batch"
    ELSE IF \E f \in 0..(Len(c.single) - 1) : Cardinality(RecsOf(c, f)) > 1 THEN "frame_reported_twice"
    ELSE IF \E j \in 1..Len(c.batch) : c.animals[c.batch[j] + 1] = 0 /\ Len(Attr(c, c.batch[j])) > 0 THEN "empty_frame_has_instances"
    ELSE IF \E j \in 1..Len(c.batch) : Bag(Attr(c, c.batch[j])) # Bag(c.singlek[c.batch[j] + 1]) THEN "result_depends_on_batch_mates"
    ELSE IF \E j \in 1..Len(c.batch) : ~ScoresAgree(Attr(c, c.batch[j]), c.singlek[c.batch[j] + 1]) THEN "score_depends_on_batch_mates"
    ELSE IF c.k > 0 /\ \E j \in 1..Len(c.batch) : ~TopKOK(c.single[c.batch[j] + 1], c.singlek[c.batch[j] + 1], c.k) THEN "kept_instances_not_highest_scoring"
    ELSE IF c.k = 0 /\ \E j \in 1..Len(c.batch) : Len(c.single[c.batch[j] + 1]) # c.animals[c.batch[j] + 1] THEN "singleton_result_count_differs_from_labels"
    ELSE "ok"
Check == i >= 1 => VGive(Cases[i].id, Clause(Cases[i]))
Report == VReport
=============================================================================
