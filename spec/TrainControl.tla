---------------------------- MODULE TrainControl ----------------------------
(* The control loop around training (extension X06: not one of the 20 listed properties).

   System behaviour: how sleap_nn.training.model_trainer.ModelTrainer.train() and
   lightning_modules.TrainingModel.configure_optimizers() wire the trainer configuration into the run:
     trainer_config.max_epochs                              the run ends after that many epochs at the latest
     trainer_config.early_stopping.{stop_training_on_plateau, min_delta, patience}
                                                            stop once `patience` validations in a row failed to improve
                                                            the best validation loss by more than min_delta
     trainer_config.model_ckpt.{save_top_k = 1, save_last}  best.ckpt = the epoch with the lowest validation loss so far
                                                            (the earliest one among equals); last.ckpt is written
                                                            whenever a checkpoint file gets saved
     trainer_config.optimizer.lr                            the learning rate of epoch 0
     trainer_config.lr_scheduler.step_lr.{step_size, gamma} lr of epoch e = lr0 * gamma^(e div step_size)
     trainer_config.lr_scheduler.reduce_lr_on_plateau.{threshold, threshold_mode, patience, cooldown, factor, min_lr}
                                                            after more than `patience` epochs in a row without a better
                                                            validation loss the rate is multiplied by factor (never below
                                                            min_lr); the count starts again and is held at 0 for
                                                            `cooldown` epochs
   The environment of this loop is the sequence of validation losses, one per epoch.

   Units (so that TLC's integers are exact and so are the floats of the real run): losses, min_delta and an absolute
   threshold are counted in quarters; a relative threshold t stands for t/4; gamma = factor = 1/2, so a learning rate
   is lr0 / 2^k and the state holds k; min_lr = lr0 / 2^K.

   One action: Epoch(v) - the epoch whose validation loss is v: the rate it trained with is the current k, then early
   stopping and checkpointing look at v, then the scheduler steps.  *)
EXTENDS Integers, Sequences, FiniteSets, TLC

Inf == 1000000
VARIABLES cfg,      \* [max_epochs, es, md, pat, sched, step, mode, thr, cool, rpat, K, save_last]
          hist,     \* validation losses so far (hist[e + 1] belongs to epoch e)
          lrs,      \* k of each epoch so far (the rate the epoch ran with)
          stopped,  \* early stopping has ended the run
          esBest, wait,                 \* early stopping: best loss, validations since it improved
          k,                            \* current learning-rate exponent
          rBest, bad, cooldown,         \* plateau scheduler: best loss, bad epochs, cooldown epochs left
          ckBest, ckLast,               \* epoch stored in best.ckpt / last.ckpt (-1 = no such file)
          reds                          \* epochs after which the plateau scheduler reduced the rate
vars == <<cfg, hist, lrs, stopped, esBest, wait, k, rBest, bad, cooldown, ckBest, ckLast, reds>>

epoch == Len(hist)
Min(a, b) == IF a < b THEN a ELSE b
Lowest(h) == CHOOSE m \in {h[i] : i \in DOMAIN h} : \A i \in DOMAIN h : m <= h[i]

TCInit(Configs) ==
    /\ cfg \in Configs
    /\ hist = <<>> /\ lrs = <<>> /\ stopped = FALSE
    /\ esBest = Inf /\ wait = 0
    /\ k = 0 /\ rBest = Inf /\ bad = 0 /\ cooldown = 0
    /\ ckBest = -1 /\ ckLast = -1 /\ reds = {}

\* what the early-stopping callback is given as its patience (a definition the counter-model overrides)
EsPatienceWired == cfg.pat

Running == ~stopped /\ epoch < cfg.max_epochs

\* plateau scheduler: is v better than the best so far?
Better(v, best) ==
    IF best = Inf THEN TRUE
    ELSE IF cfg.mode = "abs" THEN v < best - cfg.thr
    ELSE 4 * v < best * (4 - cfg.thr)

Epoch(v) ==
    /\ Running
    /\ hist' = Append(hist, v)
    /\ lrs' = Append(lrs, k)
    \* early stopping (only when switched on)
    /\ IF cfg.es
       THEN IF v + cfg.md < esBest
            THEN esBest' = v /\ wait' = 0 /\ stopped' = FALSE
            ELSE esBest' = esBest /\ wait' = wait + 1 /\ stopped' = (wait + 1 >= EsPatienceWired)
       ELSE UNCHANGED <<esBest, wait, stopped>>
    \* checkpoints: best.ckpt replaced by a strictly lower loss; last.ckpt written whenever a file gets saved
    /\ IF ckBest = -1 \/ v < hist[ckBest + 1]
       THEN ckBest' = epoch /\ ckLast' = IF cfg.save_last THEN epoch ELSE ckLast
       ELSE UNCHANGED <<ckBest, ckLast>>
    \* learning-rate schedule, stepped at the end of the epoch
    /\ CASE cfg.sched = "none" -> UNCHANGED <<k, rBest, bad, cooldown, reds>>
         [] cfg.sched = "step" -> k' = (epoch + 1) \div cfg.step /\ UNCHANGED <<rBest, bad, cooldown, reds>>
         [] cfg.sched = "plateau" ->
              LET better == Better(v, rBest)
                  b1 == IF better THEN 0 ELSE bad + 1
                  inCool == cooldown > 0
                  c1 == IF inCool THEN cooldown - 1 ELSE cooldown
                  b2 == IF inCool THEN 0 ELSE b1
                  reduce == b2 > cfg.rpat
              IN /\ rBest' = IF better THEN v ELSE rBest
                 /\ bad' = IF reduce THEN 0 ELSE b2
                 /\ cooldown' = IF reduce THEN cfg.cool ELSE c1
                 /\ k' = IF reduce THEN Min(k + 1, cfg.K) ELSE k
                 /\ reds' = IF reduce THEN reds \cup {epoch} ELSE reds
    /\ UNCHANGED cfg

-----------------------------------------------------------------------------
(* what a user relies on, stated over the history of losses *)
TypeOK == /\ epoch <= cfg.max_epochs /\ Len(lrs) = epoch
          /\ ckBest \in -1..(epoch - 1) /\ ckLast \in -1..(epoch - 1)

\* the run ends: by max_epochs at the latest, and early only when early stopping is on
Ends == stopped => cfg.es /\ epoch >= cfg.pat + 1

\* best.ckpt holds the earliest epoch with the lowest validation loss seen
BestIsEarliestMinimum ==
    epoch > 0 => /\ hist[ckBest + 1] = Lowest(hist)
                 /\ \A i \in 1..ckBest : hist[i] > Lowest(hist)
LastFollowsSaves == ckLast = IF cfg.save_last THEN ckBest ELSE -1

\* early stopping is sound: none of the last `patience` losses beats the lowest earlier loss by more than min_delta
StopIsJustified ==
    stopped => LET n == epoch
                   earlier == SubSeq(hist, 1, n - cfg.pat)
               IN \A i \in (n - cfg.pat + 1)..n : hist[i] + cfg.md >= Lowest(earlier)
\* ... and not late: a run that is still going has improved within the last `patience` validations
NotLate == cfg.es /\ ~stopped => wait < cfg.pat

\* learning rate: never rises, never below min_lr; the step schedule is a function of the epoch alone
RateMonotone == \A i \in 1..(Len(lrs) - 1) : lrs[i] <= lrs[i + 1]
RateFloor == cfg.sched = "plateau" => k <= cfg.K
StepSchedule == cfg.sched = "step" => \A i \in 1..Len(lrs) : lrs[i] = (i - 1) \div cfg.step
NoSchedule == cfg.sched = "none" => k = 0
\* a plateau reduction after epoch e: the last rpat + 1 epochs brought nothing better than the lowest loss before them
\* (by more than an absolute threshold), and two reductions are at least cooldown + rpat + 1 epochs apart
ReductionIsJustified ==
    cfg.sched = "plateau" /\ cfg.mode = "abs" =>
        \A e \in reds : /\ e + 1 >= cfg.rpat + 2
                        /\ LET first == e + 1 - cfg.rpat
                           IN \A i \in first..(e + 1) : hist[i] >= Lowest(SubSeq(hist, 1, first - 1)) - cfg.thr
ReductionsApart ==
    \A a, b \in reds : a < b => b - a >= cfg.cool + cfg.rpat + 1
=============================================================================
