---------------------------- MODULE Judge_C02 ----------------------------
(* Conformance of single-instance and top-down inference (C02) with ideal-network stubs.
   A case is one (configuration, provider, frame, animal): kps = sequence of
   [kx, ky, vis, px, py, pnan, pval, ox, oy, onan, lx, ly, lnan] - true position, prediction, and the prediction obtained with
   the OTHER provider, and the coordinates in the sio.Labels built by predict(make_labels=True) - all in 1/1024 px.  TLC recomputes the tight bound from the configuration. *)
EXTENDS InferPlane, Verdict, Json, IOUtils
Cases == JsonDeserialize(IOEnv.TRACE_FILE)
ASSUME VInit
VARIABLE i
Init == i = 0 /\ cfg = <<>> /\ stage = "" /\ hw = <<>> /\ pos = <<>> /\ peak = <<>> /\ dec = <<>>
Next == i < Len(Cases) /\ i' = i + 1 /\ UNCHANGED ivars
Clause(c) ==
    IF c.raised # "" THEN "raised"
    ELSE IF ~c.count_ok THEN "instance_count"
    ELSE IF \E n \in 1..Len(c.kps) : c.kps[n].vis /\ c.kps[n].pnan THEN "visible_keypoint_missing"
    ELSE IF \E n \in 1..Len(c.kps) : ~c.kps[n].vis /\ (~c.kps[n].pnan \/ c.kps[n].pval # 0) THEN "invisible_keypoint_reported"
    ELSE IF \E n \in 1..Len(c.kps) : c.kps[n].vis /\
              (\/ Abs(c.kps[n].px - c.kps[n].kx) > TightBound(c.cfg, c.kps[n].kx, 2, c.cfg.s)
               \/ Abs(c.kps[n].py - c.kps[n].ky) > TightBound(c.cfg, c.kps[n].ky, 1, c.cfg.s)) THEN "keypoint_outside_bound"
    ELSE IF c.has_other /\ \E n \in 1..Len(c.kps) :
              \/ c.kps[n].pnan # c.kps[n].onan
              \/ (~c.kps[n].pnan /\ (Abs(c.kps[n].px - c.kps[n].ox) > U \div 32 \/ Abs(c.kps[n].py - c.kps[n].oy) > U \div 32)) THEN "providers_disagree"
    ELSE IF c.has_labels /\ \E n \in 1..Len(c.kps) :
              \/ c.kps[n].pnan # c.kps[n].lnan
              \/ (~c.kps[n].pnan /\ (Abs(c.kps[n].px - c.kps[n].lx) > 2 \/ Abs(c.kps[n].py - c.kps[n].ly) > 2)) THEN "make_labels_coordinates_differ"
    ELSE "ok"
Check == i >= 1 => VGive(Cases[i].id, Clause(Cases[i]))
Report == VReport
=============================================================================
