---------------------------- MODULE MC_PeaksPatch ----------------------------
(* Patch-level theorems behind the refinement clauses, checked by TLC over complete patch spaces
   (not only patches that occur at peaks of small maps):
   T1  every non-negative 3x3 patch over 0..3 with positive mass has |offset| <= 1 on both axes;
   T2  the x-offset depends on the column sums only (checked on all 3x3 patches over -1..2), so
       the bound for P = 5, 7 follows from the 1-D statement T3 over all column-sum vectors 0..3;
   T4  mirror-symmetric patches have a zero numerator on the mirrored axis (all 3x3 over -1..2);
   T5  the bound FAILS for some patch with a negative weight (so the premise is needed).          *)
EXTENDS Peaks
CONSTANT Level      \* 1: weights 0..2 / -1..1 (quick), 2: weights 0..3 / -1..2
Pos == IF Level = 1 THEN 0..2 ELSE 0..3
Sgn == IF Level = 1 THEN {-1, 0, 2} ELSE {-1, 0, 1, 2}
ColSums(p, P) == [x \in 1..P |-> PSum([y \in 1..P |-> p[(y - 1) * P + x]])]
Num1D(s, P) == PSum([x \in 1..P |-> (x - 1 - Half(P)) * s[x]])
ASSUME T1 == \A p \in [1..9 -> Pos] : PDen(p) > 0 =>
                 BoundOK(PNumX(p, 3), PDen(p), 3) /\ BoundOK(PNumY(p, 3), PDen(p), 3)
ASSUME T2 == \A p \in [1..9 -> Sgn] : PNumX(p, 3) = Num1D(ColSums(p, 3), 3) /\ PDen(p) = PSum(ColSums(p, 3))
ASSUME T3 == \A P \in {5, 7} : \A s \in [1..P -> Pos] : PSum(s) > 0 => BoundOK(Num1D(s, P), PSum(s), P)
ASSUME T4 == \A p \in [1..9 -> Sgn] : (PSymX(p, 3) => PNumX(p, 3) = 0) /\ (PSymY(p, 3) => PNumY(p, 3) = 0)
ASSUME T5 == \E p \in [1..9 -> Sgn] : p[5] = 2 /\ PDen(p) > 0 /\ ~BoundOK(PNumX(p, 3), PDen(p), 3)
ASSUME PrintT(<<"PATCHTHEOREMS", Cardinality([1..9 -> Pos]), Cardinality([1..9 -> Sgn]), Cardinality([1..7 -> Pos])>>)
Init == PInit({[h |-> 1, w |-> 1, v |-> <<0>>]}, {0}, {3})
Next == UNCHANGED pvars
=============================================================================
