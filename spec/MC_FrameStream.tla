---------------------------- MODULE MC_FrameStream ----------------------------
EXTENDS FrameStream
CONSTANTS MaxN, MaxCap, MaxB
Configs == {c \in [n : 0..MaxN, cap : 1..MaxCap, b : 1..MaxB, fail : 0..MaxN] : c.fail <= c.n}
Init == FSInit(Configs)
Next == FSNext
Spec == Init /\ [][Next]_vars /\ WF_vars(Producer) /\ WF_vars(Consumer)
\* counter-model for non-vacuity: a reader whose sentinel is NOT in a finally (skipped on error)
NextNoFinally == \/ (ProdRead /\ ~(pi = cfg.fail)) \/ (ppc = "read" /\ pi = cfg.fail /\ ppc' = "done" /\ UNCHANGED <<cfg, pi, q, cpc, batch, sawEOS, out, eosPut>>)
                 \/ ProdPut \/ ProdEOS \/ Consumer
SpecNoFinally == Init /\ [][NextNoFinally]_vars /\ WF_vars(NextNoFinally)
=============================================================================
