---------------------------- MODULE Config ----------------------------
(* Configuration building, normalisation and validation of sleap-nn (property C20).

   A configuration VALUE is a function  path (dotted string) -> canonical value.  Canonical values
   are tagged tuples so that any two of them can be compared by TLC without a type error:
       <<"n">> None   <<"m">> MISSING   <<"b", TRUE>>   <<"i", 4>>   <<"s", "Adam">>
       <<"r", 1, 1000>> the float 0.001 (exact rational of its repr, den > 0)
       <<"l", <<v1, v2>>>> a list;  <<"t", <<v1, v2>>>> a Python tuple (only as an argument)

   (a) ArgTable / Expected: the documented map from builder arguments to configuration paths.
   (b) augmentation lists: definition layer (GeoOf / IntOf / Enabled, a function of the SET of
       names) and implementation-shaped layer (Apply*, one step per list element, as coded and as
       intended).
   (c) Norm / Save / Load as functions on configuration values.
   (d) Rejects: which single-field values a configuration object must refuse.

   D   = flattened schema default (OmegaConf.structured(TrainingJobConfig())), measured from the
         schema the code declares - "the default declared by the configuration schema";
   Sub = flattened defaults of the optional sub-configurations (absolute paths), keyed by
         unet / convnext / swint / <head> / lr_scheduler / step_lr / reduce_lr_on_plateau /
         early_stopping / intensity / geometric. *)
EXTENDS Naturals, Integers, Sequences, FiniteSets, SequencesExt, FiniteSetsExt, Functions, TLC

CONSTANTS D, Sub

N == <<"n">>
I(k) == <<"i", k>>
S(s) == <<"s", s>>
B(b) == <<"b", b>>
R(n, d) == <<"r", n, d>>
F(x) == <<"f", x>>            \* a non-finite float: "nan", "inf", "-inf" (never a valid probability, scale or rate)
L(seq) == <<"l", seq>>
T(seq) == <<"t", seq>>
\* OmegaConf has no tuples: a tuple argument is stored as the list of the same elements.
Canon(v) == IF v[1] = "t" THEN L(v[2]) ELSE v
EmptyFn == <<>>
\* relative field map  ->  absolute path map
Over(prefix, f) ==
    LET ks == DOMAIN f
    IN [q \in {prefix \o "." \o k : k \in ks} |-> Canon(f[CHOOSE k \in ks : prefix \o "." \o k = q])]
Restrict2(f, dom) == [x \in dom |-> f[x]]

\* ===================================================================== (a) argument -> path ===
\* <<argument, paths, signature default, <<non-default values>>>>
\* Signature defaults are those of the builders' signatures (they differ from the schema defaults
\* for batch_size, shuffle, save_last, enable_progress_bar, max_epochs, seed: "builder-default
\* diffs").  The two required arguments get the base values "a.slp" / "b.slp".
DC == "data_config."
PP == "data_config.preprocessing."
MC == "model_config."
TC == "trainer_config."
ArgTable == <<
  <<"train_labels_path", {DC \o "train_labels_path"}, S("a.slp"), <<S("train.pkg.slp"), S("/data/exp 1/train.slp")>> >>,
  <<"val_labels_path", {DC \o "val_labels_path"}, S("b.slp"), <<S("val.pkg.slp"), S("/data/exp 1/val.slp")>> >>,
  <<"test_file_path", {DC \o "test_file_path"}, N, <<S("test.slp"), S("clip.mp4")>> >>,
  <<"provider", {DC \o "provider"}, S("LabelsReader"), <<S("VideoReader"), S("CustomProvider")>> >>,
  <<"user_instances_only", {DC \o "user_instances_only"}, B(TRUE), <<B(FALSE)>> >>,
  <<"data_pipeline_fw", {DC \o "data_pipeline_fw"}, S("torch_dataset"), <<S("litdata"), S("torch_dataset_np_chunks")>> >>,
  <<"np_chunks_path", {DC \o "np_chunks_path"}, N, <<S("chunks/np_1"), S("/scratch/np")>> >>,
  <<"litdata_chunks_path", {DC \o "litdata_chunks_path"}, N, <<S("chunks/lit_1"), S("/scratch/lit")>> >>,
  <<"use_existing_chunks", {DC \o "use_existing_chunks"}, B(FALSE), <<B(TRUE)>> >>,
  <<"chunk_size", {DC \o "chunk_size"}, I(100), <<I(50), I(2048)>> >>,
  <<"delete_chunks_after_training", {DC \o "delete_chunks_after_training"}, B(TRUE), <<B(FALSE)>> >>,
  <<"is_rgb", {PP \o "is_rgb"}, B(FALSE), <<B(TRUE)>> >>,
  <<"scale", {PP \o "scale"}, R(1, 1), <<R(1, 2), R(2, 1)>> >>,
  <<"max_height", {PP \o "max_height"}, N, <<I(512), I(1000)>> >>,
  <<"max_width", {PP \o "max_width"}, N, <<I(640), I(1024)>> >>,
  <<"crop_hw", {PP \o "crop_hw"}, N, <<T(<<I(160), I(160)>>), T(<<I(96), I(128)>>)>> >>,
  <<"min_crop_size", {PP \o "min_crop_size"}, I(100), <<I(64), N>> >>,
  <<"init_weight", {MC \o "init_weights"}, S("default"), <<S("xavier"), S("he_normal")>> >>,
  <<"pretrained_backbone_weights", {MC \o "pretrained_backbone_weights"}, N, <<S("bb.ckpt"), S("/m/best.ckpt")>> >>,
  <<"pretrained_head_weights", {MC \o "pretrained_head_weights"}, N, <<S("head.ckpt"), S("/m/last.ckpt")>> >>,
  <<"batch_size", {TC \o "train_data_loader.batch_size", TC \o "val_data_loader.batch_size"}, I(4), <<I(1), I(16)>> >>,
  <<"shuffle_train", {TC \o "train_data_loader.shuffle"}, B(TRUE), <<B(FALSE)>> >>,
  <<"num_workers", {TC \o "train_data_loader.num_workers", TC \o "val_data_loader.num_workers"}, I(0), <<I(2), I(8)>> >>,
  <<"ckpt_save_top_k", {TC \o "model_ckpt.save_top_k"}, I(1), <<I(-1), I(3)>> >>,
  <<"ckpt_save_last", {TC \o "model_ckpt.save_last"}, B(TRUE), <<B(FALSE)>> >>,
  <<"trainer_num_devices", {TC \o "trainer_devices"}, S("auto"), <<I(1), I(4)>> >>,
  <<"trainer_accelerator", {TC \o "trainer_accelerator"}, S("auto"), <<S("cpu"), S("gpu")>> >>,
  <<"enable_progress_bar", {TC \o "enable_progress_bar"}, B(FALSE), <<B(TRUE)>> >>,
  <<"steps_per_epoch", {TC \o "steps_per_epoch"}, N, <<I(10), I(200)>> >>,
  <<"max_epochs", {TC \o "max_epochs"}, I(100), <<I(1), I(10)>> >>,
  <<"seed", {TC \o "seed"}, I(1000), <<I(0), I(42)>> >>,
  <<"use_wandb", {TC \o "use_wandb"}, B(FALSE), <<B(TRUE)>> >>,
  <<"save_ckpt", {TC \o "save_ckpt"}, B(FALSE), <<B(TRUE)>> >>,
  <<"save_ckpt_path", {TC \o "save_ckpt_path"}, N, <<S("ckpts"), S("/out/run 2")>> >>,
  <<"resume_ckpt_path", {TC \o "resume_ckpt_path"}, N, <<S("last.ckpt"), S("/out/best.ckpt")>> >>,
  <<"wandb_entity", {TC \o "wandb.entity"}, N, <<S("team"), S("lab-x")>> >>,
  <<"wandb_project", {TC \o "wandb.project"}, N, <<S("proj"), S("sleap_nn")>> >>,
  <<"wandb_name", {TC \o "wandb.name"}, N, <<S("run1"), S("007")>> >>,
  <<"wandb_api_key", {TC \o "wandb.api_key"}, N, <<S("abc123"), S("1e3")>> >>,
  <<"wandb_mode", {TC \o "wandb.wandb_mode"}, N, <<S("offline"), S("online")>> >>,
  <<"wandb_resume_prv_runid", {TC \o "wandb.prv_runid"}, N, <<S("x1y2"), S("12345")>> >>,
  <<"wandb_group_name", {TC \o "wandb.group"}, N, <<S("g"), S("null")>> >>,
  <<"optimizer", {TC \o "optimizer_name"}, S("Adam"), <<S("AdamW")>> >>,
  <<"learning_rate", {TC \o "optimizer.lr"}, R(1, 1000), <<R(1, 10000), R(1, 2)>> >>,
  <<"amsgrad", {TC \o "optimizer.amsgrad"}, B(FALSE), <<B(TRUE)>> >>,
  <<"early_stopping", {TC \o "early_stopping.stop_training_on_plateau"}, B(FALSE), <<B(TRUE)>> >>,
  <<"early_stopping_min_delta", {TC \o "early_stopping.min_delta"}, R(0, 1), <<R(1, 100000000), R(1, 4)>> >>,
  <<"early_stopping_patience", {TC \o "early_stopping.patience"}, I(1), <<I(0), I(10)>> >>
>>
ArgRows == DOMAIN ArgTable
Args == {ArgTable[i][1] : i \in ArgRows}
RowOf == [a \in Args |-> CHOOSE i \in ArgRows : ArgTable[i][1] = a]
ArgPaths == [a \in Args |-> ArgTable[RowOf[a]][2]]
SigDefault == [a \in Args |-> ArgTable[RowOf[a]][3]]
ArgValues == [a \in Args |-> ArgTable[RowOf[a]][4]]
AllArgPaths == UNION {ArgPaths[a] : a \in Args}
OwnerOf == [p \in AllArgPaths |-> CHOOSE a \in Args : p \in ArgPaths[a]]
\* design sanity: no two arguments write the same path
ArgPathsDisjoint == \A a, b \in Args : a # b => ArgPaths[a] \cap ArgPaths[b] = {}

\* ------------------------------------------------------------- structural arguments ----------
BBFamilies == {"unet", "convnext", "swint"}
BBPath(f) == MC \o "backbone_config." \o f
HeadNames == {"single_instance", "centroid", "centered_instance", "bottomup"}
HeadPath(h) == MC \o "head_configs." \o h
LRSNames == {"step_lr", "reduce_lr_on_plateau"}
LRSPath == TC \o "lr_scheduler"
AugPath == DC \o "augmentation_config"
IntPath == AugPath \o ".intensity"
GeoPath == AugPath \o ".geometric"

\* documented backbone presets: family + the fields in which the preset differs from the family default
PresetFamily == [unet |-> "unet", unet_medium_rf |-> "unet", unet_large_rf |-> "unet",
                 convnext |-> "convnext", convnext_tiny |-> "convnext", convnext_small |-> "convnext",
                 convnext_base |-> "convnext", convnext_large |-> "convnext",
                 swint |-> "swint", swint_tiny |-> "swint", swint_small |-> "swint", swint_base |-> "swint"]
Presets == DOMAIN PresetFamily
IL(seq) == L([k \in DOMAIN seq |-> I(seq[k])])
PresetDelta ==
    [unet |-> EmptyFn, convnext |-> EmptyFn, convnext_tiny |-> EmptyFn, swint |-> EmptyFn, swint_tiny |-> EmptyFn,
     unet_medium_rf |-> [filters_rate |-> R(2, 1), output_stride |-> I(4)],
     unet_large_rf |-> [filters |-> I(24), max_stride |-> I(32), output_stride |-> I(4)],
     convnext_small |-> ("model_type" :> S("small")) @@ ("arch.depths" :> IL(<<3, 3, 27, 3>>)),
     convnext_base |-> ("model_type" :> S("base")) @@ ("arch.depths" :> IL(<<3, 3, 27, 3>>))
                        @@ ("arch.channels" :> IL(<<128, 256, 512, 1024>>)),
     convnext_large |-> ("model_type" :> S("large")) @@ ("arch.depths" :> IL(<<3, 3, 27, 3>>))
                        @@ ("arch.channels" :> IL(<<192, 384, 768, 1536>>)),
     swint_small |-> ("model_type" :> S("small")) @@ ("arch.depths" :> IL(<<2, 2, 18, 2>>)),
     swint_base |-> ("model_type" :> S("base")) @@ ("arch.embed" :> I(128)) @@ ("arch.depths" :> IL(<<2, 2, 18, 2>>))
                        @@ ("arch.channels" :> IL(<<4, 8, 16, 32>>))]

\* A subtree replaces the None leaf of the schema default: [add |-> path map, gone |-> leaves removed]
\* bb:   <<"default">> | <<"preset", name>> | <<"dict", family, overrides>>
BBOf(bb) == IF bb[1] = "default" THEN <<"preset", "unet">> ELSE bb
BBFamily(bb) == LET b == BBOf(bb) IN IF b[1] = "preset" THEN PresetFamily[b[2]] ELSE b[2]
BBTree(bb) ==
    LET b == BBOf(bb)
        f == BBFamily(bb)
        delta == IF b[1] = "preset" THEN PresetDelta[b[2]] ELSE b[3]
    IN [add |-> Over(BBPath(f), delta) @@ Sub[f], gone |-> {BBPath(f)}]
\* head: <<"default">> | <<"str", name>> | <<"dict", name, [confmaps |-> overrides (, pafs |-> overrides)]>>
HeadTree(hd) ==
    IF hd[1] = "default" THEN [add |-> EmptyFn, gone |-> {}]
    ELSE LET h == hd[2]
             parts == IF hd[1] = "dict" THEN hd[3] ELSE EmptyFn
             ov(part) == IF part \in DOMAIN parts THEN Over(HeadPath(h) \o "." \o part, parts[part]) ELSE EmptyFn
         IN [add |-> ov("confmaps") @@ ov("pafs") @@ Sub[h], gone |-> {HeadPath(h)}]
\* lr_scheduler: the builder always creates the LRSchedulerConfig object (both members None by default)
LRSTree(ls) ==
    IF ls[1] = "default" THEN [add |-> Sub["lr_scheduler"], gone |-> {LRSPath}]
    ELSE LET n == ls[2]
             \* "dict2": the same scheduler given in the documented two-key form {step_lr: ..., reduce_lr_on_plateau: ...}
             \* with the other key None, in either key order (ls[4]) - the meaning is that of the one-key dict
             ov == IF ls[1] \in {"dict", "dict2"} THEN Over(LRSPath \o "." \o n, ls[3]) ELSE EmptyFn
         IN [add |-> ov @@ Sub[n] @@ Restrict2(Sub["lr_scheduler"], DOMAIN Sub["lr_scheduler"] \ {LRSPath \o "." \o n}),
             gone |-> {LRSPath}]
\* early stopping: always created; its three fields are plain arguments (ArgTable)
ESTree == [add |-> Sub["early_stopping"], gone |-> {TC \o "early_stopping"}]

\* ============================================================ (b) augmentation lists =========
GeoNames == {"rotation", "scale", "translate", "erase_scale", "mixup"}
AffineNames == {"rotation", "scale", "translate"}
IntNames == {"uniform_noise", "gaussian_noise", "contrast", "brightness"}
Zero == R(0, 1)
One == R(1, 1)
UnitScale == L(<<One, One>>)
Positive(v) == v[1] \in {"r", "i"} /\ v[2] > 0
NonZero(v) == v[1] \in {"r", "i"} /\ v[2] # 0

\* geometric / intensity configurations as records of canonical values (field names of the schema)
\* literal schema defaults, used by the design model only (the judge takes them from Sub)
GeoDefaultLit == [rotation |-> R(15, 1), scale |-> L(<<R(9, 10), R(11, 10)>>), translate_width |-> R(1, 5),
                  translate_height |-> R(1, 5), affine_p |-> Zero, erase_p |-> Zero, mixup_p |-> Zero]
IntDefaultLit == [uniform_noise_p |-> Zero, gaussian_noise_p |-> Zero, contrast_p |-> Zero, brightness_p |-> Zero]

\* does augmentation n actually do something under geometric configuration g / intensity configuration c
GeoEnabled(n, g) ==
    CASE n = "rotation" -> Positive(g.affine_p) /\ NonZero(g.rotation)
      [] n = "scale" -> Positive(g.affine_p) /\ g.scale # UnitScale /\ g.scale # N
      [] n = "translate" -> Positive(g.affine_p) /\ (NonZero(g.translate_width) \/ NonZero(g.translate_height))
      [] n = "erase_scale" -> Positive(g.erase_p)
      [] n = "mixup" -> Positive(g.mixup_p)
IntField(n) == n \o "_p"
IntEnabled(n, c) == Positive(c[IntField(n)])

\* Definition layer: the configuration is a function of the SET of names.  gd = schema default.
GeoOf(Sn, gd) ==
    [gd EXCEPT !.affine_p = (IF Sn \cap AffineNames # {} THEN One ELSE Zero),
               !.rotation = (IF "rotation" \in Sn THEN gd.rotation ELSE Zero),
               !.scale = (IF "scale" \in Sn THEN gd.scale ELSE UnitScale),
               !.translate_width = (IF "translate" \in Sn THEN gd.translate_width ELSE Zero),
               !.translate_height = (IF "translate" \in Sn THEN gd.translate_height ELSE Zero),
               !.erase_p = (IF "erase_scale" \in Sn THEN One ELSE Zero),
               !.mixup_p = (IF "mixup" \in Sn THEN One ELSE Zero)]
IntOf(Sn, cd) == [f \in DOMAIN cd |-> IF \E n \in Sn : IntField(n) = f THEN One ELSE cd[f]]
\* while affine_p = 0 the affine magnitudes have no effect: the definition does not constrain them
GeoDontCare(Sn) == IF Sn \cap AffineNames = {} THEN {"rotation", "scale", "translate_width", "translate_height"} ELSE {}
GeoAgrees(g, Sn, gd) == \A f \in DOMAIN g \ GeoDontCare(Sn) : g[f] = GeoOf(Sn, gd)[f]

\* Implementation-shaped layer: one step per list element.
\* As coded (train.get_aug_config): every affine branch also RESETS its siblings' fields.
ApplyGeoAsCoded(n, g) ==
    CASE n = "rotation" -> [g EXCEPT !.affine_p = One, !.scale = UnitScale, !.translate_height = Zero, !.translate_width = Zero]
      [] n = "scale" -> [g EXCEPT !.scale = L(<<R(9, 10), R(11, 10)>>), !.affine_p = One, !.rotation = Zero,
                                 !.translate_height = Zero, !.translate_width = Zero]
      [] n = "translate" -> [g EXCEPT !.translate_height = R(1, 5), !.translate_width = R(1, 5), !.affine_p = One,
                                     !.rotation = Zero, !.scale = UnitScale]
      [] n = "erase_scale" -> [g EXCEPT !.erase_p = One]
      [] n = "mixup" -> [g EXCEPT !.mixup_p = One]
\* Intended: the affine magnitudes are neutralised once, before the loop; a branch sets only its own fields.
GeoListStart(g) == [g EXCEPT !.rotation = Zero, !.scale = UnitScale, !.translate_height = Zero, !.translate_width = Zero]
ApplyGeoIntended(n, g, gd) ==
    CASE n = "rotation" -> [g EXCEPT !.affine_p = One, !.rotation = gd.rotation]
      [] n = "scale" -> [g EXCEPT !.affine_p = One, !.scale = gd.scale]
      [] n = "translate" -> [g EXCEPT !.affine_p = One, !.translate_height = gd.translate_height, !.translate_width = gd.translate_width]
      [] n = "erase_scale" -> [g EXCEPT !.erase_p = One]
      [] n = "mixup" -> [g EXCEPT !.mixup_p = One]
ApplyInt(n, c) == [c EXCEPT ![IntField(n)] = One]

OrderedLists(Names) ==
    {s \in UNION {[1..k -> Names] : k \in 0..Cardinality(Names)} : \A i, j \in DOMAIN s : i # j => s[i] # s[j]}

\* an augmentation argument: <<"none">> | <<"str", name>> | <<"list", <<names>>>> | <<"dict", overrides>>
AugNames(a) == IF a[1] = "str" THEN {a[2]} ELSE IF a[1] = "list" THEN Range(a[2]) ELSE {}
IsListed(a) == a[1] \in {"str", "list"}
GeoRec(f) == [k \in DOMAIN GeoDefaultLit |-> f[GeoPath \o "." \o k]]
IntRec(f) == [k \in DOMAIN IntDefaultLit |-> f[IntPath \o "." \o k]]
\* expected sub-tree under augmentation_config.geometric (absolute paths) and its unconstrained paths
GeoTree(a) ==
    LET sd == Sub["geometric"]
        gd == GeoRec(sd)
    IN IF IsListed(a) THEN Over(GeoPath, GeoOf(AugNames(a), gd)) @@ sd
       ELSE IF a[1] = "dict" THEN Over(GeoPath, a[2]) @@ sd ELSE sd
GeoFree(a) == IF IsListed(a) THEN {GeoPath \o "." \o k : k \in GeoDontCare(AugNames(a))} ELSE {}
IntTree(a) ==
    LET sd == Sub["intensity"]
    IN IF IsListed(a) THEN Over(IntPath, IntOf(AugNames(a), IntRec(sd))) @@ sd
       ELSE IF a[1] = "dict" THEN Over(IntPath, a[2]) @@ sd ELSE sd
\* aug: <<"off">> | <<"on", intensity argument, geometric argument>>
AugTree(aug) ==
    IF aug[1] = "off" THEN [add |-> EmptyFn, gone |-> {}, free |-> {}]
    ELSE [add |-> IntTree(aug[2]) @@ GeoTree(aug[3]), gone |-> {AugPath}, free |-> GeoFree(aug[3])]

\* ============================================================ expected configuration =========
\* case: [args |-> supplied simple arguments, bb, head, lrs, aug, pw]
ArgValue(c, a) == IF a \in DOMAIN c.args THEN c.args[a] ELSE SigDefault[a]
Expected(c) ==
    LET bbt == BBTree(c.bb)
        hdt == HeadTree(c.head)
        lst == LRSTree(c.lrs)
        agt == AugTree(c.aug)
        gone == bbt.gone \cup hdt.gone \cup lst.gone \cup agt.gone \cup ESTree.gone
        argmap == [p \in AllArgPaths |-> LET r == CHOOSE q \in ArgRows : p \in ArgTable[q][2]
                                          IN Canon(IF ArgTable[r][1] \in DOMAIN c.args THEN c.args[ArgTable[r][1]] ELSE ArgTable[r][3])]
        fixed == ((MC \o "pre_trained_weights") :> c.pw)
                 @@ ((DC \o "use_augmentations_train") :> B(c.aug[1] = "on"))
    IN [cfg |-> argmap @@ fixed @@ bbt.add @@ hdt.add @@ lst.add @@ agt.add @@ ESTree.add
                @@ Restrict2(D, DOMAIN D \ gone),
        free |-> agt.free]

\* ================================================== (c) normalise / save / load ==============
\* A schema is a function path -> [kind, default]; kind \in {"int","float","str","bool","list","any"};
\* a raw configuration is a partial function path -> value whose values may be ints in float fields
\* and tuples in list fields.
Coerce(kind, v) ==
    IF kind = "float" /\ v[1] = "i" THEN R(v[2], 1)
    ELSE IF v[1] = "t" THEN L(v[2]) ELSE v
Norm(sch, c) == [p \in DOMAIN sch |-> IF p \in DOMAIN c THEN Coerce(sch[p].kind, c[p]) ELSE sch[p].default]
\* YAML text, abstractly: a set of <<path, scalar>> lines; YAML has one sequence type and writes None as null
YamlScalar(v) == IF v[1] = "t" THEN L(v[2]) ELSE IF v = N THEN <<"null">> ELSE v
Save(c) == {<<p, YamlScalar(c[p])>> : p \in DOMAIN c}
Load(y) == [p \in {l[1] : l \in y} |-> LET v == (CHOOSE l \in y : l[1] = p)[2] IN IF v = <<"null">> THEN N ELSE v]
\* a lossy writer that omits None-valued keys ("None vs missing")
SaveDroppingNone(c) == {<<p, YamlScalar(c[p])>> : p \in {q \in DOMAIN c : c[q] # N}}

\* ============================================================== (d) rejects ==================
ProbFields == {<<"IntensityConfig", "uniform_noise_p">>, <<"IntensityConfig", "gaussian_noise_p">>,
               <<"IntensityConfig", "contrast_p">>, <<"IntensityConfig", "brightness_p">>,
               <<"GeometricConfig", "affine_p">>, <<"GeometricConfig", "erase_p">>, <<"GeometricConfig", "mixup_p">>}
IsNum(v) == v[1] \in {"r", "i"}
Den(v) == IF v[1] = "r" THEN v[3] ELSE 1
InUnit(v) == IsNum(v) /\ v[2] >= 0 /\ v[2] <= Den(v)
NonNegFloat(v) == v[1] = "r" /\ v[2] >= 0
ValidScale(v) == NonNegFloat(v) \/ (v[1] = "l" /\ \A k \in DOMAIN v[2] : NonNegFloat(v[2][k]))
ValidDevices(v) == \/ (v[1] = "i" /\ v[2] >= 0)
                   \/ v = S("auto")
                   \/ (v[1] = "l" /\ \A k \in DOMAIN v[2] : v[2][k][1] = "i" /\ v[2][k][2] >= 0)
ConvNextWeights == {"ConvNeXt_Base_Weights", "ConvNeXt_Tiny_Weights", "ConvNeXt_Small_Weights", "ConvNeXt_Large_Weights"}
SwinTWeights == {"Swin_T_Weights", "Swin_S_Weights", "Swin_B_Weights"}
Acc(b) == IF b THEN "accept" ELSE "reject"
\* "reject": the constructor must raise; "accept": it must not; "either": the property is silent.
\* Clauses named by the property text: probabilities, scales, backbone sizes, oneof.  The remaining
\* validated fields (DESIGN.md C20 (d)) are the validators the schema declares.
FieldVerdict(cls, f, v) ==
    IF <<cls, f>> \in ProbFields
        THEN IF v[1] = "r" THEN Acc(InUnit(v)) ELSE IF v[1] = "i" /\ InUnit(v) THEN "either" ELSE "reject"
    ELSE IF cls = "PreprocessingConfig" /\ f = "scale"
        THEN IF ValidScale(v) THEN "accept"
             ELSE IF (v[1] = "i" /\ v[2] >= 0) \/ v[1] = "t" THEN "either" ELSE "reject"
    ELSE IF cls = "SwinTConfig" /\ f = "model_type" THEN Acc(v \in {S("tiny"), S("small"), S("base")})
    ELSE IF cls = "ConvNextConfig" /\ f = "model_type"
        THEN IF v \in {S("tiny"), S("small"), S("base"), S("large")} THEN "accept" ELSE "either"
    ELSE IF cls = "TrainerConfig" /\ f = "optimizer_name" THEN Acc(v \in {S("Adam"), S("AdamW")})
    ELSE IF cls = "TrainerConfig" /\ f = "trainer_devices" THEN IF v[1] = "b" THEN "either" ELSE Acc(ValidDevices(v))
    ELSE IF cls = "OptimizerConfig" /\ f = "lr" THEN Acc(IsNum(v) /\ v[2] > 0)
    ELSE IF cls = "StepLRConfig" /\ f = "step_size" THEN Acc(IsNum(v) /\ v[2] > 0)
    ELSE IF cls = "EarlyStoppingConfig" /\ f \in {"min_delta", "patience"} THEN Acc(IsNum(v) /\ v[2] >= 0)
    ELSE IF cls = "IntensityConfig" /\ f \in {"uniform_noise_min", "contrast_min", "contrast_max"} THEN Acc(IsNum(v) /\ v[2] >= 0)
    ELSE IF cls = "IntensityConfig" /\ f = "uniform_noise_max" THEN Acc(IsNum(v) /\ v[2] <= Den(v))
    ELSE IF cls = "ReduceLROnPlateauConfig" /\ f = "min_lr" THEN IF v[1] = "i" THEN "either" ELSE Acc(ValidScale(v))
    ELSE "accept"
OneofVerdict(members) == Acc(Cardinality(Range(members)) <= 1)
WeightsVerdict(fam, w) ==
    IF w = N THEN "accept"
    ELSE IF fam = "unet" THEN "reject"
    ELSE IF fam = "convnext" THEN Acc(w[1] = "s" /\ w[2] \in ConvNextWeights)
    ELSE IF fam = "swint" THEN Acc(w[1] = "s" /\ w[2] \in SwinTWeights)
    ELSE "either"
\* builder level: which class/field an argument or a dict override lands in
ArgField == [scale |-> <<"PreprocessingConfig", "scale">>, learning_rate |-> <<"OptimizerConfig", "lr">>,
             optimizer |-> <<"TrainerConfig", "optimizer_name">>, trainer_num_devices |-> <<"TrainerConfig", "trainer_devices">>,
             early_stopping_min_delta |-> <<"EarlyStoppingConfig", "min_delta">>,
             early_stopping_patience |-> <<"EarlyStoppingConfig", "patience">>]
FamilyClass == [unet |-> "UNetConfig", convnext |-> "ConvNextConfig", swint |-> "SwinTConfig"]
LRSClass == [step_lr |-> "StepLRConfig", reduce_lr_on_plateau |-> "ReduceLROnPlateauConfig"]
DictRejects(cls, ov) == \E k \in DOMAIN ov : FieldVerdict(cls, k, ov[k]) = "reject"
\* name of the first reason why the builders must refuse the case, or "" if they must not
RejectReason(c) ==
    IF \E a \in DOMAIN c.args : a \in DOMAIN ArgField /\ FieldVerdict(ArgField[a][1], ArgField[a][2], c.args[a]) = "reject"
        THEN "argument/" \o (CHOOSE a \in DOMAIN c.args : a \in DOMAIN ArgField /\ FieldVerdict(ArgField[a][1], ArgField[a][2], c.args[a]) = "reject")
    ELSE IF c.bb[1] = "preset" /\ c.bb[2] \notin Presets THEN "unknown_backbone_size/" \o c.bb[2]
    ELSE IF c.bb[1] = "dict" /\ DictRejects(FamilyClass[c.bb[2]], c.bb[3]) THEN "backbone_field"
    ELSE IF c.lrs[1] \in {"dict", "dict2"} /\ DictRejects(LRSClass[c.lrs[2]], c.lrs[3]) THEN "lr_scheduler_field"
    ELSE IF c.aug[1] = "on" /\ c.aug[2][1] = "dict" /\ DictRejects("IntensityConfig", c.aug[2][2]) THEN "intensity_field"
    ELSE IF c.aug[1] = "on" /\ c.aug[3][1] = "dict" /\ DictRejects("GeometricConfig", c.aug[3][2]) THEN "geometric_field"
    ELSE IF WeightsVerdict(BBFamily(c.bb), c.pw) = "reject" THEN "pre_trained_weights_family"
    ELSE ""
=============================================================================
