---------------------------- MODULE Trace_Geometry ----------------------------
(* Batch trace validation for the geometry stages (C04).  Each trace is [id, cfg, ev, gev]:

     cfg   the configuration of the run (as in Geometry.tla, without pipe) with the labels kp0
     ev    one event per stage boundary of the REAL code, run on a coordinate-coded RGB image
           (harness/coordimage.py).  Everything in an event is a measurement:
             st        stage name               h, w, c    size / channels of the image after the stage
             fit       1: content decodable;    M, t       forward content map  out = M orig + t
                                                A, b       inverse map          orig = A out + b
                       (linear parts / 4096, offsets / 256),  res: rms residual (1/256 px)
             box       bounding box of the pixels that are pure image content (B channel = 1)
             kp, cen   keypoints / centroids after the stage: <<x64, y64, v>> (v = 0: NaN, 2: out of range)
             eff       round(eff_scale * 65536) for SizeMatch;  bin / bout: float32 bit patterns of the
                       keypoints before / after AugmentInt
     gev   the same run on the grayscale version under the same seed (sizes and keypoints only), or <<>>

   Every event must be the Geometry action of that name from the current state (the values the code
   chose - target size, augmentation - are bound to the log); after every event the C04 clauses are
   evaluated on the OBSERVED values.  A failing Registered clause is reported as
   Registered_as_coded_drift when content and keypoints both sit where the as-coded arithmetic puts
   them (the drift of multiplying keypoints by eff / s while tvf.resize works on pixel centres with
   integer sizes - found on the design model), as Registered_kornia_nonsquare_warp when an augmentation's
   image / keypoint discrepancy is inside the analytic bound of kornia's warp_affine normalisation
   mismatch on non-square images, and as Registered otherwise.  One verdict per trace. *)
EXTENDS Geometry, Verdict, Json, IOUtils
Traces == JsonDeserialize(IOEnv.TRACE_FILE)
ASSUME VInit /\ TLCSet(4, <<>>)
\* Rejections are numerous for a known finding; so that they cannot crowd out a different clause, examples are
\* kept per clause (<= 25 each) and register 4 counts every clause; the totals are reported as <<-count, clause>> (ids are >= 0).
Bump(f, c) == [x \in (DOMAIN f) \cup {c} |-> IF x = c THEN (IF c \in DOMAIN f THEN f[c] ELSE 0) + 1 ELSE f[x]]
TReject(id, clause) ==
    /\ TLCSet(3, TLCGet(3) + 1)
    /\ TLCSet(4, Bump(TLCGet(4), clause))
    /\ IF TLCGet(4)[clause] <= 25 THEN TLCSet(1, TLCGet(1) \cup {<<id, clause>>}) ELSE TRUE
VARIABLES tid, l,
          lg,       \* index of the last event before the current one with a usable fit and keypoints (0: none)
          blind     \* TRUE once an augmentation could not be measured (content clauses are skipped from then on)
tvars == <<gvars, tid, l, lg, blind>>

Ev == Traces[tid].ev
GEv == Traces[tid].gev
CfgOf(c) == [ds |-> c.ds, h |-> c.h, w |-> c.w, maxH |-> c.maxH, maxW |-> c.maxW, sn |-> c.sn, sd |-> c.sd,
             m |-> c.m, crH |-> c.crH, crW |-> c.crW, anchor |-> c.anchor, inst |-> c.inst,
             augI |-> c.augI, augG |-> c.augG, track |-> c.track, kp0 |-> c.kp0, pipe |-> Pipeline(c)]
Init == /\ tid \in 1..Len(Traces)
        /\ l = 1
        /\ GInit({CfgOf(Traces[tid].cfg)})
        /\ lg = 0
        /\ blind = FALSE

\* ------------------------------------------------------------------ measurements -> P units ------
Good(e) == e.fit = 1 /\ e.res < 16                            \* residual < 1/16 px, else the fit is discarded (contaminated by the valid-region border: a seed sweep found a 7 % error of the linear part at residual 0.11 px, 42 valid pixels)
Fwd(e, p) == <<(e.M[1] * p[1] + e.M[2] * p[2]) \div 256 + e.t[1] * 4,     \* where the content of label p is (P units)
               (e.M[3] * p[1] + e.M[4] * p[2]) \div 256 + e.t[2] * 4>>
OrigOf(e, k) == <<(e.A[1] * k[1] + e.A[2] * k[2]) \div 256 + e.b[1] * 4,  \* original position shown at output k (1/64)
                  (e.A[3] * k[1] + e.A[4] * k[2]) \div 256 + e.b[2] * 4>>
KP(e, i) == <<e.kp[i][1] * PQ, e.kp[i][2] * PQ>>
HasKp(e) == Len(e.kp) > 0
ErrOrig(e) == [i \in 1..Len(pts) |->
                 IF HasKp(e) /\ Len(e.kp) = Len(pts) /\ pts[i].v /\ e.kp[i][3] = 1 /\ Good(e)
                 THEN LET o == OrigOf(e, <<e.kp[i][1], e.kp[i][2]>>) IN <<pts[i].p[1] * PQ - o[1], pts[i].p[2] * PQ - o[2]>>
                 ELSE <<0, 0>>]

\* ------------------------------------------------------------------ events -> actions -------------
IsEvent(k) == l <= Len(Ev) /\ Ev[l].st = k /\ l' = l + 1 /\ tid' = tid
              /\ lg' = (IF l >= 2 /\ Good(Ev[l - 1]) /\ HasKp(Ev[l - 1]) THEN l - 1 ELSE lg)
Plain == blind' = blind
EffOK(e) == Abs(e.eff * Eff[2] - 65536 * Eff[1]) <= Eff[2]
TRead        == IsEvent("Read") /\ Read /\ Plain
TSample      == IsEvent("Sample") /\ Sample /\ Plain
TSizeMatch   == IsEvent("SizeMatch") /\ EffOK(Ev[l]) /\ SizeMatch(Ev[l].box[3] + 1, Ev[l].box[4] + 1) /\ Plain
TSizeMatchPad == IsEvent("SizeMatchPad") /\ SizeMatchPad /\ Plain
TResize      == IsEvent("Resize") /\ Resize /\ Plain
TPadToStride == IsEvent("PadToStride") /\ PadToStride /\ Plain
TCentroid    == IsEvent("Centroid") /\ Centroid /\ Plain
TCrop        == IsEvent("Crop") /\ Crop /\ Plain
TOverCrop    == IsEvent("OverCrop") /\ OverCrop /\ Plain
TReCrop      == IsEvent("ReCrop") /\ ReCrop /\ Plain
TAugmentInt  == IsEvent("AugmentInt") /\ AugmentInt /\ Plain
\* AugmentGeo(T): T is measured - the new positions are where the content / keypoints are observed
TAugmentGeo  == /\ IsEvent("AugmentGeo")
                /\ LET e == Ev[l]
                       ok == Good(e) /\ ~blind
                   IN /\ AugmentGeo([i \in 1..Len(pts) |-> IF ok THEN Fwd(e, pts[i].p) ELSE pts[i].c],
                                    [i \in 1..Len(pts) |-> IF Len(e.kp) = Len(pts) /\ e.kp[i][3] = 1 THEN KP(e, i) ELSE pts[i].k])
                      /\ blind' = ~ok
Next == TRead \/ TSample \/ TSizeMatch \/ TSizeMatchPad \/ TResize \/ TPadToStride \/ TCentroid \/ TCrop \/ TOverCrop
        \/ TReCrop \/ TAugmentInt \/ TAugmentGeo

\* why no spec step matches the next event
WhyDisabled ==
    LET e == Ev[l] IN
    IF e.st # Stage THEN "pipeline_order_expected_" \o Stage \o "_got_" \o e.st
    ELSE IF e.st = "SizeMatch" /\ ~EffOK(e) THEN "eff_scale_not_the_limiting_ratio"
    ELSE IF e.st = "SizeMatch" THEN "sizematch_content_not_round_of_scaled_size_at_top_left"
    ELSE IF e.st \in {"Crop", "OverCrop", "ReCrop"} THEN "crop_without_centroid"
    ELSE "stage_not_applicable_" \o e.st

\* ------------------------------------------------------------------ clauses on the observation ----
Obs == Ev[l - 1]
Content == Good(Obs) /\ ~blind
CropStage == Obs.st \in {"Crop", "OverCrop", "ReCrop"}
KpOK == HasKp(Obs) => Len(Obs.kp) = Len(pts)
Lost == {i \in Vis : HasKp(Obs) /\ Obs.kp[i][3] = 0}
Far == {i \in Vis : HasKp(Obs) /\ Obs.kp[i][3] = 2}
\* The property speaks about content that IS in the output: a label is "in view" when its content or its
\* keypoint lies within View pixels of the measured valid region (outside, the fitted map would be extrapolated)
View == 4 * P
Near(z) == /\ z[1] >= Obs.box[1] * P - View /\ z[1] <= Obs.box[3] * P + View
           /\ z[2] >= Obs.box[2] * P - View /\ z[2] <= Obs.box[4] * P + View
InView == {i \in Vis : Near(pts[i].c) \/ (HasKp(Obs) /\ Near(KP(Obs, i)))}
\* Registered on the observation: content of the label vs the observed keypoint
RegObs == (HasKp(Obs) /\ Content) => \A i \in InView : Cheb(Fwd(Obs, pts[i].p), KP(Obs, i)) < TolReg
KpConf == HasKp(Obs) => \A i \in Vis : Cheb(KP(Obs, i), pts[i].k) <= TolKp
ContentConf == Content => \A i \in InView : Cheb(Fwd(Obs, pts[i].p), pts[i].c) <= TolConf
\* an augmentation moves content and keypoints by the same map: the registration error expressed in ORIGINAL
\* coordinates is the same as at the last measurable event before it
DeltaEo(i) == <<ErrOrig(Obs)[i][1] - ErrOrig(Ev[lg])[i][1], ErrOrig(Obs)[i][2] - ErrOrig(Ev[lg])[i][2]>>
AugConsistent == lg >= 1 /\ \A i \in InView : LET d == DeltaEo(i) IN
                    /\ Abs(d[1]) < 8 * P /\ Abs(d[2]) < 8 * P
                    /\ Abs(Obs.M[1] * d[1] + Obs.M[2] * d[2]) <= TolConf * 4096
                    /\ Abs(Obs.M[3] * d[1] + Obs.M[4] * d[2]) <= TolConf * 4096
\* kornia's warp_affine normalises the matrix with (W-1, H-1) but samples with align_corners = False: a non-square
\* image is warped by S T S^-1, S = diag(W/(W-1), H/(H-1)), while the keypoints get T.  The two differ, for a point
\* at offset d from the image centre, by at most |H - W| / ((W-1)(H-1)) * |d| * (magnification of T <= 13/10);
\* zero for square images.  A discrepancy inside this bound is reported under its own name.
KorniaBound(i) == LET cx == (img.w - 1) * (P \div 2)
                      cy == (img.h - 1) * (P \div 2)
                      k == KP(Obs, i)
                      off == Max2(Abs(k[1] - cx), Abs(k[2] - cy)) + 2 * P
                  IN (13 * Abs(img.h - img.w) * off) \div (10 * (img.w - 1) * (img.h - 1)) + TolConf
AugKornia == lg >= 1 /\ img.h # img.w /\ img.h > 1 /\ img.w > 1 /\ \A i \in InView : LET d == DeltaEo(i) IN
                    /\ Abs(d[1]) < 8 * P /\ Abs(d[2]) < 8 * P
                    /\ Abs(Obs.M[1] * d[1] + Obs.M[2] * d[2]) <= KorniaBound(i) * 4096
                    /\ Abs(Obs.M[3] * d[1] + Obs.M[4] * d[2]) <= KorniaBound(i) * 4096
CenOK == (Len(Obs.cen) > 0 /\ cen # <<>>) =>
            /\ Len(Obs.cen) = Len(cen)
            /\ \A n \in 1..Len(cen) : cen[n].v => Obs.cen[n][3] = 1
                                                 /\ Cheb(<<Obs.cen[n][1] * PQ, Obs.cen[n][2] * PQ>>, cen[n].k) <= TolKp
Augmented == \E j \in 1..pc : cfg.pipe[j] = "AugmentGeo"
PrevBox == IF l >= 3 THEN Ev[l - 2].box ELSE <<0, 0, cfg.w - 1, cfg.h - 1>>
ValidClause ==
    IF Obs.box[3] < Obs.box[1] THEN "ok"                 \* nothing decodable (counted by the driver)
    ELSE IF Obs.st = "Read" THEN (IF Obs.box = <<0, 0, img.w - 1, img.h - 1>> THEN "ok" ELSE "harness_image_not_fully_valid")
    ELSE IF ~img.crop /\ ~Augmented /\ (Obs.box[1] # 0 \/ Obs.box[2] # 0) THEN "padding_not_only_bottom_and_right"
    ELSE IF Obs.st = "Resize" /\ ~img.crop /\
            ~(/\ (Obs.box[3] + 1) * P <= img.vw + P /\ (Obs.box[3] + 1) * P >= img.vw - 3 * P
              /\ (Obs.box[4] + 1) * P <= img.vh + P /\ (Obs.box[4] + 1) * P >= img.vh - 3 * P)
         THEN "valid_region_not_the_scaled_one"
    ELSE IF Obs.st \in {"PadToStride", "SizeMatchPad", "Sample"} /\ Obs.box # PrevBox THEN "padding_changed_the_valid_region"
    ELSE "ok"
GrayClause ==
    IF GEv = <<>> THEN "ok"
    ELSE IF Len(GEv) # Len(Ev) THEN "gray_rgb_stage_count"
    ELSE LET g == GEv[l - 1] IN
         IF g.st # Obs.st \/ g.h # Obs.h \/ g.w # Obs.w \/ g.c # 1 \/ Obs.c # 3 THEN "gray_rgb_size_differs_" \o Obs.st
         ELSE IF Len(g.kp) # Len(Obs.kp) \/ Len(g.cen) # Len(Obs.cen) THEN "gray_rgb_keypoint_count_" \o Obs.st
         ELSE IF \E i \in 1..Len(g.kp) : g.kp[i][3] # Obs.kp[i][3] \/ Cheb(g.kp[i], Obs.kp[i]) > 2 THEN "gray_rgb_keypoints_differ_" \o Obs.st
         ELSE IF \E i \in 1..Len(g.cen) : g.cen[i][3] # Obs.cen[i][3] \/ Cheb(g.cen[i], Obs.cen[i]) > 2 THEN "gray_rgb_centroids_differ_" \o Obs.st
         ELSE IF g.st = "AugmentInt" /\ g.bin # g.bout THEN "intensity_augmentation_moved_keypoints_gray"
         ELSE "ok"

Clause ==
    IF Obs.h # img.h \/ Obs.w # img.w THEN "size_not_as_requested_" \o Obs.st
    ELSE IF ValidClause # "ok" THEN ValidClause
    ELSE IF ~KpOK THEN "keypoint_count_" \o Obs.st
    ELSE IF Obs.st = "AugmentInt" /\ Obs.bin # Obs.bout THEN "intensity_augmentation_moved_keypoints"
    ELSE IF Lost # {} THEN "keypoint_lost_" \o Obs.st
    ELSE IF Far # {} THEN "Registered_" \o Obs.st
    ELSE IF ~RegObs THEN (IF (IF Obs.st = "AugmentGeo" THEN AugConsistent ELSE KpConf /\ ContentConf)
                          THEN "Registered_as_coded_drift_"
                          ELSE IF Obs.st = "AugmentGeo" /\ AugKornia THEN "Registered_kornia_nonsquare_warp_"
                          ELSE "Registered_") \o Obs.st
    ELSE IF Obs.st # "AugmentGeo" /\ ~KpConf THEN "keypoints_not_as_specified_" \o Obs.st
    ELSE IF Obs.st # "AugmentGeo" /\ ~ContentConf THEN "content_not_as_specified_" \o Obs.st
    ELSE IF ~CenOK THEN "centroid_not_as_specified_" \o Obs.st
    ELSE IF ~CropCentred THEN "crop_not_centred"
    ELSE GrayClause

Check ==
    LET id == Traces[tid].id IN
    IF l > 1 /\ Clause # "ok" THEN TReject(id, Clause) /\ FALSE
    ELSE IF l > Len(Ev)
         THEN IF Stage = "done" THEN VAccept ELSE TReject(id, "pipeline_ended_before_" \o Stage) /\ FALSE
         ELSE IF ENABLED Next THEN TRUE ELSE TReject(id, WhyDisabled) /\ FALSE
Report == /\ TLCSet(1, TLCGet(1) \cup {<<0 - TLCGet(4)[c], c>> : c \in DOMAIN TLCGet(4)})
          /\ VReport
=============================================================================
