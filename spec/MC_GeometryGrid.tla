---------------------------- MODULE MC_GeometryGrid ----------------------------
(* The configuration grid of MC_Geometry as data, and the coverage of the replay decided by TLC.
     C04_MODE = export      write Configs to C04_FILE (JSON) - the driver replays exactly these
     C04_MODE = cover_all   the set of configurations the driver fed to the real code EQUALS Configs
     C04_MODE = cover_full  it is a subset of Configs and contains every fn_full / dp_full configuration *)
EXTENDS MC_Geometry, Json, IOUtils, SequencesExt
Mode == IOEnv.C04_MODE
File == IOEnv.C04_FILE
Fed == JsonDeserialize(File)
FedSet == {Fed[i] : i \in 1..Len(Fed)}
ASSUME Mode = "export" => JsonSerialize(File, SetToSeq(Configs))
ASSUME Mode = "cover_all" => /\ PrintT(<<"COVER", "all", Cardinality(FedSet), Cardinality(Configs), FedSet = Configs>>)
                             /\ FedSet = Configs
ASSUME Mode = "cover_full" => /\ PrintT(<<"COVER", "full", Cardinality(FedSet), Cardinality(Configs), Cardinality(Full \cup DPFull),
                                          FedSet \subseteq Configs, (Full \cup DPFull) \subseteq FedSet>>)
                              /\ FedSet \subseteq Configs /\ (Full \cup DPFull) \subseteq FedSet
XInit == GInit({CHOOSE c \in Configs : TRUE})
XNext == UNCHANGED gvars
=============================================================================
