---------------------------- MODULE Judge_C05 ----------------------------
(* Conformance of generate_pafs / PartAffinityFieldsGenerator (C05): every recorded case (lattice
   inputs, projected field; for several animals also the fields of the separate single-animal
   calls) must satisfy Targets!PafClause - every cell of every channel is judged. *)
EXTENDS Targets, Verdict, Json, IOUtils
Cases == JsonDeserialize(IOEnv.TRACE_FILE)
ASSUME VInit
VARIABLE i
Init == i = 0
Next == i < Len(Cases) /\ i' = i + 1
Check == i >= 1 => VGive(Cases[i].id, PafClause(Cases[i]))
Report == VReport
=============================================================================
