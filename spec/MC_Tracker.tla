---------------------------- MODULE MC_Tracker ----------------------------
(* Design checks.
   C10: within the scenario class (newcomers only when everyone seen is visible, absences shorter than the
        window) every run keeps Identity and Distinct, for both stores, matchers and reductions.
        Without the class restriction (Scenario = FALSE) Identity MUST fail (hand-over is by design).
   C09: with ANY injective partial assignment into existing tracks and any hi/low flags, the reply
        clause holds and a step is always possible. *)
EXTENDS Tracker
CONSTANTS MaxFrames, Scenario, Ws
Configs == [store : {"fixed", "local"}, match : {"hungarian", "greedy"}, red : {"mean", "max"}, w : Ws]
Init == TInit(Configs)
Next == /\ nframes < MaxFrames
        /\ \E D \in SUBSET Animals :
             /\ (Scenario => NewcomerOnlyWhenAllVisible(D))
             /\ Track(D)
ScenarioConstraint == Scenario => AllSeenLive

=============================================================================
