---------------------------- MODULE MC_InferPlane ----------------------------
(* Design check: over the configuration grid and a lattice of keypoints inside the image, the as-coded stage
   arithmetic (integer target sizes, pixel-centre resampling, nominal factors on decode) keeps every answer of
   an ideal network within the tight bound, and the tight bound within the closed form of the property. *)
EXTENDS InferPlane
CONSTANT Tier        \* "quick" | "thorough"
Sizes == IF Tier = "quick" THEN {<<48, 64>>, <<57, 77>>} ELSE {<<48, 64>>, <<64, 48>>, <<57, 77>>, <<33, 95>>}
MaxSizes == {<<0, 0>>, <<64, 96>>, <<96, 64>>, <<96, 96>>, <<40, 56>>, <<0, 96>>, <<80, 0>>}   \* larger, smaller and one-sided maxima
Scales == IF Tier = "quick" THEN {<<1, 1>>, <<1, 2>>} ELSE {<<1, 1>>, <<1, 2>>, <<3, 4>>, <<3, 2>>}
MaxStrides == {8, 16}
Strides == {1, 2, 4}
KStep == IF Tier = "quick" THEN 9 ELSE 5
Configs == {c \in [H : {s[1] : s \in Sizes}, W : {s[2] : s \in Sizes}, maxH : {m[1] : m \in MaxSizes}, maxW : {m[2] : m \in MaxSizes},
                   sn : {s[1] : s \in Scales}, sd : {s[2] : s \in Scales}, ms : MaxStrides, s : Strides,
                   ky : {j * KStep * U + 307 : j \in 0..12}, kx : {j * KStep * U + 717 : j \in 0..12}] :
              /\ <<c.H, c.W>> \in Sizes /\ <<c.maxH, c.maxW>> \in MaxSizes /\ <<c.sn, c.sd>> \in Scales
              /\ c.ky < (c.H - 1) * U /\ c.kx < (c.W - 1) * U /\ c.s <= c.ms
              /\ TRUE}
Init == IPInit(Configs)
Next == IPNext
=============================================================================
