---------------------------- MODULE Judge_C11 ----------------------------
(* Purity of the functional API (C11, event Call(f)): each case is one real call
   [id, f, raised, args: <<[name, eq, nb, na]>>] made on the CALLER's tensors; `eq` = 1 iff the caller's
   tensor (and, for views, its base) is unchanged after the call.  Judged by DataStore!CallClause. *)
EXTENDS DataStore, Verdict, Json, IOUtils
Cases == JsonDeserialize(IOEnv.TRACE_FILE)
ASSUME VInit
VARIABLE i
Init == /\ i = 0 /\ cfg = 0 /\ labels = 0 /\ member = 0 /\ heap = 0 /\ cache = 0 /\ cache0 = 0 /\ out = 0
        /\ reads = 0 /\ results = 0 /\ built = 0 /\ nc = 0
Next == i < Len(Cases) /\ i' = i + 1 /\ UNCHANGED vars
GiveAll(id, clause) == IF clause = "ok" THEN VAccept
                       ELSE TLCSet(3, TLCGet(3) + 1) /\ TLCSet(1, TLCGet(1) \cup {<<id, clause>>})
Check == i >= 1 => GiveAll(Cases[i].id, CallClause(Cases[i]))
Report == VReport
=============================================================================
