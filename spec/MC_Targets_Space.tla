---------------------------- MODULE MC_Targets_Space ----------------------------
(* Exhaustiveness of the C01 / C05 replay families, decided by TLC: the set of configurations the
   driver fed to the real code (IOEnv.TRACE_FILE, a JSON array of tuples) equals the design
   model's configuration space.  Which = "cm1" : <<variant, s, sn, sd, x4, y4>> over CmSpace1(CmStep)
                                 Which = "paf" : <<s, ax, ay, bx, by>> over PafSpace *)
EXTENDS MC_Targets, Json, IOUtils
CONSTANT Which
Fed == JsonDeserialize(IOEnv.TRACE_FILE)
FedSet == {Fed[k] : k \in 1..Len(Fed)}
Space == IF Which = "cm1" THEN {<<g.variant, g.s, g.sig[1], g.sig[2], g.p[1], g.p[2]>> : g \in CmSpace1(CmStep)}
         ELSE {<<g.s, g.a[1], g.a[2], g.b[1], g.b[2]>> : g \in PafSpace}
ASSUME PrintT(<<"CASESPACE", Which, Cardinality(Space), Cardinality(FedSet), FedSet = Space>>)
ASSUME FedSet = Space
SInit == cfg = <<>> /\ stage = "space" /\ out = <<>>
SNext == UNCHANGED vars
=============================================================================
