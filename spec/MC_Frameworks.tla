---------------------------- MODULE MC_Frameworks ----------------------------
(* Design model of the framework behaviours (C18): the whole configuration grid in ONE run (cfg is chosen in Init
   and never changes; every configuration is one deterministic behaviour that runs InMemory, NpChunks and
   ChunkStream one after the other and then compares the three final abstract samples).

     model types {single, bottomup, centroid, centered};  sizes h in HSizes, w in WSizes (the C04 grid: 17, 32, 45, 64);
     (maxH, maxW) in {None, equal, (64,64), (80,96), (24,40)}  - equal / larger / different aspect / down-scaling;
     scales {1/2, 3/4, 1, 3/2};  max strides Strides;  crop sizes CropSizes;  anchors {None, node 1, node 3 (missing
     in animal 2 -> mid point of the bounding box)};  the cropped animal {1, 2};  round() ties both ways.
   Labels: animal 1 = two corners and the centre, animal 2 = the other two corners and a missing node (single: animal 1).

   Checked: Agree (THE THEOREM: all model types at scale 1, single / centroid / bottomup at every scale),
   ExclusionIsDivergence (every centered-instance configuration at scale # 1 diverges), CacheTransparent,
   OnlyChunksQuantise, BlockAgree / SizeMatcherDiffersElsewhere for the DataPipe blocks;
   counter-model run: AgreeEverywhere MUST be violated. *)
EXTENDS Frameworks
CONSTANTS HSizes, WSizes, Strides, CropSizes, Anchors
Scales == {<<1, 2>>, <<3, 4>>, <<1, 1>>, <<3, 2>>}
MaxModes == {"none", "equal", "sq64", "big", "small"}
MaxOf(mode, h, w) == CASE mode = "none" -> <<0, 0>> [] mode = "equal" -> <<h, w>>
                       [] mode = "sq64" -> <<64, 64>> [] mode = "big" -> <<80, 96>> [] mode = "small" -> <<24, 40>>
Animal1(h, w) == << <<0, 0, 1, 1, 1>>, <<(w - 1) * Q, 0, 1, 1, 2>>, <<(w - 1) * (Q \div 2), (h - 1) * (Q \div 2), 1, 1, 3>> >>
Animal2(h, w) == << <<0, (h - 1) * Q, 1, 2, 1>>, <<(w - 1) * Q, (h - 1) * Q, 1, 2, 2>>, <<0, 0, 0, 2, 3>> >>
Labels(model, h, w) == IF model = "single" THEN Animal1(h, w) ELSE Animal1(h, w) \o Animal2(h, w)

Raw(mode, model, block, h, w, mm, s, m, cr, a, inst, tie) ==
    [mode |-> mode, model |-> model, block |-> block, h |-> h, w |-> w, maxH |-> MaxOf(mm, h, w)[1], maxW |-> MaxOf(mm, h, w)[2],
     sn |-> s[1], sd |-> s[2], m |-> m, crH |-> cr, crW |-> cr, anchor |-> a, inst |-> inst, os |-> 2, ps |-> 4, tie |-> tie,
     track |-> IF model = "centroid" THEN "centroids" ELSE "keypoints", kp0 |-> Labels(model, h, w)]
WithPipe(c) == [x \in (DOMAIN c) \cup {"pipe"} |-> IF x = "pipe" THEN PipeOf(c) ELSE c[x]]
\* an exact .5 in round(size * limiting ratio): Python's round() may go either way
HasTie(c) == LET mh == IF c.maxH = 0 THEN c.h ELSE c.maxH
                 mw == IF c.maxW = 0 THEN c.w ELSE c.maxW
                 e == IF mh = c.h /\ mw = c.w THEN <<1, 1>> ELSE IF mh * c.w > mw * c.h THEN <<mw, c.w>> ELSE <<mh, c.h>>
             IN 2 * ((c.w * e[1]) % e[2]) = e[2] \/ 2 * ((c.h * e[1]) % e[2]) = e[2]
Ties(S) == S \cup {[c EXCEPT !.tie = 1] : c \in {x \in S : HasTie(x)}}

Plain == {Raw("frameworks", model, "-", h, w, mm, s, m, 16, 0, 1, 0) :
              model \in {"single", "bottomup"}, h \in HSizes, w \in WSizes, mm \in MaxModes, s \in Scales, m \in Strides}
Cent  == {Raw("frameworks", "centroid", "-", h, w, mm, s, m, 16, a, 1, 0) :
              h \in HSizes, w \in WSizes, mm \in MaxModes, s \in Scales, m \in Strides, a \in Anchors}
Crops == {Raw("frameworks", "centered", "-", h, w, mm, s, m, cr, a, inst, 0) :
              h \in HSizes, w \in WSizes, mm \in MaxModes, s \in Scales, m \in Strides, cr \in CropSizes, a \in Anchors, inst \in {1, 2}}
BlockCfgs == {Raw("block", IF b \in {"InstanceCropper", "ConfidenceMapGenerator"} THEN "centered" ELSE "bottomup", b, h, w, mm, s, 16, 16, a, 1, 0) :
              b \in Blocks, h \in HSizes, w \in WSizes, mm \in {"none", "equal", "sq64", "big"}, s \in Scales, a \in {0, 3}}
Configs == {WithPipe(c) : c \in Ties(Plain \cup Cent \cup Crops \cup BlockCfgs)}

Init == FInit(Configs)
Next == FNext
ASSUME PrintT(<<"GRID", Cardinality(Configs), Cardinality({c \in Configs : c.mode = "frameworks" /\ Demanded(c)}),
                Cardinality({c \in Configs : c.mode = "frameworks" /\ ~Demanded(c)}),
                Cardinality({c \in Configs : c.mode = "block"}), Cardinality({c \in Configs : c.tie = 1})>>)
=============================================================================
