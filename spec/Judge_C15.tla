---------------------------- MODULE Judge_C15 ----------------------------
(* Conformance of compute_oks / compute_instance_area / match_instances / hungarian_matching /
   greedy_matching / compute_iou (C15).  Every case is (lattice input, projected observed output);
   the verdict is the name of the first failing clause of Eval.tla. *)
EXTENDS Eval, Verdict, Json, IOUtils
Cases == JsonDeserialize(IOEnv.TRACE_FILE)
ASSUME VInit
VARIABLE i
Init == i = 0 /\ mI = <<>> /\ avail = {} /\ todo = {} /\ pairs = <<>>
Next == i < Len(Cases) /\ i' = i + 1 /\ UNCHANGED mvars
Clause(c) ==
    CASE c.kind = "oks" -> IF c.raised # "" THEN (IF Len(c.prs) > 1 THEN "compute_oks_raised_for_several_predictions" ELSE "compute_oks_raised")
                           ELSE OksClause(c)
      [] c.kind = "match" -> IF c.raised # "" THEN (IF c.I.G = 0 /\ c.I.P > 0 THEN "match_instances_raised_on_frame_without_gt" ELSE "match_instances_raised")
                             ELSE MatchClause(c.I, c.reply)
      [] c.kind = "hung" -> IF c.raised # "" THEN "hungarian_matching_raised" ELSE OptAssignClause(c.C, c.rows, c.cols)
      [] c.kind = "greedy" -> IF c.raised # "" THEN "greedy_matching_raised" ELSE GreedyClause(c.C, c.rows, c.cols)
      [] c.kind = "iou" -> IF c.raised # "" THEN "compute_iou_raised" ELSE IouClause(c.a, c.b, c.oab, c.oba, c.oaa)
      [] OTHER -> "unknown_case_kind"
Check == i >= 1 => VGive(Cases[i].id, Clause(Cases[i]))
Report == VReport
=============================================================================
