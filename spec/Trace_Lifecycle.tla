---------------------------- MODULE Trace_Lifecycle ----------------------------
(* Batch trace validation for Lifecycle: a trace is [id, cfg, states, done, raised, content] where `states` is the sequence
   of artifact-class sets seen on disk at every file-write boundary of a real run_training() call (each a possible
   crash state), `keyed` the classes that contained the API key in that state, `done` whether the call returned,
   `content` the first problem found inside the prediction / metrics files ("" = none). *)
EXTENDS Lifecycle, Verdict, Sequences, Json, IOUtils
Traces == JsonDeserialize(IOEnv.TRACE_FILE)
ASSUME VInit
VARIABLE i
TInit == i = 0 /\ cfg = [model |-> "bottomup", ckpt |-> FALSE, test |-> FALSE] /\ stage = "start" /\ files = {}
TNext == i < Len(Traces) /\ i' = i + 1 /\ UNCHANGED vars

SetOf(q) == {q[k] : k \in 1..Len(q)} \cap Artifacts
Clause(t) ==
    LET n == Len(t.states)
        fs(k) == SetOf(t.states[k].files)
    IN IF \E k \in 1..n : t.states[k].keyed # <<>> THEN "key_on_disk"
       ELSE IF \E k \in 1..n : ~Dependencies(fs(k)) THEN "artifact_without_what_it_was_computed_from"
       ELSE IF \E k \in 1..n : ~NothingWithoutCheckpoint(t.cfg, fs(k)) THEN "inference_artifacts_without_checkpoint"
       ELSE IF \E k \in 1..n : ~NoTestWithoutTestFile(t.cfg, fs(k)) THEN "test_artifacts_without_test_file"
       ELSE IF \E k \in 1..(n - 1) : ~(fs(k) \subseteq fs(k + 1)) THEN "artifact_removed"
       ELSE IF t.raised # "" THEN "raised"
       ELSE IF ~t.done THEN "not_finished"
       ELSE IF n = 0 \/ fs(n) # Expected(t.cfg) THEN "artifacts_incomplete"
       ELSE IF t.content # "" THEN "content_" \o t.content
       ELSE "ok"
Check == i >= 1 => VGive(Traces[i].id, Clause(Traces[i]))
Report == VReport
=============================================================================
