---------------------------- MODULE MC_Tracker9 ----------------------------
(* C09 design check: with ANY injective partial assignment into existing tracks and any hi/low flags,
   the reply clause holds and a step is always possible (no history disables Track). *)
EXTENDS Tracker
CONSTANTS MaxFrames, Ws
Configs == [store : {"fixed", "local"}, match : {"hungarian"}, red : {"mean"}, w : Ws]
\* ---- C09 instance: arbitrary assignments, hi flags ------------------------------------------------
VARIABLES dets, reply
vars9 == <<vars, dets, reply>>
Init9 == TInit(Configs) /\ dets = <<>> /\ reply = <<>>
DetSeqs == UNION {[1..n -> [a : Animals, hi : BOOLEAN]] : n \in 0..Cardinality(Animals)}
Step9 ==
    /\ nframes < MaxFrames
    /\ \E ds \in {s \in DetSeqs : \A i, j \in 1..Len(s) : i # j => s[i].a # s[j].a} :
       LET D == {ds[i].a : i \in 1..Len(ds)}
           hiOf == [a \in D |-> (CHOOSE i \in 1..Len(ds) : ds[i].a = a)]
       IN \E S \in SUBSET D : \E f \in InjectiveMaps(S, Tracks) :
            LET unm == D \ S
                newc == {a \in unm : ds[hiOf[a]].hi}
                low == unm \ newc
            IN \E g \in InjectiveMaps(newc, nt..(nt + Cardinality(newc) - 1)) : \E keepLow \in SUBSET low :
                 LET asg == [a \in S \cup newc |-> IF a \in S THEN f[a] ELSE g[a]]
                     order == SetToSeq(S \cup newc \cup keepLow)
                 IN /\ StoreUpdate(S \cup newc, asg, nt + Cardinality(newc))
                    /\ dets' = ds
                    /\ reply' = [i \in 1..Len(order) |-> <<hiOf[order[i]], IF order[i] \in DOMAIN asg THEN asg[order[i]] ELSE -1>>]
    /\ nframes' = nframes + 1
    /\ UNCHANGED <<cfg, seen, trackOf, ok, lastD>>
ReplyAlwaysOK == ReplyClause([i \in 1..Len(dets) |-> [hi |-> dets[i].hi]], reply, FALSE, 0) = "ok"
Done9 == nframes = MaxFrames /\ UNCHANGED vars9
Next9 == Step9 \/ Done9      \* with deadlock checking ON: a state where no Track step is possible is an error
=============================================================================
