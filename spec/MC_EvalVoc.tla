---------------------------- MODULE MC_EvalVoc ----------------------------
(* Theorems of the implementation-shaped VOC / PCK arithmetic (C16), checked by TLC for every
   instance with 1..MaxPairs matched pairs (match scores on a 6-level lattice that avoids the
   thresholds, in every order = every detection-score ordering), 0..MaxFN false negatives and three
   tie-resolution sets H; plus all-perfect instances; plus all distance tables over a small lattice:
     - precision at every recall threshold, hence AP, is non-increasing in the match threshold;
     - recall (AR) is non-increasing in the match threshold;
     - every precision and recall is a ratio in [0, 1];
     - all match scores 1 and no false negative => every precision and recall equals 1;
     - PCK counts are non-decreasing in the pixel threshold and bounded by the number of visible
       keypoints; zero distances => PCK count = number of non-NaN entries at every threshold. *)
EXTENDS Eval
CONSTANTS MaxPairs, MaxFN
VARIABLES vI, pI
LevelVals == {450000000, 520000000, 630000000, 770000000, 880000000, 970000000}
TieHiMeasured == {35, 41, 47, 57, 69, 70, 82, 83, 94, 95}
Hs == {{}, 1..99, TieHiMeasured}
DVals == {0 - 1, 0, 15, 16, 17, 143, 144, 1700}
NoV == [oks |-> <<One9>>, nfn |-> 0, H |-> {}]
NoP == <<<<0, 0>>>>
\* instances are built one pair at a time (every prefix is itself an instance), so that the
\* invariants are evaluated by all workers
Init == /\ mI = <<>> /\ avail = {} /\ todo = {} /\ pairs = <<>>
        /\ \/ \E v \in LevelVals \cup {One9} : \E f \in 0..MaxFN : \E h \in Hs :
                vI = [oks |-> <<v>>, nfn |-> f, H |-> h] /\ pI = NoP
           \/ \E d \in [1..2 -> DVals] : vI = NoV /\ pI = <<d>>
AddPair == /\ pI = NoP
           /\ \/ /\ Len(vI.oks) < MaxPairs
                 /\ \A i \in DOMAIN vI.oks : vI.oks[i] # One9
                 /\ \E v \in LevelVals : vI' = [vI EXCEPT !.oks = Append(@, v)]
              \/ /\ Len(vI.oks) < MaxPairs + 2
                 /\ \A i \in DOMAIN vI.oks : vI.oks[i] = One9
                 /\ vI' = [vI EXCEPT !.oks = Append(@, One9)]
           /\ UNCHANGED <<pI, mvars>>
AddDistRow == /\ pI # NoP /\ Len(pI) < 2
              /\ \E d \in [1..2 -> DVals] : pI' = Append(pI, d)
              /\ UNCHANGED <<vI, mvars>>
Next == AddPair \/ AddDistRow

Npig == Len(vI.oks) + vI.nfn
\* the 6-level lattice separates the ten thresholds 0.50..0.95 into five classes
\* {.50} {.55,.60} {.65,.70,.75} {.80,.85} {.90,.95}; one representative each (same rows otherwise)
J == <<1, 2, 4, 7, 9>>
Rows == Tup([x \in 1..5 |-> VocRow(vI.oks, Npig, Thr9(J[x]), vI.H)])
PrecisionNonIncreasing(R) == \A x \in 1..4 : \A k \in 1..101 : RatGE(PrecAt(R[x], k), PrecAt(R[x + 1], k))
APNonIncreasing(R) == LET S == Tup([x \in 1..5 |-> RowSumQ(R[x], 7)]) IN \A x \in 1..4 : S[x] >= S[x + 1]
ARNonIncreasing(R) == \A x \in 1..4 : R[x].tp >= R[x + 1].tp
\* every reported precision is an envelope entry or 0
RatiosBounded(R) ==
    \A x \in 1..5 : /\ R[x].tp >= 0 /\ R[x].tp <= Npig
                     /\ \A i \in DOMAIN R[x].env : R[x].env[i][1] >= 0 /\ R[x].env[i][1] <= R[x].env[i][2] /\ R[x].env[i][2] > 0
                     /\ \A k \in 1..101 : R[x].idx[k] \in 0..Len(R[x].env)
PerfectIsFixedPoint(R) ==
    ((\A i \in DOMAIN vI.oks : vI.oks[i] = One9) /\ vI.nfn = 0) =>
        \A x \in 1..5 : /\ R[x].tp = Npig
                         /\ \A k \in 1..101 : R[x].idx[k] # 0
                         /\ \A i \in DOMAIN R[x].env : R[x].env[i][1] = R[x].env[i][2]
\* one evaluation of the rows per state; the value names the first theorem that fails
VocTheorem ==
    LET R == Rows
    IN IF ~PrecisionNonIncreasing(R) THEN "precision_increases_with_match_threshold"
       ELSE IF ~APNonIncreasing(R) THEN "AP_increases_with_match_threshold"
       ELSE IF ~ARNonIncreasing(R) THEN "AR_increases_with_match_threshold"
       ELSE IF ~RatiosBounded(R) THEN "ratio_outside_0_1"
       ELSE IF ~PerfectIsFixedPoint(R) THEN "perfect_not_fixed_point"
       ELSE "ok"
VocTheoremsHold == pI = NoP => VocTheorem = "ok"
PckMonotoneAndBounded ==
    LET vis == Cardinality({<<i, n>> \in (DOMAIN pI) \X (1..2) : pI[i][n] >= 0})
    IN /\ \A k \in 1..9 : PckLo(pI, k) <= PckLo(pI, k + 1) /\ PckHi(pI, k) <= PckHi(pI, k + 1)
       /\ \A k \in 1..10 : PckLo(pI, k) <= PckHi(pI, k) /\ PckHi(pI, k) <= vis
PckPerfect ==
    (\A i \in DOMAIN pI : \A n \in 1..2 : pI[i][n] <= 0) =>
        \A k \in 1..10 : PckLo(pI, k) = Cardinality({<<i, n>> \in (DOMAIN pI) \X (1..2) : pI[i][n] = 0})
=============================================================================
