---------------------------- MODULE Judge_C06 ----------------------------
(* Conformance of find_local_peaks_rough / find_local_peaks (C06).  One case = one call on one batch
   (c.s samples x c.c channels of c.h x c.w maps, threshold c.thr) with everything the real
   functions returned: c.rough (find_local_peaks_rough), c.none (find_local_peaks, refinement=None),
   c.ref = <<[p |-> patch size, rows |-> find_local_peaks(refinement="integral")]>>.
   The verdict is the first failing clause, prefixed by the function it was observed on.
   Rejected ids are kept per clause (cap 25 per clause and JVM) so that a frequent clause can never
   hide a rare one; per-clause totals are reported as pseudo entries <<"#clause", "count">>.       *)
EXTENDS Peaks, Verdict, Json, IOUtils
Cases == JsonDeserialize(IOEnv.TRACE_FILE)
ASSUME VInit /\ TLCSet(4, {})
VARIABLE i
Init == i = 0 /\ map = <<>> /\ thr = 0 /\ psize = 0 /\ stage = "judge" /\ peaks = {} /\ offs = <<>> /\ gpk = <<>> /\ goffs = <<>>
Next == i < Len(Cases) /\ i' = i + 1 /\ UNCHANGED pvars

Pfx(p, cl) == IF cl = "ok" THEN "ok" ELSE p \o ":" \o cl
\* the degenerate-patch clauses are reported only when nothing else is wrong with the case, so that
\* they can never hide a different violation in the same batch
Degenerate == {"refine_bound_negative_patch", "refine_zero_patch"}
Clause(c) ==
    IF c.raised # "" THEN "call:raised"
    ELSE LET r == LocalRoughClause(c, c.rough)
         IN IF r # "ok" THEN Pfx("rough", r)
            ELSE IF c.none # c.rough THEN "none:norefine_differs_from_rough"
            ELSE LET cl == [k \in 1..Len(c.ref) |-> LocalRefineClause(c, c.rough, c.ref[k].p, c.ref[k].rows)]
                     bad == {k \in 1..Len(c.ref) : cl[k] # "ok"}
                     serious == {k \in bad : cl[k] \notin Degenerate}
                 IN IF bad = {} THEN "ok"
                    ELSE LET k == IF serious # {} THEN Min(serious) ELSE Min(bad)
                         IN Pfx("p" \o ToString(c.ref[k].p), cl[k])

PGive(id, clause) ==
    IF clause = "ok" THEN VAccept
    ELSE LET cnt == TLCGet(4)
             old == {t \in cnt : t[1] = clause}
             n == IF old = {} THEN 0 ELSE (CHOOSE t \in old : TRUE)[2]
         IN /\ TLCSet(3, TLCGet(3) + 1)
            /\ TLCSet(4, (cnt \ old) \cup {<<clause, n + 1>>})
            /\ IF n < 25 THEN TLCSet(1, TLCGet(1) \cup {<<ToString(id), clause>>}) ELSE TRUE
Check == i >= 1 => PGive(Cases[i].id, Clause(Cases[i]))
Report == PrintT(<<"VERDICT", TLCGet(2), TLCGet(3), TLCGet(1) \cup {<<"#" \o t[1], ToString(t[2])>> : t \in TLCGet(4)}>>)
=============================================================================
