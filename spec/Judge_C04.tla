---------------------------- MODULE Judge_C04 ----------------------------
(* find_instance_crop_size (C04): every recorded (largest instance extent, padding, stride, min_crop_size, result)
   is judged by CropSizeClause of Geometry.tla: a multiple of the stride that covers the largest (scaled)
   instance plus padding, at least min_crop_size, and the smallest such multiple; a usable user-specified
   size (positive multiple of the stride) is returned as is. *)
EXTENDS Geometry, Verdict, Json, IOUtils
Cases == JsonDeserialize(IOEnv.TRACE_FILE)
ASSUME VInit
VARIABLE i
Init == i = 0 /\ cfg = <<>> /\ pc = 0 /\ img = <<>> /\ pts = <<>> /\ cen = <<>>
Next == i < Len(Cases) /\ i' = i + 1 /\ UNCHANGED gvars
Clause(c) == IF c.raised # "" THEN "raised"
             ELSE CropSizeClause(c.extent64, c.padding, c.stride, c.minCrop, c.got)
Check == i >= 1 => VGive(Cases[i].id, Clause(Cases[i]))
Report == VReport
=============================================================================
