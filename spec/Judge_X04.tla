---------------------------- MODULE Judge_X04 ----------------------------
(* Extension X04: inference composed with evaluation.  Predictions of an ideal network (InferPlane: every visible keypoint
   decoded within TightBound of its label, one instance per labelled animal) are handed, as the sio.Labels the predictor
   builds, to the real Evaluator together with the labels they were computed from.  Then
     - the evaluation does not raise and pairs every labelled animal (no false negative, no ground-truth instance lost),
     - the per-keypoint distance the Evaluator reports for a visible keypoint is within the inference bound
       (d^2 <= TightBound_x^2 + TightBound_y^2), is missing exactly for keypoints missing in the labels or the prediction.
   A case is one (configuration, provider) run: animals = sequence of [kps: seq of [kx, ky, vis]] in the order of the
   Evaluator's positive pairs (the driver maps a pair to its labelled animal by object identity), d = per pair, per node
   [d (1/U px), nan]; n_animals = labelled animals with a visible node; fn = false negatives reported.  own = the pair is an
   animal with its own prediction (mutually nearest in the frame, by plain distance): the inference bound speaks about those;
   for tiny animals, whose OKS values all underflow, the Evaluator's greedy choice may pair neighbours. *)
EXTENDS InferPlane, Verdict, Json, IOUtils
Cases == JsonDeserialize(IOEnv.TRACE_FILE)
ASSUME VInit
VARIABLE i
Init == i = 0 /\ cfg = <<>> /\ stage = "" /\ hw = <<>> /\ pos = <<>> /\ peak = <<>> /\ dec = <<>>
Next == i < Len(Cases) /\ i' = i + 1 /\ UNCHANGED ivars
Sq(x) == x * x
Clause(c) ==
    IF c.raised # "" THEN "predict_or_evaluate_raised"
    ELSE IF c.fn # 0 THEN "labelled_animal_not_matched"
    ELSE IF Len(c.pairs) # c.n_animals THEN "pair_count"
    ELSE IF \E k \in 1..Len(c.pairs) : c.pairs[k].animal = 0 THEN "pair_with_unknown_ground_truth_instance"
    ELSE IF \E k, l \in 1..Len(c.pairs) : k # l /\ c.pairs[k].animal = c.pairs[l].animal /\ c.pairs[k].frame = c.pairs[l].frame THEN "ground_truth_instance_paired_twice"
    ELSE IF \E k \in 1..Len(c.pairs) : \E n \in 1..Len(c.pairs[k].kps) :
              LET q == c.pairs[k].kps[n] IN q.vis /\ q.dnan THEN "visible_keypoint_has_no_distance"
    ELSE IF \E k \in 1..Len(c.pairs) : \E n \in 1..Len(c.pairs[k].kps) :
              LET q == c.pairs[k].kps[n] IN ~q.vis /\ ~q.dnan THEN "distance_for_missing_keypoint"
    ELSE IF \E k \in 1..Len(c.pairs) : \E n \in 1..Len(c.pairs[k].kps) :
              LET q == c.pairs[k].kps[n]
                  fc == c.pairs[k].cfg
              IN q.vis /\ c.pairs[k].own /\ Sq(q.d \div 4) > Sq(TightBound(fc, q.kx, 2, fc.s) \div 4 + 1) + Sq(TightBound(fc, q.ky, 1, fc.s) \div 4 + 1)
         THEN "distance_beyond_inference_bound"
    ELSE "ok"
Check == i >= 1 => VGive(Cases[i].id, Clause(Cases[i]))
Report == VReport
=============================================================================
