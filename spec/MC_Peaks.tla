------------------------------ MODULE MC_Peaks ------------------------------
(* Design check for C06 / C07: every map over {-1, 0, 1, 2} on the small shapes (Level 0: 2x2; Level 1: 1x1, 1x2, 1x3,
   2x1, 3x1, 2x2, 2x3; Level 2: + 3x2, 1x4, 4x1; the 3x3 patch space is covered by MC_PeaksPatch: TLC computes
   initial states sequentially, 1.5 M of them is not worth 15 CPU-minutes), every threshold in {-2, 0, 1}, patch sizes 3 and 5, through
   the rough and refine steps of the local and of the global detector.
   Next          : the detectors as specified - all invariants must hold.
   NextAsCoded   : global rough step with independently taken x / y arg-max (the pinned code) -
                   GlobalRoughOK MUST be violated (tied maxima off the diagonal).
   LocalRefineBoundAll (bound without the non-negativity premise) MUST be violated: the half-patch
   bound is not a property of the integral estimate on patches with negative weights.              *)
EXTENDS Peaks
CONSTANT Level
ValSet == {-1, 0, 1, 2}
QuickShapes == {<<1, 1>>, <<1, 2>>, <<1, 3>>, <<2, 1>>, <<3, 1>>, <<2, 2>>, <<2, 3>>}
SmallShapes == QuickShapes \cup {<<3, 2>>, <<1, 4>>, <<4, 1>>}
Shapes == IF Level = 0 THEN {<<2, 2>>} ELSE IF Level = 1 THEN QuickShapes ELSE SmallShapes
MapsOf(s) == {[h |-> s[1], w |-> s[2], v |-> f] : f \in [1..(s[1] * s[2]) -> ValSet]}
MapSpace == UNION {MapsOf(s) : s \in Shapes}
Init == PInit(MapSpace, {-2, 0, 1}, {3, 5})
Next == PNext
NextLocal == LocalRough \/ LocalRefine
NextGlobal == GlobalRough \/ GlobalRefine
NextAsCoded == PNextAsCoded

\* non-vacuity of the premises (evaluated once): a non-negative patch with a non-zero offset, an
\* x-symmetric patch that is not y-symmetric, a tie, an all-below-threshold map exist in the space
ASSUME \E m \in MapsOf(<<2, 2>>) : \E c \in Cells(m) :
          PatchNonNeg(m, c, 3) /\ Den(m, c, 3) > 0 /\ NumX(m, c, 3) # 0 /\ NumY(m, c, 3) # 0
ASSUME \E m \in MapsOf(<<2, 3>>) : \E c \in LocalPeaks(m, 0) :
          PatchSymX(m, c, 3) /\ ~PatchSymY(m, c, 3) /\ Den(m, c, 3) # 0
ASSUME \E m \in MapsOf(<<2, 2>>) : Cardinality(MaxCells(m)) = 2 /\ MaxVal(m) >= 1
ASSUME \E m \in MapsOf(<<2, 2>>) : MaxVal(m) < 1
=============================================================================
