---------------------------- MODULE Trace_FrameStream ----------------------------
(* Batch trace validation for FrameStream: each trace is [id, cfg, ev] where ev is a sequence of
   <<kind, arg>> events recorded from free-running reader / consumer threads (sequence numbers taken
   under the queue mutex).  Every event must be the corresponding FrameStream action from the current
   state, every C13 invariant must hold in every state of the trace, and the trace must end in the
   terminal state (a hang ends earlier and is rejected as not_terminated). *)
EXTENDS FrameStream, Verdict, Json, IOUtils
Traces == JsonDeserialize(IOEnv.TRACE_FILE)
ASSUME VInit
VARIABLES tid, l
tvars == <<vars, tid, l>>

Ev == Traces[tid].ev
Init == /\ tid \in 1..Len(Traces)
        /\ l = 1
        /\ FSInit({Traces[tid].cfg})

IsEvent(k) == l <= Len(Ev) /\ Ev[l][1] = k /\ l' = l + 1 /\ tid' = tid
\* args are frame positions (1-based); -1 stands for the end-of-stream marker in "get"
TRead     == IsEvent("read") /\ Ev[l][2] = pi /\ pi # cfg.fail /\ ProdRead
TReadFail == IsEvent("readfail") /\ Ev[l][2] = pi /\ pi = cfg.fail /\ ProdRead
TPut      == IsEvent("put") /\ Ev[l][2] = pi /\ ProdPut
TEOS      == IsEvent("eos") /\ ProdEOS
TGet      == IsEvent("get") /\ q # <<>> /\ Ev[l][2] = (IF Head(q) = EOS THEN -1 ELSE Head(q)) /\ ConsGet
TInfer    == IsEvent("infer") /\ Ev[l][2] = batch /\ ConsInfer
TJoin     == IsEvent("join") /\ ConsJoin
TEnd      == IsEvent("end") /\ cpc = "end" /\ UNCHANGED vars
Next == TRead \/ TReadFail \/ TPut \/ TEOS \/ TGet \/ TInfer \/ TJoin \/ TEnd

Inv == IF ~TypeOK THEN "TypeOK" ELSE IF ~InOrderOnce THEN "InOrderOnce" ELSE IF ~OneEOS THEN "OneEOS"
       ELSE IF ~FullBatches THEN "FullBatches" ELSE IF ~AtEnd THEN "AtEnd" ELSE IF ~Bounded THEN "Bounded"
       ELSE IF ~NothingAfterEOS THEN "NothingAfterEOS" ELSE "ok"

Check ==
    LET id == Traces[tid].id IN
    IF Inv # "ok" THEN VReject(id, Inv) /\ FALSE
    ELSE IF l > Len(Ev)
         THEN IF cpc = "end" /\ Len(Ev) > 0 /\ Ev[Len(Ev)][1] = "end" THEN VAccept ELSE VReject(id, "not_terminated") /\ FALSE
         ELSE IF ENABLED Next THEN TRUE ELSE VReject(id, "no_spec_step_for_event_" \o ToString(l) \o "_" \o Ev[l][1]) /\ FALSE
Report == VReport
=============================================================================
