-------------------------- MODULE MC_PeaksCaseSpace --------------------------
(* Exhaustiveness of the C06 / C07 replay, decided by TLC: for every shape the driver claims to have
   fed completely, the set of maps it fed to the real code equals the spec's case space
   [1..h*w -> {-1, 0, 1, 2}]; for sampled shapes it is a subset of it.
   Fed = <<[h, w, full, maps], ...>> is written by the driver from the cases it actually ran.      *)
EXTENDS Peaks, Json, IOUtils
Fed == JsonDeserialize(IOEnv.TRACE_FILE)
ValSet == {-1, 0, 1, 2}
Space(k) == [1..(Fed[k].h * Fed[k].w) -> ValSet]
FedSet(k) == {Fed[k].maps[j] : j \in 1..Len(Fed[k].maps)}
ASSUME PrintT(<<"CASESPACE", [k \in 1..Len(Fed) |-> <<Fed[k].h, Fed[k].w, Fed[k].full, Cardinality(FedSet(k)), Cardinality(Space(k))>>]>>)
ASSUME CaseSpaceCovered == \A k \in 1..Len(Fed) : IF Fed[k].full THEN FedSet(k) = Space(k) ELSE FedSet(k) \subseteq Space(k)
Init == PInit({[h |-> 1, w |-> 1, v |-> <<0>>]}, {0}, {3})
Next == UNCHANGED pvars
=============================================================================
