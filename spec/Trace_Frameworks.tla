---------------------------- MODULE Trace_Frameworks ----------------------------
(* Batch validation of the three REAL data frameworks against the theorem of Frameworks.tla (C18).  One trace per
   (configuration, sample index) - kind "sample" - and one per configuration - kind "config":

     cfg     the configuration of the run in the spec's terms: model, size of THIS frame (h, w), maxH / maxW, scale sn/sd,
             max stride m, crop size cr, anchor (0: None, else node number), output strides os / ps, and the labels kp0
             <<x64, y64, visible, animal, node>> of the frame (centered: of the cropped animal only)
     n       <<#samples InMemory, NpChunks, ChunkStream>>       raised  <<exception text or "">> per framework
     ks      1: the three frameworks returned samples for the same set of (video_idx, frame_idx, occurrence) keys
     obs     per framework, measured on the sample dict the real code returned:
               ih, iw, ic     image size and channels
               kp             the keypoints / centroids the targets are drawn from: <<round(x*64), round(y*64), v>>
                              (v = 0: NaN, 2: not representable), flattened in tensor order;  krank: tensor rank
               tsh            shapes of the target tensors
     ninst   the num_instances field of the three samples (metadata: recorded as a note, not judged)
     eq      pairwise allclose FLAGS computed by the harness (never hashes of rounded floats), pairs in the order
             <<InMemory~NpChunks, InMemory~ChunkStream, NpChunks~ChunkStream>>:
               img   |a - b| <= 1/255 + 1e-6 everywhere (the 8-bit quantisation the property allows)
               tgt   per target tensor, |a - b| <= 1e-4 (targets come from float32 keypoints that are never quantised)

   TLC runs the three spec behaviours of exactly this configuration (the actions of Frameworks.tla / Geometry.tla),
   which yields the INSTANCE of the theorem for this configuration - Demanded(cfg) and the three specified final samples -
   and then judges the observation:
     * Demanded(cfg):  the three observed samples must agree - sample counts, image shape, number of keypoints,
       keypoints (2 quanta of 1/64 px), image flags, target shapes and flags; nothing may raise in one framework only.  First failing clause,
       by name, else accepted.  The spec's own three samples must agree too (else the spec is wrong: reported as
       spec_theorem_fails_on_instance, which the driver treats as a machinery failure, not as a finding).
     * ~Demanded(cfg) (centered-instance at scale # 1: the property is silent): accepted; what differs is recorded as a
       note (silent_<clause>), never an alarm.
   Notes (counted per shard, reported as <<-count, note>>): agreement, silent divergences, whether the observed image
   size and keypoints are the ones the spec's behaviour ends with (spec_conforms / spec_conformance_differs_* - the
   spec is C04's as-coded arithmetic; a difference there is not a C18 matter and never alarms), keypoint tensor rank. *)
EXTENDS Frameworks, Verdict, Json, IOUtils
Traces == JsonDeserialize(IOEnv.TRACE_FILE)
ASSUME VInit /\ TLCSet(4, <<>>) /\ TLCSet(5, <<>>)
Bump(f, c) == [x \in (DOMAIN f) \cup {c} |-> IF x = c THEN (IF c \in DOMAIN f THEN f[c] ELSE 0) + 1 ELSE f[x]]
\* examples are kept per clause (<= 25 each) so that one frequent clause cannot crowd out another
TReject(id, clause) ==
    /\ TLCSet(3, TLCGet(3) + 1)
    /\ TLCSet(4, Bump(TLCGet(4), clause))
    /\ IF TLCGet(4)[clause] <= 25 THEN TLCSet(1, TLCGet(1) \cup {<<id, clause>>}) ELSE TRUE
Note(n) == TLCSet(5, Bump(TLCGet(5), n))

VARIABLE tid
tvars == <<fvars, tid>>
T == Traces[tid]
SpecModel(m) == CASE m = "single_instance" -> "single" [] m = "centroid" -> "centroid"
                  [] m = "centered_instance" -> "centered" [] m = "bottomup" -> "bottomup"
CfgOf(c) == LET base == [mode |-> "frameworks", model |-> SpecModel(c.model), block |-> "-", h |-> c.h, w |-> c.w,
                         maxH |-> c.maxH, maxW |-> c.maxW, sn |-> c.sn, sd |-> c.sd, m |-> c.m, crH |-> c.cr, crW |-> c.cr,
                         anchor |-> c.anchor, inst |-> 1, os |-> c.os, ps |-> c.ps, tie |-> 0,
                         track |-> IF c.model = "centroid" THEN "centroids" ELSE "keypoints", kp0 |-> c.kp0]
            IN [x \in (DOMAIN base) \cup {"pipe"} |-> IF x = "pipe" THEN PipeOf(base) ELSE base[x]]
Init == tid \in 1..Len(Traces) /\ FInit({CfgOf(Traces[tid].cfg)})
Next == FNext /\ tid' = tid

\* ------------------------------------------------------------------ clauses on the observation ----
Pairs == << <<1, 2>>, <<1, 3>>, <<2, 3>> >>
PairName(p) == FwNames[Pairs[p][1]] \o "_" \o FwNames[Pairs[p][2]]
O(f) == T.obs[f]
KpSame(a, b) == /\ Len(a) = Len(b)
                /\ \A i \in 1..Len(a) : a[i][3] = b[i][3] /\ (a[i][3] = 1 => Abs(a[i][1] - b[i][1]) <= 2 /\ Abs(a[i][2] - b[i][2]) <= 2)
AllOnes(s) == \A i \in 1..Len(s) : s[i] = 1
PairChecks(p) ==
    LET a == O(Pairs[p][1])
        b == O(Pairs[p][2])
    IN << <<"image_shape_differs_", a.ih = b.ih /\ a.iw = b.iw /\ a.ic = b.ic>>,
          <<"keypoint_count_differs_", Len(a.kp) = Len(b.kp)>>,
          <<"keypoints_differ_", Len(a.kp) # Len(b.kp) \/ KpSame(a.kp, b.kp)>>,
          <<"images_differ_", T.eq.img[p] = 1>>,
          <<"target_shapes_differ_", a.tsh = b.tsh>>,
          <<"targets_differ_", \A j \in 1..Len(T.eq.tgt) : T.eq.tgt[j][p] = 1>> >>
\* field-major order: the most basic difference is named first
NChecks == 18
Checks == [k \in 1..NChecks |-> LET p == ((k - 1) % 3) + 1
                               f == ((k - 1) \div 3) + 1
                           IN <<PairChecks(p)[f][1] \o PairName(p), PairChecks(p)[f][2]>>]
SampleClause == IF \A k \in 1..NChecks : Checks[k][2] THEN "ok"
                ELSE Checks[CHOOSE k \in 1..NChecks : ~Checks[k][2] /\ \A j \in 1..(k - 1) : Checks[j][2]][1]
Raisers == {f \in 1..3 : T.raised[f] # ""}
ConfigClause == IF Raisers = {1, 2, 3} THEN "ok"          \* all three refuse the input: they agree
                ELSE IF Raisers # {} THEN "raised_only_in_" \o FwNames[CHOOSE f \in Raisers : \A g \in Raisers : f <= g]
                ELSE IF T.n[1] # T.n[2] \/ T.n[1] # T.n[3] THEN "sample_count_differs"
                ELSE IF T.ks # 1 THEN "sample_set_differs"          \* not the same (video, frame, occurrence) keys
                ELSE "ok"
Clause == IF T.kind = "config" THEN ConfigClause ELSE SampleClause

\* ------------------------------------------------------------------ notes: spec vs observation ----
ConformSize(f) == O(f).ih = fin[f].h /\ O(f).iw = fin[f].w
ConformKp(f) == LET o == O(f).kp
                    s == fin[f].pts
                IN /\ Len(o) = Len(s)
                   /\ \A i \in 1..Len(o) : /\ (o[i][3] = 1) = s[i].v
                                           /\ s[i].v => Abs(o[i][1] * PQ - s[i].k[1]) <= TolKp /\ Abs(o[i][2] * PQ - s[i].k[2]) <= TolKp
\* generate_centroids writes the mid point of the bounding box into a MISSING anchor node (a C11 matter, the same in
\* every framework): the spec keeps the node missing, the code returns it at the centroid
KpOff(f) == LET o == O(f).kp
                s == fin[f].pts
            IN {i \in 1..Len(s) : Len(o) = Len(s) /\ ~(/\ (o[i][3] = 1) = s[i].v
                                                        /\ s[i].v => Abs(o[i][1] * PQ - s[i].k[1]) <= TolKp /\ Abs(o[i][2] * PQ - s[i].k[2]) <= TolKp)}
OnlyMissingAnchor(f) == Len(O(f).kp) = Len(fin[f].pts) /\ \A i \in KpOff(f) : ~fin[f].pts[i].v /\ fin[f].pts[i].node = cfg.anchor
ConformNote == IF \E f \in 1..3 : ~ConformSize(f) THEN "spec_conformance_differs_image_size"
               ELSE IF \A f \in 1..3 : ConformKp(f) THEN "spec_conforms"
               ELSE IF \A f \in 1..3 : OnlyMissingAnchor(f) THEN "spec_conformance_differs_only_at_missing_anchor_node"
               ELSE "spec_conformance_differs_keypoints"
RankNote == IF O(1).krank = O(3).krank THEN "keypoint_rank_same" ELSE "keypoint_rank_differs_InMemory_ChunkStream"
NinstNote == IF T.ninst[1] = T.ninst[2] /\ T.ninst[1] = T.ninst[3] THEN "num_instances_same" ELSE "num_instances_field_differs"
SpecWhy == IF ~SameSample(fin[1], fin[2]) THEN WhyDiffer(fin[1], fin[2]) ELSE WhyDiffer(fin[1], fin[3])

Judge ==
    LET id == T.id
        c == Clause
    IN IF Demanded(cfg) /\ ~AllSame THEN TReject(id, "spec_theorem_fails_on_instance_" \o SpecWhy)
       ELSE /\ IF T.kind = "sample" THEN Note(ConformNote) /\ Note(RankNote) /\ Note(NinstNote) ELSE TRUE
            /\ IF ~Demanded(cfg) THEN Note("spec_diverges_in_" \o SpecWhy) ELSE TRUE
            /\ IF c = "ok" THEN VAccept /\ Note(IF Demanded(cfg) THEN "agree_" \o T.kind ELSE "silent_agree_" \o T.kind)
               ELSE IF Demanded(cfg) THEN TReject(id, c)
               ELSE VAccept /\ Note("silent_" \o c)
Check == IF Done THEN Judge /\ FALSE
         ELSE IF ENABLED FNext THEN TRUE ELSE TReject(T.id, "spec_stuck_before_" \o Stage) /\ FALSE
Report == /\ TLCSet(1, TLCGet(1) \cup {<<0 - TLCGet(4)[c], c>> : c \in DOMAIN TLCGet(4)}
                              \cup {<<0 - TLCGet(5)[c], "note:" \o c>> : c \in DOMAIN TLCGet(5)})
          /\ VReport
=============================================================================
