"""In-memory sio.Labels with array-backed videos (no files, any dtype / size / channel count).

    labels = make_labels([
        dict(image=HxWxC ndarray, instances=[(n_nodes, 2) float arrays, NaN = not visible], video=0),
        ...
    ], n_nodes=3)

* `video` groups frames into videos (default: all frames in video 0); frames of one video should have one
  size (sio reports `video.shape` from the first frame; the datasets size images per frame anyway).
* The frames keep the dtype they are given: a float32 image passes `apply_normalization` unchanged,
  a uint8 image is divided by 255 by the code under test.
* `Video.close()` (called by every Dataset._fill_cache) is a no-op, so the same Labels object can feed
  several datasets; nothing touches the file system.

Reusable by any check that needs real `sio.Labels` / `LabeledFrame` / `Instance` objects (custom_datasets,
providers.process_lf, find_instance_crop_size, LabelsReader).
"""
import numpy as np
import sleap_io as sio


class ArrayBackend:
    """Quacks like a sleap_io VideoBackend for what sio.Video and sleap_nn use: shape, [], close."""

    dataset = None
    fps = None
    keep_open = True

    def __init__(self, frames, name="mem"):
        self.frames = list(frames)
        self.filename = name
        self.grayscale = self.frames[0].shape[-1] == 1

    @property
    def shape(self):
        f0 = self.frames[0]
        return (len(self.frames), int(f0.shape[0]), int(f0.shape[1]), int(f0.shape[2]))

    @property
    def num_frames(self):
        return len(self.frames)

    def __len__(self):
        return len(self.frames)

    def __getitem__(self, i):
        if isinstance(i, (list, tuple, np.ndarray)):
            return np.stack([self.frames[int(k)] for k in i])
        return self.frames[int(i)]

    def get_frame(self, i):
        return self.frames[int(i)]

    def has_frame(self, i):
        return 0 <= int(i) < len(self.frames)

    def close(self):
        pass


class ArrayVideo(sio.Video):
    """sio.Video whose backend is an ArrayBackend; never closes, never looks at the file system."""

    def close(self):
        pass

    def open(self, *a, **k):
        pass

    def exists(self, *a, **k):
        return True


def make_skeleton(n_nodes, edges=None):
    names = ["n%d" % i for i in range(n_nodes)]
    if edges is None:
        edges = [(i, i + 1) for i in range(n_nodes - 1)]
    return sio.Skeleton(nodes=names, edges=[(names[a], names[b]) for a, b in edges])


def make_labels(frames, n_nodes=None, edges=None, skeleton=None, stale_hidden=False):
    """Build sio.Labels.  frames: list of dict(image, instances, video=0).  Returns Labels whose
    labeled_frames are in the order given; frame_idx is the position of the frame inside its video.
    stale_hidden: a missing (NaN) node keeps stale coordinates in the Instance and is marked not visible - what the SLEAP
    GUI stores for a hidden node; Instance.numpy() still says NaN, so it is exactly as missing as before."""
    if skeleton is None:
        if n_nodes is None:
            n_nodes = int(np.asarray(frames[0]["instances"][0]).shape[0])
        skeleton = make_skeleton(n_nodes, edges)
    by_video = {}
    for f in frames:
        by_video.setdefault(int(f.get("video", 0)), []).append(f)
    videos = {}
    for vid in sorted(by_video):
        imgs = [np.asarray(f["image"]) for f in by_video[vid]]
        videos[vid] = ArrayVideo(filename="mem://video%d" % vid, backend=ArrayBackend(imgs, "mem://video%d" % vid),
                                 open_backend=True)
    counters = {vid: 0 for vid in videos}
    lfs = []
    for f in frames:
        vid = int(f.get("video", 0))
        insts = [sio.Instance.from_numpy(np.asarray(p, dtype="float64"), skeleton=skeleton) for p in f["instances"]]
        if stale_hidden:
            h_, w_ = np.asarray(f["image"]).shape[:2]
            for inst, p in zip(insts, f["instances"]):
                for n, row in enumerate(np.asarray(p, dtype="float64")):
                    if np.isnan(row).any():
                        inst.points["xy"][n] = (w_ / 2.0 + n, h_ / 2.0 - n)
                        inst.points["visible"][n] = False
        lfs.append(sio.LabeledFrame(video=videos[vid], frame_idx=counters[vid], instances=insts))
        counters[vid] += 1
    return sio.Labels(videos=[videos[v] for v in sorted(videos)], skeletons=[skeleton], labeled_frames=lfs)
