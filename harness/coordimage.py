"""Coordinate-coded images and least-squares recovery of the affine map applied to image CONTENT.

A coordinate-coded image is a float RGB image whose pixel at column x, row y (original pixel
coordinates, pixel centres at integers - the SLEAP keypoint convention) has

        R = x / unit        G = y / unit        B = 1            (unit = 256 by default)

Any pipeline of resizes, zero paddings, crops and affine warps that interpolates linearly keeps
(R, G) equal to the original coordinates of the content now shown at an output pixel, and keeps
B = 1 exactly where the output pixel is made of image content only (B < 1 where zero padding was
blended in, B = 0 in padding).  So, without trusting the code under test, the harness can MEASURE

  * the valid (non padding) region:   pixels with B > thresh,
  * the affine map output pixel (u, v) -> original (x, y):   (x, y) = A (u, v) + b   (least squares
    over the valid pixels), and its inverse, the forward content map (u, v) = M (x, y) + t.

Pixels whose decoded original coordinates lie within `rim` original pixels of the border of the
original image are excluded from the fit (second pass): resizes clamp / truncate their kernels at the
image border, so those pixels do not follow the affine map of the interior (measured: without the
rim a x3.76 bilinear upscale biases t by 0.15 px; with it the fit agrees with the analytic
half-pixel-centre map to < 0.01 px).

Nothing here computes an expected value or a verdict: these are measurements that are projected to
small integers (`project`) and judged by TLC.  Self-contained: numpy only.
"""
import numpy as np

UNIT = 256.0
THRESH = 0.999


def coord_image(h, w, unit=UNIT, dtype=np.float32):
    """HxWx3 float image, R = x/unit, G = y/unit, B = 1.  Needs max(h, w) <= unit (values in [0, 1])."""
    if max(h, w) > unit:
        raise ValueError("coordinate-coded image larger than unit=%s" % unit)
    img = np.empty((h, w, 3), dtype=dtype)
    img[..., 0] = (np.arange(w, dtype=np.float64) / unit)[None, :]
    img[..., 1] = (np.arange(h, dtype=np.float64) / unit)[:, None]
    img[..., 2] = 1.0
    return img


def _chw(img):
    a = img.detach().cpu().numpy() if hasattr(img, "detach") else np.asarray(img)
    a = a.astype(np.float64)
    while a.ndim > 3:
        if a.shape[0] != 1:
            raise ValueError("expected singleton leading dims, got %s" % (a.shape,))
        a = a[0]
    if a.ndim != 3:
        raise ValueError("expected (..., C, H, W), got %s" % (a.shape,))
    return a


class Fit:
    """Result of fit_content.  All fields are measurements.

    ok        False when the image is not decodable (not 3 channels, < min_pixels valid pixels,
              degenerate geometry); then only h, w, c, n_valid, box are meaningful
    h, w, c   output size and channel count
    box       (x0, y0, x1, y1) inclusive bounding box of the valid pixels (B > thresh), or None
    n_valid   number of valid pixels; n_used: pixels used in the final fit
    A, b      (x, y) = A (u, v) + b     output pixel -> original coordinates
    M, t      (u, v) = M (x, y) + t     original coordinates -> output pixel (inverse of the above)
    res_orig  rms residual of the fit in original pixels;  res_out: the same mapped to output pixels
    scale     sqrt |det M|  (output pixels per original pixel)
    """

    def __init__(self, h, w, c):
        self.ok, self.h, self.w, self.c = False, h, w, c
        self.box, self.n_valid, self.n_used = None, 0, 0
        self.A = self.b = self.M = self.t = None
        self.res_orig = self.res_out = self.scale = float("nan")

    def forward(self, xy):
        """Where the content that was at original (x, y) is found in the output (float)."""
        return self.M @ np.asarray(xy, dtype=np.float64) + self.t


def _lsq(us, vs, x, y):
    U = np.stack([us, vs, np.ones_like(us)], 1)
    sx, *_ = np.linalg.lstsq(U, x, rcond=None)
    sy, *_ = np.linalg.lstsq(U, y, rcond=None)
    A = np.array([[sx[0], sx[1]], [sy[0], sy[1]]])
    b = np.array([sx[2], sy[2]])
    res = float(np.sqrt(np.mean((U @ sx - x) ** 2 + (U @ sy - y) ** 2)))
    return A, b, res


def fit_content(img, orig_hw=None, unit=UNIT, thresh=THRESH, min_pixels=12, rim=None):
    """Measure the content map of a (..., 3, H, W) image derived from coord_image(*orig_hw).

    orig_hw: size of the original coordinate-coded image (enables the rim exclusion); rim: width in
    original pixels of the excluded border band (default max(1, 1.5 / scale) + 0.01, scale from the
    first pass).
    """
    a = _chw(img)
    c, h, w = a.shape
    f = Fit(h, w, c)
    if c != 3:
        return f
    mask = a[2] > thresh
    f.n_valid = int(mask.sum())
    if f.n_valid == 0:
        return f
    vs, us = np.nonzero(mask)
    f.box = (int(us.min()), int(vs.min()), int(us.max()), int(vs.max()))
    if f.n_valid < min_pixels:
        return f
    us = us.astype(np.float64)
    vs = vs.astype(np.float64)
    x = a[0][mask] * unit
    y = a[1][mask] * unit
    if np.ptp(us) == 0 or np.ptp(vs) == 0:
        return f
    A, b, res = _lsq(us, vs, x, y)
    n_used = len(us)
    if orig_hw is not None:
        det = abs(np.linalg.det(A))
        if det > 1e-9:
            sc = 1.0 / np.sqrt(det)
            r = (max(1.0, 1.5 / sc) + 0.01) if rim is None else rim
            oh, ow = orig_hw
            keep = (x > r) & (x < ow - 1 - r) & (y > r) & (y < oh - 1 - r)
            if keep.sum() >= min_pixels and np.ptp(us[keep]) > 0 and np.ptp(vs[keep]) > 0:
                A, b, res = _lsq(us[keep], vs[keep], x[keep], y[keep])
                n_used = int(keep.sum())
    det = np.linalg.det(A)
    if not np.isfinite(det) or abs(det) < 1e-9:
        return f
    M = np.linalg.inv(A)
    f.A, f.b, f.M, f.t = A, b, M, -M @ b
    f.n_used = n_used
    f.res_orig = res
    f.scale = float(1.0 / np.sqrt(abs(det)))
    f.res_out = res * f.scale
    f.ok = True
    return f


def q(x, den):
    """Project a float to an integer numerator over `den` (round half away is irrelevant: measurement)."""
    return int(round(float(x) * den))


def project(f, den_lin=4096, den_off=256):
    """Integer projection of a Fit for the TLC bridge.

    M, A (linear parts) as numerators over den_lin (row-major 4-vectors), t, b over den_off,
    residuals in 1/256 px, box as integers (or [0, 0, -1, -1] when empty).  fit = 1 iff decodable.
    """
    d = dict(h=f.h, w=f.w, c=f.c, fit=1 if f.ok else 0, nvalid=f.n_valid,
             box=list(f.box) if f.box else [0, 0, -1, -1],
             M=[0, 0, 0, 0], t=[0, 0], A=[0, 0, 0, 0], b=[0, 0], res=0, nused=f.n_used)
    if f.ok:
        # bounds keep every product formed by the TLA+ side below 2^31
        if (np.all(np.abs(f.M * den_lin) < 2 ** 16) and np.all(np.abs(f.A * den_lin) < 2 ** 14)
                and np.all(np.abs(f.t * den_off) < 2 ** 20) and np.all(np.abs(f.b * den_off) < 2 ** 20)):
            d["M"] = [q(v, den_lin) for v in f.M.ravel()]
            d["A"] = [q(v, den_lin) for v in f.A.ravel()]
            d["t"] = [q(v, den_off) for v in f.t]
            d["b"] = [q(v, den_off) for v in f.b]
            d["res"] = min(q(f.res_out, 256), 10 ** 6)
        else:
            d["fit"] = 0
    return d


def q64(v):
    """Keypoint coordinate -> integer in 1/64 px; NaN / inf are reported through `kp_project`."""
    return int(round(float(v) * 64))


def kp_project(pts, lim=2 ** 14):
    """(..., 2) float keypoints -> list of [x64, y64, v]: v = 1 finite, v = 0 NaN / inf (coordinates 0),
    v = 2 finite but |coordinate| * 64 >= lim (coordinates clipped; keeps the TLC arithmetic in 32 bits)."""
    arr = pts.detach().cpu().numpy() if hasattr(pts, "detach") else np.asarray(pts)
    arr = arr.reshape(-1, 2).astype(np.float64)
    out = []
    for x, y in arr:
        if not (np.isfinite(x) and np.isfinite(y)):
            out.append([0, 0, 0])
        elif abs(x) * 64 >= lim or abs(y) * 64 >= lim:
            out.append([int(np.clip(round(x * 64), -lim, lim)), int(np.clip(round(y * 64), -lim, lim)), 2])
        else:
            out.append([q64(x), q64(y), 1])
    return out


def kp_bits(pts):
    """float32 bit patterns of the keypoints as signed 32-bit integers (for bit-identity clauses);
    the single pattern that does not fit the JSON bridge (-0.0 = -2^31) is mapped to 0 - (2^31 - 1)."""
    arr = pts.detach().cpu().numpy() if hasattr(pts, "detach") else np.asarray(pts)
    bits = np.ascontiguousarray(arr, dtype=np.float32).reshape(-1).view(np.int32)
    return [max(int(v), -(2 ** 31 - 1)) for v in bits]
