"""pytest plugin (-p harness.pytest_trace): while the REPOSITORY'S OWN tests run, record every call of the
spec'd discrete functions (inputs and outputs) so that the same Judge_* specs that validate the drivers' cases
also validate what the existing tests exercise.  Output: JSON list at $VERIF_TRACE_OUT.  Wrapping happens at
plugin import, i.e. before any test module binds the names."""
import atexit
import json
import math
import os

RECORDS = []
Q = 1 << 16


def _conn(e, s, d, score):
    nan = not math.isfinite(float(score))
    return dict(e=int(e), s=int(s), d=int(d), q=(0 if nan else int(round(float(score) * Q))), nan=bool(nan))


def _install():
    import sleap_nn.inference.paf_grouping as pg

    orig_topo, orig_match = pg.toposort_edges, pg.match_candidates_sample

    def toposort_edges(edge_types):
        rec = dict(fn="toposort_edges", edges=[[int(e.src_node_ind), int(e.dst_node_ind)] for e in edge_types], ord=[], ord2=[], raised="")
        try:
            out = orig_topo(edge_types)
            rec["ord"] = [int(x) for x in out]
            rec["ord2"] = list(rec["ord"])
            return out
        except Exception as ex:
            rec["raised"] = "%s: %s" % (type(ex).__name__, ex)
            raise
        finally:
            RECORDS.append(rec)

    def match_candidates_sample(edge_inds_sample, edge_peak_inds_sample, line_scores_sample, n_edges):
        rec = dict(fn="match_candidates_sample", kind="match", raised="", cases=[])
        try:
            out = orig_match(edge_inds_sample, edge_peak_inds_sample, line_scores_sample, n_edges)
            me, ms, md, msc = out
            for k in range(int(n_edges)):
                sel = [i for i in range(len(edge_inds_sample)) if int(edge_inds_sample[i]) == k]
                srcs = sorted({int(edge_peak_inds_sample[i][0]) for i in sel})
                dsts = sorted({int(edge_peak_inds_sample[i][1]) for i in sel})
                cand = [_conn(0, srcs.index(int(edge_peak_inds_sample[i][0])), dsts.index(int(edge_peak_inds_sample[i][1])), float(line_scores_sample[i])) for i in sel]
                matches = [_conn(0, int(s), int(d), float(v)) for e, s, d, v in zip(me, ms, md, msc) if int(e) == k]
                rec["cases"].append(dict(cand=cand, matches=matches))
            return out
        except Exception as ex:
            rec["raised"] = "%s: %s" % (type(ex).__name__, ex)
            raise
        finally:
            RECORDS.append(rec)

    pg.toposort_edges = toposort_edges
    pg.match_candidates_sample = match_candidates_sample


def _dump():
    out = os.environ.get("VERIF_TRACE_OUT")
    if out:
        with open(out, "w") as f:
            json.dump(RECORDS, f)


_install()
atexit.register(_dump)
