"""Mutation self-test: run every mutants/<prop>_*.diff against its check; report caught / missed.
usage: python harness/selftest.py C01 C05 ...   (no args: all properties that have mutants)"""
import glob
import os
import re
import sys

sys.path.insert(0, os.path.dirname(os.path.dirname(os.path.abspath(__file__))))
from harness.mutant import run_on_mutant, ROOT  # noqa: E402


def main():
    props = sys.argv[1:] or sorted({os.path.basename(p).split("_")[0] for p in glob.glob(os.path.join(ROOT, "mutants", "*.diff"))})
    missed = 0
    for prop in props:
        for m in sorted(glob.glob(os.path.join(ROOT, "mutants", prop + "_*.diff"))):
            rc, out = run_on_mutant(m, prop, quiet=True)
            clauses = sorted(set(re.findall(r"^VIOLATION .*?clause=(\S+)", out, re.M)))
            status = "CAUGHT" if rc == 1 and clauses else ("NOT-APPLIED" if rc == 3 else "MISSED rc=%d" % rc)
            if status != "CAUGHT":
                missed += 1
            print("%-8s %-45s %s %s" % (prop, os.path.basename(m), status, ",".join(clauses)[:160]), flush=True)
    # seeded changes written by independent sub-agents (seeded/<name>/patch.diff + meta.json)
    import json
    for d in sorted(glob.glob(os.path.join(ROOT, "seeded", "*"))):
        meta = os.path.join(d, "meta.json")
        if not os.path.exists(meta):
            continue
        m = json.load(open(meta))
        prop = m["property"]
        if sys.argv[1:] and prop not in sys.argv[1:]:
            continue
        for chk in m.get("checks", [prop]):
            rc, out = run_on_mutant(os.path.join(d, "patch.diff"), chk, quiet=True)
            clauses = sorted(set(re.findall(r"^VIOLATION .*?clause=(\S+)", out, re.M)))
            status = "CAUGHT" if rc == 1 and clauses else ("NOT-APPLIED" if rc == 3 else "MISSED rc=%d" % rc)
            if status != "CAUGHT":
                missed += 1
            print("%-8s %-45s %s %s" % (chk, "seeded/" + os.path.basename(d), status, ",".join(clauses)[:160]), flush=True)
    sys.exit(1 if missed else 0)


if __name__ == "__main__":
    main()
