"""Mutation self-test: run every mutants/<prop>_*.diff and every seeded/<name>/patch.diff against its check; report caught / missed.
usage: python harness/selftest.py [-j N] C01 C05 ...   (no property arguments: everything; -j: runs in parallel, default 3)"""
import glob
import json
import os
import re
import sys
from concurrent.futures import ThreadPoolExecutor

sys.path.insert(0, os.path.dirname(os.path.dirname(os.path.abspath(__file__))))
from harness.mutant import run_on_mutant, ROOT  # noqa: E402


def one(job):
    prop, label, patch = job
    rc, out = run_on_mutant(patch, prop, quiet=True)
    clauses = sorted(set(re.findall(r"^VIOLATION .*?clause=(\S+)", out, re.M)))
    status = "CAUGHT" if rc == 1 and clauses else ("NOT-APPLIED" if rc == 3 else "MISSED rc=%d" % rc)
    print("%-8s %-50s %s %s" % (prop, label, status, ",".join(clauses)[:160]), flush=True)
    return status == "CAUGHT"


def main():
    args = sys.argv[1:]
    j = 3
    if "-j" in args:
        k = args.index("-j")
        j = int(args[k + 1])
        args = args[:k] + args[k + 2:]
    props = args or sorted({os.path.basename(p).split("_")[0] for p in glob.glob(os.path.join(ROOT, "mutants", "*.diff"))})
    jobs = []
    for prop in props:
        for m in sorted(glob.glob(os.path.join(ROOT, "mutants", prop + "_*.diff"))):
            jobs.append((prop, os.path.basename(m), m))
    # seeded changes written by independent sub-agents (seeded/<name>/patch.diff + meta.json)
    for d in sorted(glob.glob(os.path.join(ROOT, "seeded", "*"))):
        meta = os.path.join(d, "meta.json")
        if not os.path.exists(meta):
            continue
        m = json.load(open(meta))
        if args and m["property"] not in args:
            continue
        for chk in m.get("checks", [m["property"]]):
            jobs.append((chk, "seeded/" + os.path.basename(d), os.path.join(d, "patch.diff")))
    with ThreadPoolExecutor(max_workers=j) as ex:
        ok = list(ex.map(one, jobs))
    print("SELFTEST %d jobs, %d caught, %d not caught" % (len(ok), sum(ok), len(ok) - sum(ok)), flush=True)
    sys.exit(0 if all(ok) else 1)


if __name__ == "__main__":
    main()
