"""Helpers shared by drivers/C15.py and drivers/C16.py: lattice poses -> numpy / sio.Labels, the
projection rules of Eval.tla (class tags + small integers), observation of compute_oks,
match_instances and Evaluator.evaluate().  Nothing here decides a verdict or computes an expected
value: inputs are built, the real code is called, outputs are projected.

Units: lattice coordinates are integers = quarter pixels; a node is [x, y] or [] (missing)."""
import math
import os
import warnings

import numpy as np

from harness import shim

ASSET = os.path.join(shim.REPO, "tests", "assets", "minimal_instance.pkg.slp")
ONE9 = 10 ** 9
_video = None
_skeletons = {}


def video():
    """The asset's video object, re-used for gt and predictions so that find_frame_pairs matches."""
    global _video
    if _video is None:
        import sleap_io as sio

        _video = sio.load_slp(ASSET).videos[0]
    return _video


_video2 = None


def video2():
    """A second video EMBEDDED IN THE SAME PACKAGE FILE: same filename and backend type as video(), another HDF5 dataset
    (the layout of a multi-video .pkg.slp).  Never read - the Evaluator only compares identities."""
    global _video2
    if _video2 is None:
        import copy

        _video2 = copy.deepcopy(video())
        _video2.backend.dataset = "video1/video"
    return _video2


_video3 = None


def media_video():
    """The repository's asset VIDEO FILE opened by sleap-io (MediaVideo backend: no HDF5 dataset, no source_filename)."""
    global _video3
    if _video3 is None:
        import sleap_io as sio

        _video3 = sio.load_video(os.path.join(os.path.dirname(ASSET), "centered_pair_small.mp4"))
    return _video3


def skeleton(n):
    import sleap_io as sio

    if n not in _skeletons:
        _skeletons[n] = sio.Skeleton(nodes=["n%d" % k for k in range(n)])
    return _skeletons[n]


def pose_np(pose):
    """lattice pose -> float64 (N, 2) array in pixels, NaN rows for missing nodes (exact: k/4)."""
    return np.array([[nd[0] / 4.0, nd[1] / 4.0] if nd else [np.nan, np.nan] for nd in pose], dtype="float64").reshape(len(pose), 2)


# ------------------------------------------------------------------ projections ---------------
def cls_of(v):
    v = float(v)
    if math.isnan(v):
        return "nan"
    if math.isinf(v):
        return "inf"
    if v < 0:
        return "neg"
    if v == 0:
        return "zero"
    if v == 1:
        return "one"
    if v > 1:
        return "gt1"
    return "val"


def obs(v, quantum=10 ** 8):
    """[cls, q]: class tag and round(v * quantum) for values in [0, 1]; q = 0 outside."""
    c = cls_of(v)
    return dict(cls=c, q=int(round(float(v) * quantum)) if c in ("zero", "one", "val") else 0)


def obs_ks(v):
    """[cls, kq, q]: additionally kq = round(-ln(v) * 64), the log-domain observable."""
    o = obs(v)
    o["kq"] = int(round(-math.log(float(v)) * 64)) if o["cls"] == "val" else 0
    return o


def q9(v):
    """round(v * 10^9) for v in [0, 1]; -1 NaN, -2 negative, -3 above 1, -4 infinite."""
    v = float(v)
    if math.isnan(v):
        return -1
    if math.isinf(v):
        return -4
    if v < 0:
        return -2
    if v > 1:
        return -3
    return int(round(v * ONE9))


def dense_ranks(values, extra=()):
    """order-preserving projection: value -> index in the sorted list of distinct non-NaN values of
    `values` and `extra` (exact float equality).  Returns (rank function, sorted list)."""
    vals = sorted({float(v) for v in list(values) + list(extra) if not math.isnan(float(v))})
    pos = {v: k for k, v in enumerate(vals)}

    def rank(v):
        v = float(v)
        if math.isnan(v):
            return -1
        return pos.get(v, -5)

    return rank, vals


def d16_of(d):
    """distance in px -> squared distance in 1/16 px^2 (exact for lattice points), -1 for NaN."""
    d = float(d)
    if math.isnan(d):
        return -1
    if math.isinf(d) or d * d * 16 >= 2 ** 30:
        return 2 ** 30   # projection is total: a non-finite / absurd distance is a value the spec will reject
    return int(round(d * d * 16))


# ------------------------------------------------------------------ labels --------------------
_COUNTED = {}


def build_frame(pose_list, frame_idx, n_nodes, scores=None, vid=None, as_pred=None, extra_pred=None, stale=False):
    """LabeledFrame of user instances (scores None) or predicted instances (integer scores / 64)."""
    import sleap_io as sio

    sk = skeleton(n_nodes)
    insts = []
    for k, pose in enumerate(pose_list):
        pts = pose_np(pose)
        if scores is None and as_pred and as_pred[k]:
            insts.append(shim.predicted_instance(pts, score=0.5, skeleton=sk))   # a ground-truth instance that is a PredictedInstance
        elif scores is None:
            insts.append(sio.Instance.from_numpy(pts, skeleton=sk))
        else:
            insts.append(shim.predicted_instance(pts, score=scores[k] / 64.0, skeleton=sk))
    if stale:
        # a missing node keeps stale coordinates in the file and is marked not visible (what the GUI stores for a hidden node):
        # Instance.numpy() says NaN, it is exactly as missing as before
        for inst, pose in zip(insts, pose_list):
            for n, nd in enumerate(pose):
                if not nd:
                    inst.points["xy"][n] = (50.0 + 3 * n, 60.0 - 2 * n)
                    inst.points["visible"][n] = False
    n_counted = len(insts)
    for pose in (extra_pred or []):
        insts.append(shim.predicted_instance(pose_np(pose), score=0.4, skeleton=sk))   # must be ignored (user_labels_only=True)
    lf = sio.LabeledFrame(video=(vid if vid is not None else video()), frame_idx=frame_idx, instances=insts)
    _COUNTED[id(lf)] = n_counted
    return lf


def build_labels(frames, n_nodes, two_videos=False, media=False, stale=False, separate=False, sparse=False, order_seed=None):
    """frames: list of dict(gt=[pose], pr=[pose], sc=[int], haspr=bool).  Returns
    (labels_gt, labels_pr, index) with index: id(instance) -> ('g'|'p', frame number 1-based, index 1-based)."""
    import sleap_io as sio

    sk = skeleton(n_nodes)
    gl, pl, index = [], [], {}
    vids = [video(), video2()] if two_videos else ([media_video()] if media else [video()])
    # separate: the predictions come from another file - their Video objects are equal to the ground truth's (same file,
    # backend, dataset) but not the same objects, and listed in the other order
    import copy
    pvids = [copy.deepcopy(v) for v in vids] if separate else list(vids)
    for f, fr in enumerate(frames):
        # two_videos: frames alternate between the two embedded videos and SHARE frame numbers (0, 0, 1, 1, ...)
        vid, fidx = (vids[f % 2], f // 2) if two_videos else (vids[0], f)
        pvid = pvids[vids.index(vid)]
        if sparse:
            fidx = 3 * fidx + 5          # frame numbers are labels, not positions
        lf = build_frame(fr["gt"], fidx, n_nodes, vid=vid, as_pred=fr.get("gt_as_pred"), extra_pred=fr.get("gt_extra_pred"), stale=stale)
        for k, inst in enumerate(lf.instances[:_COUNTED.get(id(lf), len(lf.instances))]):
            index[id(inst)] = ("g", f + 1, k + 1)
        gl.append(lf)
        if fr["haspr"]:
            lp = build_frame(fr["pr"], fidx, n_nodes, scores=fr["sc"], vid=pvid, stale=stale)
            for k, inst in enumerate(lp.instances):
                index[id(inst)] = ("p", f + 1, k + 1)
            pl.append(lp)
    keep = gl + pl  # keep the instances alive while ids are used
    if order_seed is not None:
        import random
        random.Random(order_seed).shuffle(pl)      # the prediction file lists its frames in another order
    return sio.Labels(gl, videos=list(vids), skeletons=[sk]), sio.Labels(pl, videos=(pvids[::-1] if separate else list(pvids)), skeletons=[sk]), index, keep


MATCH_THRESHOLDS = None


def match_thresholds():
    global MATCH_THRESHOLDS
    if MATCH_THRESHOLDS is None:
        MATCH_THRESHOLDS = [float(x) for x in np.linspace(0.5, 0.95, 10)]
    return MATCH_THRESHOLDS


def tie_hi():
    """recall-threshold indices k whose float value linspace(0,1,101)[k] lies strictly above k/100
    (numpy fact, measured; an exact tie tp/npig = k/100 then compares as below the threshold)."""
    r = np.linspace(0, 1, 101)
    return [k for k in range(101) if float(r[k]) > k / 100]


def near_threshold(oks):
    """general position: a match score within 2e-9 of a match threshold that is not an exact,
    exactly representable tie (the integer projection could not tell the side)."""
    for j, t in enumerate(match_thresholds()):
        if abs(oks - t) < 2e-9 and not (oks == t and t == (50 + 5 * j) / 100):
            return True
    return False


def observe_eval(case, opts=None):
    """Run the real Evaluator on the label pair described by case['frames'] and fill case['obs'],
    per-frame 'okr'/'thrk' and 'raised'.  opts: oks_stddev, oks_scale, match_threshold."""
    from sleap_nn import evaluation as E

    opts = opts or case.get("opts") or {}
    stddev = opts.get("oks_stddev", 0.025)
    scale = opts.get("oks_scale", None)
    thr = opts.get("match_threshold", 0)
    n_nodes = case["N"]
    frames = case["frames"]
    case["raised"] = ""
    case["reeval_same"] = True
    case["tiehi"] = tie_hi()
    case["skip"] = ""
    empty_obs = dict(empty=True, pairs=[], fn=[], prec=[], rec=[0] * 10, AP=[0] * 10, AR=[0] * 10, mAP=0, mAR=0,
                     moks=dict(cls="nan", q=0), d16=[], dist_cls="nan", pck=[0] * 10, mpck=dict(cls="nan", q=0),
                     mpck_parts=[], vis=dict(tp=0, fp=0, tn=0, fn=0, precision=dict(cls="nan", q=0), recall=dict(cls="nan", q=0)))
    case["obs"] = empty_obs
    for fr in frames:
        fr.setdefault("okr", [[] for _ in fr["gt"]])
        fr.setdefault("thrk", 0)
    with warnings.catch_warnings():
        warnings.simplefilter("ignore")
        try:
            lg, lp, index, keep = build_labels(frames, n_nodes, two_videos=bool(opts.get("two_videos")), media=bool(opts.get("media_video")), stale=bool(opts.get("stale_hidden")),
                                                  separate=bool(opts.get("separate_files")), sparse=bool(opts.get("sparse_frames")), order_seed=opts.get("pr_order"))
            if opts.get("edited_between"):
                # the predictions are moved in place, evaluated by a throw-away Evaluator, and moved back: the judged evaluation
                # is a function of the labels as they ARE, not of what some earlier evaluation saw (seed C16_r14)
                for lf in lp:
                    for inst in lf.instances:
                        inst.points["xy"][:] = inst.points["xy"] + 8.0
                E.Evaluator(lg, lp, oks_stddev=stddev, oks_scale=scale, match_threshold=thr, user_labels_only=bool(opts.get("user_labels_only", True))).evaluate()
                for lf in lp:
                    for inst in lf.instances:
                        inst.points["xy"][:] = inst.points["xy"] - 8.0
            ev = E.Evaluator(lg, lp, oks_stddev=stddev, oks_scale=scale, match_threshold=thr, user_labels_only=bool(opts.get("user_labels_only", True)))
            import copy
            m1 = copy.deepcopy(ev.evaluate())
            m = ev.evaluate()   # evaluate() must be a function of the labels: the SECOND call on the same Evaluator is the one judged
            case["reeval_same"] = _same_metrics(m1, m)
        except Exception as e:  # noqa: BLE001  (totality is observed, not assumed)
            case["raised"] = "%s: %s" % (type(e).__name__, e)
            return case
        # observed OKS matrix of every frame (the real compute_oks on the full frame)
        rankers = []
        for fr in frames:
            G, P = len(fr["gt"]), len(fr["pr"])
            if G and P and fr["haspr"]:
                # one prediction per call, as match_instances does (compute_oks raises for n_pr > 1: C15 finding)
                gstack = np.stack([pose_np(p) for p in fr["gt"]])
                M = np.concatenate([E.compute_oks(gstack, pose_np(p)[None], stddev=stddev, scale=scale) for p in fr["pr"]], axis=1)
                rank, _ = dense_ranks(M.ravel(), extra=[thr])
                fr["okr"] = [[rank(M[g, p]) for p in range(P)] for g in range(G)]
            else:
                rank, _ = dense_ranks([], extra=[thr])
                fr["okr"] = [[] for _ in range(G)]
            fr["thrk"] = rank(thr)
            rankers.append(rank)
        o = dict(empty=False)
        pairs = []
        for ig, ip, oks in ev.positive_pairs:
            kg, kp = index.get(id(ig.instance)), index.get(id(ip.instance))
            if kg is None or kp is None or kg[0] != "g" or kp[0] != "p" or kg[1] != kp[1]:
                case["raised"] = "positive pair is not (gt instance, predicted instance) of one frame"
                return case
            if near_threshold(float(oks)):
                case["skip"] = "match score within 2e-9 of a threshold"
            pairs.append(dict(f=kg[1], g=kg[2], p=kp[2], ok9=q9(oks), okr=rankers[kg[1] - 1](oks)))
        o["pairs"] = pairs
        fns = []
        for ig in ev.false_negatives:
            kg = index.get(id(ig.instance))
            if kg is None or kg[0] != "g":
                case["raised"] = "false negative is not a gt instance of the labels"
                return case
            fns.append(dict(f=kg[1], g=kg[2]))
        o["fn"] = fns
        voc = m["voc_metrics"]
        if np.ndim(voc["oks_voc.precisions"]) == 0:
            o.update(empty=True, prec=[], rec=[0] * 10, AP=[0] * 10, AR=[0] * 10, mAP=q9(voc["oks_voc.mAP"]), mAR=q9(voc["oks_voc.mAR"]))
        else:
            o["prec"] = [[q9(x) for x in row] for row in voc["oks_voc.precisions"]]
            o["rec"] = [q9(x) for x in voc["oks_voc.recalls"]]
            o["AP"] = [q9(x) for x in voc["oks_voc.AP"]]
            o["AR"] = [q9(x) for x in voc["oks_voc.AR"]]
            o["mAP"], o["mAR"] = q9(voc["oks_voc.mAP"]), q9(voc["oks_voc.mAR"])
        o["moks"] = obs(m["mOKS"]["mOKS"], ONE9)
        dm = m["distance_metrics"]
        dists = np.asarray(dm["dists"], dtype="float64").reshape(len(pairs), n_nodes) if len(pairs) else np.zeros((0, n_nodes))
        o["d16"] = [[d16_of(x) for x in row] for row in dists]
        summ = [cls_of(dm[k]) for k in ("avg", "p50", "p75", "p90", "p95", "p99")]
        o["dist_cls"] = "zero" if all(c == "zero" for c in summ) else ("nan" if all(c == "nan" for c in summ) else "pos")
        pk = m["pck_metrics"]
        if len(pairs):
            o["pck"] = [int(np.asarray(pk["pcks"])[:, :, k].sum()) for k in range(10)]
            o["mpck_parts"] = [obs(x, ONE9) for x in np.asarray(pk["mPCK_parts"]).ravel()]
        else:
            o["pck"], o["mpck_parts"] = [0] * 10, []
        o["mpck"] = obs(pk["mPCK"], ONE9)
        vm = m["visibility_metrics"]
        o["vis"] = dict(tp=int(vm["tp"]), fp=int(vm["fp"]), tn=int(vm["tn"]), fn=int(vm["fn"]),
                        precision=obs(vm["precision"], ONE9), recall=obs(vm["recall"], ONE9))
        case["obs"] = o
    del keep
    return case



def _same_metrics(a, b):
    """measurement: are two evaluate() results equal (NaN == NaN, inf == inf, 1e-12 tolerance)?"""
    if isinstance(a, dict) and isinstance(b, dict):
        return set(a) == set(b) and all(_same_metrics(a[k], b[k]) for k in a)
    try:
        x, y = np.asarray(a, dtype=np.float64), np.asarray(b, dtype=np.float64)
    except Exception:
        return True  # non-numeric payloads (instances) are compared through the pairs elsewhere
    return x.shape == y.shape and bool(np.allclose(x, y, rtol=0, atol=1e-12, equal_nan=True))
