"""C14 binding: build the REAL sleap_nn Model for one configuration record, run a call history and
project what is observed to small integers / strings.  Nothing here decides a verdict.

Configuration record (all integers / strings / booleans, shared with spec/Arch.tla):
  bb    "unet" | "convnext" | "swint"
  ms    configured max_stride
  os    backbone output_stride
  stem  unet: stem_stride (0 = None);  convnext/swint: stem_patch_stride
  fr    [num, den] filters_rate
  f     unet: filters;  convnext: arch channels[0];  swint: arch embed
  cpb   convs_per_block
  upi   up_interpolate
  mid   middle_block (unet only; TRUE for the wrappers)
  mt    model type: single_instance | centered_instance | centroid | bottomup
  hs    head output strides, in head order (bottomup: [confmaps, pafs])
  parts number of part names, edges number of PAF edges
  arch  "tiny" | "custom" (wrappers; unet: "unet")
"""
import os

HEAD_NAMES = {
    "single_instance": ["SingleInstanceConfmapsHead"],
    "centered_instance": ["CenteredInstanceConfmapsHead"],
    "centroid": ["CentroidConfmapsHead"],
    "bottomup": ["MultiInstanceConfmapsHead", "PartAffinityFieldsHead"],
}
SAME_REL = 1e-3  # two tensors are "the same value" when max|a-b| <= SAME_REL * max(|a|,|b|) (DESIGN 1.3: allclose classes)


def in_channels_of(c):
    """grey-scale or RGB input (a harness-level variation: the property's shapes and strides do not depend on it)"""
    return 3 if c.get("id", 0) % 3 == 2 else 1


def configs(c):
    """(backbone_config, head_configs) OmegaConf objects, laid out like tests/architectures/test_model.py."""
    from omegaconf import OmegaConf

    ich = in_channels_of(c)
    rate = c["fr"][0] / c["fr"][1]
    if c["bb"] == "unet":
        bcfg = {
            "in_channels": ich, "kernel_size": 3, "filters": c["f"], "filters_rate": rate,
            "max_stride": c["ms"], "convs_per_block": c["cpb"], "stacks": 1,
            "stem_stride": (c["stem"] or None), "middle_block": bool(c["mid"]),
            "up_interpolate": bool(c["upi"]), "output_stride": c["os"],
        }
    elif c["bb"] == "convnext":
        tiny = c["arch"] == "tiny"
        bcfg = {
            "in_channels": ich, "model_type": "tiny" if tiny else "custom",
            "arch": None if tiny else {"depths": [1, 1, 1, 1], "channels": [c["f"] * 2 ** k for k in range(4)]},
            "kernel_size": 3, "filters_rate": rate, "convs_per_block": c["cpb"],
            "up_interpolate": bool(c["upi"]), "stem_patch_kernel": 4, "stem_patch_stride": c["stem"],
            "output_stride": c["os"], "max_stride": c["ms"],
        }
    elif c["bb"] == "swint":
        tiny = c["arch"] == "tiny"
        bcfg = {
            "in_channels": ich, "model_type": "tiny" if tiny else "custom",
            "arch": None if tiny else {"embed": c["f"], "depths": [1, 1, 1, 1], "num_heads": [1, 2, 4, 8]},
            "patch_size": [4, 4], "window_size": [7, 7], "kernel_size": 3, "filters_rate": rate,
            "convs_per_block": c["cpb"], "up_interpolate": bool(c["upi"]),
            "stem_patch_stride": c["stem"], "output_stride": c["os"], "max_stride": c["ms"],
        }
    else:
        raise ValueError(c["bb"])
    parts = ["p%d" % k for k in range(c["parts"])]
    cm = {"sigma": 1.5, "output_stride": c["hs"][0], "loss_weight": 1.0}
    if c["mt"] == "centroid":
        hcfg = {"confmaps": dict(cm, anchor_part=None)}
    elif c["mt"] == "centered_instance":
        hcfg = {"confmaps": dict(cm, part_names=parts, anchor_part=None)}
    elif c["mt"] == "single_instance":
        hcfg = {"confmaps": dict(cm, part_names=parts)}
    else:
        edges = [[parts[k % len(parts)], parts[(k + 1) % len(parts)]] for k in range(c["edges"])]
        hcfg = {"confmaps": dict(cm, part_names=parts),
                "pafs": {"edges": edges, "sigma": 4.0, "output_stride": c["hs"][1], "loss_weight": 1.0}}
        if c.get("id", 0) % 2 == 1:
            # the two sections of a bottom-up head configuration in the other order (a mapping has no order; seed C14_r12)
            hcfg = {"pafs": hcfg["pafs"], "confmaps": hcfg["confmaps"]}
    return OmegaConf.create(bcfg), OmegaConf.create(hcfg)


def reinit(model, seed):
    """Variance-preserving re-initialisation of the parameters (values only - the module structure,
    i.e. the code under test, is untouched).  With torch's default init the signal of a 20-layer
    random ReLU network decays below the biases, which would make every output look input-independent
    and the function / row-independence clauses insensitive."""
    import torch

    g = torch.Generator().manual_seed(seed)
    nn = torch.nn
    with torch.no_grad():
        for m in model.modules():
            if isinstance(m, nn.Conv2d):
                fan_in = (m.in_channels // m.groups) * m.kernel_size[0] * m.kernel_size[1]
            elif isinstance(m, nn.ConvTranspose2d):
                fan_in = m.in_channels  # kernel 2, stride 2: one tap per input channel and output pixel
            elif isinstance(m, nn.Linear):
                fan_in = m.in_features
            else:
                continue
            m.weight.copy_(torch.randn(m.weight.shape, generator=g) * (2.0 / max(1, fan_in)) ** 0.5)
            if m.bias is not None:
                m.bias.copy_(torch.randn(m.bias.shape, generator=g) * 0.05)


def target_shapes(c, h, w):
    """Shapes (C, H', W') the REAL data pipeline produces for each head's targets on an (h, w) image."""
    import torch
    from sleap_nn.data.confidence_maps import generate_confmaps, generate_multiconfmaps
    from sleap_nn.data.edge_maps import generate_pafs

    n = c["parts"]
    inst = torch.tensor([[[[1.0 + k, 2.0 + k] for k in range(n)], [[3.0 + k, 1.5 + k] for k in range(n)]]])  # (1, 2, n, 2)
    out = []
    if c["mt"] == "single_instance":
        t = generate_confmaps(inst[:, :1], img_hw=(h, w), sigma=1.5, output_stride=c["hs"][0])
        out.append(list(t.shape[-3:]))
    elif c["mt"] == "centered_instance":
        t = generate_confmaps(inst[:, 0], img_hw=(h, w), sigma=1.5, output_stride=c["hs"][0])
        out.append(list(t.shape[-3:]))
    elif c["mt"] == "centroid":
        t = generate_multiconfmaps(inst.mean(dim=2), img_hw=(h, w), num_instances=2, sigma=1.5,
                                   output_stride=c["hs"][0], is_centroids=True)
        out.append(list(t.shape[-3:]))
    else:
        t = generate_multiconfmaps(inst, img_hw=(h, w), num_instances=2, sigma=1.5,
                                   output_stride=c["hs"][0], is_centroids=False)
        out.append(list(t.shape[-3:]))
        names = list(range(n))
        edge_inds = [[names[k % n], names[(k + 1) % n]] for k in range(c["edges"])]
        p = generate_pafs(inst, img_hw=(h, w), sigma=4.0, output_stride=c["hs"][1],
                          edge_inds=torch.Tensor(edge_inds), flatten_channels=True)
        out.append(list(p.shape[-3:]))
    return [[int(v) for v in s] for s in out]


def _short(e):
    s = "%s: %s" % (type(e).__name__, e)
    return " ".join(s.split())[:300]


DEFAULT_CALLS = [[1], [2], [1], [1, 3], [3]]  # DESIGN.md C14: x1, x2 (other size), x1, [x1; x3], x3


def frame_size(c, fid):
    """Frames 1 and 3 share a size, frame 2 has the other orientation; all sides are multiples of
    max_stride (sz = the four multipliers)."""
    m, sz = c["ms"], c.get("sz", [1, 2, 2, 1])
    return (m * sz[2], m * sz[3]) if fid == 2 else (m * sz[0], m * sz[1])


def observe(c, seed=0, keep=None):
    """Build the real Model for `c` and run its call history (c["calls"], default DEFAULT_CALLS).
    Returns the trace record sent to TLC: [id, cfg, ev] with ev[0] the build event and one call
    event per forward call (the history stops at the first call that raises), plus "sep"
    (measured separation of the equality classes, parts per million; not judged)."""
    import torch
    from sleap_nn.architectures.model import Model

    torch.set_num_threads(1)
    b = dict(k="build", raised="", nblocks=-1, strides=[], head_in=[], head_out=[], maxch=-1, names=[])
    rec = dict(id=c["id"], cfg={k: v for k, v in c.items() if k not in ("id", "sz", "calls", "fresh")},
               ev=[b], sep=dict(within=0, between=-1, nonfinite=0))
    torch.manual_seed(seed * 1000003 + c["id"])
    try:
        bcfg, hcfg = configs(c)
        model = Model(backbone_type=c["bb"], backbone_config=bcfg, head_configs=hcfg,
                      input_expand_channels=in_channels_of(c), model_type=c["mt"])
        model.eval()
        b["nblocks"] = len(model.backbone.dec.decoder_stack)
        b["strides"] = [int(s) for s in model.backbone.dec.current_strides]
        b["maxch"] = int(model.backbone.max_channels)
        b["names"] = [h.name for h in model.heads]
        for hl in model.head_layers:
            conv = [m for m in hl.modules() if isinstance(m, torch.nn.Conv2d)][0]
            b["head_in"].append(int(conv.in_channels))
            b["head_out"].append(int(conv.out_channels))
    except Exception as e:  # totality of construction is part of the property
        b["raised"] = _short(e)
        return rec
    if keep is not None:
        keep["model"] = model
    reinit(model, seed * 7919 + c["id"])
    calls = c.get("calls") or DEFAULT_CALLS
    g = torch.Generator().manual_seed(seed * 104729 + c["id"])
    imgs = {}
    for fid in sorted({i for ids in calls for i in ids}):
        h, w = frame_size(c, fid)
        # different brightness per frame, so that statistics shared across a batch would show
        imgs[fid] = torch.rand((in_channels_of(c), h, w), generator=g) * (0.55, 0.8, 1.0)[(fid - 1) % 3]
    plan = [("call", ids, model) for ids in calls]
    if c.get("fresh"):
        import copy

        master = copy.deepcopy(model)  # never called
        plan = [("fresh", [fid], None) for fid in sorted(imgs)] + plan
    tsh = {}
    reps = {}  # head name -> [(class id, tensor)]
    worst_in, best_out, nonfinite = 0.0, None, 0
    for kind, ids, net in plan:
        h, w = frame_size(c, ids[0])
        call = dict(k=kind, ids=[int(i) for i in ids], h=h, w=w, raised="", outs=[], tshape=[])
        try:
            if (h, w) not in tsh:
                tsh[(h, w)] = target_shapes(c, h, w)
            call["tshape"] = tsh[(h, w)]
            x = torch.stack([imgs[i] for i in ids])
            if net is None:
                net = copy.deepcopy(master)
            with torch.no_grad():
                out = net(x)
            if not isinstance(out, dict):
                raise TypeError("Model.forward returned %s, not a dict" % type(out).__name__)
            for name, t in out.items():
                o = dict(name=str(name), shape=[int(v) for v in t.shape], cls=[], finite=bool(torch.isfinite(t).all()))
                nonfinite += 0 if o["finite"] else 1
                if not o["finite"]:  # NaN never equals itself: no equality classes; the judge skips this output
                    o["cls"] = [0] * (t.shape[0] if t.ndim else 0)
                for r in range(t.shape[0] if (t.ndim and o["finite"]) else 0):
                    row = t[r]
                    got = None
                    for cid, rep in reps.setdefault(name, []):
                        if rep.shape != row.shape:
                            continue
                        scale = max(float(rep.abs().max()), float(row.abs().max()), 1e-30)
                        d = float((rep - row).abs().max()) / scale
                        if d <= SAME_REL:
                            got = cid
                            worst_in = max(worst_in, d)
                            break
                        best_out = d if best_out is None else min(best_out, d)
                    if got is None:
                        got = len(reps[name]) + 1
                        reps[name].append((got, row))
                    o["cls"].append(got)
                call["outs"].append(o)
        except Exception as e:
            call["raised"] = _short(e)
            call["outs"] = []
        rec["ev"].append(call)
        if call["raised"]:
            break
    rec["sep"] = dict(within=int(round(worst_in * 1e6)), nonfinite=nonfinite,
                      between=(-1 if best_out is None else int(min(best_out, 2000.0) * 1e6)))
    return rec


def observe_many(cs, seed=0):
    return [observe(c, seed) for c in cs]


def pool_map(cases, seed, procs):
    """Observe all cases with `procs` forked worker processes (torch threads = 1 each); the result
    order is the order of `cases`.  Everything heavy is imported before the fork; the expensive
    28M-parameter `tiny` wrappers are scheduled first."""
    import multiprocessing as mp
    import torch
    import sleap_nn.architectures.model  # noqa: F401  (import once, in the parent)
    import sleap_nn.data.confidence_maps  # noqa: F401
    import sleap_nn.data.edge_maps  # noqa: F401

    torch.set_num_threads(1)
    if procs <= 1 or len(cases) < 8:
        return observe_many(cases, seed)
    order = sorted(range(len(cases)), key=lambda i: (cases[i].get("arch") != "tiny", cases[i].get("bb") == "unet", i))
    chunks, i = [], 0
    while i < len(order):
        heavy = cases[order[i]].get("arch") == "tiny"
        n = 1 if heavy else (4 if cases[order[i]].get("bb") != "unet" else 24)
        chunks.append(order[i:i + n])
        i += n
    ctx = mp.get_context("fork")
    with ctx.Pool(procs) as pool:
        res = pool.starmap(observe_many, [([cases[k] for k in ch], seed) for ch in chunks], chunksize=1)
    out = [None] * len(cases)
    for ch, part in zip(chunks, res):
        for k, r in zip(ch, part):
            out[k] = r
    return out
