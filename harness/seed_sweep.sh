#!/bin/sh
# Run every registered quick check under several seeds; print one line per run (false-alarm / flakiness sweep).
cd "$(dirname "$0")/.."
for s in ${SEEDS:-2 3 5}; do
  for p in $(/venv/bin/python -c "import json; print(' '.join(c['property_id'] for c in json.load(open('MANIFEST.json'))['checks']))"); do
    start=$(date +%s)
    VERIF_SEED=$s ./check $p --tier quick > /tmp/sweep_$$.log 2>&1; rc=$?
    echo "seed=$s $p rc=$rc wall=$(( $(date +%s) - start ))s $(grep -c '^VIOLATION' /tmp/sweep_$$.log) violations $(grep -m1 'MACHINERY' /tmp/sweep_$$.log | cut -c1-200)"
    [ $rc -ne 0 ] && grep '^VIOLATION' /tmp/sweep_$$.log | cut -c1-400 | head -3
  done
done
rm -f /tmp/sweep_$$.log
