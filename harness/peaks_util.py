"""Shared by drivers C06 / C07 (peak finding): the case space, the batch packer, the projection of
float outputs to integers, and a fork pool for calling the real functions.

Nothing here decides a verdict: cases are (input batch, projected outputs) records for TLC.

Projection (DESIGN.md 1.3): coordinates -> round(x * 4096) with a class tag
("val" finite and |x| < 2^15; "nan" both coordinates NaN; "halfnan" exactly one NaN; "inf"; "huge"),
values -> round(v * scale * 64) (2^30 when not finite / too large).  Map values are integers
(value * scale, scale in {1, 32}) and therefore exact in float32.
"""
import itertools
import math
import os
import random
from concurrent.futures import ProcessPoolExecutor
import multiprocessing as mp

Q = 4096
VQ = 64
VALS = (-1, 0, 1, 2)
THRS = (-2, 0, 1)
SMALL_SHAPES = [(1, 1), (1, 2), (1, 3), (1, 4), (2, 1), (3, 1), (4, 1), (2, 2), (2, 3), (3, 2)]
BATCH_SHAPES_SMALL = [(2, 2), (1, 1), (2, 2), (1, 3), (2, 2), (3, 1)]
BATCH_SHAPES_BULK = [(2, 2), (4, 4), (8, 4), (3, 5), (16, 4), (5, 8)]
BIG = 2 ** 30


# ------------------------------------------------------------------ projection ---------------
def proj_point(x, y):
    nx, ny = math.isnan(x), math.isnan(y)
    if nx and ny:
        return 0, 0, "nan"
    if nx or ny:
        return 0, 0, "halfnan"
    if math.isinf(x) or math.isinf(y):
        return 0, 0, "inf"
    if abs(x) >= 2 ** 15 or abs(y) >= 2 ** 15:
        return 0, 0, "huge"
    return int(round(x * Q)), int(round(y * Q)), "val"


def proj_val(v, scale):
    if math.isnan(v) or math.isinf(v) or abs(v * scale * VQ) >= BIG:
        return BIG
    return int(round(v * scale * VQ))


F64_EPS = 2.0 ** -34      # float64 family: value = 1/4 + k * 2^-34 (exact in float64; neighbours collapse in float32)


def to_tensor(maps, S, C, H, W, scale, f64=False, half="", p64=False):
    import torch

    if p64:       # the ordinary values in float64 (maps that went through numpy, or a double-precision model): everything the
        t = torch.tensor(maps, dtype=torch.float64).reshape(S, C, H, W)       # float32 cases require, refinement included
        return t / scale if scale != 1 else t
    if half:      # small integers, exact in bfloat16 / float16 (mixed-precision inference hands such maps to the peak finders)
        return torch.tensor(maps, dtype=torch.float32).reshape(S, C, H, W).to(torch.bfloat16 if half == "bf16" else torch.float16)
    if f64:
        t = torch.tensor(maps, dtype=torch.float64).reshape(S, C, H, W)
        return (t / scale) * F64_EPS + 0.25
    t = torch.tensor(maps, dtype=torch.float32).reshape(S, C, H, W)
    return t / scale if scale != 1 else t




def local_rows(out, scale, f64=False):
    pts, vals, si, ci = out
    pts, vals, si, ci = pts.tolist(), vals.tolist(), si.tolist(), ci.tolist()
    if f64:
        vals = [(v - 0.25) / F64_EPS for v in vals]
    rows = []
    for p, v, s, c in zip(pts, vals, si, ci):
        xq, yq, cls = proj_point(p[0], p[1])
        rows.append([int(s), int(c), xq, yq, proj_val(v, scale), cls])
    if not (len(pts) == len(vals) == len(si) == len(ci)):
        rows.append([-1, -1, 0, 0, BIG, "ragged"])
    return rows


def global_rows(out, scale, f64=False):
    pts, vals = out
    S, C = vals.shape[0], vals.shape[1]
    if tuple(pts.shape) != (S, C, 2):
        return [[0, 0, BIG, "badshape"]]
    pts, vals = pts.reshape(-1, 2).tolist(), vals.reshape(-1).tolist()
    if f64:     # a below-threshold map reports the value 0, which is not on the lattice: keep it 0
        vals = [0.0 if v == 0 else (v - 0.25) / F64_EPS for v in vals]
    rows = []
    for p, v in zip(pts, vals):
        xq, yq, cls = proj_point(p[0], p[1])
        rows.append([xq, yq, proj_val(v, scale), cls])
    return rows


# ------------------------------------------------------------------ observation --------------
def observe_local(case):
    """case: dict(h, w, s, c, thr, scale, maps, ps) -> adds rough / none / ref / raised."""
    from sleap_nn.inference import peak_finding as pf

    H, W, S, C, scale = case["h"], case["w"], case["s"], case["c"], case["scale"]
    f64 = bool(case.get("f64"))
    thr = (case["thr"] / scale) * F64_EPS + 0.25 if f64 else case["thr"] / scale
    rec = dict(case, rough=[], none=[], ref=[], raised="")
    ps = rec.pop("ps")
    try:
        cms = to_tensor(case["maps"], S, C, H, W, scale, f64, case.get("half", ""), bool(case.get("p64")))
        rec["rough"] = local_rows(pf.find_local_peaks_rough(cms.clone(), threshold=thr), scale, f64)
        rec["none"] = local_rows(pf.find_local_peaks(cms.clone(), threshold=thr), scale, f64)       # refinement left at its default (None)
        for P in ps:
            kw = {} if P == 5 else {"integral_patch_size": P}                                     # 5 is the documented default: left out
            rec["ref"].append(dict(p=P, rows=local_rows(pf.find_local_peaks(cms.clone(), threshold=thr, refinement="integral", **kw), scale)))
    except Exception as e:  # totality is part of the property
        rec["raised"] = "%s: %s" % (type(e).__name__, str(e)[:200])
    return rec


def observe_global(case):
    """case: dict(h, w, s, c, thr, scale, maps, ps, gauss) -> adds rough / none / ref / raised."""
    from sleap_nn.inference import peak_finding as pf

    H, W, S, C, scale = case["h"], case["w"], case["s"], case["c"], case["scale"]
    f64 = bool(case.get("f64"))
    thr = (case["thr"] / scale) * F64_EPS + 0.25 if f64 else case["thr"] / scale
    rec = dict(case, rough=[], none=[], ref=[], raised="")
    ps = rec.pop("ps")
    try:
        cms = to_tensor(case["maps"], S, C, H, W, scale, f64, case.get("half", ""), bool(case.get("p64")))
        rec["rough"] = global_rows(pf.find_global_peaks_rough(cms.clone(), threshold=thr), scale, f64)
        rec["none"] = global_rows(pf.find_global_peaks(cms.clone(), threshold=thr), scale, f64)     # refinement left at its default (None)
        for P in ps:
            kw = {} if P == 5 else {"integral_patch_size": P}                                     # 5 is the documented default: left out
            rec["ref"].append(dict(p=P, rows=global_rows(pf.find_global_peaks(cms.clone(), threshold=thr, refinement="integral", **kw), scale)))
    except Exception as e:
        rec["raised"] = "%s: %s" % (type(e).__name__, str(e)[:200])
    return rec


def _chunk_run(args):
    fn, cases = args
    import torch

    torch.set_num_threads(1)
    out = []
    for c in cases:
        rec = fn(c)
        rec["_cls"] = map_classes(c)
        out.append(rec)
    return out


def run_cases(fn, cases, procs=None):
    """Call the real functions on every case (fork pool; order preserved; deterministic)."""
    procs = procs or int(os.environ.get("VERIF_CPUS", str(os.cpu_count() or 4)))
    if len(cases) < 64 or procs <= 1:
        return _chunk_run((fn, cases))
    n = max(1, min(len(cases) // 16, 400))
    chunks = [(fn, cases[i:i + n]) for i in range(0, len(cases), n)]
    with ProcessPoolExecutor(max_workers=procs, mp_context=mp.get_context("fork")) as ex:
        out = list(ex.map(_chunk_run, chunks))
    return [c for part in out for c in part]


# ------------------------------------------------------------------ case space ---------------
def all_maps(H, W, vals=VALS):
    return itertools.product(vals, repeat=H * W)


def pack(maps, H, W, batch_shapes, rng, thrs, ps, scale=1, extra=None):
    """Pack a list of maps (each a tuple of H*W ints) into batches whose (S, C) cycles through
    batch_shapes; the last batch is filled with random members of `maps`.  Every batch is emitted
    once per threshold, so every map meets every threshold and a varying set of batch-mates."""
    cases, k, b = [], 0, 0
    maps = list(maps)
    while k < len(maps):
        S, C = batch_shapes[b % len(batch_shapes)]
        b += 1
        part = maps[k:k + S * C]
        k += S * C
        while len(part) < S * C:
            part.append(maps[rng.randrange(len(maps))])
        for t in thrs:
            c = dict(h=H, w=W, s=S, c=C, thr=t, scale=scale, maps=[list(m) for m in part], ps=list(ps))
            if extra:
                c.update(extra)
            cases.append(c)
    return cases


def random_map(rng, H, W, style):
    n = H * W
    if style == "tiny":       # many ties / plateaus / negatives
        return [rng.choice(VALS) for _ in range(n)], 1, rng.choice(THRS)
    if style == "int":        # integers -8..64
        return [rng.randint(-8, 64) for _ in range(n)], 1, rng.choice((-9, 0, 13, 40))
    if style == "frac":       # multiples of 1/32 in [-0.25, 1]
        return [rng.randint(-8, 32) for _ in range(n)], 32, rng.choice((0, 6, 16))
    if style == "bumps":      # non-negative: zero background, a few integer bumps with halo
        m = [0] * n
        for _ in range(rng.randint(1, 4)):
            cx, cy, a = rng.randrange(W), rng.randrange(H), rng.randint(8, 64)
            for y in range(max(0, cy - 2), min(H, cy + 3)):
                for x in range(max(0, cx - 2), min(W, cx + 3)):
                    d = max(abs(x - cx), abs(y - cy))
                    m[y * W + x] = max(m[y * W + x], a if d == 0 else (a // 2 if d == 1 else a // 8) + rng.randint(0, 2))
        return m, 1, rng.choice((1, 4, 7))
    if style == "nonneg":     # non-negative random field, multiples of 1/32
        return [rng.randint(0, 32) for _ in range(n)], 32, rng.choice((1, 6, 16))
    raise ValueError(style)


STYLES = ("tiny", "int", "frac", "bumps", "nonneg")


def random_cases(rng, n, max_hw=24, ps=(3, 4, 5, 6, 7)):
    cases = []
    for k in range(n):
        style = STYLES[k % len(STYLES)]
        H, W = rng.randint(1, max_hw), rng.randint(1, max_hw)
        if k % 7 == 0:
            H = rng.choice((1, 2))
        if k % 11 == 0:
            W = rng.choice((1, 2))
        S, C = rng.randint(1, 3), rng.randint(1, 4)
        maps, scale, thr = [], 1, 0
        for _ in range(S * C):
            m, scale, thr = random_map(rng, H, W, style)
            maps.append(m)
        cases.append(dict(h=H, w=W, s=S, c=C, thr=thr, scale=scale, maps=maps, ps=list(ps), style=style))
    return cases


def gauss_map(H, W, cx4, cy4, s4, A=1000):
    """round(A exp(-d^2 / (2 sigma^2))), centre (cx4/4, cy4/4), sigma = s4/4 (px)."""
    s2 = (s4 / 4.0) ** 2
    return [int(round(A * math.exp(-(((4 * x - cx4) ** 2 + (4 * y - cy4) ** 2) / 16.0) / (2 * s2))))
            for y in range(H) for x in range(W)]


# ------------------------------------------------------------------ evidence helpers ---------
def map_classes(case):
    """Input classes of one batch case (measured, for the evidence): ties, plateaus, all-below, ..."""
    H, W, t = case["h"], case["w"], case["thr"]
    out = dict(maps=0, tied_max=0, all_below_thr=0, max_on_border=0, has_negative=0, constant=0, mixed_valid_invalid=0)
    below = 0
    for m in case["maps"]:
        out["maps"] += 1
        mx = max(m)
        cells = [k for k, v in enumerate(m) if v == mx]
        out["tied_max"] += len(cells) > 1
        out["constant"] += min(m) == mx
        out["has_negative"] += min(m) < 0
        b = mx < t
        below += b
        out["all_below_thr"] += b
        k = cells[0]
        y, x = divmod(k, W)
        out["max_on_border"] += (x in (0, W - 1) or y in (0, H - 1))
    out["mixed_valid_invalid"] = int(0 < below < len(case["maps"]))
    return out


def split_verdicts(j):
    """judge() result -> (listed [(int id, clause)], per-clause totals {clause: n})."""
    listed, totals = [], {}
    for cid, clause in j["rejected"]:
        if cid.startswith("#"):
            totals[cid[1:]] = totals.get(cid[1:], 0) + int(clause)
        else:
            listed.append((int(cid), clause))
    return listed, totals


def build_cases(tier, rng, ps=(3, 5)):
    """The shared input space of C06 / C07: (cases without outputs, fed = per-shape map lists for the
    TLC exhaustiveness check, n_exhaustive_cases)."""
    cases, fed = [], []
    for (H, W) in SMALL_SHAPES:
        maps = list(all_maps(H, W))
        fed.append(dict(h=H, w=W, full=True, maps=[list(m) for m in maps]))
        rng.shuffle(maps)
        cases += pack(maps, H, W, BATCH_SHAPES_SMALL, rng, THRS, ps)
    maps = list(all_maps(3, 3))
    full33 = tier != "quick"
    if not full33:
        maps = rng.sample(maps, len(maps) // 10)
    else:
        rng.shuffle(maps)
    fed.append(dict(h=3, w=3, full=full33, maps=[list(m) for m in maps]))
    cases += pack(maps, 3, 3, BATCH_SHAPES_BULK, rng, THRS, ps)
    n_exh = len(cases)
    # batches of (2 samples x 2 channels) of independently drawn 2x2 maps: batch-mates vary freely
    m22 = list(all_maps(2, 2))
    for _ in range(600 if tier == "quick" else 6000):
        part = [list(rng.choice(m22)) for _ in range(4)]
        cases.append(dict(h=2, w=2, s=2, c=2, thr=rng.choice(THRS), scale=1, maps=part, ps=list(ps)))
    cases += random_cases(rng, 400 if tier == "quick" else 4000)
    # float64 maps whose cells differ by less than float32 resolution (1/4 + k * 2^-34): the detector must compare the values
    # it was given, not float32 roundings of them.  Rough detection only (the spec's refinement weights are the integers k).
    src = [c for c in cases if c["scale"] == 1 and c["h"] * c["w"] <= 9]
    for c in rng.sample(src, min(len(src), 300 if tier == "quick" else 3000)):
        cases.append(dict(c, f64=True, ps=[], maps=[list(m) for m in c["maps"]]))
    # the ordinary cases once more as float64 tensors, refinement included
    for c in rng.sample(src, min(len(src), 200 if tier == "quick" else 2000)):
        cases.append(dict(c, p64=True, maps=[list(m) for m in c["maps"]]))
    # half-precision maps wider / taller than 256 cells: a cell index must not pass through the maps' dtype (bfloat16 has 8
    # bits of mantissa: odd integers above 256 are not representable).  Rough detection only.
    for k in range(24 if tier == "quick" else 200):
        n = rng.choice((300, 320, 515))
        H, W = (1, n) if k % 2 == 0 else (n, 1)
        S, C = rng.choice(((1, 1), (1, 2), (2, 1)))
        maps = []
        for _ in range(S * C):
            m = [0] * n
            for _b in range(rng.randint(1, 3)):
                c0 = rng.randrange(257, n - 2) | 1            # an odd position above 256 (c0 + 1 stays inside the map)
                m[c0] = max(m[c0], rng.choice((3, 5, 6)))
                m[c0 - 1] = max(m[c0 - 1], 1)
                m[c0 + 1] = max(m[c0 + 1], 2 if m[c0 + 1] < 3 else m[c0 + 1])
            maps.append(m)
        cases.append(dict(h=H, w=W, s=S, c=C, thr=rng.choice((0, 1, 2)), scale=1, maps=maps, ps=[], half=("bf16" if k % 3 else "f16")))
    return cases, fed, n_exh


def case_space_check(fed):
    """TLC decides that what was fed is the spec's case space (set equality / subset)."""
    import json
    import tempfile
    from harness.tlc import run_tlc, TLCError

    fd, fn = tempfile.mkstemp(prefix="verif_peaks_", suffix=".json")
    try:
        with os.fdopen(fd, "w") as f:
            json.dump(fed, f, separators=(",", ":"))
        r = run_tlc("MC_PeaksCaseSpace", "INIT Init\nNEXT Next\nCHECK_DEADLOCK FALSE\n", workers=1,
                    env={"TRACE_FILE": fn}, timeout=600, java_opts=("-Xmx4g",))
    finally:
        os.unlink(fn)
    if r.violation or r.error or not r.printed("CASESPACE"):
        raise TLCError("case-space check failed: %s\n%s" % (r.violation or r.error, r.out[-1500:]))
    return r


def distinct_nontrivial(cases):
    """Distinct (shape, scale, threshold, map) inputs whose map has >= 2 cells and is not constant."""
    seen = set()
    for c in cases:
        head = (c["h"], c["w"], c["scale"], c["thr"])
        if c["h"] * c["w"] < 2:
            continue
        for m in c["maps"]:
            if min(m) != max(m):
                seen.add(hash(head + tuple(m)))
    return len(seen)
