"""C20 binding helpers: canonical (TLA+-representable) projection of configuration values, flattening
of DictConfigs to `path -> canonical value`, and the runner that performs one spec case on the REAL
builders / constructors of sleap_nn (train.get_*_config, TrainingJobConfig.to_sleap_nn_cfg,
verify_training_cfg, OmegaConf.save/load).  Nothing here decides a verdict.

Canonical values (JSON arrays -> TLA+ tuples, see spec/Config.tla):
  ["n"]            None                      ["m"]            OmegaConf MISSING ("???")
  ["b", bool]      bool                      ["i", int]       int (|x| < 2^31)
  ["s", str]       str                       ["r", num, den]  float as the exact rational of its repr
  ["l", [v, ...]]  list / tuple / ListConfig (a *result* never contains tuples)
  ["t", [v, ...]]  tuple, only as an ARGUMENT value (crop_hw=(160, 160))
"""
import os
from fractions import Fraction

from harness.tlc import TLCError

LIM = 2 ** 31 - 1


def to_tag(x):
    if x is None:
        return ["n"]
    if isinstance(x, bool):
        return ["b", x]
    if isinstance(x, int):
        if abs(x) > LIM:
            raise TLCError("integer out of TLC range: %r" % x)
        return ["i", x]
    if isinstance(x, float):
        if x != x or x in (float("inf"), float("-inf")):
            return ["s", "float:" + repr(x)]
        fr = Fraction(repr(x))
        if abs(fr.numerator) > LIM or fr.denominator > LIM:
            raise TLCError("float not representable as a bounded rational: %r" % x)
        return ["r", fr.numerator, fr.denominator]
    if isinstance(x, str):
        return ["m"] if x == "???" else ["s", x]
    if isinstance(x, (list, tuple)):
        return ["l", [to_tag(e) for e in x]]
    return ["s", "object:" + type(x).__name__]


def from_tag(t):
    k = t[0]
    if k == "n":
        return None
    if k in ("b", "i", "s"):
        return t[1]
    if k == "r":
        return t[1] / t[2]
    if k == "f":
        return float(t[1])
    if k == "l":
        return [from_tag(e) for e in t[1]]
    if k == "t":
        return tuple(from_tag(e) for e in t[1])
    raise TLCError("unknown canonical value %r" % (t,))


def fn(x):
    """A TLA+ function with string domain arrives as a JSON object; the empty function as []."""
    return {} if x == [] or x is None else x


def flatten(container, prefix=""):
    """Plain container (OmegaConf.to_container(resolve=False)) -> {dotted path: canonical value}.
    dicts recurse (an empty dict is the leaf ["s","object:emptydict"]), everything else is a leaf."""
    out = {}
    if isinstance(container, dict) and container:
        for k, v in container.items():
            p = "%s.%s" % (prefix, k) if prefix else str(k)
            if isinstance(v, dict) and v:
                out.update(flatten(v, p))
            elif isinstance(v, dict):
                out[p] = ["s", "object:emptydict"]
            else:
                out[p] = to_tag(v)
        return out
    raise TLCError("flatten: not a non-empty mapping at %r" % prefix)


def flat_cfg(cfg):
    from omegaconf import OmegaConf

    return flatten(OmegaConf.to_container(cfg, resolve=False, throw_on_missing=False))


def diff(flat, base):
    """Projection of a flattened config relative to the flattened schema default `base`:
    (paths whose value differs or that do not exist in base, paths of base that are gone)."""
    d = {p: v for p, v in flat.items() if p not in base or base[p] != v}
    gone = sorted(p for p in base if p not in flat)
    return dict(diff=d, gone=gone)


# sub-schema defaults, keyed like Sub in spec/Config.tla, flattened with ABSOLUTE paths
def schema_info():
    from omegaconf import OmegaConf
    import sleap_nn.config.data_config as dc
    import sleap_nn.config.model_config as mc
    import sleap_nn.config.trainer_config as tc
    from sleap_nn.config.training_job_config import TrainingJobConfig

    def sub(cls, prefix):
        return flatten(OmegaConf.to_container(OmegaConf.structured(cls()), resolve=False), prefix)

    D = flat_cfg(OmegaConf.structured(TrainingJobConfig()))
    bb, hd, tr, dat = "model_config.backbone_config.", "model_config.head_configs.", "trainer_config.", "data_config."
    Sub = dict(
        unet=sub(mc.UNetConfig, bb + "unet"),
        convnext=sub(mc.ConvNextConfig, bb + "convnext"),
        swint=sub(mc.SwinTConfig, bb + "swint"),
        single_instance=sub(mc.SingleInstanceConfig, hd + "single_instance"),
        centroid=sub(mc.CentroidConfig, hd + "centroid"),
        centered_instance=sub(mc.CenteredInstanceConfig, hd + "centered_instance"),
        bottomup=sub(mc.BottomUpConfig, hd + "bottomup"),
        lr_scheduler=sub(tc.LRSchedulerConfig, tr + "lr_scheduler"),
        step_lr=sub(tc.StepLRConfig, tr + "lr_scheduler.step_lr"),
        reduce_lr_on_plateau=sub(tc.ReduceLROnPlateauConfig, tr + "lr_scheduler.reduce_lr_on_plateau"),
        early_stopping=sub(tc.EarlyStoppingConfig, tr + "early_stopping"),
        intensity=sub(dc.IntensityConfig, dat + "augmentation_config.intensity"),
        geometric=sub(dc.GeometricConfig, dat + "augmentation_config.geometric"),
    )
    return dict(D=D, Sub=Sub)


def quiet():
    """sleap_nn logs every validator failure through loguru; thousands of expected rejections would
    flood stderr."""
    try:
        from loguru import logger

        logger.disable("sleap_nn")
    except Exception:
        pass


# ------------------------------------------------------------------ performing one spec case ----
def _struct_arg(v, what):
    """Spec value of a structural argument -> the Python argument the caller would pass."""
    k = v[0]
    if k in ("default", "none"):
        return None
    if what == "bb":
        if k == "preset":
            return v[1]
        return {v[1]: {kk: from_tag(x) for kk, x in fn(v[2]).items()}}
    if what == "head":
        if k == "str":
            return v[1]
        return {v[1]: {part: {kk: from_tag(x) for kk, x in fn(ov).items()} for part, ov in fn(v[2]).items()}}
    if what == "lrs":
        if k == "str":
            return v[1]
        d = {v[1]: {kk: from_tag(x) for kk, x in fn(v[2]).items()}}
        if k == "dict2":
            other = "step_lr" if v[1] == "reduce_lr_on_plateau" else "reduce_lr_on_plateau"
            d = ({other: None, **d} if v[3] == "none_first" else {**d, other: None})
        return d
    if what == "auglist":
        if k == "str":
            return v[1]
        if k == "list":
            return list(v[1])
        return {kk: from_tag(x) for kk, x in fn(v[1]).items()}
    raise TLCError("bad structural value %r" % (v,))


DATA_ARGS = ("train_labels_path val_labels_path test_file_path provider user_instances_only data_pipeline_fw "
             "np_chunks_path litdata_chunks_path use_existing_chunks chunk_size delete_chunks_after_training "
             "is_rgb scale max_height max_width crop_hw min_crop_size").split()
MODEL_ARGS = "init_weight pretrained_backbone_weights pretrained_head_weights".split()


def _err(e):
    return "%s: %s" % (type(e).__name__, " ".join(str(e).split())[:160])


def run_build(case, base, tmpdir):
    """kind = "build": call the three real builders with exactly the arguments of the case, then
    TrainingJobConfig(...).to_sleap_nn_cfg(), verify_training_cfg twice, and a YAML round trip."""
    from omegaconf import OmegaConf
    import sleap_nn.train as T
    from sleap_nn.config.training_job_config import TrainingJobConfig, verify_training_cfg

    args = {k: from_tag(v) for k, v in fn(case["args"]).items()}
    dkw = {k: v for k, v in args.items() if k in DATA_ARGS}
    mkw = {k: v for k, v in args.items() if k in MODEL_ARGS}
    tkw = {k: v for k, v in args.items() if k not in DATA_ARGS and k not in MODEL_ARGS}
    aug = case["aug"]
    if aug[0] == "on":
        dkw["use_augmentations_train"] = True
        if aug[1][0] != "none":
            dkw["intensity_aug"] = _struct_arg(aug[1], "auglist")
        if aug[2][0] != "none":
            dkw["geometry_aug"] = _struct_arg(aug[2], "auglist")
    if case["bb"][0] != "default":
        mkw["backbone_config"] = _struct_arg(case["bb"], "bb")
    if case["head"][0] != "default":
        mkw["head_configs"] = _struct_arg(case["head"], "head")
    if case["pw"][0] != "n":
        mkw["pre_trained_weights"] = from_tag(case["pw"])
    if case["lrs"][0] != "default":
        tkw["lr_scheduler"] = _struct_arg(case["lrs"], "lrs")
    # the two required arguments always have a value (the spec's base value unless overridden)
    for k, v in (("train_labels_path", "a.slp"), ("val_labels_path", "b.slp")):
        dkw.setdefault(k, v)

    empty = dict(diff={}, gone=[])
    # normalising the re-loaded file once more is observed for every family except the two largest
    obs = dict(raised="", stage="", c0=empty, c0b=empty, n1=empty, n2=empty, ls=empty, nl=empty,
               has_nl=case.get("fam") not in ("pair", "auglistprod"))
    stage = "get_data_config"
    try:
        d = T.get_data_config(**dkw)
        stage = "get_model_config"
        m = T.get_model_config(**mkw)
        stage = "get_trainer_config"
        t = T.get_trainer_config(**tkw)
        stage = "TrainingJobConfig"
        job = TrainingJobConfig(data_config=d, model_config=m, trainer_config=t)
        stage = "to_sleap_nn_cfg"
        c0 = job.to_sleap_nn_cfg()
        obs["c0"] = diff(flat_cfg(c0), base)
        # the same argument objects once more (the same head / backbone / scheduler dict used for a second configuration,
        # as in a sweep): every call places what the caller supplies (seed C20_r11)
        stage = "second_call_get_data_config"
        d2 = T.get_data_config(**dkw)
        stage = "second_call_get_model_config"
        m2 = T.get_model_config(**mkw)
        stage = "second_call_get_trainer_config"
        t2 = T.get_trainer_config(**tkw)
        stage = "second_call_to_sleap_nn_cfg"
        obs["c0b"] = diff(flat_cfg(TrainingJobConfig(data_config=d2, model_config=m2, trainer_config=t2).to_sleap_nn_cfg()), base)
        stage = "verify_training_cfg"
        n1 = verify_training_cfg(c0)
        obs["n1"] = diff(flat_cfg(n1), base)
        stage = "verify_training_cfg_twice"
        n2 = verify_training_cfg(n1)
        obs["n2"] = diff(flat_cfg(n2), base)
        stage = "yaml_save"
        fn_ = os.path.join(tmpdir, "c_%d_%s.yaml" % (os.getpid(), case["id"]))
        try:
            OmegaConf.save(n1, fn_)
            stage = "yaml_load"
            ls = OmegaConf.load(fn_)
        finally:
            if os.path.exists(fn_):
                os.unlink(fn_)
        obs["ls"] = diff(flat_cfg(ls), base)
        if obs["has_nl"]:
            stage = "verify_training_cfg_loaded"
            obs["nl"] = diff(flat_cfg(verify_training_cfg(ls)), base)
    except Exception as e:  # an exception is an observation (Rejects / must-not-reject clauses)
        obs["raised"], obs["stage"] = _err(e), stage
    return obs


def _classes():
    import sleap_nn.config.data_config as dc
    import sleap_nn.config.model_config as mc
    import sleap_nn.config.trainer_config as tc

    table = {}
    for mod in (dc, mc, tc):
        for name in dir(mod):
            obj = getattr(mod, name)
            if isinstance(obj, type) and hasattr(obj, "__attrs_attrs__"):
                table[name] = obj
    return table


MEMBER_CLASS = dict(unet="UNetConfig", convnext="ConvNextConfig", swint="SwinTConfig",
                    single_instance="SingleInstanceConfig", centroid="CentroidConfig",
                    centered_instance="CenteredInstanceConfig", bottomup="BottomUpConfig")


def run_ctor(case):
    """kind = "ctor" | "oneof" | "weights": construct the REAL configuration object."""
    cls = _classes()
    obs = dict(raised="", stage=case["kind"])
    try:
        if case["kind"] == "ctor":
            cls[case["cls"]](**{case["field"]: from_tag(case["val"])})
        elif case["kind"] == "setattr":
            # the same value ASSIGNED to the field of an existing (default-constructed) object: a configuration object refuses an
            # invalid value however it arrives (seed C20_r13)
            try:
                obj = cls[case["cls"]]()
            except TypeError:
                obj = None                      # no default construction: the constructor probe is all there is
            if obj is None:
                cls[case["cls"]](**{case["field"]: from_tag(case["val"])})
            else:
                setattr(obj, case["field"], from_tag(case["val"]))
        elif case["kind"] == "oneof":
            # every spelling of the same call: keywords, positional (declared field order), first member positional + keywords
            import attrs as _attrs
            C = cls[case["cls"]]
            order = [a.name for a in _attrs.fields(C)]
            mem = {m: cls[MEMBER_CLASS[m]] for m in case["members"]}
            spellings = [lambda: C(**{m: k() for m, k in mem.items()})]
            if mem:
                last = max(order.index(m) for m in mem)
                spellings.append(lambda: C(*[(mem[f]() if f in mem else None) for f in order[:last + 1]]))
                first = min(mem, key=order.index)
                k0 = order.index(first)
                spellings.append(lambda: C(*[(mem[f]() if f == first else None) for f in order[:k0 + 1]], **{m: k() for m, k in mem.items() if m != first}))
            errs = []
            for sp in spellings:
                try:
                    sp()
                    errs.append("")
                except Exception as e:  # noqa: BLE001
                    errs.append(_err(e))
            # more than one member must be refused in EVERY spelling; at most one member accepted in every spelling
            if len(mem) >= 2:
                obs["raised"] = "" if "" in errs else errs[0]
            else:
                obs["raised"] = next((e for e in errs if e), "")
            obs["spellings"] = len(spellings)
        elif case["kind"] == "weights":
            bbc = cls["BackboneConfig"](**{case["bbfam"]: cls[MEMBER_CLASS[case["bbfam"]]]()})
            cls["ModelConfig"](pre_trained_weights=from_tag(case["val"]), backbone_config=bbc)
        else:
            raise TLCError("unknown case kind %r" % case["kind"])
    except TLCError:
        raise
    except Exception as e:
        obs["raised"] = _err(e)
    return obs


def run_case(case, base, tmpdir):
    obs = run_build(case, base, tmpdir) if case["kind"] == "build" else run_ctor(case)
    out = dict(case)
    out.update(obs)
    return out


# ------------------------------------------------------------- process pool (fork, 1 torch thread)
_G = {}


def _pool_init(base, tmpdir):
    quiet()
    _G["base"], _G["tmp"] = base, tmpdir


def _pool_run(case):
    return run_case(case, _G["base"], _G["tmp"])


def make_pool(base, tmpdir, procs=None):
    """Fork the workers NOW (call before any thread is started: a fork while another thread holds a
    lock can deadlock the child).  sleap_nn is imported first so that the children inherit it."""
    import multiprocessing as mp
    import sleap_nn.train  # noqa: F401

    quiet()
    procs = procs or min(16, os.cpu_count() or 4)
    return mp.get_context("fork").Pool(procs, initializer=_pool_init, initargs=(base, tmpdir))


def run_cases(cases, base, tmpdir, pool=None):
    """Perform all cases on the real code; order preserved."""
    quiet()
    if pool is None:
        return [run_case(c, base, tmpdir) for c in cases]
    return pool.map(_pool_run, cases, chunksize=max(1, min(16, len(cases) // 128)))
