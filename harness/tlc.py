"""Run TLC (exhaustive / simulate / judge batches) and parse its output.  Scratch metadirs are
created with mkdtemp outside /verif and removed in a finally."""
import json
import os
import re
import shutil
import subprocess
import tempfile
import time
from concurrent.futures import ThreadPoolExecutor

SPEC_DIR = os.path.join(os.path.dirname(os.path.dirname(os.path.abspath(__file__))), "spec")
JAR = "/opt/veriftools/tla/tla2tools.jar:/opt/veriftools/tla/CommunityModules-deps.jar"
NCPU = int(os.environ.get("VERIF_CPUS", str(os.cpu_count() or 4)))


class TLCError(RuntimeError):
    """Machinery failure (not a property violation)."""


class TLCResult:
    def __init__(self, rc, out, wall):
        self.rc, self.out, self.wall = rc, out, wall
        m = re.findall(r"(\d+) states generated, (\d+) distinct states found", out)
        self.generated, self.distinct = (int(m[-1][0]), int(m[-1][1])) if m else (0, 0)
        m = re.search(r"depth of the complete state graph search is (\d+)", out)
        self.depth = int(m.group(1)) if m else 0
        self.violation = None
        for pat, kind in [
            (r"Invariant (\S+) is violated", "invariant"),
            (r"Action property (\S+) is violated", "action_property"),
            (r"Temporal propert(?:y|ies) .*violated", "temporal"),
            (r"Deadlock reached", "deadlock"),
            (r"Assumption .* is false", "assume"),
            (r"The postcondition .* is false|Postcondition .* violated", "postcondition"),
        ]:
            mm = re.search(pat, out)
            if mm:
                self.violation = (kind, mm.group(1) if mm.groups() else "")
                break
        self.finished = "Model checking completed" in out or "Finished in" in out
        self.error = None
        if self.violation is None and (rc != 0 or "Error:" in out):
            mm = re.search(r"Error: (.*(?:\n.*){0,6})", out)
            self.error = mm.group(1) if mm else ("rc=%d" % rc)

    @property
    def ok(self):
        return self.violation is None and self.error is None and self.rc == 0

    def printed(self, tag):
        """All PrintT'ed tuples whose first element is the string `tag` (raw text after the tag,
        bracket-matched because TLC pretty-prints long values over several lines)."""
        res, out, start = [], self.out, 0
        head_re = re.compile(r'<<\s*"%s",\s*' % re.escape(tag))
        while True:
            mh = head_re.search(out, start)
            if mh is None:
                return res
            k, hlen = mh.start(), mh.end() - mh.start()
            depth, j = 0, k
            while j < len(out):
                if out.startswith("<<", j):
                    depth += 1
                    j += 2
                    continue
                if out.startswith(">>", j):
                    depth -= 1
                    j += 2
                    if depth == 0:
                        break
                    continue
                j += 1
            res.append(" ".join(out[k + hlen:j - 2].split()))
            start = j

    def coverage_actions(self):
        """action name -> (distinct, total) from -coverage output"""
        cov = {}
        for m in re.finditer(r"^<(\w+) line \d+, col \d+ to line \d+, col \d+ of module (\w+)(?: \([\d ]+\))?>: (\d+):(\d+)", self.out, re.M):
            cov[m.group(1)] = (int(m.group(3)), int(m.group(4)))
        return cov


def run_tlc(module, cfg_text, *, workers=None, timeout=600, env=None, extra=(), simulate=None,
            coverage=False, deadlock=True, dump=None, java_opts=(), spec_dir=SPEC_DIR, keep=None):
    """Run TLC on spec/<module>.tla with the given cfg text.  Returns TLCResult."""
    tmp = tempfile.mkdtemp(prefix="verif_tlc_")
    try:
        cfg = os.path.join(tmp, "model.cfg")
        with open(cfg, "w") as f:
            f.write(cfg_text)
        cmd = ["java", "-XX:+UseParallelGC", "-Xss16m", "-Djava.io.tmpdir=" + tmp, *java_opts, "-cp", JAR, "tlc2.TLC",
               "-metadir", os.path.join(tmp, "meta"), "-noGenerateSpecTE", "-config", cfg,
               "-workers", str(workers or NCPU)]
        if not deadlock:
            cmd.append("-deadlock")
        if coverage:
            cmd += ["-coverage", "1"]
        if simulate:
            cmd += ["-simulate", simulate]
        if dump:
            cmd += ["-dump", "dot,actionlabels", dump]
        cmd += list(extra)
        cmd.append(os.path.join(spec_dir, module + ".tla"))
        e = dict(os.environ)
        e.pop("JAVA_TOOL_OPTIONS", None)
        if env:
            e.update(env)
        t0 = time.time()
        try:
            p = subprocess.run(cmd, cwd=tmp, env=e, stdout=subprocess.PIPE, stderr=subprocess.STDOUT,
                               timeout=timeout, text=True)
        except subprocess.TimeoutExpired as ex:
            raise TLCError("TLC timeout after %ss on %s" % (timeout, module)) from ex
        res = TLCResult(p.returncode, p.stdout, time.time() - t0)
        if keep:
            with open(keep, "w") as f:
                f.write(p.stdout)
        return res
    finally:
        shutil.rmtree(tmp, ignore_errors=True)


def check_model(module, cfg_text, *, expect_violation=None, require_actions=(), **kw):
    """Exhaustive design check.  Raises TLCError on machinery failure.  Returns TLCResult.
    expect_violation: (kind, name) that MUST be reported (non-vacuity / as-coded counter models)."""
    kw.setdefault("coverage", bool(require_actions))
    r = run_tlc(module, cfg_text, **kw)
    if r.error:
        raise TLCError("TLC failed on %s: %s\n%s" % (module, r.error, r.out[-3000:]))
    if expect_violation:
        if r.violation is None or (expect_violation[1] and r.violation[1] != expect_violation[1]) \
                or r.violation[0] != expect_violation[0]:
            raise TLCError("expected violation %s on %s, got %s" % (expect_violation, module, r.violation))
        return r
    if require_actions and r.violation is None:
        cov = r.coverage_actions()
        missing = [a for a in require_actions if cov.get(a, (0, 0))[1] == 0]
        if missing:
            raise TLCError("vacuous model %s: actions never taken: %s" % (module, missing))
    return r


_TUPLE = re.compile(r'<<\s*(-?\d+|"[^"]*"),\s*"([^"]*)"\s*>>')


def _parse_verdict(text):
    # text: ACC, REJ, {<<id, "clause">>, ...}
    m = re.match(r"(\d+),\s*(\d+),\s*\{(.*)\}\s*$", text.strip(), re.S)
    if not m:
        raise TLCError("unparsable VERDICT: %r" % text[:300])
    rej = [(a.strip('"'), b) for a, b in _TUPLE.findall(m.group(3))]
    return int(m.group(1)), int(m.group(2)), rej


def judge(module, cases, *, cfg_text=None, shards=None, timeout=900, env=None, per_shard_min=200,
          java_opts=("-Xmx3g",)):
    """Batch-judge `cases` (list of JSON-able dicts, each with an integer 'id') with spec/<module>.tla.
    The module reads JsonDeserialize(IOEnv.TRACE_FILE), walks the cases and reports through Verdict.tla.
    Returns dict(accepted, rejected_n, rejected=[(id, clause)], states, wall, runs)."""
    if cfg_text is None:
        cfg_text = "INIT Init\nNEXT Next\nCONSTRAINT Check\nPOSTCONDITION Report\nCHECK_DEADLOCK FALSE\n"
    n = len(cases)
    if n == 0:
        return dict(accepted=0, rejected_n=0, rejected=[], states=0, generated=0, wall=0.0, runs=0)
    k = shards or max(1, min(NCPU, n // per_shard_min))
    tmp = tempfile.mkdtemp(prefix="verif_judge_")
    try:
        parts = [cases[i::k] for i in range(k)]
        files = []
        for i, part in enumerate(parts):
            fn = os.path.join(tmp, "cases_%d.json" % i)
            with open(fn, "w") as f:
                json.dump(part, f, separators=(",", ":"))
            files.append(fn)

        def one(fn):
            e = dict(env or {})
            e["TRACE_FILE"] = fn
            return run_tlc(module, cfg_text, workers=1, timeout=timeout, env=e, java_opts=java_opts)

        t0 = time.time()
        with ThreadPoolExecutor(max_workers=min(k, NCPU)) as ex:
            results = list(ex.map(one, files))
        acc = rejn = states = gen = 0
        rej = []
        for r, part in zip(results, parts):
            v = r.printed("VERDICT")
            if r.error or not v:
                raise TLCError("judge %s failed: %s\n%s" % (module, r.error or r.violation, r.out[-3000:]))
            a, b, rr = _parse_verdict(v[-1])
            if a + b != len(part):
                raise TLCError("judge %s: %d+%d verdicts for %d cases\n%s" % (module, a, b, len(part), r.out[-2000:]))
            acc += a
            rejn += b
            rej += rr
            states += r.distinct
            gen += r.generated
        return dict(accepted=acc, rejected_n=rejn, rejected=rej, states=states, generated=gen,
                    wall=time.time() - t0, runs=k)
    finally:
        shutil.rmtree(tmp, ignore_errors=True)
