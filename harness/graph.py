"""Parse TLC's `-dump dot,actionlabels` state graph; TLA+ value parser; path enumeration/sampling."""
import os
import re
import shutil
import tempfile

from harness.tlc import run_tlc, TLCError


# ----------------------------------------------------------------------- TLA+ value parser ----
class _P:
    def __init__(self, s):
        self.s, self.i = s, 0

    def ws(self):
        while self.i < len(self.s) and self.s[self.i] in " \n\t\r":
            self.i += 1

    def eat(self, tok):
        self.ws()
        if self.s.startswith(tok, self.i):
            self.i += len(tok)
            return True
        return False

    def expect(self, tok):
        if not self.eat(tok):
            raise ValueError("expected %r at %d in %r" % (tok, self.i, self.s[max(0, self.i - 30):self.i + 30]))

    def value(self):
        self.ws()
        s = self.s
        if self.eat("<<"):
            items = self.items(">>")
            return list(items)
        if self.eat("{"):
            return frozenset(_freeze(x) for x in self.items("}"))
        if self.eat("["):
            # record [a |-> v, ...]
            rec = {}
            while True:
                self.ws()
                m = re.compile(r"[A-Za-z_][A-Za-z0-9_]*").match(s, self.i)
                k = m.group(0)
                self.i = m.end()
                self.expect("|->")
                rec[k] = self.value()
                if self.eat("]"):
                    return rec
                self.expect(",")
        if self.eat("("):
            # function (k :> v @@ k :> v)
            f = {}
            while True:
                k = self.value()
                self.expect(":>")
                f[_freeze(k)] = self.value()
                if self.eat(")"):
                    return f
                self.expect("@@")
        if s[self.i] == '"':
            j = s.index('"', self.i + 1)
            v = s[self.i + 1:j]
            self.i = j + 1
            return v
        m = re.compile(r"-?\d+").match(s, self.i)
        if m:
            self.i = m.end()
            # a..b interval
            save = self.i
            if self.eat(".."):
                hi = self.value()
                return frozenset(range(int(m.group(0)), hi + 1))
            self.i = save
            return int(m.group(0))
        m = re.compile(r"[A-Za-z_][A-Za-z0-9_]*").match(s, self.i)
        if m:
            self.i = m.end()
            w = m.group(0)
            return {"TRUE": True, "FALSE": False}.get(w, w)
        raise ValueError("cannot parse at %d: %r" % (self.i, s[self.i:self.i + 40]))

    def items(self, close):
        out = []
        if self.eat(close):
            return out
        while True:
            out.append(self.value())
            if self.eat(close):
                return out
            self.expect(",")


def _freeze(x):
    if isinstance(x, list):
        return tuple(_freeze(y) for y in x)
    if isinstance(x, dict):
        return tuple(sorted((k, _freeze(v)) for k, v in x.items()))
    return x


def parse_value(text):
    p = _P(text)
    v = p.value()
    p.ws()
    if p.i != len(p.s):
        raise ValueError("trailing text: %r" % p.s[p.i:p.i + 40])
    return v


def parse_state(label):
    """'/\\ a = v\n/\\ b = w' -> {a: v, b: w}"""
    st = {}
    for part in re.split(r"(?:^|\n)/\\ ", label):
        if not part.strip():
            continue
        k, v = part.split(" = ", 1)
        st[k.strip()] = parse_value(v.strip())
    return st


# ------------------------------------------------------------------------------ graph ---------
class Graph:
    def __init__(self):
        self.states = {}  # id -> dict
        self.succ = {}  # id -> [(action, id)]
        self.init = []

    def terminal(self, n):
        return not [1 for a, m in self.succ.get(n, []) if m != n]

    def count_paths(self, n, memo=None):
        memo = {} if memo is None else memo
        if n in memo:
            return memo[n]
        nxt = [m for a, m in self.succ.get(n, []) if m != n]
        memo[n] = 1 if not nxt else sum(self.count_paths(m, memo) for m in nxt)
        return memo[n]

    def all_paths(self, n):
        """All maximal paths from n (acyclic graphs only): lists of (action, state_id)."""
        nxt = [(a, m) for a, m in self.succ.get(n, []) if m != n]
        if not nxt:
            yield []
            return
        for a, m in nxt:
            for rest in self.all_paths(m):
                yield [(a, m)] + rest

    def sample_path(self, n, rng, memo):
        """Uniform over maximal paths (weights = path counts)."""
        path = []
        while True:
            nxt = [(a, m) for a, m in self.succ.get(n, []) if m != n]
            if not nxt:
                return path
            w = [self.count_paths(m, memo) for a, m in nxt]
            a, m = rng.choices(nxt, weights=w)[0]
            path.append((a, m))
            n = m


def edge_cover_paths(g, init, max_len, rng, max_paths=None):
    """Paths from `init` (lists of (action, state_id)) that together take every edge reachable from `init` at least once
    (self-loops excluded).  Works on cyclic graphs: each path goes by a shortest route to the source of an edge not yet
    taken and then keeps taking untaken edges while it can; paths longer than max_len are cut (the cut edges stay
    untaken and are reached by a later path if a shorter route exists)."""
    from collections import deque

    parent = {init: None}
    dq = deque([init])
    while dq:
        n = dq.popleft()
        for a, m in g.succ.get(n, []):
            if m not in parent:
                parent[m] = (n, a)
                dq.append(m)
    untaken = {}
    for n in parent:
        es = [(a, m) for a, m in g.succ.get(n, []) if m != n]
        if es:
            untaken[n] = list(dict.fromkeys(es))
    depth = {}

    def route(n):
        r = []
        while parent[n] is not None:
            p, a = parent[n]
            r.append((a, n))
            n = p
        return r[::-1]

    paths, skipped = [], 0
    order = sorted(untaken, key=lambda n: len(route(n)))
    for src in order:
        while untaken.get(src):
            path = route(src)
            if len(path) >= max_len:
                skipped += len(untaken[src])
                untaken[src] = []
                break
            n = src
            while len(path) < max_len and untaken.get(n):
                a, m = untaken[n].pop(rng.randrange(len(untaken[n])))
                path.append((a, m))
                n = m
            paths.append(path)
            if max_paths and len(paths) >= max_paths:
                return paths, skipped + sum(len(v) for v in untaken.values())
    return paths, skipped


_NODE = re.compile(r'^(-?\d+) \[label="((?:[^"\\]|\\.)*)"(,style = filled)?')
_EDGE = re.compile(r'^(-?\d+) -> (-?\d+) \[label="([^"]*)"')


def load_dot(path):
    g = Graph()
    with open(path) as f:
        for line in f:
            m = _EDGE.match(line)
            if m:
                g.succ.setdefault(m.group(1), []).append((m.group(3), m.group(2)))
                continue
            m = _NODE.match(line)
            if m:
                nid = m.group(1)
                if nid not in g.states:
                    lab = m.group(2).replace("\\n", "\n").replace('\\"', '"').replace("\\\\", "\\")
                    g.states[nid] = parse_state(lab)
                if m.group(3):
                    g.init.append(nid)
    return g


def dump_graph(module, cfg_text, timeout=600, workers=1):
    """Run TLC exhaustively with -dump and return (TLCResult, Graph)."""
    tmp = tempfile.mkdtemp(prefix="verif_graph_")
    try:
        base = os.path.join(tmp, "graph")
        r = run_tlc(module, cfg_text, workers=workers, timeout=timeout, dump=base)
        if r.error or r.violation:
            raise TLCError("graph dump of %s failed: %s %s\n%s" % (module, r.error, r.violation, r.out[-2000:]))
        return r, load_dot(base + ".dot")
    finally:
        shutil.rmtree(tmp, ignore_errors=True)
